(* C17 — proofs about the access-path model (Model/Access.v). *)
From Coq Require Import String.
From Coq Require Import ZArith List Bool Lia ZifyBool.
From LasV Require Import Lib.Base Lib.BaseFacts Lib.Layout Proofs.LayoutProofs Gen.GenHeaderLayout Gen.GenFormatBits Gen.GenDims
  Gen.GenAccess Model.Las Model.LasSpec Model.Access Proofs.HeaderLen Proofs.VlrProofs Proofs.HeaderProofs Proofs.WriterProofs
  Proofs.CrashProofs Proofs.RoundTripProofs.
Import ListNotations.
Open Scope list_scope.
Open Scope Z_scope.

(* ------------------------------------------------------------------------------------ *)
(* A. what is logged: a function is `polite` for a source when it leaves the bytes alone  *)
(*    and only appends calls that the source offers                                       *)
(* ------------------------------------------------------------------------------------ *)
Definition polite (c : caps) (s s' : stream) : Prop :=
  st_bytes s' = st_bytes s /\ exists ext, st_log s' = st_log s ++ ext /\ only_offered c ext = true.

Lemma nst_app a b : no_seek_tell (a ++ b) = no_seek_tell a && no_seek_tell b.
Proof. apply forallb_app. Qed.
Lemma oo_app c a b : only_offered c (a ++ b) = only_offered c a && only_offered c b.
Proof. apply forallb_app. Qed.

Lemma polite_refl c s : polite c s s.
Proof. split; [reflexivity|]. exists []. now rewrite app_nil_r. Qed.

Lemma polite_trans c x y z : polite c x y -> polite c y z -> polite c x z.
Proof.
  intros [B1 (e1 & L1 & N1)] [B2 (e2 & L2 & N2)]. split; [congruence|].
  exists (e1 ++ e2). rewrite L2, L1, app_assoc, oo_app, N1, N2. now split.
Qed.

Lemma polite_read c n s : polite c s (snd (s_read n s)).
Proof. split; [reflexivity|]. exists [ORead n]. now split. Qed.
Lemma polite_readinto c n s : c_readinto c = true -> polite c s (snd (s_readinto n s)).
Proof. intros H. split; [reflexivity|]. exists [OReadInto n]. split; [reflexivity|]. cbn. now rewrite H. Qed.
Lemma polite_seek c p s : can_seek c = true -> polite c s (s_seek p s).
Proof. intros H. split; [reflexivity|]. exists [OSeek p]. split; [reflexivity|]. cbn. now rewrite H. Qed.
Lemma polite_tell c s : can_seek c = true -> polite c s (snd (s_tell s)).
Proof. intros H. split; [reflexivity|]. exists [OTell]. split; [reflexivity|]. cbn. now rewrite H. Qed.

(* getattr(stream, "seekable", lambda: False)(): the answer, and nothing is called on a source without the method *)
Lemma s_can_seek_spec c s :
  fst (s_can_seek c s) = can_seek c /\ polite c s (snd (s_can_seek c s))
  /\ st_bytes (snd (s_can_seek c s)) = st_bytes s /\ st_pos (snd (s_can_seek c s)) = st_pos s.
Proof.
  unfold s_can_seek, can_seek. destruct (c_has_seekable c) eqn:H; cbn [fst snd andb s_seekable st_bytes st_pos].
  - repeat split. exists [OSeekable]. split; [reflexivity|]. cbn. now rewrite H.
  - repeat split. apply polite_refl.
Qed.

Lemma polite_sdec_fields c l : forall s, polite c s (snd (sdec_fields l s)).
Proof.
  induction l as [|[[k w] n] l IH]; intros s; [apply polite_refl|].
  cbn [sdec_fields]. pose proof (polite_read c (Z.of_nat w) s) as Q.
  destruct (s_read (Z.of_nat w) s) as [raw s1]. cbn [snd] in Q.
  specialize (IH s1). destruct (sdec_fields l s1) as [a s2]. cbn [snd] in *.
  eapply polite_trans; eassumption.
Qed.

Lemma polite_sread_vlrs c n : forall s, polite c s (snd (sread_vlrs n s)).
Proof.
  induction n as [|n IH]; intros s; [apply polite_refl|].
  cbn [sread_vlrs].
  pose proof (polite_sdec_fields c evlr_head s) as Q1. destruct (sdec_fields evlr_head s) as [a1 s1]. cbn [snd] in Q1.
  destruct (ascii_ok (abytes a1 "user_id")); [|exact Q1].
  pose proof (polite_sdec_fields c evlr_tail s1) as Q2. destruct (sdec_fields evlr_tail s1) as [a2 s2]. cbn [snd] in Q2.
  pose proof (polite_read c (aint a2 "record_length") s2) as Q3. destruct (s_read (aint a2 "record_length") s2) as [data s3]. cbn [snd] in Q3.
  specialize (IH s3). destruct (sread_vlrs n s3) as [r s4]. cbn [snd] in *.
  eapply polite_trans; [exact Q1|]. eapply polite_trans; [exact Q2|]. eapply polite_trans; eassumption.
Qed.

Lemma polite_prefetch c s : polite c s (snd (prefetch s)).
Proof.
  unfold prefetch. pose proof (polite_read c prefetch_first_read s) as Q1.
  destruct (s_read prefetch_first_read s) as [hb s1]. cbn [snd] in Q1.
  destruct (length (firstn 4 hb) =? 0)%nat; [exact Q1|].
  destruct (negb (list_eqb (firstn 4 hb) LASF)); [exact Q1|].
  destruct (len hb <? prefetch_first_read); [exact Q1|].
  match goal with |- context [s_read ?n s1] => pose proof (polite_read c n s1) as Q2; destruct (s_read n s1) as [rest s2] end.
  cbn [snd] in *. eapply polite_trans; eassumption.
Qed.

Lemma polite_hdr_read_evlrs c rh s : polite c s (snd (hdr_read_evlrs c rh s)).
Proof.
  unfold hdr_read_evlrs.
  destruct (h_minor rh >=? 4); [|apply polite_refl].
  destruct (s_can_seek_spec c s) as (A1 & A2 & _). destruct (s_can_seek c s) as [sk s1]. cbn [fst snd] in A1, A2. subst sk.
  destruct (h_nev rh >? 0); [|exact A2].
  destruct (can_seek c) eqn:Hc; [|exact A2].
  pose proof (polite_tell c s1 Hc) as Q2. destruct (s_tell s1) as [saved s2]. cbn [snd] in Q2.
  pose proof (polite_seek c (h_evstart rh) s2 Hc) as Q3. set (s3 := s_seek (h_evstart rh) s2) in *.
  pose proof (polite_sread_vlrs c (Z.to_nat (h_nev rh)) s3) as Q4. destruct (sread_vlrs (Z.to_nat (h_nev rh)) s3) as [r s4]. cbn [snd] in Q4.
  assert (polite c s s4) as Q04 by (eapply polite_trans; [exact A2|]; eapply polite_trans; [exact Q2|]; eapply polite_trans; eassumption).
  destruct r as [l|er]; cbn [snd]; [|exact Q04].
  eapply polite_trans; [exact Q04|]. now apply polite_seek.
Qed.

Lemma polite_open_reader c e s : polite c s (snd (open_reader c e s)).
Proof.
  unfold open_reader. pose proof (polite_prefetch c s) as Q1. destruct (prefetch s) as [p s1]. cbn [snd] in Q1.
  destruct p as [data|er]; [|exact Q1].
  destruct (dec_header data false) as [rh|er]; [|exact Q1].
  destruct (rh_compressed rh); [exact Q1|].
  destruct e; [|exact Q1].
  eapply polite_trans; [exact Q1|]. apply polite_hdr_read_evlrs.
Qed.

Lemma polite_read_n_points c ps n s : polite c s (snd (read_n_points c ps n s)).
Proof.
  unfold read_n_points. destruct (ps <=? 0); [apply polite_refl|]. destruct (c_readinto c) eqn:Hr.
  - pose proof (polite_readinto c (n * ps) s Hr) as Q. destruct (s_readinto (n * ps) s) as [d s1]. exact Q.
  - pose proof (polite_read c (n * ps) s) as Q. destruct (s_read (n * ps) s) as [d s1]. exact Q.
Qed.

Lemma polite_read_points c rh pr n s : polite c s (snd (read_points c rh pr n s)).
Proof.
  unfold read_points. destruct (h_count rh - pr <=? 0); [apply polite_refl|].
  match goal with |- context [read_n_points c ?ps ?m s] =>
    pose proof (polite_read_n_points c ps m s) as Q; destruct (read_n_points c ps m s) as [r s1] end.
  exact Q.
Qed.

Lemma polite_chunk_loop c rh k : forall fuel pr s, polite c s (snd (chunk_loop fuel c rh k pr s)).
Proof.
  induction fuel as [|fu IH]; intros pr s; [apply polite_refl|].
  cbn [chunk_loop]. pose proof (polite_read_points c rh pr k s) as Q.
  destruct (read_points c rh pr k s) as [[r pr1] s1]. cbn [snd] in Q.
  destruct r as [[|r0 recs]|er]; try exact Q.
  specialize (IH pr1 s1). destruct (chunk_loop fu c rh k pr1 s1) as [[r2 pr2] s2]. cbn [snd] in *.
  eapply polite_trans; eassumption.
Qed.

Lemma polite_run_steps fuel c rh : forall steps pr s, polite c s (snd (run_steps fuel c rh steps pr s)).
Proof.
  induction steps as [|st more IH]; intros pr s; [apply polite_refl|].
  cbn [run_steps].
  assert (polite c s (snd (match st with SChunks k => chunk_loop fuel c rh k pr s | SPoints n => read_points c rh pr n s end))) as Q
    by (destruct st; [apply polite_chunk_loop|apply polite_read_points]).
  destruct (match st with SChunks k => chunk_loop fuel c rh k pr s | SPoints n => read_points c rh pr n s end) as [[r pr1] s1].
  cbn [snd] in Q. destruct r as [recs|er]; [|exact Q].
  specialize (IH pr1 s1). destruct (run_steps fuel c rh more pr1 s1) as [[r2 pr2] s2]. cbn [snd] in *.
  eapply polite_trans; eassumption.
Qed.

Lemma polite_skip_gap c : forall fuel gap s, polite c s (skip_gap fuel gap s).
Proof.
  induction fuel as [|fu IH]; intros gap s; [apply polite_refl|].
  cbn [skip_gap]. destruct (gap >? 0); [|apply polite_refl].
  pose proof (polite_read c gap s) as Q. destruct (s_read gap s) as [d s1]. cbn [snd] in Q.
  destruct (len d =? 0); [exact Q|]. eapply polite_trans; [exact Q|apply IH].
Qed.

Lemma polite_finish_evlrs c rh s : polite c s (snd (finish_evlrs c rh s)).
Proof.
  unfold finish_evlrs.
  destruct ((h_minor rh >=? 4) && (h_nev rh >? 0) && is_none (rh_evlrs rh)).
  - destruct (s_can_seek_spec c s) as (A1 & A2 & _). destruct (s_can_seek c s) as [sk s1]. cbn [fst snd] in A1, A2. subst sk.
    destruct (can_seek c).
    + eapply polite_trans; [exact A2|]. apply polite_hdr_read_evlrs.
    + pose proof (polite_skip_gap c skip_fuel (evlr_gap rh) s1) as Qg.
      pose proof (polite_sread_vlrs c (Z.to_nat (h_nev rh)) (skip_gap skip_fuel (evlr_gap rh) s1)) as Q.
      destruct (sread_vlrs (Z.to_nat (h_nev rh)) (skip_gap skip_fuel (evlr_gap rh) s1)) as [r s2].
      cbn [snd] in *. eapply polite_trans; [exact A2|]. eapply polite_trans; eassumption.
  - destruct ((h_minor rh >=? 4) && is_none (rh_evlrs rh)); apply polite_refl.
Qed.

(* whatever the bytes: the source is only asked what it offers - read always, readinto / seekable when it has them, seek and
   tell only when it said it can seek *)
Theorem only_what_is_offered : forall c e steps src, only_offered c (snd (read_via c e steps src)) = true.
Proof.
  intros c e steps src. unfold read_via.
  set (s0 := mkSt src 0 []).
  assert (forall s, polite c s0 s -> only_offered c (st_log s) = true) as Fin.
  { intros s [_ (ext & L & N)]. rewrite L. exact N. }
  pose proof (polite_open_reader c e s0) as Q1. destruct (open_reader c e s0) as [o s1]. cbn [snd] in Q1.
  destruct o as [rh|er]; [|cbn [snd]; now apply Fin].
  pose proof (polite_run_steps (S (length src)) c rh steps 0 s1) as Q2.
  destruct (run_steps (S (length src)) c rh steps 0 s1) as [[r1 pr1] s2]. cbn [snd] in Q2.
  assert (polite c s0 s2) as Q02 by (eapply polite_trans; eassumption).
  destruct r1 as [recs1|er]; [|cbn [snd]; now apply Fin].
  pose proof (polite_read_points c rh pr1 (-1) s2) as Q3. destruct (read_points c rh pr1 (-1) s2) as [[r2 pr2] s3]. cbn [snd] in Q3.
  assert (polite c s0 s3) as Q03 by (eapply polite_trans; eassumption).
  destruct r2 as [recs2|er]; [|cbn [snd]; now apply Fin].
  pose proof (polite_finish_evlrs c rh s3) as Q4. destruct (finish_evlrs c rh s3) as [r3 s4]. cbn [snd] in Q4.
  assert (polite c s0 s4) as Q04 by (eapply polite_trans; eassumption).
  destruct r3 as [rh'|er]; cbn [snd]; now apply Fin.
Qed.
Print Assumptions only_what_is_offered.

Theorem only_what_is_offered_consume : forall c e steps src, only_offered c (snd (consume_via c e steps src)) = true.
Proof.
  intros c e steps src. unfold consume_via.
  set (s0 := mkSt src 0 []).
  assert (forall s, polite c s0 s -> only_offered c (st_log s) = true) as Fin.
  { intros s [_ (ext & L & N)]. rewrite L. exact N. }
  pose proof (polite_open_reader c e s0) as Q1. destruct (open_reader c e s0) as [o s1]. cbn [snd] in Q1.
  destruct o as [rh|er]; [|cbn [snd]; now apply Fin].
  pose proof (polite_run_steps (S (length src)) c rh steps 0 s1) as Q2.
  destruct (run_steps (S (length src)) c rh steps 0 s1) as [[r1 pr1] s2]. cbn [snd] in Q2.
  assert (polite c s0 s2) as Q02 by (eapply polite_trans; eassumption).
  destruct r1 as [recs1|er]; cbn [snd]; now apply Fin.
Qed.

Lemma offered_no_seek c l : can_seek c = false -> only_offered c l = true -> no_seek_tell l = true.
Proof.
  intros Hc. induction l as [|o l IH]; intros H; [reflexivity|].
  cbn [only_offered forallb] in H. apply andb_true_iff in H as [Ho Hl]. cbn [no_seek_tell forallb].
  fold (no_seek_tell l). rewrite (IH Hl), andb_true_r. destruct o; cbn [offered] in Ho; try reflexivity; congruence.
Qed.

(* a source that does not say it can seek (it answers False, or has no seekable method at all) is never asked to seek or
   tell, whatever its bytes, however it is consumed *)
Theorem no_seek_when_not_seekable : forall c e steps src, can_seek c = false ->
  no_seek_tell (snd (read_via c e steps src)) = true /\ no_seek_tell (snd (consume_via c e steps src)) = true.
Proof.
  intros c e steps src Hc. split; apply (offered_no_seek c); auto using only_what_is_offered, only_what_is_offered_consume.
Qed.
Print Assumptions no_seek_when_not_seekable.

(* ------------------------------------------------------------------------------------ *)
(* B. lists and streams                                                                  *)
(* ------------------------------------------------------------------------------------ *)
Lemma firstn_add {A} a : forall b (l : list A), firstn (a + b) l = firstn a l ++ firstn b (skipn a l).
Proof.
  induction a as [|a IH]; intros b l; [reflexivity|].
  destruct l as [|x l]; [cbn; now rewrite firstn_nil|]. cbn [Nat.add firstn skipn app]. now rewrite IH.
Qed.

Lemma skipn_past {A} n (l : list A) : (length l <= n)%nat -> skipn n l = [].
Proof. intros H. apply skipn_all2. exact H. Qed.

Lemma avail_after_read {A} (bytes : list A) p n :
  skipn (p + length (firstn n (skipn p bytes))) bytes = skipn n (skipn p bytes).
Proof.
  rewrite <- skipn_add. rewrite firstn_length, skipn_length.
  destruct (Nat.le_gt_cases n (length bytes - p)) as [H|H].
  - now rewrite Nat.min_l by exact H.
  - rewrite Nat.min_r by lia. rewrite !skipn_past by lia. reflexivity.
Qed.

Lemma avail_step b pos k lg : 0 <= pos ->
  avail (mkSt b (pos + len (firstn k (skipn (Z.to_nat pos) b))) lg) = skipn k (skipn (Z.to_nat pos) b).
Proof.
  intros Hp. unfold avail, len. cbn [st_pos st_bytes].
  rewrite Z2Nat.inj_add by lia. rewrite Nat2Z.id. apply avail_after_read.
Qed.

(* read(n), n >= 0, on a stream whose position is not negative *)
Lemma s_read_spec n s : 0 <= n -> 0 <= st_pos s ->
  fst (s_read n s) = firstn (Z.to_nat n) (avail s)
  /\ avail (snd (s_read n s)) = skipn (Z.to_nat n) (avail s)
  /\ st_bytes (snd (s_read n s)) = st_bytes s
  /\ 0 <= st_pos (snd (s_read n s)).
Proof.
  intros Hn Hp. unfold s_read. destruct (n <? 0) eqn:E; [lia|]. cbn [fst snd st_bytes st_pos].
  split; [reflexivity|]. split; [apply avail_step; exact Hp|]. split; [reflexivity|].
  pose proof (len_nonneg (firstn (Z.to_nat n) (avail s))). lia.
Qed.

Lemma dec_field_fst_firstn k w bs : fst (dec_field k w (firstn w bs)) = fst (dec_field k w bs).
Proof. destruct k; cbn [dec_field fst]; rewrite ?firstn_firstn, ?Nat.min_id; reflexivity. Qed.

Lemma sdec_fields_spec l : no_var l = true -> forall s, 0 <= st_pos s ->
  fst (sdec_fields l s) = fst (dec_fields l (avail s))
  /\ avail (snd (sdec_fields l s)) = snd (dec_fields l (avail s))
  /\ st_bytes (snd (sdec_fields l s)) = st_bytes s
  /\ 0 <= st_pos (snd (sdec_fields l s)).
Proof.
  induction l as [|[[k w] n] l IH]; intros Hnv s Hp.
  - cbn. repeat split; try reflexivity. exact Hp.
  - cbn [no_var forallb fst] in Hnv. apply andb_true_iff in Hnv as [Hk Hnv]. fold (no_var l) in Hnv.
    assert (k <> KVar) as Hk' by (intros ->; discriminate).
    cbn [sdec_fields dec_fields].
    destruct (s_read_spec (Z.of_nat w) s ltac:(lia) Hp) as (R1 & R2 & R3 & R4).
    destruct (s_read (Z.of_nat w) s) as [raw s1]. cbn [fst snd] in R1, R2, R3, R4. rewrite Nat2Z.id in R1, R2.
    destruct (IH Hnv s1 R4) as (I1 & I2 & I3 & I4).
    destruct (sdec_fields l s1) as [a s2]. cbn [fst snd] in I1, I2, I3, I4.
    pose proof (dec_field_rest k w (avail s) Hk') as Hr.
    destruct (dec_field k w (avail s)) as [v rest] eqn:Ed. cbn [snd] in Hr. subst rest.
    rewrite <- R2. destruct (dec_fields l (avail s1)) as [a' rest'] eqn:Ea. cbn [fst snd] in *.
    repeat split; try assumption; try congruence.
    f_equal; [|exact I1]. f_equal. rewrite R1, dec_field_fst_firstn, Ed. reflexivity.
Qed.

Lemma dec_fields_app l1 : forall l2 bs,
  dec_fields (l1 ++ l2) bs =
  (fst (dec_fields l1 bs) ++ fst (dec_fields l2 (snd (dec_fields l1 bs))), snd (dec_fields l2 (snd (dec_fields l1 bs)))).
Proof.
  induction l1 as [|[[k w] n] l1 IH]; intros l2 bs.
  - cbn. now destruct (dec_fields l2 bs).
  - cbn [app dec_fields]. destruct (dec_field k w bs) as [v rest]. rewrite IH.
    destruct (dec_fields l1 rest) as [a r1]. cbn [fst snd]. reflexivity.
Qed.

Lemma amem_dec_fields l : forall bs n, amem (fst (dec_fields l bs)) n = existsb (fun f => String.eqb (snd f) n) l.
Proof.
  induction l as [|[[k w] m] l IH]; intros bs n; [reflexivity|].
  cbn [dec_fields]. destruct (dec_field k w bs) as [v rest]. specialize (IH rest n).
  destruct (dec_fields l rest) as [a r]. cbn [fst] in *. cbn [amem existsb fst snd]. unfold amem in IH. now rewrite IH.
Qed.

Lemma aget_last_bound b n : forall acc acc', amem b n = true -> aget_last b n acc = aget_last b n acc'.
Proof.
  induction b as [|[m v] b IH]; intros acc acc' H; [discriminate|].
  cbn [amem existsb fst] in H. cbn [aget_last]. destruct (String.eqb m n) eqn:E.
  - destruct (amem b n) eqn:Eb; [now apply IH|]. now rewrite !amem_false_aget by exact Eb.
  - cbn [orb] in H. now apply IH.
Qed.

Lemma aget_app_right a b n : amem b n = true -> aget (a ++ b) n = aget b n.
Proof. intros H. unfold aget. rewrite aget_last_app. now apply aget_last_bound. Qed.
Lemma aget_app_left a b n : amem b n = false -> aget (a ++ b) n = aget a n.
Proof. intros H. unfold aget. rewrite aget_last_app. now apply amem_false_aget. Qed.

Lemma bytes_ok_firstn n : forall l, bytes_ok l = true -> bytes_ok (firstn n l) = true.
Proof.
  induction n as [|n IH]; intros l H; [reflexivity|]. destruct l as [|x l]; [reflexivity|].
  cbn [bytes_ok forallb] in H. apply andb_true_iff in H as [Hx Hl]. cbn [firstn bytes_ok forallb]. rewrite Hx. now apply IH.
Qed.
Lemma bytes_ok_skipn n : forall l, bytes_ok l = true -> bytes_ok (skipn n l) = true.
Proof.
  induction n as [|n IH]; intros l H; [exact H|]. destruct l as [|x l]; [reflexivity|].
  cbn [bytes_ok forallb] in H. apply andb_true_iff in H as [Hx Hl]. cbn [skipn]. now apply IH.
Qed.
Lemma bytes_ok_dec_rest l : forall bs, bytes_ok bs = true -> bytes_ok (snd (dec_fields l bs)) = true.
Proof.
  induction l as [|[[k w] n] l IH]; intros bs H; [exact H|].
  cbn [dec_fields]. destruct (dec_field k w bs) as [v rest] eqn:Ed.
  assert (bytes_ok rest = true) as Hr.
  { destruct k; cbn [dec_field] in Ed; injection Ed as _ <-; try now apply bytes_ok_skipn. exact H. }
  specialize (IH rest Hr). destruct (dec_fields l rest) as [a r]. exact IH.
Qed.
Lemma le_dec_nonneg bs : bytes_ok bs = true -> 0 <= le_dec bs.
Proof. intros H. pose proof (le_dec_bounds bs H). lia. Qed.

(* VLRList.read_from on the stream = the decoder of the file model on the bytes from the current position *)
Lemma evlr_layout_split : fixed_part (vlr_r_layout true) = evlr_head ++ evlr_tail.
Proof. reflexivity. Qed.

Lemma evlr_length_raw bs : aint (fst (dec_fields evlr_tail bs)) "record_length" = le_dec (firstn 8 (skipn 2 bs)).
Proof. apply aint_dec_fields; reflexivity. Qed.

Lemma sread_vlrs_spec : forall n s, 0 <= st_pos s -> bytes_ok (st_bytes s) = true ->
  fst (sread_vlrs n s) = match dec_vlrs true n (avail s) with Ok p => Ok (fst p) | Err e => Err e end
  /\ st_bytes (snd (sread_vlrs n s)) = st_bytes s.
Proof.
  induction n as [|n IH]; intros s Hp Hok; [split; reflexivity|].
  cbn [sread_vlrs dec_vlrs]. rewrite evlr_layout_split, dec_fields_app.
  destruct (sdec_fields_spec evlr_head eq_refl s Hp) as (A1 & A2 & A3 & A4).
  destruct (sdec_fields evlr_head s) as [a1 s1]. cbn [fst snd] in A1, A2, A3, A4.
  assert (bytes_ok (avail s) = true) as Hoka by (now apply bytes_ok_skipn).
  set (bs := avail s) in *.
  assert (abytes (fst (dec_fields evlr_head bs) ++ fst (dec_fields evlr_tail (snd (dec_fields evlr_head bs)))) "user_id" = abytes a1 "user_id") as Hu.
  { unfold abytes. rewrite aget_app_left, A1; [reflexivity|]. rewrite amem_dec_fields. reflexivity. }
  rewrite Hu. destruct (ascii_ok (abytes a1 "user_id")); [|split; [reflexivity|exact A3]].
  destruct (sdec_fields_spec evlr_tail eq_refl s1 A4) as (B1 & B2 & B3 & B4).
  destruct (sdec_fields evlr_tail s1) as [a2 s2]. cbn [fst snd] in B1, B2, B3, B4.
  rewrite A2 in B1, B2.
  set (r1 := snd (dec_fields evlr_head bs)) in *.
  assert (forall nm, amem (fst (dec_fields evlr_tail r1)) nm = true ->
            aget (fst (dec_fields evlr_head bs) ++ fst (dec_fields evlr_tail r1)) nm = aget a2 nm) as Hg.
  { intros nm H. rewrite aget_app_right by exact H. now rewrite B1. }
  assert (forall nm, existsb (fun f => String.eqb (snd f) nm) evlr_tail = true ->
            aint (fst (dec_fields evlr_head bs) ++ fst (dec_fields evlr_tail r1)) nm = aint a2 nm) as Hi.
  { intros nm H. unfold aint. rewrite Hg; [reflexivity|]. now rewrite amem_dec_fields. }
  assert (forall nm, existsb (fun f => String.eqb (snd f) nm) evlr_tail = true ->
            abytes (fst (dec_fields evlr_head bs) ++ fst (dec_fields evlr_tail r1)) nm = abytes a2 nm) as Hb.
  { intros nm H. unfold abytes. rewrite Hg; [reflexivity|]. now rewrite amem_dec_fields. }
  rewrite (Hi "record_length"%string eq_refl), (Hi "record_id"%string eq_refl), (Hb "description"%string eq_refl).
  set (dl := aint a2 "record_length").
  assert (0 <= dl) as Hdl.
  { unfold dl. rewrite B1, evlr_length_raw. apply le_dec_nonneg, bytes_ok_firstn, bytes_ok_skipn.
    unfold r1. now apply bytes_ok_dec_rest. }
  destruct (s_read_spec dl s2 Hdl B4) as (C1 & C2 & C3 & C4).
  destruct (s_read dl s2) as [data s3]. cbn [fst snd] in C1, C2, C3, C4.
  destruct (IH s3 C4 ltac:(congruence)) as [D1 D2]. destruct (sread_vlrs n s3) as [r s4]. cbn [fst snd] in D1, D2 |- *.
  rewrite C2, B2 in D1. split; [|congruence].
  rewrite D1, C1, B2.
  destruct (dec_vlrs true n (skipn (Z.to_nat dl) (snd (dec_fields evlr_tail r1)))) as [[vl rest]|e]; reflexivity.
Qed.

(* ------------------------------------------------------------------------------------ *)
(* C. the header                                                                         *)
(* ------------------------------------------------------------------------------------ *)
Lemma dec_header_pre src b rh : dec_header src b = Ok rh ->
  (227 <= length src)%nat /\ list_eqb (firstn 4 (firstn 227 src)) LASF = true.
Proof.
  unfold dec_header. cbv zeta. intros H.
  match type of H with (if ?c then _ else _) = _ => destruct c eqn:E1; [discriminate|] end.
  match type of H with (if ?c then _ else _) = _ => destruct c eqn:E2; [discriminate|] end.
  match type of H with (if ?c then _ else _) = _ => destruct c eqn:E3; [discriminate|] end.
  split.
  - rewrite firstn_length in E3. lia.
  - now apply negb_false_iff in E2.
Qed.

(* the parse only looks at the prefetched bytes when EVLRs are not asked for *)
Lemma hdr_stream_idem src : (227 <= length src)%nat -> hdr_stream (hdr_stream src) = hdr_stream src.
Proof.
  intros Hl. unfold hdr_stream. cbv zeta.
  set (off0 := le_dec (firstn 4 (skipn 96 (firstn 227 src)))).
  destruct (off0 <? 227) eqn:E.
  - fold off0. rewrite E. reflexivity.
  - assert (firstn 227 (firstn (Z.to_nat off0) src) = firstn 227 src) as ->.
    { rewrite firstn_firstn. f_equal. lia. }
    fold off0. rewrite E. rewrite firstn_firstn. f_equal. lia.
Qed.

Lemma hdr_stream_first src : (227 <= length src)%nat -> firstn 227 (hdr_stream src) = firstn 227 src.
Proof.
  intros Hl. unfold hdr_stream. cbv zeta.
  destruct (le_dec (firstn 4 (skipn 96 (firstn 227 src))) <? 227) eqn:E; [reflexivity|].
  rewrite firstn_firstn. f_equal. lia.
Qed.

Lemma dec_header_prefetched src : (227 <= length src)%nat -> dec_header (hdr_stream src) false = dec_header src false.
Proof.
  intros Hl. pose proof (hdr_stream_idem src Hl) as Hi. pose proof (hdr_stream_first src Hl) as Hf.
  unfold hdr_stream in Hi at 1. cbv zeta in Hi. rewrite Hf in Hi.
  unfold dec_header. cbv zeta. rewrite Hf, Hi.
  change (if le_dec (firstn 4 (skipn 96 (firstn 227 src))) <? 227 then src
          else firstn (Z.to_nat (le_dec (firstn 4 (skipn 96 (firstn 227 src))))) src) with (hdr_stream src).
  cbv beta iota. reflexivity.
Qed.

Lemma dec_fields_rest l : no_var l = true -> forall bs, snd (dec_fields l bs) = skipn (Z.to_nat (layout_width l)) bs.
Proof.
  induction l as [|[[k w] n] l IH]; intros Hnv bs; [reflexivity|].
  cbn [no_var forallb fst] in Hnv. apply andb_true_iff in Hnv as [Hk Hnv]. fold (no_var l) in Hnv.
  assert (k <> KVar) as Hk' by (intros ->; discriminate).
  cbn [dec_fields]. pose proof (dec_field_rest k w bs Hk') as Hr.
  destruct (dec_field k w bs) as [v rest]. cbn [snd] in Hr. subst rest.
  specialize (IH Hnv (skipn w bs)). destruct (dec_fields l (skipn w bs)) as [a r]. cbn [snd] in *.
  rewrite IH, layout_width_cons. cbn [fst snd]. pose proof (layout_width_nonneg l).
  rewrite Z2Nat.inj_add, Nat2Z.id by lia. now rewrite skipn_add.
Qed.

Lemma hr_fixed_facts mnr : no_var (fixed_part (hr_layout mnr)) = true /\ 227 <= layout_width (fixed_part (hr_layout mnr)).
Proof.
  unfold hr_layout. destruct (mnr >=? 4); [|destruct (mnr =? 3); [|destruct (mnr =? 2)]]; split; try reflexivity; vm_compute; discriminate.
Qed.

Lemma dec_vlrs_rest_len ext : forall n bs l r, dec_vlrs ext n bs = Ok (l, r) -> (length r <= length bs)%nat.
Proof.
  induction n as [|n IH]; intros bs l r H.
  - cbn in H. injection H as _ <-. lia.
  - cbn [dec_vlrs] in H.
    destruct (dec_fields (fixed_part (vlr_r_layout ext)) bs) as [a rest] eqn:Ed.
    assert (length rest <= length bs)%nat as Hr.
    { assert (rest = snd (dec_fields (fixed_part (vlr_r_layout ext)) bs)) as -> by now rewrite Ed.
      rewrite dec_fields_rest by (destruct ext; reflexivity). rewrite skipn_length. lia. }
    destruct (ascii_ok (abytes a "user_id")); [|discriminate].
    match type of H with bind ?e _ = _ => destruct e as [[l' r']|e'] eqn:Ev; [|discriminate] end.
    cbn [bind fst snd] in H. injection H as _ <-.
    apply IH in Ev. rewrite skipn_length in Ev. lia.
Qed.

(* where the points start: the raw offset field, never inside the fixed header *)
Lemma dec_header_offset src b rh : dec_header src b = Ok rh ->
  rh_offset rh = le_dec (firstn 4 (skipn 96 src)) /\ 227 <= rh_offset rh.
Proof.
  intros H. pose proof (dec_header_pre _ _ _ H) as [Hl _].
  revert H. unfold dec_header. cbv zeta. rewrite raw_offset_bytes. intros H.
  match type of H with (if ?c then _ else _) = _ => destruct c eqn:E1; [discriminate|] end.
  match type of H with (if ?c then _ else _) = _ => destruct c eqn:E2; [discriminate|] end.
  match type of H with (if ?c then _ else _) = _ => destruct c eqn:E3; [discriminate|] end.
  set (off0 := le_dec (firstn 4 (skipn 96 src))) in *.
  set (stream := if off0 <? 227 then src else firstn (Z.to_nat off0) src) in *.
  set (mnr := le_dec (firstn 1 (skipn 25 stream))) in *.
  pose proof (hr_offset_field mnr stream) as Hof.
  destruct (hr_fixed_facts mnr) as [Hnv Hw].
  pose proof (dec_fields_rest _ Hnv stream) as Hrest.
  destruct (dec_fields (fixed_part (hr_layout mnr)) stream) as [a rest] eqn:Ed.
  cbn [fst snd] in Hof, Hrest.
  match type of H with (if ?c then _ else _) = _ => destruct c eqn:E4; [discriminate|] end.
  match type of H with (if ?c then _ else _) = _ => destruct c eqn:E5; [discriminate|] end.
  match type of H with bind ?e _ = _ => destruct e as [[vl rest3]|e'] eqn:Ev; [|discriminate] end.
  cbn [bind] in H.
  match type of H with (if ?c then _ else _) = _ => destruct c eqn:E6; [discriminate|] end.
  match type of H with match ?e with Some _ => _ | None => _ end = _ => destruct e as [std|] eqn:Es; [|discriminate] end.
  match type of H with match ?e with Some _ => _ | None => _ end = _ => destruct e as [fs|] eqn:Ef; [|discriminate] end.
  match type of H with (if ?c then _ else _) = _ => destruct c eqn:E7; [discriminate|] end.
  match type of H with (if ?c then _ else _) = _ => destruct c eqn:E8; [discriminate|] end.
  match type of H with bind ?e _ = _ => destruct e as [ev|e'] eqn:Ee; [|discriminate] end.
  cbn [bind] in H. injection H as <-. cbn [rh_offset].
  assert (aint a "offset_to_point_data" = off0) as Hoff.
  { rewrite Hof. unfold stream. destruct (off0 <? 227) eqn:E; [reflexivity|]. rewrite raw_off_trunc by lia. reflexivity. }
  split; [exact Hoff|]. rewrite Hoff.
  destruct (off0 <? 227) eqn:E; [|lia]. exfalso.
  apply dec_vlrs_rest_len in Ev. rewrite skipn_length in Ev.
  assert (stream = src) as Hs by (unfold stream; reflexivity). 
  rewrite Hrest, Hs in Ev. rewrite skipn_length in Ev.
  rewrite Hoff in E6. unfold len in E6. rewrite Hs in E6. lia.
Qed.

(* the decoded fields are those of the fixed header, read from the prefetched bytes *)
Lemma dec_header_fields src b rh : dec_header src b = Ok rh ->
  let a := fst (dec_fields (fixed_part (hr_layout (hdr_minor src))) (hdr_stream src)) in
  (forall n, String.eqb "extra_header_bytes" n = false -> String.eqb "extra_vlr_bytes" n = false ->
             aget (rh_fields rh) n = aget a n)
  /\ rh_compressed rh = is_point_format_compressed (aint a "point_format_id").
Proof.
  unfold dec_header, hdr_minor, hdr_stream. cbv zeta. intros H.
  match type of H with (if ?c then _ else _) = _ => destruct c eqn:E1; [discriminate|] end.
  match type of H with (if ?c then _ else _) = _ => destruct c eqn:E2; [discriminate|] end.
  match type of H with (if ?c then _ else _) = _ => destruct c eqn:E3; [discriminate|] end.
  set (off0 := le_dec (firstn 4 (skipn 96 (firstn 227 src)))) in *.
  set (stream := if off0 <? 227 then src else firstn (Z.to_nat off0) src) in *.
  set (mnr := le_dec (firstn 1 (skipn 25 stream))) in *.
  destruct (dec_fields (fixed_part (hr_layout mnr)) stream) as [a rest] eqn:Ed.
  cbn [fst].
  match type of H with (if ?c then _ else _) = _ => destruct c eqn:E4; [discriminate|] end.
  match type of H with (if ?c then _ else _) = _ => destruct c eqn:E5; [discriminate|] end.
  match type of H with bind ?e _ = _ => destruct e as [[vl rest3]|e'] eqn:Ev; [|discriminate] end.
  cbn [bind] in H.
  match type of H with (if ?c then _ else _) = _ => destruct c eqn:E6; [discriminate|] end.
  match type of H with match ?e with Some _ => _ | None => _ end = _ => destruct e as [std|] eqn:Es; [|discriminate] end.
  match type of H with match ?e with Some _ => _ | None => _ end = _ => destruct e as [fs|] eqn:Ef; [|discriminate] end.
  match type of H with (if ?c then _ else _) = _ => destruct c eqn:E7; [discriminate|] end.
  match type of H with (if ?c then _ else _) = _ => destruct c eqn:E8; [discriminate|] end.
  match type of H with bind ?e _ = _ => destruct e as [ev|e'] eqn:Ee; [|discriminate] end.
  cbn [bind] in H. injection H as <-. cbn [rh_fields rh_compressed].
  split; [|reflexivity].
  intros n N1 N2. now rewrite !aget_aset_other by assumption.
Qed.

Lemma hr_minor_field mnr bs :
  aint (fst (dec_fields (fixed_part (hr_layout mnr)) bs)) "version.minor" = le_dec (firstn 1 (skipn 25 bs)).
Proof.
  unfold hr_layout.
  destruct (mnr >=? 4); [|destruct (mnr =? 3); [|destruct (mnr =? 2)]]; apply aint_dec_fields; reflexivity.
Qed.

Lemma h_minor_raw src b rh : dec_header src b = Ok rh -> h_minor rh = hdr_minor src.
Proof.
  intros H. destruct (dec_header_fields _ _ _ H) as [Hg _]. unfold h_minor, aint.
  rewrite Hg by reflexivity. fold (aint (fst (dec_fields (fixed_part (hr_layout (hdr_minor src))) (hdr_stream src))) "version.minor").
  rewrite hr_minor_field. reflexivity.
Qed.

(* with read_evlrs = false nothing is loaded *)
Lemma dec_header_false_evlrs src rh : dec_header src false = Ok rh -> rh_evlrs rh = None /\ with_evlrs rh None = rh.
Proof.
  intros H. destruct (dec_header_shape src false) as [(e & H1 & _)|(rh0 & H1 & _ & _ & H2)]; [congruence|].
  rewrite H in H1. injection H1 as <-. rewrite H in H2. unfold ev_part in H2.
  assert (rh = mkRH (rh_fields rh) (rh_vlrs rh) None (rh_fmt rh) (rh_compressed rh) (rh_psize rh) (rh_offset rh)) as E
    by (destruct (hdr_minor src >=? 4); cbn [bind] in H2; injection H2 as H2; exact H2).
  split; [rewrite E; reflexivity|]. unfold with_evlrs. symmetry. exact E.
Qed.

(* what `dec_header src true` is, in terms of the header read without EVLRs *)
Definition evlrs_of (f : list Z) (rh : rheader) : result (option (list vlr)) :=
  if h_minor rh >=? 4 then
    if h_nev rh >? 0 then
      match dec_vlrs true (Z.to_nat (h_nev rh)) (skipn (Z.to_nat (h_evstart rh)) f) with
      | Ok p => Ok (Some (fst p)) | Err e => Err e end
    else Ok (Some [])
  else Ok None.

Lemma dec_header_true src rh : dec_header src false = Ok rh ->
  dec_header src true = match evlrs_of src rh with Ok ev => Ok (with_evlrs rh ev) | Err e => Err e end.
Proof.
  intros H. destruct (dec_header_shape src true) as [(e & H1 & _)|(rh0 & H1 & _ & _ & H2)]; [congruence|].
  rewrite H in H1. injection H1 as <-. rewrite H2. unfold ev_part, evlrs_of.
  rewrite (h_minor_raw _ _ _ H). unfold h_nev, h_evstart.
  destruct (hdr_minor src >=? 4); [|reflexivity].
  destruct (aint (rh_fields rh) "number_of_evlrs" >? 0); [|reflexivity].
  destruct (dec_vlrs true _ _) as [[l r]|e]; reflexivity.
Qed.

(* the two reads of _prefetch_header_data leave the source at the first point *)
Lemma prefetch_ok f b rh : dec_header f b = Ok rh -> rh_offset rh <= len f ->
  exists s1, prefetch (mkSt f 0 []) = (Ok (hdr_stream f), s1) /\ st_bytes s1 = f /\ st_pos s1 = rh_offset rh.
Proof.
  intros H Hlen. destruct (dec_header_pre _ _ _ H) as [Hl Hsig]. destruct (dec_header_offset _ _ _ H) as [Hoff Hge].
  unfold prefetch, prefetch_first_read, prefetch_offset_pos, prefetch_offset_width.
  change (s_read 227 (mkSt f 0 [])) with (firstn 227 f, mkSt f (0 + len (firstn 227 f)) [ORead 227]).
  cbv beta iota zeta.
  assert (len (firstn 227 f) = 227) as L227 by (unfold len; rewrite firstn_length; lia).
  rewrite !L227.
  assert (length (firstn 4 (firstn 227 f)) = 4%nat) as L4 by (rewrite !firstn_length; lia).
  rewrite L4. change (4 =? 0)%nat with false. cbv iota. rewrite Hsig. cbn [negb]. cbv iota.
  change (227 <? 227) with false. cbv iota.
  change (Z.to_nat 4) with 4%nat. change (Z.to_nat 96) with 96%nat. rewrite raw_offset_bytes, <- Hoff.
  set (s1 := mkSt f (0 + 227) [ORead 227]).
  destruct (s_read_spec (rh_offset rh - 227) s1 ltac:(lia) ltac:(cbn; lia)) as (R1 & R2 & R3 & R4).
  assert (avail s1 = skipn 227 f) as Ha by reflexivity.
  assert (snd (s_read (rh_offset rh - 227) s1) = mkSt f (227 + len (fst (s_read (rh_offset rh - 227) s1))) [ORead 227; ORead (rh_offset rh - 227)]) as Hs.
  { unfold s_read. destruct (rh_offset rh - 227 <? 0) eqn:E; [lia|]. reflexivity. }
  destruct (s_read (rh_offset rh - 227) s1) as [rest s2]. cbn [fst snd] in *.
  exists s2. split; [|split; [exact R3|]].
  - apply f_equal2; [|reflexivity]. f_equal. unfold hdr_stream. cbv zeta. rewrite raw_offset_bytes, <- Hoff.
    destruct (rh_offset rh <? 227) eqn:E; [lia|].
    rewrite R1, Ha. replace (Z.to_nat (rh_offset rh)) with (227 + Z.to_nat (rh_offset rh - 227))%nat by lia.
    now rewrite firstn_add.
  - rewrite Hs. cbn [st_pos]. rewrite R1, Ha. unfold len in *. rewrite firstn_length, skipn_length. lia.
Qed.

(* ------------------------------------------------------------------------------------ *)
(* D. points                                                                             *)
(* ------------------------------------------------------------------------------------ *)
Lemma chunks_concat p : (0 < p)%nat -> forall m (d : list Z) fuel, length d = (m * p)%nat -> (m <= fuel)%nat ->
  concat (chunks_of fuel p d) = d /\ Forall (fun r => length r = p) (chunks_of fuel p d) /\ length (chunks_of fuel p d) = m.
Proof.
  intros Hp. induction m as [|m IH]; intros d fuel Hl Hf.
  - destruct d; [|discriminate]. destruct fuel; cbn; repeat split; constructor.
  - destruct fuel as [|fuel]; [lia|]. destruct d as [|x d]; [cbn in Hl; lia|].
    cbn [chunks_of]. set (dd := x :: d) in *.
    assert (length (skipn p dd) = (m * p)%nat) as Hl' by (rewrite skipn_length; lia).
    destruct (IH (skipn p dd) fuel Hl' ltac:(lia)) as (I1 & I2 & I3).
    cbn [concat length]. rewrite I1, I3, firstn_skipn. repeat split.
    constructor; [|exact I2]. rewrite firstn_length. lia.
Qed.

(* the stream stands before record number pr of the point area R, which is followed by `tail` *)
Definition pinv (f : list Z) (R : list (list Z)) (tail : list Z) (pr : Z) (s : stream) : Prop :=
  st_bytes s = f /\ 0 <= st_pos s /\ avail s = concat (skipn (Z.to_nat pr) R) ++ tail.

Lemma s_readinto_spec n s : 0 <= st_pos s ->
  fst (s_readinto n s) = firstn (Z.to_nat n) (avail s)
  /\ avail (snd (s_readinto n s)) = skipn (Z.to_nat n) (avail s)
  /\ st_bytes (snd (s_readinto n s)) = st_bytes s
  /\ 0 <= st_pos (snd (s_readinto n s)).
Proof.
  intros Hp. unfold s_readinto. cbn [fst snd st_bytes st_pos].
  split; [reflexivity|]. split; [apply avail_step; exact Hp|]. split; [reflexivity|].
  pose proof (len_nonneg (firstn (Z.to_nat n) (avail s))). lia.
Qed.

Lemma concat_firstn_len (p : nat) (R : list (list Z)) m : Forall (fun r => length r = p) R -> (m <= length R)%nat ->
  length (concat (firstn m R)) = (m * p)%nat.
Proof.
  intros HF Hm. rewrite (concat_length_const p) by now apply Forall_firstn. rewrite firstn_length, Nat.min_l by lia. reflexivity.
Qed.

(* read_n_points on a point area R' followed by `tail`: m records when they are there; when the data ends with the point
   area (tail = []) asking for more gives what is left *)
Lemma read_n_points_spec c ps m s (R' : list (list Z)) tail : 0 < ps -> 0 <= m -> (m <= len R' \/ tail = []) ->
  Forall (fun r => length r = Z.to_nat ps) R' -> 0 <= st_pos s -> avail s = concat R' ++ tail ->
  exists s', read_n_points c ps m s = (Ok (firstn (Z.to_nat m) R'), s') /\ st_bytes s' = st_bytes s /\ 0 <= st_pos s'
             /\ avail s' = concat (skipn (Z.to_nat m) R') ++ tail.
Proof.
  intros Hps Hm0 Hm HF Hp Ha. unfold read_n_points. destruct (ps <=? 0) eqn:E0; [lia|].
  assert (exists data s', (if c_readinto c then s_readinto (m * ps) s else s_read (m * ps) s) = (data, s')
            /\ data = firstn (Z.to_nat (m * ps)) (avail s) /\ avail s' = skipn (Z.to_nat (m * ps)) (avail s)
            /\ st_bytes s' = st_bytes s /\ 0 <= st_pos s') as (data & s' & E & D1 & D2 & D3 & D4).
  { destruct (c_readinto c).
    - destruct (s_readinto_spec (m * ps) s Hp) as (A & B & C & D). destruct (s_readinto (m * ps) s) as [d s']. eauto 10.
    - destruct (s_read_spec (m * ps) s ltac:(nia) Hp) as (A & B & C & D). destruct (s_read (m * ps) s) as [d s']. eauto 10. }
  rewrite E. exists s'.
  set (p := Z.to_nat ps) in *. set (k := Z.to_nat m).
  assert (Z.to_nat (m * ps) = (k * p)%nat) as Hmp by (unfold k, p; nia).
  set (RR := firstn k R').
  assert (Forall (fun r => length r = p) RR) as HFR by (now apply Forall_firstn).
  assert (data = concat RR /\ avail s' = concat (skipn k R') ++ tail) as [Hd Hav].
  { destruct (Z_le_gt_dec m (len R')) as [Hle|Hgt].
    - assert (k <= length R')%nat as Hk by (unfold k, len in *; lia).
      pose proof (concat_firstn_len p R' k HF Hk) as Hcl.
      assert (concat R' ++ tail = concat (firstn k R') ++ (concat (skipn k R') ++ tail)) as Hsplit.
      { rewrite app_assoc, <- concat_app, firstn_skipn. reflexivity. }
      split.
      + rewrite D1, Ha, Hmp, Hsplit. apply firstn_app_exact. exact Hcl.
      + rewrite D2, Ha, Hmp, Hsplit. apply skipn_app_exact. exact Hcl.
    - destruct Hm as [Hm|Ht]; [lia|]. subst tail. rewrite app_nil_r in Ha.
      assert (length R' <= k)%nat as Hk by (unfold k, len in *; lia).
      assert (length (concat R') <= k * p)%nat as Hcl by (rewrite (concat_length_const p R' HF); nia).
      unfold RR. rewrite (firstn_all2 R') by exact Hk. rewrite (skipn_all2 R') by exact Hk. cbn [concat app].
      split.
      + rewrite D1, Ha, Hmp. now apply firstn_all2.
      + rewrite D2, Ha, Hmp. now apply skipn_all2. }
  split; [|split; [exact D3|split; [exact D4|exact Hav]]].
  f_equal.
  assert (len data = len RR * ps) as Hld.
  { unfold len. rewrite Hd, (concat_length_const p RR HFR). unfold p. nia. }
  rewrite Hld, Z.mod_mul by lia. change (0 =? 0) with true. cbv iota. f_equal.
  rewrite Hd. apply chunks_whole; [unfold p; lia|exact HFR|].
  rewrite (concat_length_const p RR HFR). unfold p. nia.
Qed.

Lemma skipn_skipn_Z {A} (a b : Z) (l : list A) : 0 <= a -> 0 <= b ->
  skipn (Z.to_nat b) (skipn (Z.to_nat a) l) = skipn (Z.to_nat (a + b)) l.
Proof. intros Ha Hb. rewrite Z2Nat.inj_add by lia. now rewrite skipn_add. Qed.

(* the library's counter after read_points(n): what was ASKED is counted, whatever was obtained *)
Definition next_pr (count pr n : Z) : Z :=
  let left := count - pr in if left <=? 0 then pr else pr + (if n <? 0 then left else Z.min n left).
(* ... after a chunk iterator: it stops at the first empty record (nothing asked, or nothing stored any more) *)
Fixpoint chunks_pr (fuel : nat) (count stored k pr : Z) : Z :=
  match fuel with
  | O => pr
  | S fu => let pr1 := next_pr count pr k in
            if Z.min pr1 stored <=? pr then pr1 else chunks_pr fu count stored k pr1
  end.
Fixpoint steps_pr (fuel : nat) (count stored : Z) (steps : list step) (pr : Z) : Z :=
  match steps with
  | [] => pr
  | SChunks k :: more => steps_pr fuel count stored more (chunks_pr fuel count stored k pr)
  | SPoints n :: more => steps_pr fuel count stored more (next_pr count pr n)
  end.

Lemma next_pr_bounds count pr n : 0 <= pr <= Z.max 0 count -> pr <= next_pr count pr n <= Z.max 0 count.
Proof. intros H. unfold next_pr. cbv zeta. destruct (count - pr <=? 0) eqn:E; [lia|]. destruct (n <? 0) eqn:En; lia. Qed.

(* LasReader.read_points with points_read = pr, on a file that stores the records R (all those the header announces, or
   fewer and then nothing else) *)
Lemma read_points_spec c rh f R tail pr n s : 0 < rh_psize rh ->
  Forall (fun r => length r = Z.to_nat (rh_psize rh)) R -> len R <= Z.max 0 (h_count rh) ->
  (len R = Z.max 0 (h_count rh) \/ tail = []) ->
  0 <= pr <= Z.max 0 (h_count rh) -> pinv f R tail pr s ->
  exists X s', read_points c rh pr n s = (Ok X, next_pr (h_count rh) pr n, s')
    /\ pinv f R tail (next_pr (h_count rh) pr n) s'
    /\ skipn (Z.to_nat pr) R = X ++ skipn (Z.to_nat (next_pr (h_count rh) pr n)) R
    /\ (X = [] <-> Z.min (next_pr (h_count rh) pr n) (len R) <= pr)
    /\ (n < 0 -> next_pr (h_count rh) pr n = Z.max 0 (h_count rh)).
Proof.
  intros Hps HF HR Hcase Hpr (I1 & I2 & I3). unfold read_points, next_pr. cbv zeta.
  pose proof (len_nonneg R) as HRn.
  destruct (h_count rh - pr <=? 0) eqn:El.
  - exists [], s. split; [reflexivity|]. split; [repeat split; assumption|]. split; [reflexivity|]. split; [split; [lia|reflexivity]|lia].
  - set (m := if n <? 0 then h_count rh - pr else Z.min n (h_count rh - pr)).
    assert (0 <= m <= Z.max 0 (h_count rh) - pr) as Hm by (unfold m; destruct (n <? 0) eqn:En; lia).
    assert (Forall (fun r => length r = Z.to_nat (rh_psize rh)) (skipn (Z.to_nat pr) R)) as HF'.
    { apply Forall_forall. intros x Hx. rewrite Forall_forall in HF. apply HF.
      rewrite <- (firstn_skipn (Z.to_nat pr) R). apply in_or_app. now right. }
    assert (len (skipn (Z.to_nat pr) R) = Z.max 0 (len R - pr)) as Hls by (unfold len in *; rewrite skipn_length; lia).
    destruct (read_n_points_spec c (rh_psize rh) m s (skipn (Z.to_nat pr) R) tail Hps ltac:(lia)
                ltac:(destruct Hcase as [Hc|Hc]; [left; lia|right; exact Hc]) HF' I2 I3)
      as (s' & E & S1 & S2 & S3).
    rewrite E. exists (firstn (Z.to_nat m) (skipn (Z.to_nat pr) R)), s'.
    split; [reflexivity|]. split; [|split; [|split]].
    + split; [congruence|]. split; [exact S2|]. rewrite S3, skipn_skipn_Z by lia. reflexivity.
    + rewrite <- skipn_skipn_Z by lia. now rewrite firstn_skipn.
    + split.
      * intros HX. apply (f_equal (@length _)) in HX. rewrite firstn_length, skipn_length in HX. cbn [length] in HX. unfold len in *. lia.
      * intros HX. apply length_zero_iff_nil. rewrite firstn_length, skipn_length. unfold len in *. lia.
    + intros Hn. unfold m. destruct (n <? 0) eqn:En; lia.
Qed.

Lemma chunk_loop_spec c rh f R tail k : 0 < rh_psize rh ->
  Forall (fun r => length r = Z.to_nat (rh_psize rh)) R -> len R <= Z.max 0 (h_count rh) ->
  (len R = Z.max 0 (h_count rh) \/ tail = []) ->
  forall fuel pr s, 0 <= pr <= Z.max 0 (h_count rh) -> pinv f R tail pr s ->
  let pr' := chunks_pr fuel (h_count rh) (len R) k pr in
  exists X s', chunk_loop fuel c rh k pr s = (Ok X, pr', s') /\ pr <= pr' <= Z.max 0 (h_count rh) /\ pinv f R tail pr' s'
    /\ skipn (Z.to_nat pr) R = X ++ skipn (Z.to_nat pr') R.
Proof.
  intros Hps HF HR Hcase. induction fuel as [|fu IH]; intros pr s Hpr Hinv.
  - exists [], s. split; [reflexivity|]. split; [cbn; lia|]. split; [exact Hinv|reflexivity].
  - cbn [chunk_loop chunks_pr]. cbv zeta.
    destruct (read_points_spec c rh f R tail pr k s Hps HF HR Hcase Hpr Hinv) as (X & s1 & E & P2 & P3 & P4 & _).
    pose proof (next_pr_bounds (h_count rh) pr k Hpr) as Hb.
    rewrite E. destruct X as [|r0 X].
    + destruct (Z.min (next_pr (h_count rh) pr k) (len R) <=? pr) eqn:Em; [|exfalso; apply Z.leb_gt in Em; destruct P4 as [P4 _]; specialize (P4 eq_refl); lia].
      exists [], s1. split; [reflexivity|]. split; [lia|]. split; [exact P2|exact P3].
    + destruct (Z.min (next_pr (h_count rh) pr k) (len R) <=? pr) eqn:Em; [apply Z.leb_le in Em; destruct P4 as [_ P4]; specialize (P4 Em); discriminate|].
      destruct (IH (next_pr (h_count rh) pr k) s1 ltac:(lia) P2) as (X2 & s2 & E2 & Q1 & Q2 & Q3).
      rewrite E2. exists ((r0 :: X) ++ X2), s2. split; [reflexivity|]. split; [lia|]. split; [exact Q2|].
      rewrite P3, Q3, app_assoc. reflexivity.
Qed.

Lemma run_steps_spec c rh f R tail fuel : 0 < rh_psize rh ->
  Forall (fun r => length r = Z.to_nat (rh_psize rh)) R -> len R <= Z.max 0 (h_count rh) ->
  (len R = Z.max 0 (h_count rh) \/ tail = []) ->
  forall steps pr s, 0 <= pr <= Z.max 0 (h_count rh) -> pinv f R tail pr s ->
  let pr' := steps_pr fuel (h_count rh) (len R) steps pr in
  exists X s', run_steps fuel c rh steps pr s = (Ok X, pr', s') /\ pr <= pr' <= Z.max 0 (h_count rh) /\ pinv f R tail pr' s'
    /\ skipn (Z.to_nat pr) R = X ++ skipn (Z.to_nat pr') R.
Proof.
  intros Hps HF HR Hcase. induction steps as [|st more IH]; intros pr s Hpr Hinv.
  - exists [], s. split; [reflexivity|]. split; [cbn; lia|]. split; [exact Hinv|reflexivity].
  - cbn [run_steps steps_pr]. destruct st as [k|n].
    + destruct (chunk_loop_spec c rh f R tail k Hps HF HR Hcase fuel pr s Hpr Hinv) as (X & s1 & E & P1 & P2 & P3).
      cbv zeta in E, P1, P2, P3. rewrite E.
      destruct (IH (chunks_pr fuel (h_count rh) (len R) k pr) s1 ltac:(lia) P2) as (X2 & s2 & E2 & Q1 & Q2 & Q3). cbv zeta in E2, Q1, Q2, Q3. rewrite E2.
      exists (X ++ X2), s2. split; [reflexivity|]. split; [cbv zeta; lia|]. split; [exact Q2|].
      rewrite P3, Q3, app_assoc. reflexivity.
    + destruct (read_points_spec c rh f R tail pr n s Hps HF HR Hcase Hpr Hinv) as (X & s1 & E & P2 & P3 & _ & _).
      pose proof (next_pr_bounds (h_count rh) pr n Hpr) as Hb.
      rewrite E.
      destruct (IH (next_pr (h_count rh) pr n) s1 ltac:(lia) P2) as (X2 & s2 & E2 & Q1 & Q2 & Q3). cbv zeta in E2, Q1, Q2, Q3. rewrite E2.
      exists (X ++ X2), s2. split; [reflexivity|]. split; [cbv zeta; lia|]. split; [exact Q2|].
      rewrite P3, Q3, app_assoc. reflexivity.
Qed.

(* the records of the point area, as np.frombuffer(count, offset) / read_records cut them *)
Definition point_recs (f : list Z) (rh : rheader) : list (list Z) :=
  let data := firstn (Z.to_nat (Z.max 0 (h_count rh) * rh_psize rh)) (skipn (Z.to_nat (rh_offset rh)) f) in
  chunks_of (length data) (Z.to_nat (rh_psize rh)) data.

Lemma point_recs_spec f rh : 0 < rh_psize rh -> 0 <= rh_offset rh -> points_present f rh ->
  Forall (fun r => length r = Z.to_nat (rh_psize rh)) (point_recs f rh) /\ len (point_recs f rh) = Z.max 0 (h_count rh)
  /\ skipn (Z.to_nat (rh_offset rh)) f
      = concat (point_recs f rh) ++ skipn (Z.to_nat (rh_offset rh + Z.max 0 (h_count rh) * rh_psize rh)) f.
Proof.
  intros Hps Hoff Hpp. unfold points_present in Hpp. unfold point_recs. cbv zeta.
  set (cnt := Z.max 0 (h_count rh)) in *. set (ps := rh_psize rh) in *. set (off := rh_offset rh) in *.
  set (data := firstn (Z.to_nat (cnt * ps)) (skipn (Z.to_nat off) f)).
  assert (length data = (Z.to_nat cnt * Z.to_nat ps)%nat) as Hl.
  { unfold data. rewrite firstn_length, skipn_length. unfold len in Hpp. nia. }
  destruct (chunks_concat (Z.to_nat ps) ltac:(lia) (Z.to_nat cnt) data (length data) Hl ltac:(nia)) as (C1 & C2 & C3).
  split; [exact C2|]. split; [unfold len; rewrite C3; lia|].
  rewrite C1. unfold data. rewrite <- skipn_skipn_Z by nia. now rewrite firstn_skipn.
Qed.

Lemma laid_out_decomp f rh : laid_out f rh ->
  exists R tail, Forall (fun r => length r = Z.to_nat (rh_psize rh)) R /\ len R = Z.max 0 (h_count rh)
    /\ skipn (Z.to_nat (rh_offset rh)) f = concat R ++ tail
    /\ tail = skipn (Z.to_nat (rh_offset rh + Z.max 0 (h_count rh) * rh_psize rh)) f.
Proof.
  intros (Hd & _ & _ & Hps & Hpp). destruct (dec_header_offset _ _ _ Hd) as [_ Hoff].
  destruct (point_recs_spec f rh Hps ltac:(lia) Hpp) as (A & B & C).
  exists (point_recs f rh). eexists. repeat split; eassumption.
Qed.

(* decoded integers are not negative when the bytes are bytes *)
Definition val_nonneg (v : value) : Prop := match v with VInt z => 0 <= z | VBytes _ => True end.

Lemma aint_nonneg a n : Forall (fun p => val_nonneg (snd p)) a -> 0 <= aint a n.
Proof.
  intros HF. unfold aint, aget.
  assert (forall acc, match acc with Some v => val_nonneg v | None => True end ->
            match aget_last a n acc with Some v => val_nonneg v | None => True end) as G.
  { induction HF as [|[m v] a Hv _ IH]; intros acc Hacc; [exact Hacc|].
    cbn [aget_last]. apply IH. destruct (String.eqb m n); [exact Hv|exact Hacc]. }
  specialize (G None I). destruct (aget_last a n None) as [[z|b]|]; cbn in G; lia.
Qed.

Lemma dec_fields_nonneg l : forall bs, bytes_ok bs = true -> Forall (fun p => val_nonneg (snd p)) (fst (dec_fields l bs)).
Proof.
  induction l as [|[[k w] n] l IH]; intros bs Hok; [constructor|].
  cbn [dec_fields]. destruct (dec_field k w bs) as [v rest] eqn:Ed.
  assert (val_nonneg v /\ bytes_ok rest = true) as [Hv Hr].
  { destruct k; cbn [dec_field] in Ed; injection Ed as <- <-; cbn [val_nonneg]; split; trivial;
      try (now apply bytes_ok_skipn); now apply le_dec_nonneg, bytes_ok_firstn. }
  specialize (IH rest Hr). destruct (dec_fields l rest) as [a r]. cbn [fst] in *. constructor; assumption.
Qed.

Lemma bytes_ok_hdr_stream f : bytes_ok f = true -> bytes_ok (hdr_stream f) = true.
Proof. intros H. unfold hdr_stream. cbv zeta. destruct (_ <? 227); [exact H|now apply bytes_ok_firstn]. Qed.

Lemma header_int_nonneg f b rh n : dec_header f b = Ok rh -> bytes_ok f = true ->
  String.eqb "extra_header_bytes" n = false -> String.eqb "extra_vlr_bytes" n = false -> 0 <= aint (rh_fields rh) n.
Proof.
  intros H Hok N1 N2. destruct (dec_header_fields _ _ _ H) as [Hg _]. unfold aint. rewrite Hg by assumption.
  apply aint_nonneg, dec_fields_nonneg, bytes_ok_hdr_stream, Hok.
Qed.

(* ------------------------------------------------------------------------------------ *)
(* E. EVLRs                                                                              *)
(* ------------------------------------------------------------------------------------ *)
Lemma avail_seek p s : avail (s_seek p s) = skipn (Z.to_nat p) (st_bytes s).
Proof. reflexivity. Qed.

(* LasHeader.read_evlrs on a seekable stream: the EVLRs found by seeking, position restored *)
Lemma hdr_read_evlrs_seekable c rh f s : can_seek c = true -> st_bytes s = f -> bytes_ok f = true ->
  0 <= st_pos s -> 0 <= h_evstart rh ->
  match evlrs_of f rh with
  | Ok ev => exists s', hdr_read_evlrs c rh s = (Ok (with_evlrs rh ev), s') /\ st_bytes s' = f /\ st_pos s' = st_pos s
  | Err e => exists s', hdr_read_evlrs c rh s = (Err e, s') /\ st_bytes s' = f
  end.
Proof.
  intros Hc Hb Hok Hp Hst. unfold evlrs_of, hdr_read_evlrs.
  destruct (h_minor rh >=? 4); [|exists s; repeat split; assumption].
  destruct (s_can_seek_spec c s) as (A1 & _ & A3 & A4). destruct (s_can_seek c s) as [sk s1]. cbn [fst snd] in A1, A3, A4. subst sk. rewrite Hc.
  destruct (h_nev rh >? 0); [|exists s1; repeat split; congruence].
  unfold s_tell.
  set (s3 := s_seek (h_evstart rh) _).
  destruct (sread_vlrs_spec (Z.to_nat (h_nev rh)) s3 Hst ltac:(unfold s3; cbn [s_seek st_bytes]; rewrite A3, Hb; exact Hok)) as [V1 V2].
  assert (avail s3 = skipn (Z.to_nat (h_evstart rh)) f) as Ha by (unfold s3; rewrite avail_seek; cbn [st_bytes]; now rewrite A3, Hb).
  rewrite Ha in V1. destruct (sread_vlrs (Z.to_nat (h_nev rh)) s3) as [r s4]. cbn [fst snd] in V1, V2.
  rewrite V1. cbn [st_bytes] in V2.
  destruct (dec_vlrs true (Z.to_nat (h_nev rh)) (skipn (Z.to_nat (h_evstart rh)) f)) as [[l rest]|e].
  - eexists. split; [reflexivity|]. cbn [s_seek st_bytes st_pos fst]. split; [|exact A4].
    rewrite V2. unfold s3. cbn [s_seek st_bytes]. now rewrite A3.
  - eexists. split; [reflexivity|]. rewrite V2. unfold s3. cbn [s_seek st_bytes]. now rewrite A3.
Qed.

(* ... on a source that does not say it can seek: nothing is loaded, the source stays where it is *)
Lemma hdr_read_evlrs_not_seekable c rh s : can_seek c = false ->
  exists s', hdr_read_evlrs c rh s
             = (Ok (with_evlrs rh (if h_minor rh >=? 4 then if h_nev rh >? 0 then None else Some [] else None)), s')
    /\ st_bytes s' = st_bytes s /\ st_pos s' = st_pos s.
Proof.
  intros Hc. unfold hdr_read_evlrs.
  destruct (h_minor rh >=? 4); [|exists s; repeat split].
  destruct (s_can_seek_spec c s) as (A1 & _ & A3 & A4). destruct (s_can_seek c s) as [sk s1]. cbn [fst snd] in A1, A3, A4. subst sk. rewrite Hc.
  destruct (h_nev rh >? 0); exists s1; repeat split; assumption.
Qed.

Lemma with_evlrs_fields rh ev : rh_fields (with_evlrs rh ev) = rh_fields rh.
Proof. reflexivity. Qed.
Lemma with_evlrs_twice rh a b : with_evlrs (with_evlrs rh a) b = with_evlrs rh b.
Proof. reflexivity. Qed.

Lemma evlrs_of_none f rh : evlrs_of f rh = Ok None -> (h_minor rh >=? 4) = false.
Proof.
  unfold evlrs_of. destruct (h_minor rh >=? 4); [|reflexivity].
  destruct (h_nev rh >? 0); [|discriminate]. destruct (dec_vlrs _ _ _) as [[l r]|e]; discriminate.
Qed.

(* ------------------------------------------------------------------------------------ *)
(* F. opening, finishing, and the whole read                                             *)
(* ------------------------------------------------------------------------------------ *)
(* what opening needs of the file: a header that parses, uncompressed, and the bytes up to the first point *)
Definition openable (f : list Z) (rh : rheader) : Prop :=
  dec_header f false = Ok rh /\ bytes_ok f = true /\ rh_compressed rh = false /\ 0 < rh_psize rh /\ rh_offset rh <= len f.

Lemma laid_out_openable f rh : laid_out f rh -> openable f rh.
Proof.
  intros (Hd & Hok & Hcomp & Hps & Hpp). destruct (dec_header_offset _ _ _ Hd) as [_ Hoff].
  repeat split; try assumption. unfold points_present in Hpp. nia.
Qed.

Lemma open_reader_exact c e f rh : openable f rh ->
  exists s1, st_bytes s1 = f /\
   ((exists rh1, open_reader c e (mkSt f 0 []) = (Ok rh1, s1) /\ st_pos s1 = rh_offset rh
        /\ (if loads_at_open c e rh then exists ev, evlrs_of f rh = Ok ev /\ rh1 = with_evlrs rh ev else rh1 = rh))
    \/ (exists er, open_reader c e (mkSt f 0 []) = (Err er, s1) /\ evlrs_of f rh = Err er /\ loads_at_open c e rh = true)).
Proof.
  intros (Hd & Hok & Hcomp & Hps & Hle).
  destruct (dec_header_offset _ _ _ Hd) as [_ Hoff]. destruct (dec_header_pre _ _ _ Hd) as [Hl _].
  destruct (prefetch_ok f false rh Hd Hle) as (s1 & P1 & P2 & P3).
  unfold open_reader. rewrite P1, (dec_header_prefetched f Hl), Hd, Hcomp.
  unfold loads_at_open.
  destruct e; cbn [andb]; [|exists s1; split; [exact P2|]; left; exists rh; repeat split; auto].
  assert (0 <= h_evstart rh) as Hst by (apply (header_int_nonneg f false); auto).
  destruct (dec_header_false_evlrs _ _ Hd) as [_ Hwn].
  destruct (can_seek c) eqn:Hc; cbn [orb].
  - pose proof (hdr_read_evlrs_seekable c rh f s1 Hc P2 Hok ltac:(lia) Hst) as Hs.
    destruct (evlrs_of f rh) as [ev|er].
    + destruct Hs as (s' & E & B & Ps). exists s'. split; [exact B|]. left. exists (with_evlrs rh ev).
      split; [exact E|]. split; [lia|]. exists ev. split; reflexivity.
    + destruct Hs as (s' & E & B). exists s'. split; [exact B|]. right. exists er. repeat split; [exact E].
  - destruct (hdr_read_evlrs_not_seekable c rh s1 Hc) as (s' & E & B & Ps).
    exists s'. split; [congruence|]. left. eexists. split; [exact E|]. split; [congruence|].
    unfold needs_evlrs, evlrs_of.
    destruct (h_minor rh >=? 4); cbn [andb negb]; [|eexists; split; reflexivity].
    destruct (h_nev rh >? 0); cbn [negb]; [exact Hwn|eexists; split; reflexivity].
Qed.

Lemma open_reader_spec c e f rh : openable f rh ->
  exists s1, st_bytes s1 = f /\
   ((exists rh1, open_reader c e (mkSt f 0 []) = (Ok rh1, s1) /\ st_pos s1 = rh_offset rh
        /\ (rh1 = rh \/ exists ev, evlrs_of f rh = Ok ev /\ rh1 = with_evlrs rh ev))
    \/ (exists er, open_reader c e (mkSt f 0 []) = (Err er, s1) /\ evlrs_of f rh = Err er)).
Proof.
  intros Hlo. destruct (open_reader_exact c e f rh Hlo) as (s1 & B & [(rh1 & E & P & H)|(er & E & H & _)]).
  - exists s1. split; [exact B|]. left. exists rh1. split; [exact E|]. split; [exact P|].
    destruct (loads_at_open c e rh); [right; exact H|left; exact H].
  - exists s1. split; [exact B|]. right. exists er. split; assumption.
Qed.

(* skipping the gap: the bytes, or what is left of the data, are dropped; two reads at most on the sources of the model *)
Lemma skip_gap_spec gap s : 0 <= st_pos s ->
  let s' := skip_gap skip_fuel gap s in
  st_bytes s' = st_bytes s /\ 0 <= st_pos s' /\ avail s' = skipn (Z.to_nat gap) (avail s).
Proof.
  intros Hp. cbv zeta. unfold skip_fuel. cbn [skip_gap].
  destruct (gap >? 0) eqn:Eg; [|replace (Z.to_nat gap) with 0%nat by lia; repeat split; auto].
  destruct (s_read_spec gap s ltac:(lia) Hp) as (A1 & A2 & A3 & A4).
  destruct (s_read gap s) as [d s1]. cbn [fst snd] in A1, A2, A3, A4.
  assert (Hd : length d = Nat.min (Z.to_nat gap) (length (avail s))) by (rewrite A1; apply firstn_length).
  destruct (len d =? 0) eqn:Ed; [repeat split; assumption|].
  destruct (gap - len d >? 0) eqn:Eg2; [|repeat split; assumption].
  (* the first read was short: it took everything that was left, the second one gives nothing *)
  assert (Hall : (length (avail s) < Z.to_nat gap)%nat) by (unfold len in *; lia).
  assert (He : avail s1 = []) by (rewrite A2; apply skipn_all2; lia).
  destruct (s_read_spec (gap - len d) s1 ltac:(lia) A4) as (B1 & B2 & B3 & B4).
  destruct (s_read (gap - len d) s1) as [d2 s2]. cbn [fst snd] in B1, B2, B3, B4.
  assert (d2 = []) as -> by (rewrite B1, He; apply firstn_nil).
  cbn [len length Z.of_nat Z.eqb]. unfold len. cbn [length Z.of_nat Z.eqb].
  split; [congruence|]. split; [exact B4|]. rewrite B2, He, skipn_nil. symmetry. apply skipn_all2. lia.
Qed.

(* more turns change nothing *)
Lemma skip_gap_fuel k gap s : 0 <= st_pos s -> skip_gap (skip_fuel + k) gap s = skip_gap skip_fuel gap s.
Proof.
  intros Hp. unfold skip_fuel. cbn [Nat.add skip_gap].
  destruct (gap >? 0) eqn:Eg; [|reflexivity].
  destruct (s_read_spec gap s ltac:(lia) Hp) as (A1 & A2 & A3 & A4).
  destruct (s_read gap s) as [d s1]. cbn [fst snd] in A1, A2, A3, A4.
  assert (Hd : length d = Nat.min (Z.to_nat gap) (length (avail s))) by (rewrite A1; apply firstn_length).
  destruct (len d =? 0) eqn:Ed; [reflexivity|].
  destruct (gap - len d >? 0) eqn:Eg2; [|reflexivity].
  assert (Hall : (length (avail s) < Z.to_nat gap)%nat) by (unfold len in *; lia).
  assert (He : avail s1 = []) by (rewrite A2; apply skipn_all2; lia).
  destruct (s_read_spec (gap - len d) s1 ltac:(lia) A4) as (B1 & _).
  destruct (s_read (gap - len d) s1) as [d2 s2]. cbn [fst] in B1.
  assert (d2 = []) as -> by (rewrite B1, He; apply firstn_nil).
  reflexivity.
Qed.

Lemma finish_evlrs_spec c f rh rh1 s : openable f rh ->
  (can_seek c = true \/ (h_minor rh >= 4 -> h_nev rh > 0 -> skipn (Z.to_nat (evlr_gap rh)) (avail s) = skipn (Z.to_nat (h_evstart rh)) f)) ->
  st_bytes s = f -> 0 <= st_pos s ->
  (rh1 = rh \/ exists ev, evlrs_of f rh = Ok ev /\ rh1 = with_evlrs rh ev) ->
  match evlrs_of f rh with
  | Ok ev => exists s', finish_evlrs c rh1 s = (Ok (with_evlrs rh ev), s')
  | Err e => exists s', finish_evlrs c rh1 s = (Err e, s')
  end.
Proof.
  intros (Hd & Hok & Hcomp & Hps & Hle) Hcase Hb Hp [->|(ev & Hev & ->)].
  - destruct (dec_header_false_evlrs _ _ Hd) as [Hnone Hwn].
    assert (0 <= h_evstart rh) as Hst by (apply (header_int_nonneg f false); auto).
    unfold finish_evlrs. rewrite Hnone. cbn [is_none]. rewrite !andb_true_r.
    destruct (h_minor rh >=? 4) eqn:E4.
    + destruct (h_nev rh >? 0) eqn:En; cbn [andb].
      * destruct (s_can_seek_spec c s) as (A1 & _ & A3 & A4). destruct (s_can_seek c s) as [sk s1]. cbn [fst snd] in A1, A3, A4. subst sk.
        destruct (can_seek c) eqn:Hc.
        -- pose proof (hdr_read_evlrs_seekable c rh f s1 Hc ltac:(congruence) Hok ltac:(lia) Hst) as Hs.
           destruct (evlrs_of f rh) as [ev|er].
           ++ destruct Hs as (s' & E & _). exists s'. exact E.
           ++ destruct Hs as (s' & E & _). exists s'. exact E.
        -- destruct Hcase as [Hc'|Hadj]; [congruence|].
           specialize (Hadj ltac:(lia) ltac:(lia)).
           destruct (skip_gap_spec (evlr_gap rh) s1 ltac:(lia)) as (G1 & G2 & G3). cbv zeta in G1, G2, G3.
           set (sg := skip_gap skip_fuel (evlr_gap rh) s1) in *.
           destruct (sread_vlrs_spec (Z.to_nat (h_nev rh)) sg G2 ltac:(rewrite G1, A3, Hb; exact Hok)) as [V1 _].
           assert (avail s1 = avail s) as Hav by (unfold avail; now rewrite A3, A4).
           destruct (sread_vlrs (Z.to_nat (h_nev rh)) sg) as [r s2].
           cbn [fst] in V1. rewrite G3, Hav, Hadj in V1. rewrite V1.
           unfold evlrs_of. rewrite E4, En.
           destruct (dec_vlrs true (Z.to_nat (h_nev rh)) (skipn (Z.to_nat (h_evstart rh)) f)) as [[l rest]|er]; eexists; reflexivity.
      * unfold evlrs_of. rewrite E4, En. eexists. reflexivity.
    + cbn [andb]. unfold evlrs_of. rewrite E4. eexists. rewrite Hwn. reflexivity.
  - rewrite Hev. unfold finish_evlrs. change (h_minor (with_evlrs rh ev)) with (h_minor rh). cbn [rh_evlrs with_evlrs].
    destruct ev as [x|].
    + cbn [is_none]. rewrite !andb_false_r. eexists. reflexivity.
    + rewrite (evlrs_of_none _ _ Hev). cbn [andb]. eexists. reflexivity.
Qed.

Lemma read_file_spec f rh R tail : laid_out f rh ->
  Forall (fun r => length r = Z.to_nat (rh_psize rh)) R -> len R = Z.max 0 (h_count rh) ->
  skipn (Z.to_nat (rh_offset rh)) f = concat R ++ tail ->
  read_file f = match evlrs_of f rh with Ok ev => Ok (mkLF (with_evlrs rh ev) R) | Err e => Err e end.
Proof.
  intros (Hd & Hok & Hcomp & Hps & Hpp) HF HR Hsk.
  destruct (dec_header_offset _ _ _ Hd) as [_ Hoff].
  unfold read_file. rewrite (dec_header_true _ _ Hd).
  destruct (evlrs_of f rh) as [ev|er]; [|reflexivity].
  cbn [bind with_evlrs rh_fields rh_offset rh_psize]. fold (h_count rh).
  destruct (h_count rh <=? 0) eqn:Ec.
  - assert (R = []) as -> by (destruct R; [reflexivity|unfold len in HR; cbn [length] in HR; lia]). reflexivity.
  - rewrite (read_records_prefix f (rh_offset rh) (rh_psize rh) (h_count rh) R tail Hps ltac:(lia) ltac:(lia)).
    + cbn [bind]. replace (Z.to_nat (h_count rh)) with (length R) by (unfold len in HR; lia). now rewrite firstn_all.
    + eapply Forall_impl; [|exact HF]. intros r Hr. cbv beta in Hr. unfold len. lia.
    + exact Hsk.
Qed.

Lemma prefix_of_split {A} (R X : list A) n : R = X ++ skipn n R -> X = firstn n R.
Proof. intros H. apply (app_inv_tail (skipn n R)). rewrite firstn_skipn. symmetry. exact H. Qed.

(* once the file is open: the steps hand out a prefix of the stored records, read() the rest, and the source is left right
   after the last stored record for the EVLR part of read() *)
Lemma read_via_points c e steps f rh rh1 s1 R tail : openable f rh ->
  Forall (fun r => length r = Z.to_nat (rh_psize rh)) R -> len R <= Z.max 0 (h_count rh) ->
  (len R = Z.max 0 (h_count rh) \/ tail = []) ->
  skipn (Z.to_nat (rh_offset rh)) f = concat R ++ tail ->
  open_reader c e (mkSt f 0 []) = (Ok rh1, s1) -> st_bytes s1 = f -> st_pos s1 = rh_offset rh ->
  (rh1 = rh \/ exists ev, evlrs_of f rh = Ok ev /\ rh1 = with_evlrs rh ev) ->
  let m := steps_pr (S (length f)) (h_count rh) (len R) steps 0 in
  0 <= m <= Z.max 0 (h_count rh)
  /\ fst (consume_via c e steps f) = Ok (mkLF rh1 (firstn (Z.to_nat m) R))
  /\ exists s3, st_bytes s3 = f /\ 0 <= st_pos s3 /\ avail s3 = tail
    /\ fst (read_via c e steps f) = match fst (finish_evlrs c rh1 s3) with Ok rh' => Ok (mkLF rh' R) | Err er => Err er end.
Proof.
  intros Hop HF HR Hcase Hsk E1 B1 P1 Hrh1 m.
  pose proof Hop as (Hd & Hok & Hcomp & Hps & Hle).
  destruct (dec_header_offset _ _ _ Hd) as [_ Hoff].
  assert (rh_fields rh1 = rh_fields rh) as Hfields by (destruct Hrh1 as [->|(ev & _ & ->)]; reflexivity).
  assert (rh_psize rh1 = rh_psize rh) as Hps1 by (destruct Hrh1 as [->|(ev & _ & ->)]; reflexivity).
  assert (h_count rh1 = h_count rh) as Hc1 by (unfold h_count; now rewrite Hfields).
  assert (pinv f R tail 0 s1) as Hinv0.
  { split; [exact B1|]. split; [lia|]. unfold avail. rewrite B1, P1. exact Hsk. }
  pose proof (len_nonneg R) as HRn.
  destruct (run_steps_spec c rh1 f R tail (S (length f)) ltac:(lia) ltac:(now rewrite Hps1) ltac:(rewrite Hc1; lia)
              ltac:(now rewrite Hc1) steps 0 s1 ltac:(rewrite Hc1; lia) Hinv0) as (X & s2 & E2 & Hpr1 & Hinv1 & HX).
  cbv zeta in E2, Hpr1, Hinv1, HX. rewrite Hc1 in E2, Hpr1, Hinv1, HX. fold m in E2, Hpr1, Hinv1, HX.
  cbn [skipn Z.to_nat] in HX.
  pose proof (prefix_of_split _ _ _ HX) as HXm.
  split; [lia|]. split.
  - unfold consume_via. rewrite E1, E2. cbn [fst]. now rewrite HXm.
  - unfold read_via. rewrite E1, E2.
    destruct (read_points_spec c rh1 f R tail m (-1) s2 ltac:(lia) ltac:(now rewrite Hps1) ltac:(rewrite Hc1; lia)
                ltac:(now rewrite Hc1) ltac:(rewrite Hc1; lia) Hinv1) as (Y & s3 & E3 & Hinv2 & HY & _ & Hall).
    rewrite E3. specialize (Hall ltac:(lia)). rewrite Hall, Hc1 in Hinv2, HY.
    assert (skipn (Z.to_nat (Z.max 0 (h_count rh))) R = []) as Hend by (apply skipn_all2; unfold len in *; lia).
    rewrite Hend in HY. rewrite app_nil_r in HY.
    assert (X ++ Y = R) as HXY by (rewrite HX at 1; now rewrite HY).
    destruct Hinv2 as (B3 & P3 & A3). rewrite Hend in A3. cbn [concat app] in A3.
    exists s3. split; [exact B3|]. split; [exact P3|]. split; [exact A3|].
    destruct (finish_evlrs c rh1 s3) as [[rh'|er] s4]; cbn [fst]; [now rewrite HXY|reflexivity].
Qed.

(* whatever the capabilities, the EVLR timing and the way the reader is consumed: what is read is what read_file reads *)
Lemma adjacent_after_points rh : evlrs_adjacent rh -> evlrs_after_points rh.
Proof. intros H H4 Hn. rewrite (H H4 Hn). lia. Qed.

(* the gap the source computes, for a header that was decoded: the count is not negative *)
Lemma evlr_gap_val f b rh : dec_header f b = Ok rh -> bytes_ok f = true ->
  evlr_gap rh = h_evstart rh - (rh_offset rh + Z.max 0 (h_count rh) * rh_psize rh).
Proof.
  intros Hd Hok. unfold evlr_gap, gen_evlr_gap.
  assert (0 <= h_count rh) by (apply (header_int_nonneg f b); auto). rewrite Z.max_r by lia. lia.
Qed.

Theorem read_via_spec_gap : forall c e steps f rh, laid_out f rh -> (can_seek c = true \/ evlrs_after_points rh) ->
  fst (read_via c e steps f) = read_file f.
Proof.
  intros c e steps f rh Hlo Hcase. pose proof (laid_out_openable f rh Hlo) as Hop.
  destruct (laid_out_decomp f rh Hlo) as (R & tail & HF & HR & Hsk & Htail).
  rewrite (read_file_spec f rh R tail Hlo HF HR Hsk).
  destruct (open_reader_spec c e f rh Hop) as (s1 & B1 & [(rh1 & E1 & P1 & Hrh1)|(er & E1 & Hev)]).
  - destruct (read_via_points c e steps f rh rh1 s1 R tail Hop HF ltac:(lia) (or_introl HR) Hsk E1 B1 P1 Hrh1) as (_ & _ & s3 & B3 & P3 & Ha3 & ->).
    assert (can_seek c = true \/ (h_minor rh >= 4 -> h_nev rh > 0 ->
              skipn (Z.to_nat (evlr_gap rh)) (avail s3) = skipn (Z.to_nat (h_evstart rh)) f)) as Hcase'.
    { destruct Hcase as [H|Haft]; [left; exact H|right]. intros H4 Hn. specialize (Haft H4 Hn).
      pose proof Hlo as (Hd & Hok & _ & Hps & _). destruct (dec_header_offset _ _ _ Hd) as [_ Hoff].
      rewrite Ha3, Htail, (evlr_gap_val f false rh Hd Hok).
      rewrite skipn_skipn_Z by nia. f_equal. f_equal. lia. }
    pose proof (finish_evlrs_spec c f rh rh1 s3 Hop Hcase' B3 P3 Hrh1) as Hfin.
    destruct (evlrs_of f rh) as [ev|er]; destruct Hfin as (s4 & E4); rewrite E4; reflexivity.
  - unfold read_via. rewrite E1, Hev. reflexivity.
Qed.
Print Assumptions read_via_spec_gap.

Theorem read_via_spec : forall c e steps f rh, laid_out f rh -> (can_seek c = true \/ evlrs_adjacent rh) ->
  fst (read_via c e steps f) = read_file f.
Proof.
  intros c e steps f rh Hlo [H|H]; apply (read_via_spec_gap c e steps f rh Hlo); [left; exact H|right; now apply adjacent_after_points].
Qed.
Print Assumptions read_via_spec.

(* a file cut inside its point block after a whole number of records: the stored records *)
Definition stored_recs (f : list Z) (rh : rheader) : list (list Z) :=
  let data := skipn (Z.to_nat (rh_offset rh)) f in chunks_of (length data) (Z.to_nat (rh_psize rh)) data.

(* such a file reads the same through every source, however it is consumed: the header, the stored records, and whatever
   EVLRs are found where the header says (a source that cannot seek looks at the end of the data: the same place when the
   announced position is not inside the file) *)
Theorem truncated_read : forall c e steps f rh stored, truncated f rh stored ->
  (can_seek c = true \/ (h_minor rh >= 4 -> h_nev rh > 0 -> len f <= h_evstart rh)) ->
  fst (read_via c e steps f)
  = match evlrs_of f rh with Ok ev => Ok (mkLF (with_evlrs rh ev) (stored_recs f rh)) | Err er => Err er end
  /\ len (stored_recs f rh) = stored.
Proof.
  intros c e steps f rh stored (Hd & Hok & Hcomp & Hps & Hst & Hlen) Hcase.
  destruct (dec_header_offset _ _ _ Hd) as [_ Hoff].
  assert (openable f rh) as Hop by (repeat split; try assumption; nia).
  set (R := stored_recs f rh).
  set (d := skipn (Z.to_nat (rh_offset rh)) f).
  assert (length d = (Z.to_nat stored * Z.to_nat (rh_psize rh))%nat) as Hd_len.
  { unfold d. rewrite skipn_length. unfold len in Hlen. nia. }
  destruct (chunks_concat (Z.to_nat (rh_psize rh)) ltac:(lia) (Z.to_nat stored) d (length d) Hd_len ltac:(nia)) as (C1 & C2 & C3).
  change (chunks_of (length d) (Z.to_nat (rh_psize rh)) d) with R in C1, C2, C3.
  assert (len R = stored) as HR by (unfold len; rewrite C3; lia).
  split; [|exact HR].
  assert (skipn (Z.to_nat (rh_offset rh)) f = concat R ++ []) as Hsk by (rewrite app_nil_r, C1; reflexivity).
  destruct (open_reader_spec c e f rh Hop) as (s1 & B1 & [(rh1 & E1 & P1 & Hrh1)|(er & E1 & Hev)]).
  - destruct (read_via_points c e steps f rh rh1 s1 R [] Hop C2 ltac:(lia) (or_intror eq_refl) Hsk E1 B1 P1 Hrh1) as (_ & _ & s3 & B3 & P3 & Ha3 & ->).
    assert (can_seek c = true \/ (h_minor rh >= 4 -> h_nev rh > 0 ->
              skipn (Z.to_nat (evlr_gap rh)) (avail s3) = skipn (Z.to_nat (h_evstart rh)) f)) as Hcase'.
    { destruct Hcase as [H|Hend]; [left; exact H|right]. intros H4 Hn. rewrite Ha3, skipn_nil. symmetry. apply skipn_all2.
      specialize (Hend H4 Hn). unfold len in Hend. lia. }
    pose proof (finish_evlrs_spec c f rh rh1 s3 Hop Hcase' B3 P3 Hrh1) as Hfin.
    destruct (evlrs_of f rh) as [ev|er]; destruct Hfin as (s4 & E4); rewrite E4; reflexivity.
  - unfold read_via. rewrite E1, Hev. reflexivity.
Qed.
Print Assumptions truncated_read.

Theorem truncated_independent : forall c c' e e' steps steps' f rh stored, truncated f rh stored ->
  (h_minor rh >= 4 -> h_nev rh > 0 -> len f <= h_evstart rh) ->
  fst (read_via c e steps f) = fst (read_via c' e' steps' f).
Proof.
  intros c c' e e' steps steps' f rh stored Ht Hend.
  destruct (truncated_read c e steps f rh stored Ht (or_intror Hend)) as [-> _].
  destruct (truncated_read c' e' steps' f rh stored Ht (or_intror Hend)) as [-> _]. reflexivity.
Qed.
Print Assumptions truncated_independent.

(* the header the reader shows right after laspy.open, before anything is read: the file's, with the EVLRs loaded exactly
   when that was asked for and the source can seek (or there is none to load), left for read() (None) otherwise *)
Definition opened_header (c : caps) (e : bool) (f : list Z) (rh : rheader) : result rheader :=
  if loads_at_open c e rh then match evlrs_of f rh with Ok ev => Ok (with_evlrs rh ev) | Err er => Err er end else Ok rh.

Theorem open_stage : forall f rh c e, laid_out f rh -> fst (open_via c e f) = opened_header c e f rh.
Proof.
  intros f rh c e Hlo. apply laid_out_openable in Hlo. unfold open_via, opened_header.
  destruct (open_reader_exact c e f rh Hlo) as (s1 & B & [(rh1 & E & P & H)|(er & E & H & L)]); rewrite E; cbn [fst].
  - destruct (loads_at_open c e rh); [destruct H as (ev & -> & ->); reflexivity|now rewrite H].
  - now rewrite L, H.
Qed.
Print Assumptions open_stage.

Theorem open_stage_independent : forall f rh c c' e, laid_out f rh ->
  (needs_evlrs rh = false \/ can_seek c = can_seek c') ->
  fst (open_via c e f) = fst (open_via c' e f).
Proof.
  intros f rh c c' e Hlo H. rewrite (open_stage f rh c e Hlo), (open_stage f rh c' e Hlo). unfold opened_header.
  assert (loads_at_open c e rh = loads_at_open c' e rh) as ->; [|reflexivity].
  unfold loads_at_open. destruct H as [->| ->]; [cbn [negb]; now rewrite !orb_true_r|reflexivity].
Qed.
Print Assumptions open_stage_independent.

(* the reader BEFORE read(), however it was consumed (only inspected, chunk iterators, read_points): it shows the header it
   showed when it was opened, and has handed out the first m records, m depending on the steps and the point count only *)
Theorem before_read : forall f rh steps, laid_out f rh ->
  exists m R, 0 <= m <= Z.max 0 (h_count rh) /\ read_file f = match evlrs_of f rh with Ok ev => Ok (mkLF (with_evlrs rh ev) R) | Err er => Err er end
    /\ forall c e, fst (consume_via c e steps f)
                   = match opened_header c e f rh with Ok rh1 => Ok (mkLF rh1 (firstn (Z.to_nat m) R)) | Err er => Err er end.
Proof.
  intros f rh steps Hlo. pose proof (laid_out_openable f rh Hlo) as Hop.
  destruct (laid_out_decomp f rh Hlo) as (R & tail & HF & HR & Hsk & Htail).
  exists (steps_pr (S (length f)) (h_count rh) (len R) steps 0), R.
  assert (forall c e, 0 <= steps_pr (S (length f)) (h_count rh) (len R) steps 0 <= Z.max 0 (h_count rh) /\
            fst (consume_via c e steps f)
            = match opened_header c e f rh with Ok rh1 => Ok (mkLF rh1 (firstn (Z.to_nat (steps_pr (S (length f)) (h_count rh) (len R) steps 0)) R)) | Err er => Err er end) as Hall.
  { intros c e. unfold opened_header.
    destruct (open_reader_exact c e f rh Hop) as (s1 & B1 & [(rh1 & E1 & P1 & H)|(er & E1 & Hev & L)]).
    - assert (rh1 = rh \/ exists ev, evlrs_of f rh = Ok ev /\ rh1 = with_evlrs rh ev) as Hrh1
        by (destruct (loads_at_open c e rh); [right; exact H|left; exact H]).
      destruct (read_via_points c e steps f rh rh1 s1 R tail Hop HF ltac:(lia) (or_introl HR) Hsk E1 B1 P1 Hrh1) as (Hm & Hc & _).
      split; [exact Hm|]. rewrite Hc.
      destruct (loads_at_open c e rh); [destruct H as (ev & -> & ->); reflexivity|now rewrite H].
    - split.
      + destruct (open_reader_exact (mkCaps false false false) false f rh Hop) as (s1' & B1' & [(rh1 & E1' & P1' & H)|(er' & _ & _ & L')]);
          [|unfold loads_at_open in L'; discriminate].
        assert (rh1 = rh \/ exists ev, evlrs_of f rh = Ok ev /\ rh1 = with_evlrs rh ev) as Hrh1 by (left; exact H).
        destruct (read_via_points _ false steps f rh rh1 s1' R tail Hop HF ltac:(lia) (or_introl HR) Hsk E1' B1' P1' Hrh1) as (Hm & _). exact Hm.
      + unfold consume_via. rewrite E1, L, Hev. reflexivity. }
  split; [apply (Hall (mkCaps false false false) false)|].
  split; [apply (read_file_spec f rh R tail Hlo HF HR Hsk)|].
  intros c e. apply Hall.
Qed.
Print Assumptions before_read.

(* the result does not depend on the access path *)
Theorem access_path_independent : forall f rh c c' e e' k k', laid_out f rh -> evlrs_adjacent rh ->
  fst (read_via c e k f) = fst (read_via c' e' k' f).
Proof.
  intros f rh c c' e e' k k' Hlo Hadj.
  rewrite (read_via_spec c e k f rh Hlo (or_intror Hadj)), (read_via_spec c' e' k' f rh Hlo (or_intror Hadj)). reflexivity.
Qed.
Print Assumptions access_path_independent.

(* ... also when bytes lie between the last point and the first EVLR: a source that cannot seek reads and drops them *)
Theorem access_path_independent_gap : forall f rh c c' e e' k k', laid_out f rh -> evlrs_after_points rh ->
  fst (read_via c e k f) = fst (read_via c' e' k' f).
Proof.
  intros f rh c c' e e' k k' Hlo Haft.
  rewrite (read_via_spec_gap c e k f rh Hlo (or_intror Haft)), (read_via_spec_gap c' e' k' f rh Hlo (or_intror Haft)). reflexivity.
Qed.
Print Assumptions access_path_independent_gap.

(* the gap as the source computes it, and that two turns of its skipping loop are all the sources of the model need *)
Lemma gap_expression : forall evstart offset count psize, gen_evlr_gap evstart offset count psize = evstart - (offset + count * psize).
Proof. reflexivity. Qed.
Lemma gap_skipped : forall k gap s, 0 <= st_pos s ->
  skip_gap (skip_fuel + k) gap s = skip_gap skip_fuel gap s
  /\ st_bytes (skip_gap skip_fuel gap s) = st_bytes s
  /\ avail (skip_gap skip_fuel gap s) = skipn (Z.to_nat gap) (avail s).
Proof.
  intros k gap s Hp. split; [now apply skip_gap_fuel|]. destruct (skip_gap_spec gap s Hp) as (A & _ & B). split; assumption.
Qed.

(* a source that can seek finds the EVLRs wherever they are (a gap after the last point is fine) *)
Theorem seekable_any_layout : forall f rh c c' e e' k k', laid_out f rh -> can_seek c = true -> can_seek c' = true ->
  fst (read_via c e k f) = fst (read_via c' e' k' f) /\ fst (read_via c e k f) = read_file f.
Proof.
  intros f rh c c' e e' k k' Hlo Hc Hc'.
  rewrite (read_via_spec c e k f rh Hlo (or_introl Hc)), (read_via_spec c' e' k' f rh Hlo (or_introl Hc')). split; reflexivity.
Qed.
Print Assumptions seekable_any_layout.

(* a source that offers read() and nothing else: the file's header, VLRs, EVLRs and records like every other source, and
   its read method is all that was ever called *)
Definition only_reads (l : list sop) : bool := forallb (fun o => match o with ORead _ => true | _ => false end) l.

Lemma offered_bare c l : c_has_seekable c = false -> c_readinto c = false -> only_offered c l = true -> only_reads l = true.
Proof.
  intros Hs Hr. unfold only_offered, only_reads. induction l as [|o l IH]; intros H; [reflexivity|].
  cbn [forallb] in *. apply andb_true_iff in H as [Ho Hl]. rewrite (IH Hl), andb_true_r.
  destruct o; cbn [offered] in Ho; unfold can_seek in Ho; rewrite ?Hs, ?Hr in Ho; cbn in Ho; congruence.
Qed.

Theorem bare_source_reads_the_file : forall c e steps f rh, laid_out f rh -> evlrs_after_points rh ->
  c_has_seekable c = false -> c_readinto c = false ->
  fst (read_via c e steps f) = read_file f /\ only_reads (snd (read_via c e steps f)) = true
  /\ only_reads (snd (consume_via c e steps f)) = true.
Proof.
  intros c e steps f rh Hlo Hadj Hs Hr. split; [apply (read_via_spec_gap c e steps f rh Hlo (or_intror Hadj))|].
  split; apply (offered_bare c); auto using only_what_is_offered, only_what_is_offered_consume.
Qed.
Print Assumptions bare_source_reads_the_file.

(* ------------------------------------------------------------------------------------ *)
(* G. memory map                                                                         *)
(* ------------------------------------------------------------------------------------ *)
Theorem read_mmap_spec : forall f rh, laid_out f rh ->
  (h_minor rh >= 4 -> h_nev rh > 0 -> h_evstart rh <= len f) ->
  read_mmap f = read_file f.
Proof.
  intros f rh Hlo Hin. pose proof Hlo as (Hd & Hok & Hcomp & Hps & Hpp).
  destruct (dec_header_offset _ _ _ Hd) as [_ Hoff]. destruct (dec_header_pre _ _ _ Hd) as [Hl _].
  destruct (point_recs_spec f rh Hps ltac:(lia) Hpp) as (HF & HR & Hsk).
  rewrite (read_file_spec f rh (point_recs f rh) _ Hlo HF HR Hsk).
  unfold read_mmap. destruct (length f =? 0)%nat eqn:E0; [apply Nat.eqb_eq in E0; lia|].
  rewrite Hd. cbn [bind]. rewrite Hcomp. unfold evlrs_of.
  assert ((len f <? rh_offset rh + Z.max 0 (h_count rh) * rh_psize rh) = false) as Hpp' by (unfold points_present in Hpp; lia).
  destruct (h_minor rh >=? 4) eqn:E4; [|cbn [bind]; rewrite Hpp'; reflexivity].
  destruct (h_nev rh >? 0) eqn:En; [|cbn [bind]; rewrite Hpp'; reflexivity].
  specialize (Hin ltac:(lia) ltac:(lia)). destruct (len f <? h_evstart rh) eqn:Es; [lia|].
  destruct (dec_vlrs true (Z.to_nat (h_nev rh)) (skipn (Z.to_nat (h_evstart rh)) f)) as [[l r]|er]; cbn [bind]; [|reflexivity].
  rewrite Hpp'. reflexivity.
Qed.
Print Assumptions read_mmap_spec.

Lemma adjacent_in_file f rh : laid_out f rh -> evlrs_adjacent rh -> h_minor rh >= 4 -> h_nev rh > 0 -> h_evstart rh <= len f.
Proof. intros (_ & _ & _ & _ & Hpp) Hadj H4 Hn. rewrite (Hadj H4 Hn). exact Hpp. Qed.

Theorem mmap_same_as_streams : forall f rh c e k, laid_out f rh -> evlrs_adjacent rh ->
  read_mmap f = fst (read_via c e k f).
Proof.
  intros f rh c e k Hlo Hadj. rewrite (read_via_spec c e k f rh Hlo (or_intror Hadj)).
  apply (read_mmap_spec f rh Hlo). now apply adjacent_in_file.
Qed.

Theorem mmap_same_as_streams_gap : forall f rh c e k, laid_out f rh -> evlrs_after_points rh ->
  (h_minor rh >= 4 -> h_nev rh > 0 -> h_evstart rh <= len f) ->
  read_mmap f = fst (read_via c e k f).
Proof.
  intros f rh c e k Hlo Haft Hin. rewrite (read_via_spec_gap c e k f rh Hlo (or_intror Haft)).
  apply (read_mmap_spec f rh Hlo Hin).
Qed.
Print Assumptions mmap_same_as_streams_gap.
Print Assumptions mmap_same_as_streams.

(* ---- write_at inside a file ---- *)
Lemma write_at_in (f : list Z) p bs : 0 <= p -> p + len bs <= len f ->
  write_at f p bs = firstn (Z.to_nat p) f ++ bs ++ skipn (Z.to_nat p + length bs) f.
Proof.
  intros Hp Hl. unfold write_at. cbv zeta.
  replace (Z.to_nat p - length f)%nat with 0%nat by (unfold len in Hl; lia). reflexivity.
Qed.

Lemma write_at_len (f : list Z) p bs : 0 <= p -> p + len bs <= len f -> len (write_at f p bs) = len f.
Proof.
  intros Hp Hl. rewrite write_at_in by assumption. unfold len in *.
  rewrite !app_length, firstn_length, skipn_length. lia.
Qed.

Lemma nth_firstn_lt {A} (l : list A) n j d : (j < n)%nat -> nth j (firstn n l) d = nth j l d.
Proof.
  revert n j. induction l as [|x l IH]; intros n j H; [now rewrite firstn_nil|].
  destruct n; [lia|]. destruct j; [reflexivity|]. cbn [firstn nth]. apply IH. lia.
Qed.

Lemma nth_skipn_add {A} (l : list A) n j d : nth j (skipn n l) d = nth (n + j) l d.
Proof.
  revert n. induction l as [|x l IH]; intros n; [rewrite skipn_nil; now destruct j, n|].
  destruct n; [reflexivity|]. cbn [skipn Nat.add nth]. apply IH.
Qed.

Lemma write_at_outside (f : list Z) p bs j : 0 <= p -> p + len bs <= len f ->
  (j < Z.to_nat p \/ Z.to_nat (p + len bs) <= j)%nat -> nth j (write_at f p bs) 0 = nth j f 0.
Proof.
  intros Hp Hl Hj. rewrite write_at_in by assumption. unfold len in *.
  assert (length (firstn (Z.to_nat p) f) = Z.to_nat p) as L1 by (rewrite firstn_length; lia).
  destruct Hj as [Hj|Hj].
  - rewrite app_nth1 by lia. now apply nth_firstn_lt.
  - rewrite app_nth2 by lia. rewrite app_nth2 by lia. rewrite nth_skipn_add. f_equal. lia.
Qed.

Lemma write_at_stored (f : list Z) p bs : 0 <= p -> p + len bs <= len f ->
  firstn (length bs) (skipn (Z.to_nat p) (write_at f p bs)) = bs.
Proof.
  intros Hp Hl. rewrite write_at_in by assumption. unfold len in *.
  rewrite skipn_app_exact by (rewrite firstn_length; lia). now apply firstn_app_exact.
Qed.

Lemma write_at_app_skip (a b : list Z) q bs : 0 <= q -> q + len bs <= len b ->
  write_at (a ++ b) (len a + q) bs = a ++ write_at b q bs.
Proof.
  intros Hq Hl. pose proof (len_nonneg a) as Ha.
  rewrite write_at_in by (rewrite ?len_app; lia). rewrite (write_at_in b) by assumption.
  unfold len in *. replace (Z.to_nat (Z.of_nat (length a) + q)) with (length a + Z.to_nat q)%nat by lia.
  rewrite firstn_app_2, <- app_assoc. do 2 f_equal.
  rewrite skipn_app. rewrite skipn_past by lia. cbn [app]. f_equal. f_equal. lia.
Qed.

Lemma write_at_app_keep (a t : list Z) q bs : 0 <= q -> q + len bs <= len a ->
  write_at (a ++ t) q bs = write_at a q bs ++ t.
Proof.
  intros Hq Hl. rewrite write_at_in by (rewrite ?len_app; pose proof (len_nonneg t); lia).
  rewrite (write_at_in a) by assumption. unfold len in *.
  rewrite firstn_app, skipn_app.
  replace (Z.to_nat q - length a)%nat with 0%nat by lia.
  replace (Z.to_nat q + length bs - length a)%nat with 0%nat by lia.
  cbn [firstn skipn]. rewrite app_nil_r, <- !app_assoc. reflexivity.
Qed.

Lemma skipn_app_ge {A} n (a b : list A) : (length a <= n)%nat -> skipn n (a ++ b) = skipn (n - length a) b.
Proof. intros H. rewrite skipn_app, skipn_past by exact H. reflexivity. Qed.

Lemma split_nth {A} (l : list A) i d : (i < length l)%nat -> l = firstn i l ++ nth i l d :: skipn (S i) l.
Proof.
  revert i. induction l as [|x l IH]; intros i H; [cbn in H; lia|].
  destruct i; [reflexivity|]. cbn [firstn nth skipn app]. f_equal. apply IH. cbn in H. lia.
Qed.

Lemma nth_mid_other {A} (a b : list A) x y k d : k <> length a -> nth k (a ++ x :: b) d = nth k (a ++ y :: b) d.
Proof.
  intros Hk. destruct (Nat.lt_ge_cases k (length a)) as [H|H].
  - now rewrite !app_nth1 by exact H.
  - rewrite !app_nth2 by exact H. destruct (k - length a)%nat eqn:E; [lia|reflexivity].
Qed.

Lemma hdr_stream_is_prefix f b rh : dec_header f b = Ok rh -> hdr_stream f = firstn (Z.to_nat (rh_offset rh)) f.
Proof.
  intros H. destruct (dec_header_offset _ _ _ H) as [Ho Hge]. unfold hdr_stream. cbv zeta.
  rewrite raw_offset_bytes, <- Ho. destruct (rh_offset rh <? 227) eqn:E; [lia|reflexivity].
Qed.

Lemma firstn_app_le' {A} n (a b : list A) : (n <= length a)%nat -> firstn n (a ++ b) = firstn n a.
Proof. intros H. rewrite firstn_app. replace (n - length a)%nat with 0%nat by lia. cbn. apply app_nil_r. Qed.

(* a file that keeps its first offset_to_point_data bytes keeps its header *)
Lemma dec_header_same_prefix f f' rh : dec_header f false = Ok rh -> rh_offset rh <= len f ->
  firstn (Z.to_nat (rh_offset rh)) f' = firstn (Z.to_nat (rh_offset rh)) f -> dec_header f' false = Ok rh.
Proof.
  intros Hd Hle Hpre. destruct (dec_header_offset _ _ _ Hd) as [Ho Hge]. destruct (dec_header_pre _ _ _ Hd) as [Hl _].
  assert (length (firstn (Z.to_nat (rh_offset rh)) f) = Z.to_nat (rh_offset rh)) as L by (rewrite firstn_length; unfold len in Hle; lia).
  assert (Z.to_nat (rh_offset rh) <= length f')%nat as Hl'.
  { rewrite <- Hpre in L. rewrite firstn_length in L. lia. }
  assert (forall n, (n <= Z.to_nat (rh_offset rh))%nat -> firstn n f' = firstn n f) as Hsame.
  { intros n Hn. replace n with (Nat.min n (Z.to_nat (rh_offset rh))) by lia. rewrite <- !firstn_firstn. now rewrite Hpre. }
  assert (hdr_stream f' = hdr_stream f) as Hs.
  { rewrite (hdr_stream_is_prefix f false rh Hd). unfold hdr_stream. cbv zeta.
    rewrite (Hsame 227%nat) by lia. rewrite raw_offset_bytes, <- Ho. destruct (rh_offset rh <? 227) eqn:E; [lia|exact Hpre]. }
  rewrite <- (dec_header_prefetched f') by lia. rewrite Hs, (dec_header_prefetched f) by exact Hl. exact Hd.
Qed.

(* an assignment through the memory map: where the file changes, and what a later read shows *)
Theorem mmap_set_local : forall f rh i o bs, laid_out f rh ->
  0 <= i < h_count rh -> 0 <= o -> o + len bs <= rh_psize rh -> bytes_ok bs = true ->
  (h_minor rh >= 4 -> h_nev rh > 0 -> rh_offset rh + h_count rh * rh_psize rh <= h_evstart rh) ->
  let p := rh_offset rh + i * rh_psize rh + o in
  let f' := mmap_set f (rh_offset rh) (rh_psize rh) i o bs in
  len f' = len f
  /\ (forall j, (j < Z.to_nat p \/ Z.to_nat (p + len bs) <= j)%nat -> nth j f' 0 = nth j f 0)
  /\ firstn (length bs) (skipn (Z.to_nat p) f') = bs
  /\ laid_out f' rh
  /\ (forall lf, read_file f = Ok lf ->
        exists lf', read_file f' = Ok lf' /\ lf_h lf' = lf_h lf
          /\ length (lf_points lf') = length (lf_points lf)
          /\ (forall k, k <> Z.to_nat i -> nth k (lf_points lf') [] = nth k (lf_points lf) [])
          /\ nth (Z.to_nat i) (lf_points lf') [] = write_at (nth (Z.to_nat i) (lf_points lf) []) o bs).
Proof.
  intros f rh i o bs Hlo Hi Ho Hw Hbs Hev p f'.
  pose proof Hlo as (Hd & Hok & Hcomp & Hps & Hpp). unfold points_present in Hpp.
  destruct (dec_header_offset _ _ _ Hd) as [_ Hoff].
  pose proof (len_nonneg bs) as Hbl.
  assert (Z.max 0 (h_count rh) = h_count rh) as Hmax by lia. rewrite Hmax in Hpp.
  assert (0 <= p /\ p + len bs <= len f) as [Hp0 Hp1] by (unfold p; nia).
  assert (f' = write_at f p bs) as Hf' by reflexivity.
  split; [rewrite Hf'; now apply write_at_len|].
  split; [intros j Hj; rewrite Hf'; now apply write_at_outside|].
  split; [rewrite Hf'; now apply write_at_stored|].
  (* the structure of the file around record i *)
  destruct (point_recs_spec f rh Hps ltac:(lia) ltac:(unfold points_present; lia)) as (HF & HR & Hsk).
  set (R := point_recs f rh) in *. set (tail := skipn (Z.to_nat (rh_offset rh + Z.max 0 (h_count rh) * rh_psize rh)) f) in *.
  set (H0 := firstn (Z.to_nat (rh_offset rh)) f).
  assert (length H0 = Z.to_nat (rh_offset rh)) as LH by (unfold H0; rewrite firstn_length; unfold len in Hpp; nia).
  assert (f = H0 ++ concat R ++ tail) as Hf by (unfold H0; rewrite <- Hsk; now rewrite firstn_skipn).
  set (ii := Z.to_nat i). assert (ii < length R)%nat as Hii by (unfold ii, len in *; lia).
  set (R1 := firstn ii R). set (r := nth ii R []). set (R2 := skipn (S ii) R).
  assert (R = R1 ++ r :: R2) as HRs by (apply split_nth; exact Hii).
  assert (Forall (fun x => length x = Z.to_nat (rh_psize rh)) R1) as HF1 by (now apply Forall_firstn).
  assert (length r = Z.to_nat (rh_psize rh)) as Lr.
  { rewrite Forall_forall in HF. apply HF. apply nth_In. exact Hii. }
  assert (length (concat R1) = (ii * Z.to_nat (rh_psize rh))%nat) as LR1.
  { rewrite (concat_length_const _ _ HF1). unfold R1. rewrite firstn_length. lia. }
  set (r' := write_at r o bs). set (R' := R1 ++ r' :: R2).
  assert (o + len bs <= len r) as Hwr by (unfold len in *; lia).
  assert (len r' = len r) as Lr' by (apply write_at_len; assumption).
  assert (f' = H0 ++ concat R' ++ tail) as Hf'2.
  { rewrite Hf', Hf. unfold R'. rewrite HRs, !concat_app. cbn [concat]. rewrite <- !app_assoc.
    replace p with (len H0 + (len (concat R1) + o)) by (unfold p, len; rewrite LH, LR1; unfold ii; rewrite Nat2Z.inj_mul, !Z2Nat.id by lia; lia).
    rewrite write_at_app_skip; [|pose proof (len_nonneg (concat R1)); lia|].
    2:{ rewrite !len_app. pose proof (len_nonneg (concat R2)). pose proof (len_nonneg tail). pose proof (len_nonneg (concat R1)). lia. }
    f_equal. rewrite write_at_app_skip; [|lia|].
    2:{ rewrite !len_app. pose proof (len_nonneg (concat R2)). pose proof (len_nonneg tail). lia. }
    f_equal. rewrite write_at_app_keep by assumption. reflexivity. }
  assert (len f' = len f) as Hlen by (rewrite Hf'; now apply write_at_len).
  (* header, layout *)
  assert (dec_header f' false = Ok rh) as Hd'.
  { apply (dec_header_same_prefix f f' rh Hd); [nia|]. fold H0. rewrite Hf'2. apply firstn_app_exact. exact LH. }
  assert (bytes_ok f' = true) as Hok'.
  { rewrite Hf'. rewrite write_at_in by assumption. rewrite !bytes_ok_app, Hbs, bytes_ok_firstn, bytes_ok_skipn by exact Hok. reflexivity. }
  assert (laid_out f' rh) as Hlo'.
  { repeat split; try assumption. unfold points_present. rewrite Hmax, Hlen. exact Hpp. }
  split; [exact Hlo'|].
  (* what is read *)
  assert (Forall (fun x => length x = Z.to_nat (rh_psize rh)) R') as HF'.
  { unfold R'. rewrite HRs in HF. apply Forall_app in HF as [A B]. apply Forall_app. split; [exact A|].
    inversion B as [|x xs Hx Hxs]. constructor; [unfold len in Lr'; lia|exact Hxs]. }
  assert (len R' = Z.max 0 (h_count rh)) as HR'.
  { rewrite <- HR. unfold R', len. rewrite HRs, !app_length. reflexivity. }
  assert (skipn (Z.to_nat (rh_offset rh)) f' = concat R' ++ tail) as Hsk' by (rewrite Hf'2; now apply skipn_app_exact).
  assert (evlrs_of f' rh = evlrs_of f rh) as Hevs.
  { unfold evlrs_of. destruct (h_minor rh >=? 4) eqn:E4; [|reflexivity]. destruct (h_nev rh >? 0) eqn:En; [|reflexivity].
    specialize (Hev ltac:(lia) ltac:(lia)).
    assert (skipn (Z.to_nat (h_evstart rh)) f' = skipn (Z.to_nat (h_evstart rh)) f) as ->; [|reflexivity].
    rewrite Hf'2, Hf, !app_assoc.
    assert (length (H0 ++ concat R') = length (H0 ++ concat R)) as LL.
    { rewrite !app_length. f_equal. rewrite (concat_length_const _ _ HF'), (concat_length_const _ _ HF). unfold len in HR', HR. lia. }
    assert (length (H0 ++ concat R) <= Z.to_nat (h_evstart rh))%nat as Lge.
    { rewrite app_length, LH, (concat_length_const _ _ HF). unfold len in HR. nia. }
    rewrite (skipn_app_ge _ (H0 ++ concat R') tail) by (rewrite LL; exact Lge).
    rewrite (skipn_app_ge _ (H0 ++ concat R) tail) by exact Lge. now rewrite LL. }
  intros lf Hrf.
  rewrite (read_file_spec f rh R tail Hlo HF HR Hsk) in Hrf.
  rewrite (read_file_spec f' rh R' tail Hlo' HF' HR' Hsk'), Hevs.
  destruct (evlrs_of f rh) as [ev|er]; [|discriminate]. injection Hrf as <-.
  eexists. split; [reflexivity|]. cbn [lf_h lf_points]. split; [reflexivity|].
  split; [unfold R'; rewrite HRs, !app_length; reflexivity|].
  assert (length R1 = ii) as L1 by (unfold R1; rewrite firstn_length; lia).
  split.
  - intros k Hk. unfold R'. rewrite HRs. apply nth_mid_other. lia.
  - unfold R'. fold ii. change (nth ii R []) with r. rewrite <- L1, nth_middle. reflexivity.
Qed.
Print Assumptions mmap_set_local.

(* assigning a whole dimension through the map (las.<dim> = values, las[<dim>] = values, las.<dim>[:] = values): one value
   per record from record i on. The file keeps its length, changes nowhere outside the dimension's bytes of those records,
   is still laid out, and a subsequent read shows the same header/VLRs/EVLRs and every record with its value stored *)
Lemma mmap_set_from_local : forall vals f rh i o w, laid_out f rh ->
  0 <= i -> i + len vals <= h_count rh -> 0 <= o -> o + w <= rh_psize rh ->
  Forall (fun bs => len bs = w /\ bytes_ok bs = true) vals ->
  (h_minor rh >= 4 -> h_nev rh > 0 -> rh_offset rh + h_count rh * rh_psize rh <= h_evstart rh) ->
  let f' := mmap_set_from f (rh_offset rh) (rh_psize rh) i o vals in
  len f' = len f /\ laid_out f' rh
  /\ (forall j, (forall t, i <= t < i + len vals ->
                   (j < Z.to_nat (rh_offset rh + t * rh_psize rh + o) \/ Z.to_nat (rh_offset rh + t * rh_psize rh + o + w) <= j)%nat) ->
                 nth j f' 0 = nth j f 0)
  /\ (forall lf, read_file f = Ok lf ->
        exists lf', read_file f' = Ok lf' /\ lf_h lf' = lf_h lf /\ length (lf_points lf') = length (lf_points lf)
          /\ (forall k, (k < Z.to_nat i \/ Z.to_nat i + length vals <= k)%nat -> nth k (lf_points lf') [] = nth k (lf_points lf) [])
          /\ (forall t, (t < length vals)%nat ->
                 nth (Z.to_nat i + t) (lf_points lf') [] = write_at (nth (Z.to_nat i + t) (lf_points lf) []) o (nth t vals []))).
Proof.
  induction vals as [|bs more IH]; intros f rh i o w Hlo Hi Hn Ho Hw HF Hev f'.
  - cbn in f'. subst f'. split; [reflexivity|]. split; [exact Hlo|]. split; [reflexivity|].
    intros lf Hrf. exists lf. split; [exact Hrf|]. split; [reflexivity|]. split; [reflexivity|]. split; [reflexivity|].
    intros t Ht. cbn in Ht. lia.
  - inversion HF as [|x xs [Hbl Hbo] HF']; subst x xs.
    assert (len (bs :: more) = 1 + len more) as Hlen by (unfold len; cbn [length]; lia).
    pose proof (len_nonneg more) as Hmn.
    destruct (mmap_set_local f rh i o bs Hlo ltac:(lia) Ho ltac:(lia) Hbo Hev) as (L1 & O1 & _ & Lo1 & R1).
    set (f1 := mmap_set f (rh_offset rh) (rh_psize rh) i o bs) in *.
    destruct (IH f1 rh (i + 1) o w Lo1 ltac:(lia) ltac:(lia) Ho Hw HF' Hev) as (L2 & Lo2 & O2 & R2).
    cbn [mmap_set_from] in f'. fold f1 in f'. subst f'.
    split; [congruence|]. split; [exact Lo2|]. split.
    + intros j Hj. rewrite O2.
      * apply O1. rewrite Hbl. specialize (Hj i ltac:(lia)).
        replace (rh_offset rh + i * rh_psize rh + o + w) with (rh_offset rh + i * rh_psize rh + o + w) in Hj by lia. exact Hj.
      * intros t Ht. apply Hj. lia.
    + intros lf Hrf. destruct (R1 lf Hrf) as (lf1 & Hrf1 & H1 & N1 & K1 & I1).
      destruct (R2 lf1 Hrf1) as (lf2 & Hrf2 & H2 & N2 & K2 & I2).
      exists lf2. split; [exact Hrf2|]. split; [congruence|]. split; [congruence|].
      assert (Z.to_nat (i + 1) = S (Z.to_nat i)) as Hi1 by lia.
      split.
      * intros k Hk. cbn [length] in Hk. rewrite K2 by lia. apply K1. lia.
      * intros t Ht. cbn [length] in Ht. destruct t as [|t].
        -- rewrite Nat.add_0_r. cbn [nth]. rewrite K2 by lia. exact I1.
        -- cbn [nth]. replace (Z.to_nat i + S t)%nat with (Z.to_nat (i + 1) + t)%nat by lia.
           rewrite I2 by lia. f_equal. apply K1. lia.
Qed.

Theorem mmap_set_dim_local : forall f rh o w vals, laid_out f rh ->
  len vals = h_count rh -> 0 <= o -> o + w <= rh_psize rh ->
  Forall (fun bs => len bs = w /\ bytes_ok bs = true) vals ->
  (h_minor rh >= 4 -> h_nev rh > 0 -> rh_offset rh + h_count rh * rh_psize rh <= h_evstart rh) ->
  let f' := mmap_set_dim f (rh_offset rh) (rh_psize rh) o vals in
  len f' = len f /\ laid_out f' rh
  /\ (forall j, (forall t, 0 <= t < h_count rh ->
                   (j < Z.to_nat (rh_offset rh + t * rh_psize rh + o) \/ Z.to_nat (rh_offset rh + t * rh_psize rh + o + w) <= j)%nat) ->
                 nth j f' 0 = nth j f 0)
  /\ (forall lf, read_file f = Ok lf ->
        exists lf', read_file f' = Ok lf' /\ lf_h lf' = lf_h lf /\ length (lf_points lf') = length (lf_points lf)
          /\ (forall k, (length vals <= k)%nat -> nth k (lf_points lf') [] = nth k (lf_points lf) [])
          /\ (forall k, (k < length vals)%nat -> nth k (lf_points lf') [] = write_at (nth k (lf_points lf) []) o (nth k vals []))).
Proof.
  intros f rh o w vals Hlo Hn Ho Hw HF Hev f'.
  destruct (mmap_set_from_local vals f rh 0 o w Hlo ltac:(lia) ltac:(lia) Ho Hw HF Hev) as (L & Lo & O & R).
  fold (mmap_set_dim f (rh_offset rh) (rh_psize rh) o vals) in L, Lo, O, R. fold f' in L, Lo, O, R.
  split; [exact L|]. split; [exact Lo|]. split.
  - intros j Hj. apply O. intros t Ht. apply Hj. lia.
  - intros lf Hrf. destruct (R lf Hrf) as (lf' & A & B & C & D & E). exists lf'. split; [exact A|]. split; [exact B|]. split; [exact C|].
    split; [intros k Hk; apply D; cbn; lia|intros k Hk; apply (E k Hk)].
Qed.
Print Assumptions mmap_set_dim_local.

(* ------------------------------------------------------------------------------------ *)
(* H. every file the writer model produces is laid out, with adjacent EVLRs               *)
(* ------------------------------------------------------------------------------------ *)
Lemma names_in_header m : 1 <= m <= 4 ->
  In "version.minor"%string (header_field_names m) /\ In "point_format_id"%string (header_field_names m).
Proof.
  intros Hm. assert (m = 1 \/ m = 2 \/ m = 3 \/ m = 4) as [->|[->|[->| ->]]] by lia;
  split; apply in_by_existsb; vm_compute; reflexivity.
Qed.

Lemma bytes_ok_concat_recs ps recs : recs_ok ps recs = true -> bytes_ok (concat recs) = true.
Proof.
  unfold recs_ok. induction recs as [|r recs IH]; intros H; [reflexivity|].
  cbn [forallb] in H. apply andb_true_iff in H as [Hr Hrest]. apply andb_true_iff in Hr as [_ Hr].
  cbn [concat]. rewrite bytes_ok_app, Hr, (IH Hrest). reflexivity.
Qed.

(* the writer model only produces bytes *)
Lemma written_bytes_ok ap h vl fmt recs evl f h' :
  file_of ap h vl fmt recs evl = Ok f -> final_hdr ap h vl fmt recs evl = Ok h' ->
  wf_header h' vl = true -> forallb (wf_vlr true) evl = true -> recs_ok (aint h' "point_size") recs = true ->
  bytes_ok f = true.
Proof.
  intros Hf Hh Hwf Hwe Hok.
  destruct (file_of_inv _ _ _ _ _ _ _ _ Hf Hh) as (hh & bs & eb & E1 & Heb & -> & _).
  destruct (enc_vlrs_ok true evl Hwe) as (eb' & Heb' & _ & Bok). rewrite Heb in Heb'. injection Heb' as <-.
  rewrite !bytes_ok_app, Bok, (bytes_ok_concat_recs _ _ Hok), !andb_true_r.
  destruct (enc_header_inv _ _ _ _ _ E1) as (vb & hs0 & fb & Hv & _ & _ & _ & Hh' & Hfb & ->).
  unfold wf_header in Hwf.
  destruct (header_size_tbl (aint h' "version.major") (aint h' "version.minor")) as [x|]; [|discriminate].
  destruct (std_size (compressed_id_to_uncompressed (aint h' "point_format_id"))) as [std|]; [|discriminate].
  repeat (apply andb_true_iff in Hwf as [Hwf ?]).
  assert (aint h' "version.minor" = aint hh "version.minor") as Hmn
    by (rewrite Hh'; rewrite !aint_aset_other by reflexivity; reflexivity).
  assert (abytes h' "extra_header_bytes" = abytes hh "extra_header_bytes") as He1
    by (rewrite Hh'; rewrite !abytes_aset_other by reflexivity; reflexivity).
  assert (abytes h' "extra_vlr_bytes" = abytes hh "extra_vlr_bytes") as He2
    by (rewrite Hh'; rewrite !abytes_aset_other by reflexivity; reflexivity).
  rewrite Hmn in Hwf.
  destruct (enc_vlrs_ok false vl ltac:(assumption)) as (vb' & Hvb' & _ & Vok). rewrite Hv in Hvb'. injection Hvb' as <-.
  rewrite !bytes_ok_app, (enc_fields_bytes_ok _ _ _ Hwf Hfb), Vok, <- He1, <- He2.
  repeat match goal with H : _ = true |- _ => rewrite H end. reflexivity.
Qed.

Theorem written_files_laid_out : forall ap h vl fmt recs evl f h',
  file_of ap h vl fmt recs evl = Ok f -> final_hdr ap h vl fmt recs evl = Ok h' ->
  wf_header h' vl = true -> forallb (wf_vlr true) evl = true ->
  recs_ok (aint h' "point_size") recs = true -> 0 < aint h' "point_size" ->
  (evl = [] \/ aint h "version.minor" >= 4) -> len evl <= MAX_VLRS ->
  is_point_format_compressed (aint h' "point_format_id") = false ->
  exists rh, laid_out f rh /\ evlrs_adjacent rh.
Proof.
  intros ap h vl fmt recs evl f h' Hf Hh Hwf Hwe Hok Hps Hev4 Hmax Hunc.
  pose proof (written_bytes_ok _ _ _ _ _ _ _ _ Hf Hh Hwf Hwe Hok) as Hbytes.
  destruct (read_write_roundtrip _ _ _ _ _ _ _ _ Hf Hh Hwf Hwe Hok Hps Hev4 Hmax)
    as (lf & Hrf & Hpts & _ & _ & Hcnt & Hpsz & Hoff & Hget).
  destruct (file_of_inv _ _ _ _ _ _ _ _ Hf Hh) as (hh & bs & eb & E1 & Heb & Hfe & Hl & Hc & Hmn & Hev0 & Hev1).
  destruct (file_length _ _ _ _ _ _ _ _ _ Hf Hh Heb Hok) as (Hlen & Hadj & _).
  destruct (enc_header_raw _ _ _ _ _ E1) as (Hm & _).
  (* the header read with and without EVLRs *)
  assert (dec_header f true = Ok (lf_h lf)) as Hdt.
  { unfold read_file in Hrf. destruct (dec_header f true) as [rh'|e]; [|discriminate]. cbn [bind] in Hrf.
    destruct (aint (rh_fields rh') "point_count" <=? 0).
    - injection Hrf as <-. reflexivity.
    - destruct (read_records f (rh_offset rh') (rh_psize rh') 0 (aint (rh_fields rh') "point_count")); [|discriminate].
      cbn [bind] in Hrf. injection Hrf as <-. reflexivity. }
  destruct (dec_header_evlrs_conv _ _ Hdt) as (rh & Hd).
  pose proof (dec_header_evlrs _ _ Hd) as Hsame. rewrite Hdt in Hsame.
  destruct Hsame as (Sf & _ & _ & Sp & So & Sc).
  set (m := aint h' "version.minor") in *.
  destruct (names_in_header m Hm) as [N1 N2].
  assert (forall n, String.eqb n "zero" = false -> String.eqb n "signature" = false -> In n (header_field_names m) ->
            aint (rh_fields rh) n = aint h' n) as Hint.
  { intros n Z1 Z2 Hin. rewrite <- Sf. apply aint_of_get; auto. }
  assert (h_count rh = len recs) as Hcount by (unfold h_count; rewrite <- Sf; exact Hcnt).
  pose proof (len_nonneg recs) as Hrn. pose proof (len_nonneg eb) as Hen.
  assert (Z.max 0 (h_count rh) = len recs) as Hmaxc by lia.
  exists rh. split.
  - split; [exact Hd|]. split; [exact Hbytes|]. split; [|split].
    + destruct (dec_header_fields _ _ _ Hd) as [Hg Hcomp]. rewrite Hcomp.
      assert (aint (rh_fields rh) "point_format_id" = aint h' "point_format_id") as Hpf by (apply Hint; auto).
      unfold aint in Hpf at 1. rewrite Hg in Hpf by reflexivity. unfold aint at 1. rewrite Hpf. exact Hunc.
    + rewrite <- Sp, Hpsz. exact Hps.
    + unfold points_present. rewrite Hmaxc, <- Sp, <- So, Hpsz, Hoff. lia.
  - intros H4 Hn.
    assert (h_minor rh = m) as Hmin by (unfold h_minor; apply Hint; auto).
    assert (m = 4) as M4 by lia. destruct evlr_names as [E_n E_s]. rewrite <- M4 in E_n, E_s.
    assert (h_nev rh = aint h' "number_of_evlrs") as Hnev by (unfold h_nev; apply Hint; auto).
    assert (h_evstart rh = aint h' "start_of_first_evlr") as Hst by (unfold h_evstart; apply Hint; auto).
    destruct evl as [|ev evl]; [rewrite (Hev0 eq_refl) in Hnev; lia|].
    destruct (Hadj ltac:(discriminate)) as [A _].
    rewrite Hst, A, Hmaxc, <- Sp, <- So, Hpsz, Hoff. reflexivity.
Qed.
Print Assumptions written_files_laid_out.

(* files without points: nothing but the header and the EVLRs, through every path *)
Theorem zero_points_read : forall f rh c e k, laid_out f rh -> evlrs_adjacent rh -> h_count rh <= 0 ->
  fst (read_via c e k f) = match evlrs_of f rh with Ok ev => Ok (mkLF (with_evlrs rh ev) []) | Err er => Err er end.
Proof.
  intros f rh c e k Hlo Hadj H0. rewrite (read_via_spec c e k f rh Hlo (or_intror Hadj)).
  apply (read_file_spec f rh [] (skipn (Z.to_nat (rh_offset rh)) f) Hlo); [constructor|unfold len; cbn; lia|reflexivity].
Qed.
Print Assumptions zero_points_read.

(* ------------------------------------------------------------------------------------ *)
(* I. a concrete file (written by laspy: LAS 1.4, format 6, two points, one EVLR)        *)
(* ------------------------------------------------------------------------------------ *)
Definition sample_file : list Z := [
  76; 65; 83; 70; 0; 0; 0; 0; 0; 0; 0; 0; 0; 0; 0; 0; 0; 0; 0; 0; 0; 0; 0; 0; 1; 4; 67; 49; 55; 0; 0; 0;
  0; 0; 0; 0; 0; 0; 0; 0; 0; 0; 0; 0; 0; 0; 0; 0; 0; 0; 0; 0; 0; 0; 0; 0; 0; 0; 118; 101; 114; 105; 102; 0;
  0; 0; 0; 0; 0; 0; 0; 0; 0; 0; 0; 0; 0; 0; 0; 0; 0; 0; 0; 0; 0; 0; 0; 0; 0; 0; 60; 0; 232; 7; 119; 1;
  119; 1; 0; 0; 0; 0; 0; 0; 6; 30; 0; 0; 0; 0; 0; 0; 0; 0; 0; 0; 0; 0; 0; 0; 0; 0; 0; 0; 0; 0; 0; 0;
  0; 0; 0; 123; 20; 174; 71; 225; 122; 132; 63; 123; 20; 174; 71; 225; 122; 132; 63; 123; 20; 174; 71; 225; 122; 132; 63; 0; 0; 0; 0; 0;
  0; 0; 0; 0; 0; 0; 0; 0; 0; 0; 0; 0; 0; 0; 0; 0; 0; 0; 0; 123; 20; 174; 71; 225; 122; 132; 63; 123; 20; 174; 71; 225;
  122; 148; 191; 0; 0; 0; 0; 0; 0; 0; 0; 0; 0; 0; 0; 0; 0; 0; 0; 0; 0; 0; 0; 0; 0; 0; 0; 0; 0; 0; 0; 0;
  0; 0; 0; 0; 0; 0; 0; 0; 0; 0; 0; 179; 1; 0; 0; 0; 0; 0; 0; 1; 0; 0; 0; 2; 0; 0; 0; 0; 0; 0; 0; 0;
  0; 0; 0; 0; 0; 0; 0; 0; 0; 0; 0; 0; 0; 0; 0; 0; 0; 0; 0; 0; 0; 0; 0; 0; 0; 0; 0; 0; 0; 0; 0; 0;
  0; 0; 0; 0; 0; 0; 0; 0; 0; 0; 0; 0; 0; 0; 0; 0; 0; 0; 0; 0; 0; 0; 0; 0; 0; 0; 0; 0; 0; 0; 0; 0;
  0; 0; 0; 0; 0; 0; 0; 0; 0; 0; 0; 0; 0; 0; 0; 0; 0; 0; 0; 0; 0; 0; 0; 0; 0; 0; 0; 0; 0; 0; 0; 0;
  0; 0; 0; 0; 0; 0; 0; 0; 0; 0; 0; 0; 0; 0; 0; 0; 0; 0; 0; 0; 0; 0; 0; 1; 0; 0; 0; 0; 0; 0; 0; 0;
  0; 0; 0; 7; 0; 0; 0; 2; 0; 0; 0; 0; 0; 0; 0; 0; 0; 0; 0; 0; 0; 254; 255; 255; 255; 0; 0; 0; 0; 0; 0; 0;
  0; 255; 255; 0; 0; 5; 0; 0; 0; 0; 0; 0; 0; 0; 0; 0; 0; 0; 0; 0; 0; 100; 101; 109; 111; 0; 0; 0; 0; 0; 0; 0;
  0; 0; 0; 0; 0; 7; 0; 3; 0; 0; 0; 0; 0; 0; 0; 97; 110; 32; 101; 118; 108; 114; 0; 0; 0; 0; 0; 0; 0; 0; 0; 0;
  0; 0; 0; 0; 0; 0; 0; 0; 0; 0; 0; 0; 0; 0; 0; 1; 2; 3].

Definition sample_header : rheader := match dec_header sample_file false with Ok rh => rh | Err _ => mkRH [] [] None 0 false 0 0 end.

Lemma sample_laid_out : laid_out sample_file sample_header /\ evlrs_adjacent sample_header.
Proof.
  split.
  - split; [vm_compute; reflexivity|]. split; [vm_compute; reflexivity|]. split; [vm_compute; reflexivity|].
    split; [vm_compute; reflexivity|]. unfold points_present. vm_compute. discriminate.
  - intros _ _. vm_compute. reflexivity.
Qed.
