(* C17 — proofs about the access-path model (Model/Access.v). *)
From Coq Require Import String.
From Coq Require Import ZArith List Bool Lia ZifyBool.
From LasV Require Import Lib.Base Lib.BaseFacts Lib.Layout Proofs.LayoutProofs Gen.GenHeaderLayout Gen.GenFormatBits Gen.GenDims
  Gen.GenAccess Model.Las Model.LasSpec Model.Access Proofs.HeaderLen Proofs.VlrProofs Proofs.HeaderProofs Proofs.WriterProofs
  Proofs.CrashProofs Proofs.RoundTripProofs.
Import ListNotations.
Open Scope list_scope.
Open Scope Z_scope.

(* ------------------------------------------------------------------------------------ *)
(* A. what is logged: a function is `quiet` when it only appends reads / capability       *)
(*    queries to the log and leaves the bytes alone                                      *)
(* ------------------------------------------------------------------------------------ *)
Definition quiet (s s' : stream) : Prop :=
  st_bytes s' = st_bytes s /\ exists ext, st_log s' = st_log s ++ ext /\ no_seek_tell ext = true.

Lemma nst_app a b : no_seek_tell (a ++ b) = no_seek_tell a && no_seek_tell b.
Proof. apply forallb_app. Qed.

Lemma quiet_refl s : quiet s s.
Proof. split; [reflexivity|]. exists []. now rewrite app_nil_r. Qed.

Lemma quiet_trans a b c : quiet a b -> quiet b c -> quiet a c.
Proof.
  intros [B1 (e1 & L1 & N1)] [B2 (e2 & L2 & N2)]. split; [congruence|].
  exists (e1 ++ e2). rewrite L2, L1, app_assoc, nst_app, N1, N2. now split.
Qed.

Lemma quiet_read n s : quiet s (snd (s_read n s)).
Proof. split; [reflexivity|]. exists [ORead n]. now split. Qed.
Lemma quiet_readinto n s : quiet s (snd (s_readinto n s)).
Proof. split; [reflexivity|]. exists [OReadInto n]. now split. Qed.
Lemma quiet_seekable c s : quiet s (snd (s_seekable c s)).
Proof. split; [reflexivity|]. exists [OSeekable]. now split. Qed.

Lemma quiet_sdec_fields l : forall s, quiet s (snd (sdec_fields l s)).
Proof.
  induction l as [|[[k w] n] l IH]; intros s; [apply quiet_refl|].
  cbn [sdec_fields]. pose proof (quiet_read (Z.of_nat w) s) as Q.
  destruct (s_read (Z.of_nat w) s) as [raw s1]. cbn [snd] in Q.
  specialize (IH s1). destruct (sdec_fields l s1) as [a s2]. cbn [snd] in *.
  eapply quiet_trans; eassumption.
Qed.

Lemma quiet_sread_vlrs n : forall s, quiet s (snd (sread_vlrs n s)).
Proof.
  induction n as [|n IH]; intros s; [apply quiet_refl|].
  cbn [sread_vlrs].
  pose proof (quiet_sdec_fields evlr_head s) as Q1. destruct (sdec_fields evlr_head s) as [a1 s1]. cbn [snd] in Q1.
  destruct (ascii_ok (abytes a1 "user_id")); [|exact Q1].
  pose proof (quiet_sdec_fields evlr_tail s1) as Q2. destruct (sdec_fields evlr_tail s1) as [a2 s2]. cbn [snd] in Q2.
  pose proof (quiet_read (aint a2 "record_length") s2) as Q3. destruct (s_read (aint a2 "record_length") s2) as [data s3]. cbn [snd] in Q3.
  specialize (IH s3). destruct (sread_vlrs n s3) as [r s4]. cbn [snd] in *.
  eapply quiet_trans; [exact Q1|]. eapply quiet_trans; [exact Q2|]. eapply quiet_trans; eassumption.
Qed.

Lemma quiet_prefetch s : quiet s (snd (prefetch s)).
Proof.
  unfold prefetch. pose proof (quiet_read prefetch_first_read s) as Q1.
  destruct (s_read prefetch_first_read s) as [hb s1]. cbn [snd] in Q1.
  destruct (length (firstn 4 hb) =? 0)%nat; [exact Q1|].
  destruct (negb (list_eqb (firstn 4 hb) LASF)); [exact Q1|].
  destruct (len hb <? prefetch_first_read); [exact Q1|].
  match goal with |- context [s_read ?n s1] => pose proof (quiet_read n s1) as Q2; destruct (s_read n s1) as [rest s2] end.
  cbn [snd] in *. eapply quiet_trans; eassumption.
Qed.

Lemma quiet_hdr_read_evlrs c rh s : c_seekable c = false -> quiet s (snd (hdr_read_evlrs c rh s)).
Proof.
  intros Hc. unfold hdr_read_evlrs.
  destruct (h_minor rh >=? 4); [|apply quiet_refl].
  destruct (h_nev rh >? 0); [|apply quiet_refl].
  unfold s_seekable. rewrite Hc. cbn [snd].
  split; [reflexivity|]. exists [OSeekable; OSeekable]. cbn [st_log]. rewrite <- app_assoc. now split.
Qed.

Lemma quiet_open_reader c e s : c_seekable c = false -> quiet s (snd (open_reader c e s)).
Proof.
  intros Hc. unfold open_reader. pose proof (quiet_prefetch s) as Q1. destruct (prefetch s) as [p s1]. cbn [snd] in Q1.
  destruct p as [data|er]; [|exact Q1].
  destruct (dec_header data false) as [rh|er]; [|exact Q1].
  destruct (rh_compressed rh); [exact Q1|].
  destruct e; [|exact Q1].
  eapply quiet_trans; [exact Q1|]. now apply quiet_hdr_read_evlrs.
Qed.

Lemma quiet_read_n_points c ps n s : quiet s (snd (read_n_points c ps n s)).
Proof.
  unfold read_n_points. destruct (c_readinto c).
  - pose proof (quiet_readinto (n * ps) s) as Q. destruct (s_readinto (n * ps) s) as [d s1]. exact Q.
  - pose proof (quiet_read (n * ps) s) as Q. destruct (s_read (n * ps) s) as [d s1]. exact Q.
Qed.

Lemma quiet_read_points c rh pr n s : quiet s (snd (read_points c rh pr n s)).
Proof.
  unfold read_points. destruct (h_count rh - pr <=? 0); [apply quiet_refl|].
  match goal with |- context [read_n_points c ?ps ?m s] =>
    pose proof (quiet_read_n_points c ps m s) as Q; destruct (read_n_points c ps m s) as [r s1] end.
  exact Q.
Qed.

Lemma quiet_chunk_loop c rh k : forall fuel pr s, quiet s (snd (chunk_loop fuel c rh k pr s)).
Proof.
  induction fuel as [|fu IH]; intros pr s; [apply quiet_refl|].
  cbn [chunk_loop]. pose proof (quiet_read_points c rh pr k s) as Q.
  destruct (read_points c rh pr k s) as [[r pr1] s1]. cbn [snd] in Q.
  destruct r as [[|r0 recs]|er]; try exact Q.
  specialize (IH pr1 s1). destruct (chunk_loop fu c rh k pr1 s1) as [[r2 pr2] s2]. cbn [snd] in *.
  eapply quiet_trans; eassumption.
Qed.

Lemma quiet_finish_evlrs c rh s : c_seekable c = false -> quiet s (snd (finish_evlrs c rh s)).
Proof.
  intros Hc. unfold finish_evlrs.
  destruct ((h_minor rh >=? 4) && (h_nev rh >? 0) && is_none (rh_evlrs rh)).
  - unfold s_seekable at 1. rewrite Hc.
    match goal with |- context [sread_vlrs ?n ?s1] => pose proof (quiet_sread_vlrs n s1) as Q; destruct (sread_vlrs n s1) as [r s2] end.
    cbn [snd] in *. eapply quiet_trans; [|exact Q]. split; [reflexivity|]. exists [OSeekable]. now split.
  - destruct ((h_minor rh >=? 4) && is_none (rh_evlrs rh)); apply quiet_refl.
Qed.

(* a source that says it is not seekable is never asked to seek or tell, whatever its bytes *)
Theorem no_seek_when_not_seekable : forall c e chunk src, c_seekable c = false ->
  no_seek_tell (snd (read_via c e chunk src)) = true.
Proof.
  intros c e chunk src Hc. unfold read_via.
  set (s0 := mkSt src 0 []).
  assert (forall s, quiet s0 s -> no_seek_tell (st_log s) = true) as Fin.
  { intros s [_ (ext & L & N)]. rewrite L. exact N. }
  pose proof (quiet_open_reader c e s0 Hc) as Q1. destruct (open_reader c e s0) as [o s1]. cbn [snd] in Q1.
  destruct o as [rh|er]; [|cbn [snd]; now apply Fin].
  assert (exists r1 pr1 s2, match chunk with None => (Ok [], 0, s1) | Some k => chunk_loop (S (length src)) c rh k 0 s1 end = (r1, pr1, s2)
                            /\ quiet s1 s2) as (r1 & pr1 & s2 & E2 & Q2).
  { destruct chunk as [k|].
    - pose proof (quiet_chunk_loop c rh k (S (length src)) 0 s1) as Q.
      destruct (chunk_loop (S (length src)) c rh k 0 s1) as [[r1 pr1] s2]. do 3 eexists. split; [reflexivity|exact Q].
    - do 3 eexists. split; [reflexivity|apply quiet_refl]. }
  rewrite E2. destruct r1 as [recs1|er]; [|cbn [snd]; apply Fin; eapply quiet_trans; eassumption].
  pose proof (quiet_read_points c rh pr1 (-1) s2) as Q3. destruct (read_points c rh pr1 (-1) s2) as [[r2 pr2] s3]. cbn [snd] in Q3.
  assert (quiet s0 s3) as Q03 by (eapply quiet_trans; [exact Q1|]; eapply quiet_trans; eassumption).
  destruct r2 as [recs2|er]; [|cbn [snd]; now apply Fin].
  pose proof (quiet_finish_evlrs c rh s3 Hc) as Q4. destruct (finish_evlrs c rh s3) as [r3 s4]. cbn [snd] in Q4.
  assert (quiet s0 s4) as Q04 by (eapply quiet_trans; eassumption).
  destruct r3 as [rh'|er]; cbn [snd]; now apply Fin.
Qed.
Print Assumptions no_seek_when_not_seekable.

(* ------------------------------------------------------------------------------------ *)
(* B. lists and streams                                                                  *)
(* ------------------------------------------------------------------------------------ *)
Lemma firstn_add {A} a : forall b (l : list A), firstn (a + b) l = firstn a l ++ firstn b (skipn a l).
Proof.
  induction a as [|a IH]; intros b l; [reflexivity|].
  destruct l as [|x l]; [cbn; now rewrite firstn_nil|]. cbn [Nat.add firstn skipn app]. now rewrite IH.
Qed.

Lemma skipn_past {A} n (l : list A) : (length l <= n)%nat -> skipn n l = [].
Proof. intros H. apply skipn_all2. exact H. Qed.

Lemma avail_after_read {A} (bytes : list A) p n :
  skipn (p + length (firstn n (skipn p bytes))) bytes = skipn n (skipn p bytes).
Proof.
  rewrite <- skipn_add. rewrite firstn_length, skipn_length.
  destruct (Nat.le_gt_cases n (length bytes - p)) as [H|H].
  - now rewrite Nat.min_l by exact H.
  - rewrite Nat.min_r by lia. rewrite !skipn_past by lia. reflexivity.
Qed.

Lemma avail_step b pos k lg : 0 <= pos ->
  avail (mkSt b (pos + len (firstn k (skipn (Z.to_nat pos) b))) lg) = skipn k (skipn (Z.to_nat pos) b).
Proof.
  intros Hp. unfold avail, len. cbn [st_pos st_bytes].
  rewrite Z2Nat.inj_add by lia. rewrite Nat2Z.id. apply avail_after_read.
Qed.

(* read(n), n >= 0, on a stream whose position is not negative *)
Lemma s_read_spec n s : 0 <= n -> 0 <= st_pos s ->
  fst (s_read n s) = firstn (Z.to_nat n) (avail s)
  /\ avail (snd (s_read n s)) = skipn (Z.to_nat n) (avail s)
  /\ st_bytes (snd (s_read n s)) = st_bytes s
  /\ 0 <= st_pos (snd (s_read n s)).
Proof.
  intros Hn Hp. unfold s_read. destruct (n <? 0) eqn:E; [lia|]. cbn [fst snd st_bytes st_pos].
  split; [reflexivity|]. split; [apply avail_step; exact Hp|]. split; [reflexivity|].
  pose proof (len_nonneg (firstn (Z.to_nat n) (avail s))). lia.
Qed.

Lemma dec_field_fst_firstn k w bs : fst (dec_field k w (firstn w bs)) = fst (dec_field k w bs).
Proof. destruct k; cbn [dec_field fst]; rewrite ?firstn_firstn, ?Nat.min_id; reflexivity. Qed.

Lemma sdec_fields_spec l : no_var l = true -> forall s, 0 <= st_pos s ->
  fst (sdec_fields l s) = fst (dec_fields l (avail s))
  /\ avail (snd (sdec_fields l s)) = snd (dec_fields l (avail s))
  /\ st_bytes (snd (sdec_fields l s)) = st_bytes s
  /\ 0 <= st_pos (snd (sdec_fields l s)).
Proof.
  induction l as [|[[k w] n] l IH]; intros Hnv s Hp.
  - cbn. repeat split; try reflexivity. exact Hp.
  - cbn [no_var forallb fst] in Hnv. apply andb_true_iff in Hnv as [Hk Hnv]. fold (no_var l) in Hnv.
    assert (k <> KVar) as Hk' by (intros ->; discriminate).
    cbn [sdec_fields dec_fields].
    destruct (s_read_spec (Z.of_nat w) s ltac:(lia) Hp) as (R1 & R2 & R3 & R4).
    destruct (s_read (Z.of_nat w) s) as [raw s1]. cbn [fst snd] in R1, R2, R3, R4. rewrite Nat2Z.id in R1, R2.
    destruct (IH Hnv s1 R4) as (I1 & I2 & I3 & I4).
    destruct (sdec_fields l s1) as [a s2]. cbn [fst snd] in I1, I2, I3, I4.
    pose proof (dec_field_rest k w (avail s) Hk') as Hr.
    destruct (dec_field k w (avail s)) as [v rest] eqn:Ed. cbn [snd] in Hr. subst rest.
    rewrite <- R2. destruct (dec_fields l (avail s1)) as [a' rest'] eqn:Ea. cbn [fst snd] in *.
    repeat split; try assumption; try congruence.
    f_equal; [|exact I1]. f_equal. rewrite R1, dec_field_fst_firstn, Ed. reflexivity.
Qed.

Lemma dec_fields_app l1 : forall l2 bs,
  dec_fields (l1 ++ l2) bs =
  (fst (dec_fields l1 bs) ++ fst (dec_fields l2 (snd (dec_fields l1 bs))), snd (dec_fields l2 (snd (dec_fields l1 bs)))).
Proof.
  induction l1 as [|[[k w] n] l1 IH]; intros l2 bs.
  - cbn. now destruct (dec_fields l2 bs).
  - cbn [app dec_fields]. destruct (dec_field k w bs) as [v rest]. rewrite IH.
    destruct (dec_fields l1 rest) as [a r1]. cbn [fst snd]. reflexivity.
Qed.

Lemma amem_dec_fields l : forall bs n, amem (fst (dec_fields l bs)) n = existsb (fun f => String.eqb (snd f) n) l.
Proof.
  induction l as [|[[k w] m] l IH]; intros bs n; [reflexivity|].
  cbn [dec_fields]. destruct (dec_field k w bs) as [v rest]. specialize (IH rest n).
  destruct (dec_fields l rest) as [a r]. cbn [fst] in *. cbn [amem existsb fst snd]. unfold amem in IH. now rewrite IH.
Qed.

Lemma aget_last_bound b n : forall acc acc', amem b n = true -> aget_last b n acc = aget_last b n acc'.
Proof.
  induction b as [|[m v] b IH]; intros acc acc' H; [discriminate|].
  cbn [amem existsb fst] in H. cbn [aget_last]. destruct (String.eqb m n) eqn:E.
  - destruct (amem b n) eqn:Eb; [now apply IH|]. now rewrite !amem_false_aget by exact Eb.
  - cbn [orb] in H. now apply IH.
Qed.

Lemma aget_app_right a b n : amem b n = true -> aget (a ++ b) n = aget b n.
Proof. intros H. unfold aget. rewrite aget_last_app. now apply aget_last_bound. Qed.
Lemma aget_app_left a b n : amem b n = false -> aget (a ++ b) n = aget a n.
Proof. intros H. unfold aget. rewrite aget_last_app. now apply amem_false_aget. Qed.

Lemma bytes_ok_firstn n : forall l, bytes_ok l = true -> bytes_ok (firstn n l) = true.
Proof.
  induction n as [|n IH]; intros l H; [reflexivity|]. destruct l as [|x l]; [reflexivity|].
  cbn [bytes_ok forallb] in H. apply andb_true_iff in H as [Hx Hl]. cbn [firstn bytes_ok forallb]. rewrite Hx. now apply IH.
Qed.
Lemma bytes_ok_skipn n : forall l, bytes_ok l = true -> bytes_ok (skipn n l) = true.
Proof.
  induction n as [|n IH]; intros l H; [exact H|]. destruct l as [|x l]; [reflexivity|].
  cbn [bytes_ok forallb] in H. apply andb_true_iff in H as [Hx Hl]. cbn [skipn]. now apply IH.
Qed.
Lemma bytes_ok_dec_rest l : forall bs, bytes_ok bs = true -> bytes_ok (snd (dec_fields l bs)) = true.
Proof.
  induction l as [|[[k w] n] l IH]; intros bs H; [exact H|].
  cbn [dec_fields]. destruct (dec_field k w bs) as [v rest] eqn:Ed.
  assert (bytes_ok rest = true) as Hr.
  { destruct k; cbn [dec_field] in Ed; injection Ed as _ <-; try now apply bytes_ok_skipn. exact H. }
  specialize (IH rest Hr). destruct (dec_fields l rest) as [a r]. exact IH.
Qed.
Lemma le_dec_nonneg bs : bytes_ok bs = true -> 0 <= le_dec bs.
Proof. intros H. pose proof (le_dec_bounds bs H). lia. Qed.

(* VLRList.read_from on the stream = the decoder of the file model on the bytes from the current position *)
Lemma evlr_layout_split : fixed_part (vlr_r_layout true) = evlr_head ++ evlr_tail.
Proof. reflexivity. Qed.

Lemma evlr_length_raw bs : aint (fst (dec_fields evlr_tail bs)) "record_length" = le_dec (firstn 8 (skipn 2 bs)).
Proof. apply aint_dec_fields; reflexivity. Qed.

Lemma sread_vlrs_spec : forall n s, 0 <= st_pos s -> bytes_ok (st_bytes s) = true ->
  fst (sread_vlrs n s) = match dec_vlrs true n (avail s) with Ok p => Ok (fst p) | Err e => Err e end
  /\ st_bytes (snd (sread_vlrs n s)) = st_bytes s.
Proof.
  induction n as [|n IH]; intros s Hp Hok; [split; reflexivity|].
  cbn [sread_vlrs dec_vlrs]. rewrite evlr_layout_split, dec_fields_app.
  destruct (sdec_fields_spec evlr_head eq_refl s Hp) as (A1 & A2 & A3 & A4).
  destruct (sdec_fields evlr_head s) as [a1 s1]. cbn [fst snd] in A1, A2, A3, A4.
  assert (bytes_ok (avail s) = true) as Hoka by (now apply bytes_ok_skipn).
  set (bs := avail s) in *.
  assert (abytes (fst (dec_fields evlr_head bs) ++ fst (dec_fields evlr_tail (snd (dec_fields evlr_head bs)))) "user_id" = abytes a1 "user_id") as Hu.
  { unfold abytes. rewrite aget_app_left, A1; [reflexivity|]. rewrite amem_dec_fields. reflexivity. }
  rewrite Hu. destruct (ascii_ok (abytes a1 "user_id")); [|split; [reflexivity|exact A3]].
  destruct (sdec_fields_spec evlr_tail eq_refl s1 A4) as (B1 & B2 & B3 & B4).
  destruct (sdec_fields evlr_tail s1) as [a2 s2]. cbn [fst snd] in B1, B2, B3, B4.
  rewrite A2 in B1, B2.
  set (r1 := snd (dec_fields evlr_head bs)) in *.
  assert (forall nm, amem (fst (dec_fields evlr_tail r1)) nm = true ->
            aget (fst (dec_fields evlr_head bs) ++ fst (dec_fields evlr_tail r1)) nm = aget a2 nm) as Hg.
  { intros nm H. rewrite aget_app_right by exact H. now rewrite B1. }
  assert (forall nm, existsb (fun f => String.eqb (snd f) nm) evlr_tail = true ->
            aint (fst (dec_fields evlr_head bs) ++ fst (dec_fields evlr_tail r1)) nm = aint a2 nm) as Hi.
  { intros nm H. unfold aint. rewrite Hg; [reflexivity|]. now rewrite amem_dec_fields. }
  assert (forall nm, existsb (fun f => String.eqb (snd f) nm) evlr_tail = true ->
            abytes (fst (dec_fields evlr_head bs) ++ fst (dec_fields evlr_tail r1)) nm = abytes a2 nm) as Hb.
  { intros nm H. unfold abytes. rewrite Hg; [reflexivity|]. now rewrite amem_dec_fields. }
  rewrite (Hi "record_length"%string eq_refl), (Hi "record_id"%string eq_refl), (Hb "description"%string eq_refl).
  set (dl := aint a2 "record_length").
  assert (0 <= dl) as Hdl.
  { unfold dl. rewrite B1, evlr_length_raw. apply le_dec_nonneg, bytes_ok_firstn, bytes_ok_skipn.
    unfold r1. now apply bytes_ok_dec_rest. }
  destruct (s_read_spec dl s2 Hdl B4) as (C1 & C2 & C3 & C4).
  destruct (s_read dl s2) as [data s3]. cbn [fst snd] in C1, C2, C3, C4.
  destruct (IH s3 C4 ltac:(congruence)) as [D1 D2]. destruct (sread_vlrs n s3) as [r s4]. cbn [fst snd] in D1, D2 |- *.
  rewrite C2, B2 in D1. split; [|congruence].
  rewrite D1, C1, B2.
  destruct (dec_vlrs true n (skipn (Z.to_nat dl) (snd (dec_fields evlr_tail r1)))) as [[vl rest]|e]; reflexivity.
Qed.

(* ------------------------------------------------------------------------------------ *)
(* C. the header                                                                         *)
(* ------------------------------------------------------------------------------------ *)
Lemma dec_header_pre src b rh : dec_header src b = Ok rh ->
  (227 <= length src)%nat /\ list_eqb (firstn 4 (firstn 227 src)) LASF = true.
Proof.
  unfold dec_header. cbv zeta. intros H.
  match type of H with (if ?c then _ else _) = _ => destruct c eqn:E1; [discriminate|] end.
  match type of H with (if ?c then _ else _) = _ => destruct c eqn:E2; [discriminate|] end.
  match type of H with (if ?c then _ else _) = _ => destruct c eqn:E3; [discriminate|] end.
  split.
  - rewrite firstn_length in E3. lia.
  - now apply negb_false_iff in E2.
Qed.

(* the parse only looks at the prefetched bytes when EVLRs are not asked for *)
Lemma hdr_stream_idem src : (227 <= length src)%nat -> hdr_stream (hdr_stream src) = hdr_stream src.
Proof.
  intros Hl. unfold hdr_stream. cbv zeta.
  set (off0 := le_dec (firstn 4 (skipn 96 (firstn 227 src)))).
  destruct (off0 <? 227) eqn:E.
  - fold off0. rewrite E. reflexivity.
  - assert (firstn 227 (firstn (Z.to_nat off0) src) = firstn 227 src) as ->.
    { rewrite firstn_firstn. f_equal. lia. }
    fold off0. rewrite E. rewrite firstn_firstn. f_equal. lia.
Qed.

Lemma hdr_stream_first src : (227 <= length src)%nat -> firstn 227 (hdr_stream src) = firstn 227 src.
Proof.
  intros Hl. unfold hdr_stream. cbv zeta.
  destruct (le_dec (firstn 4 (skipn 96 (firstn 227 src))) <? 227) eqn:E; [reflexivity|].
  rewrite firstn_firstn. f_equal. lia.
Qed.

Lemma dec_header_prefetched src : (227 <= length src)%nat -> dec_header (hdr_stream src) false = dec_header src false.
Proof.
  intros Hl. pose proof (hdr_stream_idem src Hl) as Hi. pose proof (hdr_stream_first src Hl) as Hf.
  unfold hdr_stream in Hi at 1. cbv zeta in Hi. rewrite Hf in Hi.
  unfold dec_header. cbv zeta. rewrite Hf, Hi.
  change (if le_dec (firstn 4 (skipn 96 (firstn 227 src))) <? 227 then src
          else firstn (Z.to_nat (le_dec (firstn 4 (skipn 96 (firstn 227 src))))) src) with (hdr_stream src).
  cbv beta iota. reflexivity.
Qed.
