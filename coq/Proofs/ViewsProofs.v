(* C10: proofs about Model/Views.v *)
From Coq Require Import String.
From Coq Require Import ZArith List Bool Lia ZifyBool.
From LasV Require Import Lib.Base Lib.BaseFacts Gen.GenFormatBits Gen.GenDims Gen.GenViews Model.SubField Proofs.SubFieldProofs Model.Views.
Import ListNotations.
Open Scope list_scope.
Open Scope Z_scope.

(* ---------------------------------------------------------------------------------------------- *)
(* routing                                                                                         *)
(* ---------------------------------------------------------------------------------------------- *)
Definition delegated (c : vclass) (op : vbinop) : bool :=
  match c with CArrayView => true | CSubField => negb (is_ordering op) | CScaled => negb (is_comparison op) end.

Lemma route_delegated c op : delegated c op = true -> route_of c op = Some (Materialised op).
Proof. destruct c, op; cbn [delegated is_ordering is_comparison negb]; intros H; try discriminate H; reflexivity. Qed.

Lemma route_subfield_ordering op : is_ordering op = true -> route_of CSubField op = Some (DoComparison op).
Proof. destruct op; cbn [is_ordering]; intros H; try discriminate H; reflexivity. Qed.

Lemma route_scaled_comparison op : is_comparison op = true -> route_of CScaled op = Some (GridComparison op).
Proof. destruct op; cbn [is_comparison]; intros H; try discriminate H; reflexivity. Qed.

Lemma delegation (Arr Opnd Res : Type) (np_binop : vbinop -> Arr -> Opnd -> Res) c op mat x own :
  delegated c op = true -> view_binop Arr Opnd Res np_binop c op mat x own = Some (np_binop op mat x).
Proof. intros H. unfold view_binop. rewrite (route_delegated _ _ H). reflexivity. Qed.

Lemma own_comparison (Arr Opnd Res : Type) (np_binop : vbinop -> Arr -> Opnd -> Res) op mat x own :
  is_ordering op = true -> view_binop Arr Opnd Res np_binop CSubField op mat x own = Some (own op).
Proof. intros H. unfold view_binop. rewrite (route_subfield_ordering _ H). reflexivity. Qed.

(* the view on the right: python's reflection *)
Lemma mirror_comparison op : is_comparison (mirror op) = is_comparison op.
Proof. destruct op; reflexivity. Qed.

Lemma mirror_involutive op : mirror (mirror op) = op.
Proof. destruct op; reflexivity. Qed.

Lemma cmp_bool_mirror op a c : is_comparison op = true -> cmp_bool (mirror op) a c = cmp_bool op c a.
Proof.
  destruct op; cbn [is_comparison mirror cmp_bool]; intros H; try discriminate H; f_equal.
  - apply Z.gtb_ltb.
  - apply Z.geb_leb.
  - symmetry. apply Z.gtb_ltb.
  - symmetry. apply Z.geb_leb.
  - apply Z.eqb_sym.
  - f_equal. apply Z.eqb_sym.
Qed.

(* whatever reflected methods the classes define (today: none), an arithmetic `x <op> view` that returns a result
   returns numpy's `x <op> np.array(view)` with the SAME operator and the operands in the written order *)
Lemma reflected_arithmetic (Arr Opnd Res : Type) (np_binop : vbinop -> Arr -> Opnd -> Res) (np_rbinop : vbinop -> Opnd -> Arr -> Res)
      c op x mat own r :
  is_comparison op = false ->
  view_on_right Arr Opnd Res np_binop np_rbinop c op x mat own = Some r -> r = np_rbinop op x mat.
Proof.
  intros Hc H. unfold view_on_right in H. rewrite Hc in H.
  destruct c, op; cbn [is_comparison] in Hc; try discriminate Hc; cbv in H; try discriminate H;
    injection H as H; symmetry; exact H.
Qed.

Lemma reflected_comparison (Arr Opnd Res : Type) (np_binop : vbinop -> Arr -> Opnd -> Res) (np_rbinop : vbinop -> Opnd -> Arr -> Res)
      c op x mat own :
  is_comparison op = true ->
  view_on_right Arr Opnd Res np_binop np_rbinop c op x mat own = view_binop Arr Opnd Res np_binop c (mirror op) mat x own.
Proof. intros Hc. unfold view_on_right. now rewrite Hc. Qed.

Lemma inplace_is_binop (Arr Opnd Res : Type) (np_binop : vbinop -> Arr -> Opnd -> Res) c op mat x own :
  view_inplace Arr Opnd Res np_binop c op mat x own = view_binop Arr Opnd Res np_binop c op mat x own.
Proof. reflexivity. Qed.

Lemma reduce_routes c multi args r :
  reduce_route c multi args r =
  match c with CScaled => if multi || args then RedMaterialised r else RedApplyGrid r | _ => RedMaterialised r end.
Proof. destruct c, multi, args, r; reflexivity. Qed.

(* the shapes the translator recognised (a definition goes MISSING from Gen/GenViews.v when the source changes shape) *)
Lemma view_shapes :
  sfv_value_is_masked_shifted = true /\ sfv_getitem_keeps_mask = true
  /\ sav_value_is_apply_scale = true /\ sav_apply_scale = ScaleMulAdd /\ sav_remove_scale = UnscaleSubDivRound
  /\ av_ufunc_converts_then_applies = true /\ av_function_converts_then_applies = true
  /\ av_convert_recurses_lists_tuples = true.
Proof. repeat split; reflexivity. Qed.

(* ---------------------------------------------------------------------------------------------- *)
(* _convert_array_views_to_array                                                                   *)
(* ---------------------------------------------------------------------------------------------- *)
Section ArgInd.
  Variables V A X : Type.
  Variable P : arg V A X -> Prop.
  Hypothesis HV : forall o v, P (AView o v).
  Hypothesis HA : forall a, P (AArr a).
  Hypothesis HO : forall x, P (AOther x).
  Hypothesis HS : forall l, Forall P l -> P (ASeq l).
  Fixpoint arg_ind' (a : arg V A X) : P a :=
    match a with
    | AView o v => HV o v
    | AArr x => HA x
    | AOther x => HO x
    | ASeq l => HS l ((fix go (l : list (arg V A X)) : Forall P l :=
                         match l with [] => Forall_nil P | x :: r => Forall_cons x (arg_ind' x) (go r) end) l)
    end.
End ArgInd.

Lemma conv_materialised (V A X : Type) (mat : V -> A) (a : arg V A X) : conv V A X mat a = materialised_expr V A X mat a.
Proof.
  induction a as [o v|x|x|l IH] using arg_ind'; try reflexivity.
  cbn [conv materialised_expr]. f_equal. induction IH as [|y r Hy _ IHr]; [reflexivity|]. cbn [map]. now rewrite Hy, IHr.
Qed.

Lemma conv_no_own_views (V A X : Type) (mat : V -> A) (a : arg V A X) : own_views V A X (conv V A X mat a) = 0%nat.
Proof.
  induction a as [o v|x|x|l IH] using arg_ind'; try reflexivity.
  - destruct o; reflexivity.
  - cbn [conv own_views]. induction IH as [|y r Hy _ IHr]; [reflexivity|]. cbn [map fold_right]. now rewrite Hy, IHr.
Qed.

Lemma array_function_spec (V A X R : Type) (mat : V -> A) (f : list (arg V A X) -> R) args :
  array_function V A X mat R f args = Some (f (map (materialised_expr V A X mat) args))
  /\ array_ufunc V A X mat R f args = Some (f (map (materialised_expr V A X mat) args))
  /\ Forall (fun a => own_views V A X a = 0%nat) (map (conv V A X mat) args).
Proof.
  unfold array_function, array_ufunc. cbn [av_function_converts_then_applies av_ufunc_converts_then_applies av_convert_recurses_lists_tuples andb].
  assert (map (conv V A X mat) args = map (materialised_expr V A X mat) args) as E
    by (apply map_ext; intros a; apply conv_materialised).
  rewrite E. repeat split. rewrite <- E. apply Forall_forall. intros a Ha. apply in_map_iff in Ha as (a0 & <- & _).
  apply conv_no_own_views.
Qed.

(* ---------------------------------------------------------------------------------------------- *)
(* SubFieldView comparisons                                                                        *)
(* ---------------------------------------------------------------------------------------------- *)
Lemma fast_is_spec fmt name composed m b op c :
  In (fmt, name, composed, m) all_sub_fields -> 0 <= b < 256 -> is_ordering op = true ->
  cmp_bool op (Z.land b m) (Z.shiftl c (sf_lsb m)) = cmp_bool op (sf_get m b) c.
Proof.
  intros Hin Hb Hop.
  pose proof (sf_cmp_correct fmt name composed m b 0 c Hin Hb) as H0.
  pose proof (sf_cmp_correct fmt name composed m b 1 c Hin Hb) as H1.
  pose proof (sf_cmp_correct fmt name composed m b 2 c Hin Hb) as H2.
  pose proof (sf_cmp_correct fmt name composed m b 3 c Hin Hb) as H3.
  unfold sf_cmp_fast, sf_cmp_spec, cmp_op in H0, H1, H2, H3.
  change (0 =? 0) with true in H0. change (1 =? 0) with false in H1. change (1 =? 1) with true in H1.
  change (2 =? 0) with false in H2. change (2 =? 1) with false in H2. change (2 =? 2) with true in H2.
  change (3 =? 0) with false in H3. change (3 =? 1) with false in H3. change (3 =? 2) with false in H3.
  cbv iota in H0, H1, H2, H3.
  destruct op; cbn [is_ordering] in Hop; try discriminate Hop; cbn [cmp_bool]; f_equal; assumption.
Qed.

Lemma sfv_cmp_elem_correct fmt name composed m b op x c :
  In (fmt, name, composed, m) all_sub_fields -> 0 <= b < 256 -> is_ordering op = true -> operand_int x = Some c ->
  sfv_cmp_elem m b op x = cmp_bool op (sf_get m b) c.
Proof.
  intros Hin Hb Hop Hx. unfold sfv_cmp_elem, sfv_path.
  destruct x as [c'|bits sg c'|bb|]; cbn [operand_int] in Hx; try discriminate Hx; injection Hx as <-;
    cbn [sfv_cmp_guard sfv_cmp_fast sfv_cmp_slow guard_holds cmp_rhs_val operand_int option_map cmp_lhs_val].
  - now apply (fast_is_spec fmt name composed).
  - now apply (fast_is_spec fmt name composed).
  - reflexivity.
Qed.

Lemma sfv_binop_elem_correct fmt name composed m b op x c :
  In (fmt, name, composed, m) all_sub_fields -> 0 <= b < 256 -> is_comparison op = true -> operand_int x = Some c ->
  sfv_binop_elem m b op x = cmp_bool op (sf_get m b) c.
Proof.
  intros Hin Hb Hop Hx. unfold sfv_binop_elem.
  destruct (is_ordering op) eqn:Ho.
  - rewrite (route_subfield_ordering _ Ho). now apply (sfv_cmp_elem_correct fmt name composed).
  - rewrite route_delegated by (cbn [delegated]; now rewrite Ho). now rewrite Hx.
Qed.

Lemma sfv_binop_arr_correct fmt name composed m bs op x c :
  In (fmt, name, composed, m) all_sub_fields -> Forall (fun b => 0 <= b < 256) bs -> is_comparison op = true ->
  operand_int x = Some c ->
  sfv_binop_arr m bs op x = np_cmp_const op (sf_materialise m bs) c.
Proof.
  intros Hin Hbs Hop Hx. unfold sfv_binop_arr, np_cmp_const, sf_materialise. rewrite map_map.
  apply map_ext_in. intros b Hb. rewrite Forall_forall in Hbs.
  apply (sfv_binop_elem_correct fmt name composed); auto.
Qed.

(* the constant on the LEFT: python's mirrored comparison of the view is numpy's `c <op> np.array(view)` *)
Lemma sfv_rbinop_arr_correct fmt name composed m bs op x c :
  In (fmt, name, composed, m) all_sub_fields -> Forall (fun b => 0 <= b < 256) bs -> is_comparison op = true ->
  operand_int x = Some c ->
  sfv_rbinop_arr m bs op x = np_rcmp_const op c (sf_materialise m bs).
Proof.
  intros Hin Hbs Hop Hx. unfold sfv_rbinop_arr.
  assert (Hm : is_comparison (mirror op) = true) by now rewrite mirror_comparison.
  rewrite (sfv_binop_arr_correct fmt name composed m bs (mirror op) x c Hin Hbs Hm Hx).
  unfold np_cmp_const, np_rcmp_const. apply map_ext. intros v. now apply cmp_bool_mirror.
Qed.

Lemma combine_map_l {A B C} (f : A -> B) (l : list A) : forall (l' : list C),
  combine (map f l) l' = map (fun p => (f (fst p), snd p)) (combine l l').
Proof. induction l as [|a l IH]; intros [|c l']; cbn [map combine]; try reflexivity. now rewrite IH. Qed.

Lemma sfv_cmp_arrarr_correct m bs op cs :
  sfv_cmp_arrarr m bs op cs = np_cmp_arr op (sf_materialise m bs) cs.
Proof.
  unfold sfv_cmp_arrarr, np_cmp_arr, sf_materialise. cbn [sfv_cmp_slow].
  rewrite combine_map_l, map_map. apply map_ext. intros [b c]. reflexivity.
Qed.

(* ---------------------------------------------------------------------------------------------- *)
(* selections                                                                                      *)
(* ---------------------------------------------------------------------------------------------- *)
Lemma nth_error_map' {A B} (f : A -> B) (l : list A) : forall i, nth_error (map f l) i = option_map f (nth_error l i).
Proof. induction l as [|a l IH]; intros [|i]; cbn [map nth_error option_map]; try reflexivity. apply IH. Qed.

Lemma pick_map {A B} (f : A -> B) ps (l : list A) : pick ps (map f l) = map f (pick ps l).
Proof.
  unfold pick. induction ps as [|p ps IH]; [reflexivity|]. cbn [flat_map]. rewrite map_app, IH, nth_error_map'.
  destruct (nth_error l p); reflexivity.
Qed.

Lemma nth_error_lt {A} (l : list A) i : (i < length l)%nat -> exists x, nth_error l i = Some x.
Proof. intros H. destruct (nth_error l i) eqn:E; [eauto|]. apply nth_error_None in E. lia. Qed.

Lemma nth_error_ge {A} (l : list A) i : (length l <= i)%nat -> nth_error l i = None.
Proof. apply nth_error_None. Qed.

Lemma pick_length {A} ps (l : list A) : inb (length l) ps = true -> length (pick ps l) = length ps.
Proof.
  unfold pick, inb. induction ps as [|p ps IH]; [reflexivity|]. cbn [forallb flat_map]. intros H.
  apply andb_true_iff in H as [Hp H]. apply Nat.ltb_lt in Hp. destruct (nth_error_lt l p Hp) as [x ->].
  cbn [app length]. now rewrite IH.
Qed.

Lemma pick_Forall {A} (P : A -> Prop) ps (l : list A) : Forall P l -> Forall P (pick ps l).
Proof.
  intros H. unfold pick. induction ps as [|p ps IH]; [constructor|]. cbn [flat_map].
  apply Forall_app. split; [|exact IH]. destruct (nth_error l p) eqn:E; [|constructor].
  constructor; [|constructor]. rewrite Forall_forall in H. apply H. eapply nth_error_In; eauto.
Qed.

Lemma sfv_index_correct m ps bs :
  option_map (sf_materialise m) (sfv_index ps bs) = np_index1 ps (sf_materialise m bs).
Proof.
  unfold sfv_index, np_index1, sf_materialise. rewrite map_length, pick_map. destruct (inb (length bs) ps); reflexivity.
Qed.

Section ScaledProofs.
  Variables S O F : Type.
  Variable ap : S -> O -> Z -> F.
  Notation ap_row := (ap_row S O F ap).
  Notation materialise := (materialise S O F ap).
  Notation view_index := (view_index S O F ap).
  Notation np_index := (np_index F).
  Notation sview := (sview S O F).

  Lemma nth_error_combine {A B} (a : list A) : forall (b : list B) j,
    nth_error (combine a b) j = match nth_error a j, nth_error b j with Some x, Some y => Some (x, y) | _, _ => None end.
  Proof.
    induction a as [|x a IH]; intros [|y b] [|j]; cbn [combine nth_error]; try reflexivity.
    - destruct (nth_error a j); reflexivity.
    - apply IH.
  Qed.

  Lemma nth_error_ap_row ss os r j :
    nth_error (ap_row ss os r) j =
    match nth_error ss j, nth_error os j, nth_error r j with
    | Some s, Some o, Some x => Some (ap s o x)
    | _, _, _ => None
    end.
  Proof.
    unfold Views.ap_row. rewrite nth_error_map', !nth_error_combine.
    destruct (nth_error ss j), (nth_error os j), (nth_error r j); reflexivity.
  Qed.

  Lemma ap_row_cons s ss o os x r : ap_row (s :: ss) (o :: os) (x :: r) = ap s o x :: ap_row ss os r.
  Proof. reflexivity. Qed.

  Lemma ap_row_nil : ap_row [] [] [] = [].
  Proof. reflexivity. Qed.

  Lemma pick_cons_some {A} p ps (l : list A) x : nth_error l p = Some x -> pick (p :: ps) l = x :: pick ps l.
  Proof. intros H. unfold pick. cbn [flat_map]. now rewrite H. Qed.

  Lemma pick_ap_row js : forall ss os r,
    inb (length ss) js = true -> length os = length ss -> length r = length ss ->
    pick js (ap_row ss os r) = ap_row (pick js ss) (pick js os) (pick js r).
  Proof.
    induction js as [|j js IH]; intros ss os r Hin Ho Hr; [reflexivity|].
    unfold inb in Hin. cbn [forallb] in Hin. apply andb_true_iff in Hin as [Hj Hin]. apply Nat.ltb_lt in Hj.
    destruct (nth_error_lt ss j Hj) as [s Es].
    destruct (nth_error_lt os j ltac:(lia)) as [o Eo].
    destruct (nth_error_lt r j ltac:(lia)) as [x Ex].
    rewrite (pick_cons_some j js ss s Es), (pick_cons_some j js os o Eo), (pick_cons_some j js r x Ex), ap_row_cons.
    rewrite (pick_cons_some j js (ap_row ss os r) (ap s o x)) by (now rewrite nth_error_ap_row, Es, Eo, Ex).
    f_equal. now apply IH.
  Qed.

  Lemma column_ap_row ss os j s o rs :
    nth_error ss j = Some s -> nth_error os j = Some o ->
    column j (map (ap_row ss os) rs) = map (ap s o) (column j rs).
  Proof.
    intros Es Eo. unfold column. induction rs as [|r rs IH]; [reflexivity|]. cbn [map flat_map].
    rewrite map_app, IH, nth_error_ap_row, Es, Eo. destruct (nth_error r j); reflexivity.
  Qed.

  Lemma zip_pick_cons {A} p j pj (m : list (list A)) :
    zip_pick ((p, j) :: pj) m =
    match nth_error m p with
    | Some r => match nth_error r j with Some x => [x] | None => [] end
    | None => []
    end ++ zip_pick pj m.
  Proof. reflexivity. Qed.

  Lemma zip_pick_ap_row ss os rows : length os = length ss -> Forall (fun r => length r = length ss) rows ->
    forall ps js, length ps = length js -> inb (length rows) ps = true -> inb (length ss) js = true ->
    zip_pick (combine ps js) (map (ap_row ss os) rows)
    = ap_row (pick js ss) (pick js os) (zip_pick (combine ps js) rows).
  Proof.
    intros Ho Hrows. induction ps as [|p ps IH]; intros [|j js] Hlen Hps Hjs; cbn [length] in Hlen; try discriminate Hlen.
    - reflexivity.
    - unfold inb in Hps, Hjs. cbn [forallb] in Hps, Hjs.
      apply andb_true_iff in Hps as [Hp Hps]. apply andb_true_iff in Hjs as [Hj Hjs].
      apply Nat.ltb_lt in Hp. apply Nat.ltb_lt in Hj.
      destruct (nth_error_lt rows p Hp) as [r Er].
      assert (length r = length ss) as Hr by (rewrite Forall_forall in Hrows; apply Hrows; eapply nth_error_In; eauto).
      destruct (nth_error_lt ss j Hj) as [s Es].
      destruct (nth_error_lt os j ltac:(lia)) as [o Eo].
      destruct (nth_error_lt r j ltac:(lia)) as [x Ex].
      rewrite (pick_cons_some j js ss s Es), (pick_cons_some j js os o Eo).
      cbn [combine]. rewrite !zip_pick_cons.
      rewrite nth_error_map', Er. cbn [option_map]. rewrite nth_error_ap_row, Es, Eo, Ex.
      cbn [app]. rewrite ap_row_cons. f_equal.
      apply IH; [lia|exact Hps|exact Hjs].
  Qed.

  Lemma materialise_finish m (r : sview) : materialise (gi_finish S O F ap m r) = materialise r.
  Proof. unfold gi_finish. cbn [sav_getitem_values]. destruct m; [|reflexivity]. destruct r; reflexivity. Qed.

  Lemma om_finish m (x : option sview) :
    option_map materialise (option_map (gi_finish S O F ap m) x) = option_map materialise x.
  Proof. destruct x as [r|]; [|reflexivity]. cbn [option_map]. now rewrite materialise_finish. Qed.

  Lemma scaled_index ix (v : sview) : wf S O F v ->
    option_map materialise (view_index ix v) = np_index ix (materialise v).
  Proof.
    intros Hwf. destruct v as [f|fs|xs s o|xs ss os|rows ss os|k0 m0]; cbn [wf] in Hwf; try contradiction.
    - (* one element per point *)
      destruct ix as [i|ps|ps|[i|ps]|r c|ps js];
        cbv [Views.view_index branch_of sav_getitem find gi_cond is_multi]; rewrite ?om_finish;
        cbn [gi_int_apply gi_keep Views.materialise Views.np_index].
      + rewrite nth_error_map'. destruct (nth_error xs i); reflexivity.
      + rewrite map_length, pick_map. destruct (inb (length xs) ps); reflexivity.
      + rewrite map_length, pick_map. destruct (inb (length xs) ps); reflexivity.
      + rewrite nth_error_map'. destruct (nth_error xs i); reflexivity.
      + rewrite map_length, pick_map. destruct (inb (length xs) ps); reflexivity.
      + destruct r, c; reflexivity.
      + reflexivity.
    - (* points x elements *)
      destruct Hwf as [Ho Hrows].
      destruct ix as [i|ps|ps|[i|ps]|[i|ps] [j|js]|ps js];
        cbv [Views.view_index branch_of sav_getitem find gi_cond is_multi]; rewrite ?om_finish;
        cbn [gi_int_apply gi_keep gi_pair Views.materialise Views.np_index].
      + rewrite nth_error_map'. destruct (nth_error rows i); reflexivity.
      + rewrite map_length, pick_map. destruct (inb (length rows) ps); reflexivity.
      + rewrite map_length, pick_map. destruct (inb (length rows) ps); reflexivity.
      + rewrite nth_error_map'. destruct (nth_error rows i); reflexivity.
      + rewrite map_length, pick_map. destruct (inb (length rows) ps); reflexivity.
      + (* v[i, j] *)
        rewrite nth_error_map'. destruct (nth_error rows i) as [r|]; [|reflexivity]. cbn [option_map].
        rewrite nth_error_ap_row. destruct (nth_error r j), (nth_error ss j), (nth_error os j); reflexivity.
      + (* v[i, cols] *)
        rewrite nth_error_map'. destruct (nth_error rows i) as [r|] eqn:Er; [|reflexivity]. cbn [option_map].
        destruct (inb (length ss) js) eqn:Hjs; [|reflexivity]. cbn [option_map Views.materialise].
        assert (length r = length ss) as Hr by (rewrite Forall_forall in Hrows; apply Hrows; eapply nth_error_In; eauto).
        now rewrite pick_ap_row.
      + (* v[rows, j] *)
        rewrite map_length, pick_map. destruct (inb (length rows) ps); [|reflexivity]. cbn [andb].
        destruct (Nat.ltb j (length ss)) eqn:Hj.
        * apply Nat.ltb_lt in Hj. destruct (nth_error_lt ss j Hj) as [s Es]. destruct (nth_error_lt os j ltac:(lia)) as [o Eo].
          rewrite Es, Eo. cbn [option_map Views.materialise]. now rewrite (column_ap_row ss os j s o).
        * apply Nat.ltb_ge in Hj. now rewrite (nth_error_ge ss j Hj).
      + (* v[rows, cols] *)
        rewrite map_length, pick_map. destruct (inb (length rows) ps && inb (length ss) js) eqn:Hb; [|reflexivity].
        apply andb_true_iff in Hb as [Hps Hjs]. cbn [option_map Views.materialise].
        rewrite (pick_length js ss Hjs). f_equal. f_equal. rewrite !map_map. apply map_ext_in. intros r Hr.
        assert (length r = length ss) as Hlr.
        { pose proof (pick_Forall _ ps rows Hrows) as HF. rewrite Forall_forall in HF. now apply HF. }
        now rewrite pick_ap_row.
      + (* v[row list, col list] *)
        rewrite map_length.
        destruct (Nat.eqb (length ps) (length js) && inb (length rows) ps && inb (length ss) js) eqn:Hb; [|reflexivity].
        apply andb_true_iff in Hb as [Hb Hjs]. apply andb_true_iff in Hb as [Hl Hps]. apply Nat.eqb_eq in Hl.
        cbn [option_map Views.materialise]. now rewrite zip_pick_ap_row.
  Qed.

  (* ------------------------------------------------------------------------------------------ *)
  (* max / min                                                                                   *)
  (* ------------------------------------------------------------------------------------------ *)
  Variable fle : F -> F -> bool.
  Variable pos : S -> bool.
  (* only scales the code recognises as positive need to keep the order: the others never reach the grid route *)
  Hypothesis mono : forall s o x y, pos s = true -> x <= y -> fle (ap s o x) (ap s o y) = true.
  Hypothesis antisym : forall a b, fle a b = true -> fle b a = true -> a = b.

  Lemma red_step r s o x y : pos s = true -> ap s o (zred r x y) = fred F fle r (ap s o x) (ap s o y).
  Proof.
    intros Hp. destruct r; cbn [zred fred]; unfold fmax2, fmin2.
    - destruct (Z_le_gt_dec x y) as [H|H].
      + rewrite Z.max_r by lia. now rewrite (mono s o x y Hp H).
      + rewrite Z.max_l by lia. destruct (fle (ap s o x) (ap s o y)) eqn:E; [|reflexivity].
        apply antisym; [exact E|apply mono; [exact Hp|lia]].
    - destruct (Z_le_gt_dec x y) as [H|H].
      + rewrite Z.min_l by lia. destruct (fle (ap s o y) (ap s o x)) eqn:E; [|reflexivity].
        apply antisym; [apply mono; [exact Hp|lia]|exact E].
      + rewrite Z.min_r by lia. rewrite (mono s o y x Hp) by lia. reflexivity.
  Qed.

  Lemma red_fold r s o t : pos s = true -> forall x,
    ap s o (fold_left (zred r) t x) = fold_left (fred F fle r) (map (ap s o) t) (ap s o x).
  Proof. intros Hp. induction t as [|y t IH]; intros x; [reflexivity|]. cbn [fold_left map]. now rewrite IH, red_step. Qed.

  (* the translated max/min test the sign of the scale before answering from the grid (fails to check when the source loses the test) *)
  Lemma grid_guards r : grid_guard r = true.
  Proof. destruct r; reflexivity. Qed.

  Lemma scaled_minmax r init (v : sview) : wf S O F v ->
    view_reduce S O F ap fle pos r init v = np_reduce F fle r init (materialise v).
  Proof.
    intros Hwf. destruct v as [f|fs|xs s o|xs ss os|rows ss os|k0 m0]; cbn [wf] in Hwf; try contradiction.
    - unfold view_reduce, reduce_plan. cbn [is_value]. rewrite reduce_routes. cbn [is_multi orb].
      destruct init as [i|]; [reflexivity|]. rewrite grid_guards. cbn [negb]. rewrite orb_false_r.
      destruct (pos s) eqn:Hp; [|reflexivity]. cbn [Views.materialise np_reduce fold_init].
      destruct xs as [|x t]; [reflexivity|]. cbn [fold1 option_map map]. now rewrite red_fold.
    - unfold view_reduce, reduce_plan. cbn [is_value]. rewrite reduce_routes. reflexivity.
  Qed.

  (* ------------------------------------------------------------------------------------------ *)
  (* first-level results are values or again views of the kind a record hands out                *)
  (* ------------------------------------------------------------------------------------------ *)
  Definition okv (x : sview) : Prop := is_value S O F x = true \/ wf S O F x.

  Lemma pick_rows_wf ps js rows (ss : list S) :
    Forall (fun r : list Z => length r = length ss) rows -> inb (length ss) js = true ->
    Forall (fun r : list Z => length r = length (pick js ss)) (map (pick js) (pick ps rows)).
  Proof.
    intros Hrows Hjs. apply Forall_forall. intros r' Hr'. apply in_map_iff in Hr' as (r & <- & Hr).
    pose proof (pick_Forall _ ps rows Hrows) as HF. rewrite Forall_forall in HF. specialize (HF r Hr).
    rewrite !pick_length; [reflexivity|exact Hjs|now rewrite HF].
  Qed.

  Lemma index_closed ix (v r : sview) : wf S O F v -> view_index ix v = Some r -> okv r.
  Proof.
    intros Hwf. destruct v as [f|fs|xs s o|xs ss os|rows ss os|k0 m0]; cbn [wf] in Hwf; try contradiction.
    - destruct ix as [i|ps|ps|[i|ps]|a c|ps js];
        cbv [Views.view_index branch_of sav_getitem find gi_cond is_multi gi_finish sav_getitem_values];
        cbn [gi_int_apply gi_keep option_map].
      + destruct (nth_error xs i); intros H; inversion H. left. reflexivity.
      + destruct (inb (length xs) ps); intros H; inversion H. right. exact I.
      + destruct (inb (length xs) ps); cbn [option_map]; intros H; inversion H. right. exact I.
      + destruct (nth_error xs i); cbn [option_map]; intros H; inversion H. left. reflexivity.
      + destruct (inb (length xs) ps); cbn [option_map]; intros H; inversion H. right. exact I.
      + destruct a, c; cbn [option_map]; discriminate.
      + cbn [option_map]. discriminate.
    - destruct Hwf as [Ho Hrows].
      destruct ix as [i|ps|ps|[i|ps]|[i|ps] [j|js]|ps js];
        cbv [Views.view_index branch_of sav_getitem find gi_cond is_multi gi_finish sav_getitem_values];
        cbn [gi_int_apply gi_keep gi_pair option_map].
      + destruct (nth_error rows i); intros H; inversion H. left. reflexivity.
      + destruct (inb (length rows) ps); intros H; inversion H. right. split; [exact Ho|now apply pick_Forall].
      + destruct (inb (length rows) ps); cbn [option_map]; intros H; inversion H. right. split; [exact Ho|now apply pick_Forall].
      + destruct (nth_error rows i); cbn [option_map]; intros H; inversion H. left. reflexivity.
      + destruct (inb (length rows) ps); cbn [option_map]; intros H; inversion H. right. split; [exact Ho|now apply pick_Forall].
      + destruct (nth_error rows i) as [r0|]; [|cbn [option_map]; discriminate].
        destruct (nth_error r0 j), (nth_error ss j), (nth_error os j); cbn [option_map]; intros H; inversion H. left. reflexivity.
      + destruct (nth_error rows i) as [r0|]; [|cbn [option_map]; discriminate].
        destruct (inb (length ss) js); cbn [option_map]; intros H; inversion H. left. reflexivity.
      + destruct (inb (length rows) ps); [|cbn [option_map]; discriminate].
        destruct (nth_error ss j), (nth_error os j); cbn [option_map]; intros H; inversion H. right. exact I.
      + destruct (inb (length rows) ps && inb (length ss) js) eqn:Hb; cbn [option_map]; intros H; inversion H.
        apply andb_true_iff in Hb as [Hps Hjs]. right. split.
        * rewrite !pick_length; [reflexivity|exact Hjs|now rewrite Ho].
        * now apply pick_rows_wf.
      + destruct (Nat.eqb (length ps) (length js) && inb (length rows) ps && inb (length ss) js);
          cbn [option_map]; intros H; inversion H. left. reflexivity.
  Qed.

  Lemma materialise_of_nd (a : nd F) : materialise (of_nd S O F a) = a.
  Proof. destruct a; reflexivity. Qed.

  Lemma step_correct ix (x : sview) : okv x ->
    option_map materialise (step_index S O F ap ix x) = np_index ix (materialise x)
    /\ (forall y, step_index S O F ap ix x = Some y -> okv y).
  Proof.
    intros [Hv|Hwf]; unfold step_index.
    - rewrite Hv. split.
      + destruct (np_index ix (materialise x)) as [a|]; [|reflexivity]. cbn [option_map]. now rewrite materialise_of_nd.
      + intros y Hy. destruct (np_index ix (materialise x)) as [a|]; [|discriminate]. cbn [option_map] in Hy.
        injection Hy as <-. left. destruct a; reflexivity.
    - assert (is_value S O F x = false) as ->
        by (destruct x; cbn [wf] in Hwf; try contradiction; reflexivity).
      split; [now apply scaled_index|]. intros y Hy. now apply (index_closed ix x).
  Qed.

  Lemma chain_correct ixs : forall (x : sview), okv x ->
    option_map materialise (chain S O F ap ixs x) = np_chain F ixs (materialise x)
    /\ (forall y, chain S O F ap ixs x = Some y -> okv y).
  Proof.
    induction ixs as [|ix ixs IH]; intros x Hx.
    - cbn [chain np_chain option_map]. split; [reflexivity|]. intros y Hy. now injection Hy as <-.
    - cbn [chain np_chain]. destruct (step_correct ix x Hx) as [E C].
      destruct (step_index S O F ap ix x) as [y|]; cbn [option_map] in E.
      + rewrite <- E. apply IH. now apply C.
      + rewrite <- E. split; [reflexivity|discriminate].
  Qed.

  Lemma chain_values ixs (v : sview) : wf S O F v ->
    option_map materialise (chain S O F ap ixs v) = np_chain F ixs (materialise v).
  Proof. intros Hwf. exact (proj1 (chain_correct ixs v (or_intror Hwf))). Qed.

  Lemma reduce_ok r init (x : sview) : okv x ->
    view_reduce S O F ap fle pos r init x = np_reduce F fle r init (materialise x).
  Proof.
    intros [Hv|Hwf]; [|now apply scaled_minmax]. unfold view_reduce, reduce_plan. now rewrite Hv.
  Qed.

  (* any chain of index expressions followed by the result's own max/min *)
  Lemma chain_reduce ixs r init (v : sview) : wf S O F v ->
    match chain S O F ap ixs v with Some x => view_reduce S O F ap fle pos r init x | None => None end
    = match np_chain F ixs (materialise v) with Some a => np_reduce F fle r init a | None => None end.
  Proof.
    intros Hwf. destruct (chain_correct ixs v (or_intror Hwf)) as [E C].
    destruct (chain S O F ap ixs v) as [x|]; cbn [option_map] in E; rewrite <- E; [|reflexivity].
    apply reduce_ok. now apply C.
  Qed.
End ScaledProofs.

(* the hypotheses are satisfiable: integer scales > 0 in exact arithmetic *)
Definition pos_all (s : positive) : bool := true.
Lemma ap_Z_mono s o x y : pos_all s = true -> x <= y -> Z.leb (ap_Z s o x) (ap_Z s o y) = true.
Proof. unfold ap_Z. intros _ H. apply Z.leb_le. nia. Qed.
Lemma leb_antisym a b : Z.leb a b = true -> Z.leb b a = true -> a = b.
Proof. lia. Qed.

Lemma scaled_minmax_Z r init (v : sview positive Z Z) : wf positive Z Z v ->
  view_reduce positive Z Z ap_Z Z.leb pos_all r init v = np_reduce Z Z.leb r init (materialise positive Z Z ap_Z v).
Proof. apply scaled_minmax; [exact ap_Z_mono|exact leb_antisym]. Qed.

(* ... and with scales of either sign (or zero) in exact arithmetic: x * s + o, s : Z, the code's test being 0 < s *)
Definition ap_ZZ (s o x : Z) : Z := x * s + o.
Definition pos_Z (s : Z) : bool := 0 <? s.
Lemma ap_ZZ_mono s o x y : pos_Z s = true -> x <= y -> Z.leb (ap_ZZ s o x) (ap_ZZ s o y) = true.
Proof. unfold ap_ZZ, pos_Z. intros Hs H. apply Z.ltb_lt in Hs. apply Z.leb_le. nia. Qed.
Lemma scaled_minmax_any_sign r init (v : sview Z Z Z) : wf Z Z Z v ->
  view_reduce Z Z Z ap_ZZ Z.leb pos_Z r init v = np_reduce Z Z.leb r init (materialise Z Z Z ap_ZZ v).
Proof. apply scaled_minmax; [exact ap_ZZ_mono|exact leb_antisym]. Qed.
(* without the guard the grid route answers -14 where numpy answers 21: the extremum of the grid is the other extremum of the values *)
Lemma negative_scale_example :
  view_reduce Z Z Z ap_ZZ Z.leb pos_Z RMax None (V1 [4; -3; 9] (-5) 6) = Some 21
  /\ view_reduce Z Z Z ap_ZZ Z.leb pos_Z RMin None (V1 [4; -3; 9] (-5) 6) = Some (-39)
  /\ view_reduce Z Z Z ap_ZZ Z.leb (fun _ => true) RMax None (V1 [4; -3; 9] (-5) 6) = Some (-39).
Proof. repeat split; reflexivity. Qed.

(* ---------------------------------------------------------------------------------------------- *)
(* keywords of a call                                                                              *)
(* ---------------------------------------------------------------------------------------------- *)
Lemma keywords_spec (V A X K R : Type) (mat : V -> A) (f : list (arg V A X) -> K -> R) args kw :
  array_ufunc_kw V A X K R mat f args kw = Some (f (map (materialised_expr V A X mat) args) kw)
  /\ array_function_kw V A X K R mat f args kw = Some (f (map (materialised_expr V A X mat) args) kw).
Proof.
  unfold array_ufunc_kw, array_function_kw.
  cbn [av_function_converts_then_applies av_ufunc_converts_then_applies av_convert_recurses_lists_tuples
       av_ufunc_passes_keywords av_function_passes_keywords andb].
  assert (map (conv V A X mat) args = map (materialised_expr V A X mat) args) as E
    by (apply map_ext; intros a; apply conv_materialised).
  rewrite E. split; reflexivity.
Qed.

Lemma where_out_length {F} (res : list F) : forall mask out,
  length res = length out -> length mask = length out -> length (np_where_out res mask out) = length out.
Proof.
  induction res as [|r res IH]; intros [|m mask] [|o out] Hr Hm; cbn [np_where_out length] in *; try discriminate; try reflexivity.
  f_equal. apply IH; lia.
Qed.

Lemma where_out_nth {F} (res : list F) : forall mask out i,
  length res = length out -> length mask = length out ->
  nth_error (np_where_out res mask out) i =
  match nth_error mask i with Some true => nth_error res i | Some false => nth_error out i | None => None end.
Proof.
  induction res as [|r res IH]; intros [|m mask] [|o out] i Hr Hm; cbn [np_where_out length] in *; try discriminate.
  - destruct i; reflexivity.
  - destruct i as [|i]; cbn [nth_error].
    + destruct m; reflexivity.
    + apply IH; lia.
Qed.

Lemma sfv_ufunc_where_eq {F} (g : Z -> F) m bs mask out :
  sfv_ufunc_where g m bs mask out = Some (np_where_out (map g (sf_materialise m bs)) mask out).
Proof. reflexivity. Qed.

(* np.<ufunc>(view, out=buffer, where=mask): what numpy computes on np.array(view) where the mask is True, the buffer's
   own contents where it is False *)
Lemma sfv_ufunc_where_spec {F} (g : Z -> F) m bs mask out :
  length mask = length bs -> length out = length bs ->
  exists r, sfv_ufunc_where g m bs mask out = Some r /\ length r = length bs
    /\ forall i, nth_error r i = match nth_error mask i with
                                 | Some true => option_map g (nth_error (sf_materialise m bs) i)
                                 | Some false => nth_error out i
                                 | None => None
                                 end.
Proof.
  intros Hm Ho. exists (np_where_out (map g (sf_materialise m bs)) mask out).
  assert (length (map g (sf_materialise m bs)) = length out) as Hl
    by (unfold sf_materialise; rewrite !map_length; lia).
  split; [apply sfv_ufunc_where_eq|]. split.
  - rewrite where_out_length; lia.
  - intros i. rewrite where_out_nth by lia. rewrite nth_error_map'. reflexivity.
Qed.

(* ---------------------------------------------------------------------------------------------- *)
(* several views in one call                                                                       *)
(* ---------------------------------------------------------------------------------------------- *)
Section MargInd.
  Variables V A X : Type.
  Variable P : marg V A X -> Prop.
  Hypothesis HV : forall v, P (MView v).
  Hypothesis HA : forall a, P (MArr a).
  Hypothesis HO : forall x, P (MOther x).
  Hypothesis HS : forall l, Forall P l -> P (MSeq l).
  Fixpoint marg_ind' (a : marg V A X) : P a :=
    match a with
    | MView v => HV v
    | MArr x => HA x
    | MOther x => HO x
    | MSeq l => HS l ((fix go (l : list (marg V A X)) : Forall P l :=
                         match l with [] => Forall_nil P | x :: r => Forall_cons x (marg_ind' x) (go r) end) l)
    end.
End MargInd.

Lemma same_class_refl c : same_class c c = true.
Proof. destruct c; reflexivity. Qed.

Lemma filter_length_le' {T} (p : T -> bool) (l : list T) : (length (filter p l) <= length l)%nat.
Proof. induction l as [|x l IH]; cbn [filter length]; [lia|]. destruct (p x); cbn [length]; lia. Qed.

Section DispatchProofs.
  Variables V A X R : Type.
  Variable cls : V -> vclass.
  Variable mat : V -> A.
  Let others (c : vclass) (v : V) : bool := negb (same_class (cls v) c).

  Lemma views_conv_class c (a : marg V A X) :
    views V A X (conv_class V A X cls mat c a) = filter (others c) (views V A X a).
  Proof.
    induction a as [v|x|x|l IH] using marg_ind'; try reflexivity.
    - cbn [conv_class views filter]. unfold others. destruct (same_class (cls v) c); reflexivity.
    - cbn [conv_class views]. induction IH as [|y r Hy _ IHr]; [reflexivity|].
      cbn [map flat_map]. rewrite filter_app, Hy, IHr. reflexivity.
  Qed.

  Lemma views_of_conv_class c (args : list (marg V A X)) :
    views_of V A X (map (conv_class V A X cls mat c) args) = filter (others c) (views_of V A X args).
  Proof.
    unfold views_of. induction args as [|y r IHr]; [reflexivity|].
    cbn [map flat_map]. rewrite filter_app, views_conv_class, IHr. reflexivity.
  Qed.

  Lemma mat_all_conv_class c (a : marg V A X) : mat_all V A X mat (conv_class V A X cls mat c a) = mat_all V A X mat a.
  Proof.
    induction a as [v|x|x|l IH] using marg_ind'; try reflexivity.
    - cbn [conv_class]. destruct (same_class (cls v) c); reflexivity.
    - cbn [conv_class mat_all]. f_equal. induction IH as [|y r Hy _ IHr]; [reflexivity|].
      cbn [map]. rewrite Hy, IHr. reflexivity.
  Qed.

  Lemma mat_all_no_views (a : marg V A X) : views V A X a = [] -> mat_all V A X mat a = a.
  Proof.
    induction a as [v|x|x|l IH] using marg_ind'; try reflexivity.
    - discriminate.
    - cbn [views mat_all]. intros H. f_equal. induction IH as [|y r Hy _ IHr]; [reflexivity|].
      cbn [flat_map] in H. apply app_eq_nil in H as [H1 H2]. cbn [map]. rewrite (Hy H1), (IHr H2). reflexivity.
  Qed.

  Lemma mat_all_args_no_views (args : list (marg V A X)) : views_of V A X args = [] -> map (mat_all V A X mat) args = args.
  Proof.
    unfold views_of. induction args as [|y r IHr]; [reflexivity|]. cbn [flat_map map]. intros H.
    apply app_eq_nil in H as [H1 H2]. rewrite (mat_all_no_views y H1), (IHr H2). reflexivity.
  Qed.

  (* whatever the number of classes among the views, after at most one round per view numpy's callable receives the
     expression with EVERY view replaced by np.array(view) *)
  Lemma dispatch_spec (f : list (marg V A X) -> R) : forall fuel args,
    (length (views_of V A X args) < fuel)%nat ->
    dispatch V A X R cls mat fuel f args = Some (f (map (mat_all V A X mat) args)).
  Proof.
    induction fuel as [|k IH]; intros args H; [lia|].
    cbn [dispatch]. destruct (views_of V A X args) as [|v rest] eqn:E.
    - rewrite (mat_all_args_no_views args E). reflexivity.
    - cbn [av_function_converts_then_applies av_ufunc_converts_then_applies av_convert_recurses_lists_tuples andb].
      rewrite IH.
      + rewrite map_map. f_equal. f_equal. apply map_ext. intros a. apply mat_all_conv_class.
      + rewrite views_of_conv_class, E. cbn [filter]. unfold others at 1. rewrite same_class_refl. cbn [negb].
        pose proof (filter_length_le' (others (cls v)) rest) as Hle. cbn [length] in H. lia.
  Qed.

  Lemma dispatch_all (f : list (marg V A X) -> R) args :
    dispatch V A X R cls mat (S (length (views_of V A X args))) f args = Some (f (map (mat_all V A X mat) args))
    /\ views_of V A X (map (mat_all V A X mat) args) = [].
  Proof.
    split; [apply dispatch_spec; lia|].
    unfold views_of. induction args as [|y r IHr]; [reflexivity|]. cbn [map flat_map]. rewrite IHr, app_nil_r.
    induction y as [v|x|x|l IH] using marg_ind'; try reflexivity.
    cbn [mat_all views]. induction IH as [|z q Hz _ IHq]; [reflexivity|]. cbn [map flat_map]. rewrite Hz, IHq. reflexivity.
  Qed.
End DispatchProofs.

Section ConcatProofs.
  Variables S O F : Type.
  Variable ap : S -> O -> Z -> F.

  Lemma arrays_of_MArr (l : list (nd F)) : arrays_of S O F (map MArr l) = Some l.
  Proof. induction l as [|a l IH]; [reflexivity|]. cbn [map arrays_of]. rewrite IH. reflexivity. Qed.

  Lemma views_map_MView (l : list (sview S O F)) : flat_map (views (sview S O F) (nd F) unit) (map MView l) = l.
  Proof. induction l as [|a l IH]; [reflexivity|]. cbn [map flat_map views app]. rewrite IH. reflexivity. Qed.

  (* np.concatenate([v1, v2, ...]) on views = np.concatenate([np.array(v1), np.array(v2), ...]) *)
  Lemma concatenate_views_spec (pieces : list (sview S O F)) :
    concatenate_views S O F ap pieces = np_concatenate F (map (materialise S O F ap) pieces).
  Proof.
    unfold concatenate_views. rewrite dispatch_spec.
    - cbn [map mat_all]. rewrite map_map. cbn [mat_all].
      rewrite <- (map_map (materialise S O F ap) MArr), arrays_of_MArr. reflexivity.
    - unfold views_of. cbn [flat_map views]. rewrite app_nil_r, views_map_MView. lia.
  Qed.

  Lemma concat_flat_v1 (pieces : list (sview S O F)) : forallb (is_v1 S O F) pieces = true ->
    np_concat_flat F (map (materialise S O F ap) pieces) = Some (flat_map (piece_values S O F ap) pieces).
  Proof.
    induction pieces as [|p r IH]; [reflexivity|]. cbn [forallb]. intros H. apply andb_prop in H as [Hp Hr].
    destruct p; try discriminate Hp. cbn [map materialise np_concat_flat flat_map piece_values]. rewrite (IH Hr). reflexivity.
  Qed.

  (* one-element-per-point pieces (x, y, z of any records): position by position the stored integer of piece j scaled with
     the scale and offset of piece j *)
  Lemma concat_pieces (pieces : list (sview S O F)) : pieces <> [] -> forallb (is_v1 S O F) pieces = true ->
    concatenate_views S O F ap pieces = Some (A1 (flat_map (piece_values S O F ap) pieces)).
  Proof.
    intros Hne Hall. rewrite concatenate_views_spec. destruct pieces as [|p r]; [contradiction|].
    pose proof (concat_flat_v1 (p :: r) Hall) as Hf. cbn [forallb] in Hall. apply andb_prop in Hall as [Hp _].
    destruct p; try discriminate Hp. unfold np_concatenate. cbn [map materialise] in *. rewrite Hf. reflexivity.
  Qed.

  (* joining the stored integers and scaling them once with the first piece's scaling is that — provided every piece HAS
     the first piece's scale and offset (equal, not nearly equal) *)
  Lemma grid_first_same_scaling s o (pieces : list (sview S O F)) :
    pieces <> [] -> Forall (fun v => exists xs, v = V1 xs s o) pieces ->
    concat_grid_first S O F ap pieces = concatenate_views S O F ap pieces.
  Proof.
    intros Hne Hall.
    assert (forallb (is_v1 S O F) pieces = true) as Hv.
    { induction Hall as [|v r [xs ->] _ IH]; [reflexivity|]. cbn [forallb is_v1]. destruct r; [reflexivity|]. apply IH. discriminate. }
    rewrite (concat_pieces pieces Hne Hv).
    assert (map (ap s o) (flat_map (grid_of S O F) pieces) = flat_map (piece_values S O F ap) pieces) as E.
    { clear Hne Hv. induction Hall as [|v r [xs ->] _ IH]; [reflexivity|].
      cbn [flat_map grid_of piece_values]. rewrite map_app, IH. reflexivity. }
    destruct pieces as [|p r]; [contradiction|]. inversion Hall as [|? ? [xs Hx] _]; subst p.
    unfold concat_grid_first. rewrite E. reflexivity.
  Qed.
End ConcatProofs.
