(* Writers alive at the same time do not influence each other (Model/LasMulti.v). *)
From Coq Require Import String.
From Coq Require Import ZArith List Bool Lia.
From LasV Require Import Lib.Base Lib.Layout Model.Las Model.LasSpec Model.LasMulti Proofs.WriterProofs.
Import ListNotations.
Open Scope list_scope.
Open Scope Z_scope.

Lemma nth_upd_same {A} : forall (l : list A) i x y, nth_error l i = Some y -> nth_error (upd l i x) i = Some x.
Proof.
  induction l as [|a l IH]; intros [|i] x y H; cbn in *; try discriminate; try reflexivity.
  eapply IH; eassumption.
Qed.

Lemma nth_upd_other {A} : forall (l : list A) i j x, i <> j -> nth_error (upd l i x) j = nth_error l j.
Proof.
  induction l as [|a l IH]; intros [|i] [|j] x H; cbn; try reflexivity; try congruence.
  apply IH. congruence.
Qed.

Section M.
  Variable ap : Z -> Z -> Z -> Z.

  Definition wfold := (fun (acc : wstate * list (result unit)) (op : wop) =>
                         let '(s', o) := wstep ap (fst acc) op in (s', snd acc ++ [o])).

  Lemma wrun_unfold s ops : wrun ap s ops = fold_left wfold ops (s, []).
  Proof. reflexivity. Qed.

  Lemma wfold_fst_acc : forall ops s acc1 acc2,
    fst (fold_left wfold ops (s, acc1)) = fst (fold_left wfold ops (s, acc2)).
  Proof.
    induction ops as [|op ops IH]; intros s acc1 acc2; cbn [fold_left].
    - reflexivity.
    - unfold wfold at 2 4. cbn [fst snd]. destruct (wstep ap s op) as [s' o]. apply IH.
  Qed.

  Lemma wrun_fst_cons s op ops : fst (wrun ap s (op :: ops)) = fst (wrun ap (fst (wstep ap s op)) ops).
  Proof.
    rewrite !wrun_unfold. cbn [fold_left]. unfold wfold at 2. cbn [fst snd].
    destruct (wstep ap s op) as [s' o]. cbn [fst]. apply wfold_fst_acc.
  Qed.

  Lemma proj_cons_same i op ops : proj i ((i, op) :: ops) = op :: proj i ops.
  Proof. unfold proj. cbn [filter fst]. rewrite Nat.eqb_refl. reflexivity. Qed.

  Lemma proj_cons_other i j op ops : j <> i -> proj i ((j, op) :: ops) = proj i ops.
  Proof.
    intros H. unfold proj. cbn [filter fst]. destruct (Nat.eqb j i) eqn:E; [|reflexivity].
    apply Nat.eqb_eq in E. congruence.
  Qed.

  (* whatever the interleaving, writer i ends in the state its own operations, run alone, lead to *)
  Theorem interleave_independent : forall ops sys i s,
    nth_error sys i = Some s ->
    nth_error (mrun ap sys ops) i = Some (fst (wrun ap s (proj i ops))).
  Proof.
    induction ops as [|[j op] ops IH]; intros sys i s Hs.
    - exact Hs.
    - unfold mrun. cbn [fold_left]. fold (mrun ap (mstep ap sys (j, op)) ops).
      unfold mstep. cbn [fst snd].
      destruct (Nat.eq_dec j i) as [->|Hne].
      + rewrite Hs. rewrite proj_cons_same, wrun_fst_cons.
        apply IH. eapply nth_upd_same. exact Hs.
      + rewrite (proj_cons_other i j op ops Hne).
        destruct (nth_error sys j) as [sj|].
        * apply IH. rewrite nth_upd_other by exact Hne. exact Hs.
        * apply IH. exact Hs.
  Qed.

  (* hence: a writer of an ensemble whose own operations form an accepted chunked session leaves the one-shot file of ITS points,
     whose header carries stats_of exactly these points (C03_count / C03_returns / C03_extrema / C03_file_length apply to file_of) *)
  Theorem ensemble_file : ap_ok ap -> forall sys ops i h vl fmt chunks evl s0 s outs,
    wopen h vl fmt = Ok s0 -> nth_error sys i = Some s0 ->
    proj i ops = chunk_ops chunks evl ->
    wrun ap s0 (chunk_ops chunks evl) = (s, outs) -> all_ok outs ->
    exists s', nth_error (mrun ap sys ops) i = Some s' /\ file_of ap h vl fmt (concat chunks) evl = Ok (w_file s').
  Proof.
    intros Hap sys ops i h vl fmt chunks evl s0 s outs Ho Hn Hp Hr Hok.
    exists s. split.
    - rewrite (interleave_independent ops sys i s0 Hn), Hp, Hr. reflexivity.
    - eapply writer_refines; eassumption.
  Qed.
End M.
