(* Fault sequences (property C19, quantifier "fault_sequences"): some low-level writes of a chunked writer session are TORN - a prefix of
   their bytes reaches the destination, the call raises - and the session goes on: further chunks, the EVLRs, the final header rewrite.
   The discipline assumed of the implementation (checked on its recorded traces by harness/props/c19.py, fault_discipline): a failed chunk
   is not counted; the point write that follows a failed one starts where the failed one started (laspy: a failed write that stored
   NOTHING, `FTorn []`, followed by anything; an implementation that seeks back over torn bytes is covered too); the EVLRs written when
   the session is closed start anywhere at or behind the end of the accepted points (laspy: right behind the bytes a torn LAST write
   left). Then EVERY crash image of such a session - and in particular its final file - is refused by the reader or read as a prefix of
   the ACCEPTED points. *)
From Coq Require Import String.
From Coq Require Import ZArith List Bool Lia ZifyBool.
From LasV Require Import Lib.Base Lib.BaseFacts Lib.Layout Proofs.LayoutProofs Gen.GenHeaderLayout Gen.GenFormatBits Gen.GenDims
  Model.Las Model.LasSpec Proofs.HeaderLen Proofs.VlrProofs Proofs.HeaderProofs Proofs.WriterProofs Proofs.RoundTripProofs
  Proofs.CrashProofs.
Import ListNotations.
Open Scope list_scope.
Open Scope Z_scope.

(* what happens to one write_points call: the chunk is stored and counted, or only `stored` (any bytes: a prefix of the chunk in
   practice) reaches the destination and the chunk is not counted *)
Inductive fev :=
| FOk (recs : list (list Z))
| FTorn (stored : list Z).

Fixpoint fault_writes (pos : Z) (evs : list fev) : list (Z * list Z) :=
  match evs with
  | [] => []
  | FOk recs :: r => (pos, concat recs) :: fault_writes (pos + len (concat recs)) r
  | FTorn bs :: r => (pos, bs) :: fault_writes pos r
  end.

Fixpoint accepted (evs : list fev) : list (list Z) :=
  match evs with
  | [] => []
  | FOk recs :: r => recs ++ accepted r
  | FTorn _ :: r => accepted r
  end.

(* epos: where the EVLRs are written (at or behind the end of the accepted points) *)
Definition fault_trace (hdr0 : list Z) (evs : list fev) (epos : Z) (eb hdr1 : list Z) : list (Z * list Z) :=
  (0, hdr0) :: fault_writes (len hdr0) evs
  ++ (match eb with [] => [] | _ => [(epos, eb)] end) ++ [(0, hdr1)].

Lemma fwrite_at_mid : forall (a junk bs : list Z), write_at (a ++ junk) (len a) bs = a ++ bs ++ skipn (length bs) junk.
Proof.
  intros a junk bs. unfold write_at. rewrite to_nat_len.
  rewrite (firstn_app_exact a junk (length a) eq_refl).
  replace (length a - length (a ++ junk))%nat with 0%nat by (rewrite app_length; lia).
  cbn [zeros repeat app].
  rewrite skipn_app. rewrite skipn_all2 by lia. cbn [app].
  replace (length a + length bs - length a)%nat with (length bs) by lia. reflexivity.
Qed.

Lemma write_at_after : forall (b0 x junk bs : list Z),
  write_at (b0 ++ x ++ junk) (len b0 + len x) bs = b0 ++ x ++ bs ++ skipn (length bs) junk.
Proof.
  intros. rewrite <- len_app, app_assoc, fwrite_at_mid, <- app_assoc. reflexivity.
Qed.

(* a write at or behind the end of `a` leaves `a` alone *)
Lemma write_at_beyond : forall (a junk : list Z) p bs, len a <= p -> exists junk', write_at (a ++ junk) p bs = a ++ junk'.
Proof.
  intros a junk p bs Hp. unfold write_at.
  assert (length a <= Z.to_nat p)%nat as Hn by (unfold len in Hp; lia).
  rewrite firstn_app, (firstn_all2 a) by exact Hn.
  rewrite <- app_assoc. eauto.
Qed.

Lemma write_at_beyond2 : forall (b0 x junk : list Z) p bs, len b0 + len x <= p ->
  exists junk', write_at (b0 ++ x ++ junk) p bs = b0 ++ x ++ junk'.
Proof.
  intros b0 x junk p bs Hp. rewrite app_assoc.
  destruct (write_at_beyond (b0 ++ x) junk p bs) as [j Hj]; [rewrite len_app; exact Hp|].
  exists j. rewrite Hj, <- app_assoc. reflexivity.
Qed.

(* the data writes of a faulted session: either the image is the initial header and the points accepted before, plus something, or all
   the writes are done and the destination holds the header, the accepted points, and something behind them *)
Lemma crash_faults : forall evs b0 acc junk rest k j,
  (exists t, crash_from (b0 ++ concat acc ++ junk) (fault_writes (len b0 + len (concat acc)) evs ++ rest) k j = b0 ++ concat acc ++ t)
  \/ (exists junk', (length evs <= k)%nat
      /\ crash_from (b0 ++ concat acc ++ junk) (fault_writes (len b0 + len (concat acc)) evs ++ rest) k j
         = crash_from (b0 ++ concat (acc ++ accepted evs) ++ junk') rest (k - length evs) j).
Proof.
  induction evs as [|e evs IH]; intros b0 acc junk rest k j.
  - right. exists junk. cbn [fault_writes app length accepted]. rewrite app_nil_r, Nat.sub_0_r. split; [lia|reflexivity].
  - destruct e as [recs|bs]; cbn [fault_writes app accepted].
    + destruct k as [|k].
      * left. rewrite crash_from_0, write_at_after. eauto.
      * rewrite crash_from_S. unfold apply_write. cbn [fst snd]. rewrite write_at_after.
        replace (len b0 + len (concat acc) + len (concat recs)) with (len b0 + len (concat (acc ++ recs)))
          by (rewrite concat_app, len_app; lia).
        replace (b0 ++ concat acc ++ concat recs ++ skipn (length (concat recs)) junk)
          with (b0 ++ concat (acc ++ recs) ++ skipn (length (concat recs)) junk)
          by (rewrite concat_app, <- app_assoc; reflexivity).
        destruct (IH b0 (acc ++ recs) (skipn (length (concat recs)) junk) rest k j) as [[t Ht]|[junk' [Hk Ht]]].
        -- left. exists (concat recs ++ t). rewrite Ht, concat_app, <- app_assoc. reflexivity.
        -- right. exists junk'. split; [cbn [length]; lia|]. rewrite Ht. cbn [length Nat.sub].
           rewrite <- app_assoc. reflexivity.
    + destruct k as [|k].
      * left. rewrite crash_from_0, write_at_after. eauto.
      * rewrite crash_from_S. unfold apply_write. cbn [fst snd]. rewrite write_at_after.
        destruct (IH b0 acc (bs ++ skipn (length bs) junk) rest k j) as [[t Ht]|[junk' [Hk Ht]]].
        -- left. eauto.
        -- right. exists junk'. split; [cbn [length]; lia|]. rewrite Ht. cbn [length Nat.sub]. reflexivity.
Qed.

(* C19, chunked writer with torn point writes followed by continued use *)
Theorem fault_safe : forall ap h vl fmt evs evl hb0 epos eb h' hb1 k j,
  enc_header (with_stats h stats0) vl false = Ok hb0 ->
  enc_vlrs true evl = Ok eb ->
  final_hdr ap h vl fmt (accepted evs) evl = Ok h' ->
  enc_header (with_stats (fst hb0) (stats_of_header h')) vl true = Ok hb1 ->
  recs_ok (aint h' "point_size") (accepted evs) = true -> 0 < aint h' "point_size" ->
  len (snd hb0) + len (concat (accepted evs)) <= epos ->
  reads_prefix_or_fails (crash_image (fault_trace (snd hb0) evs epos eb (snd hb1)) k j) (accepted evs).
Proof.
  intros ap h vl fmt evs evl [h0 b0] epos eb h' [h1 b1] k j H0 _ Hf H1 Hrecs Hps Hepos.
  cbn [fst snd] in *.
  destruct (session_facts _ _ _ _ _ _ _ _ _ _ _ H0 Hf H1) as (m & HF).
  fold (hdr_facts b0 b1 m (aint h' "point_size") (len (accepted evs))) in HF.
  set (ps := aint h' "point_size") in *. set (recs := accepted evs) in *.
  unfold fault_trace. fold recs. rewrite crash_image_from.
  destruct k as [|k].
  - rewrite crash_from_0, write_at_nil.
    pose proof (safeA b0 b1 m ps recs [] j HF Hrecs Hps) as HA. now rewrite app_nil_r in HA.
  - rewrite crash_from_S. unfold apply_write at 1. cbn [fst snd]. rewrite write_at_nil.
    match goal with |- context [fault_writes (len b0) evs ++ ?r] => set (rest := r) end.
    pose proof (crash_faults evs b0 [] [] rest k j) as HC.
    cbn [concat app] in HC. change (len (@nil Z)) with 0 in HC. rewrite Z.add_0_r, app_nil_r in HC.
    destruct HC as [[t Ht]|[junk' [Hk Ht]]]; rewrite Ht.
    + cbn [app]. rewrite <- (firstn_all (b0 ++ t)). now apply (safeA b0 b1 m ps).
    + fold recs. unfold rest. clear Ht rest.
      destruct eb as [|e eb].
      * cbn [app]. now apply (last_step b0 b1 m ps).
      * cbn [app]. set (ebs := e :: eb).
        destruct (k - length evs)%nat as [|k'].
        -- rewrite crash_from_0.
           destruct (write_at_beyond2 b0 (concat recs) junk' epos (firstn j ebs) Hepos) as [t Ht]. rewrite Ht.
           rewrite <- (firstn_all (b0 ++ _)). now apply (safeA b0 b1 m ps).
        -- rewrite crash_from_S. unfold apply_write at 1. cbn [fst snd].
           destruct (write_at_beyond2 b0 (concat recs) junk' epos ebs Hepos) as [t Ht]. rewrite Ht.
           now apply (last_step b0 b1 m ps).
Qed.
Print Assumptions fault_safe.

(* the complete file of a faulted session in particular (all the writes done) *)
Corollary fault_final_safe : forall ap h vl fmt evs evl hb0 epos eb h' hb1,
  enc_header (with_stats h stats0) vl false = Ok hb0 ->
  enc_vlrs true evl = Ok eb ->
  final_hdr ap h vl fmt (accepted evs) evl = Ok h' ->
  enc_header (with_stats (fst hb0) (stats_of_header h')) vl true = Ok hb1 ->
  recs_ok (aint h' "point_size") (accepted evs) = true -> 0 < aint h' "point_size" ->
  len (snd hb0) + len (concat (accepted evs)) <= epos ->
  reads_prefix_or_fails (fold_left apply_write (fault_trace (snd hb0) evs epos eb (snd hb1)) []) (accepted evs).
Proof.
  intros ap h vl fmt evs evl hb0 epos eb h' hb1 H0 He Hf H1 Hr Hp Hepos.
  pose proof (fault_safe ap h vl fmt evs evl hb0 epos eb h' hb1 (length (fault_trace (snd hb0) evs epos eb (snd hb1))) 0 H0 He Hf H1 Hr Hp Hepos) as H.
  unfold crash_image in H. rewrite firstn_all in H.
  rewrite (proj2 (nth_error_None _ _)) in H by lia. exact H.
Qed.
Print Assumptions fault_final_safe.
