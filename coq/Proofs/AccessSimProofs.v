(* C17 — two sources that agree on whether they can be moved are used in the same way, whatever the bytes: same result,
   same call sequence up to the optional methods (Model/Access.v: norm). In particular a source that offers only read()
   behaves exactly like a source whose seekable() answers False. *)
From Coq Require Import String.
From Coq Require Import ZArith List Bool Lia ZifyBool.
From LasV Require Import Lib.Base Lib.Layout Gen.GenHeaderLayout Gen.GenAccess Model.Las Model.Access.
Import ListNotations.
Open Scope list_scope.
Open Scope Z_scope.

Definition sim (s s' : stream) : Prop :=
  st_bytes s = st_bytes s' /\ st_pos s = st_pos s' /\ norm (st_log s) = norm (st_log s').

Lemma norm_app a b : norm (a ++ b) = norm a ++ norm b.
Proof. unfold norm. now rewrite filter_app, map_app. Qed.

Lemma sim_refl s : sim s s.
Proof. repeat split. Qed.

Lemma sim_avail s s' : sim s s' -> avail s = avail s'.
Proof. intros (B & P & _). unfold avail. now rewrite B, P. Qed.

Lemma sim_log s s' ext ext' b p : sim s s' -> norm ext = norm ext' ->
  sim (mkSt b p (st_log s ++ ext)) (mkSt b p (st_log s' ++ ext')).
Proof. intros (_ & _ & L) E. repeat split. cbn [st_log]. now rewrite !norm_app, L, E. Qed.

Lemma sim_read n s s' : sim s s' -> fst (s_read n s) = fst (s_read n s') /\ sim (snd (s_read n s)) (snd (s_read n s')).
Proof.
  intros H. pose proof (sim_avail _ _ H) as A. destruct H as (B & P & L). unfold s_read. rewrite A, B, P. cbn [fst snd].
  split; [reflexivity|]. apply sim_log; [repeat split; assumption|reflexivity].
Qed.

(* read(n) or readinto(buffer of n bytes), n >= 0: the same bytes *)
Definition rd (into : bool) (n : Z) (s : stream) : list Z * stream := if into then s_readinto n s else s_read n s.

Lemma sim_rd b b' n s s' : 0 <= n -> sim s s' -> fst (rd b n s) = fst (rd b' n s') /\ sim (snd (rd b n s)) (snd (rd b' n s')).
Proof.
  intros Hn H. pose proof (sim_avail _ _ H) as A. destruct H as (B & P & L).
  unfold rd, s_read, s_readinto. destruct (n <? 0) eqn:E; [lia|]. rewrite A, B, P.
  destruct b, b'; cbn [fst snd]; (split; [reflexivity|]); apply sim_log; try (repeat split; assumption); reflexivity.
Qed.

Lemma sim_seek p s s' : sim s s' -> sim (s_seek p s) (s_seek p s').
Proof. intros (B & P & L). unfold s_seek. rewrite B. apply sim_log; [repeat split; assumption|reflexivity]. Qed.

Lemma sim_tell s s' : sim s s' -> fst (s_tell s) = fst (s_tell s') /\ sim (snd (s_tell s)) (snd (s_tell s')).
Proof.
  intros (B & P & L). unfold s_tell. cbn [fst snd]. split; [exact P|]. rewrite B, P.
  apply sim_log; [repeat split; assumption|reflexivity].
Qed.

Lemma sim_sdec_fields l : forall s s', sim s s' ->
  fst (sdec_fields l s) = fst (sdec_fields l s') /\ sim (snd (sdec_fields l s)) (snd (sdec_fields l s')).
Proof.
  induction l as [|[[k w] n] l IH]; intros s s' H; [split; [reflexivity|exact H]|].
  cbn [sdec_fields]. destruct (sim_read (Z.of_nat w) s s' H) as [R1 R2].
  destruct (s_read (Z.of_nat w) s) as [raw s1]. destruct (s_read (Z.of_nat w) s') as [raw' s1']. cbn [fst snd] in R1, R2. subst raw'.
  destruct (IH s1 s1' R2) as [I1 I2].
  destruct (sdec_fields l s1) as [a s2]. destruct (sdec_fields l s1') as [a' s2']. cbn [fst snd] in *. subst a'. split; [reflexivity|exact I2].
Qed.

Lemma sim_sread_vlrs n : forall s s', sim s s' ->
  fst (sread_vlrs n s) = fst (sread_vlrs n s') /\ sim (snd (sread_vlrs n s)) (snd (sread_vlrs n s')).
Proof.
  induction n as [|n IH]; intros s s' H; [split; [reflexivity|exact H]|].
  cbn [sread_vlrs].
  destruct (sim_sdec_fields evlr_head s s' H) as [A1 A2].
  destruct (sdec_fields evlr_head s) as [a1 s1]. destruct (sdec_fields evlr_head s') as [a1' s1']. cbn [fst snd] in A1, A2. subst a1'.
  destruct (ascii_ok (abytes a1 "user_id")); [|split; [reflexivity|exact A2]].
  destruct (sim_sdec_fields evlr_tail s1 s1' A2) as [B1 B2].
  destruct (sdec_fields evlr_tail s1) as [a2 s2]. destruct (sdec_fields evlr_tail s1') as [a2' s2']. cbn [fst snd] in B1, B2. subst a2'.
  destruct (sim_read (aint a2 "record_length") s2 s2' B2) as [C1 C2].
  destruct (s_read (aint a2 "record_length") s2) as [data s3]. destruct (s_read (aint a2 "record_length") s2') as [data' s3'].
  cbn [fst snd] in C1, C2. subst data'.
  destruct (IH s3 s3' C2) as [D1 D2].
  destruct (sread_vlrs n s3) as [r s4]. destruct (sread_vlrs n s3') as [r' s4']. cbn [fst snd] in *. subst r'. split; [reflexivity|exact D2].
Qed.

Lemma sim_prefetch s s' : sim s s' -> fst (prefetch s) = fst (prefetch s') /\ sim (snd (prefetch s)) (snd (prefetch s')).
Proof.
  intros H. unfold prefetch. destruct (sim_read prefetch_first_read s s' H) as [A1 A2].
  destruct (s_read prefetch_first_read s) as [hb s1]. destruct (s_read prefetch_first_read s') as [hb' s1']. cbn [fst snd] in A1, A2. subst hb'.
  destruct (length (firstn 4 hb) =? 0)%nat; [split; [reflexivity|exact A2]|].
  destruct (negb (list_eqb (firstn 4 hb) LASF)); [split; [reflexivity|exact A2]|].
  destruct (len hb <? prefetch_first_read); [split; [reflexivity|exact A2]|].
  match goal with |- context [s_read ?n s1] => destruct (sim_read n s1 s1' A2) as [B1 B2];
    destruct (s_read n s1) as [rest s2]; destruct (s_read n s1') as [rest' s2'] end.
  cbn [fst snd] in *. subst rest'. split; [reflexivity|exact B2].
Qed.

Section TwoSources.
  Variables c c' : caps.
  Hypothesis Hcs : can_seek c = can_seek c'.

  Lemma sim_can_seek s s' : sim s s' ->
    fst (s_can_seek c s) = can_seek c /\ fst (s_can_seek c' s') = can_seek c /\ sim (snd (s_can_seek c s)) (snd (s_can_seek c' s')).
  Proof.
    intros H. destruct H as (B & P & L). unfold can_seek in Hcs. unfold s_can_seek, can_seek, s_seekable.
    destruct (c_has_seekable c), (c_has_seekable c'); cbn [fst snd andb] in *; (split; [reflexivity|]); (split; [auto|]).
    - rewrite B, P. apply sim_log; [repeat split; assumption|reflexivity].
    - destruct s as [b p l], s' as [b' p' l']. cbn [st_bytes st_pos st_log] in *. subst b' p'.
      rewrite <- (app_nil_r l'). apply (sim_log (mkSt b p l) (mkSt b p l') [OSeekable] [] b p); [repeat split; assumption|reflexivity].
    - destruct s as [b p l], s' as [b' p' l']. cbn [st_bytes st_pos st_log] in *. subst b' p'.
      rewrite <- (app_nil_r l). apply (sim_log (mkSt b p l) (mkSt b p l') [] [OSeekable] b p); [repeat split; assumption|reflexivity].
    - repeat split; assumption.
  Qed.

  Lemma sim_hdr_read_evlrs rh s s' : sim s s' ->
    fst (hdr_read_evlrs c rh s) = fst (hdr_read_evlrs c' rh s') /\ sim (snd (hdr_read_evlrs c rh s)) (snd (hdr_read_evlrs c' rh s')).
  Proof.
    intros H. unfold hdr_read_evlrs.
    destruct (h_minor rh >=? 4); [|split; [reflexivity|exact H]].
    destruct (sim_can_seek s s' H) as (A1 & A1' & A2).
    destruct (s_can_seek c s) as [sk s1]. destruct (s_can_seek c' s') as [sk' s1']. cbn [fst snd] in A1, A1', A2. subst sk sk'.
    destruct (h_nev rh >? 0); [|split; [reflexivity|exact A2]].
    destruct (can_seek c) in |- *; [|split; [reflexivity|exact A2]].
    destruct (sim_tell s1 s1' A2) as [T1 T2].
    destruct (s_tell s1) as [saved s2]. destruct (s_tell s1') as [saved' s2']. cbn [fst snd] in T1, T2. subst saved'.
    pose proof (sim_seek (h_evstart rh) s2 s2' T2) as S3.
    destruct (sim_sread_vlrs (Z.to_nat (h_nev rh)) _ _ S3) as [V1 V2].
    destruct (sread_vlrs (Z.to_nat (h_nev rh)) (s_seek (h_evstart rh) s2)) as [r s4].
    destruct (sread_vlrs (Z.to_nat (h_nev rh)) (s_seek (h_evstart rh) s2')) as [r' s4']. cbn [fst snd] in V1, V2. subst r'.
    destruct r as [l|er]; cbn [fst snd]; (split; [reflexivity|]); [now apply sim_seek|exact V2].
  Qed.

  Lemma sim_open_reader e s s' : sim s s' ->
    fst (open_reader c e s) = fst (open_reader c' e s') /\ sim (snd (open_reader c e s)) (snd (open_reader c' e s')).
  Proof.
    intros H. unfold open_reader. destruct (sim_prefetch s s' H) as [A1 A2].
    destruct (prefetch s) as [p s1]. destruct (prefetch s') as [p' s1']. cbn [fst snd] in A1, A2. subst p'.
    destruct p as [data|er]; [|split; [reflexivity|exact A2]].
    destruct (dec_header data false) as [rh|er]; [|split; [reflexivity|exact A2]].
    destruct (rh_compressed rh); [split; [reflexivity|exact A2]|].
    destruct e; [|split; [reflexivity|exact A2]].
    now apply sim_hdr_read_evlrs.
  Qed.

  Lemma sim_read_n_points ps n s s' : 0 <= n -> sim s s' ->
    fst (read_n_points c ps n s) = fst (read_n_points c' ps n s') /\ sim (snd (read_n_points c ps n s)) (snd (read_n_points c' ps n s')).
  Proof.
    intros Hn H. unfold read_n_points. destruct (ps <=? 0) eqn:E; [split; [reflexivity|exact H]|].
    destruct (sim_rd (c_readinto c) (c_readinto c') (n * ps) s s' ltac:(nia) H) as [A1 A2]. unfold rd in A1, A2.
    destruct (if c_readinto c then s_readinto (n * ps) s else s_read (n * ps) s) as [d s1].
    destruct (if c_readinto c' then s_readinto (n * ps) s' else s_read (n * ps) s') as [d' s1']. cbn [fst snd] in *. subst d'.
    split; [reflexivity|exact A2].
  Qed.

  Lemma sim_read_points rh pr n s s' : sim s s' ->
    fst (read_points c rh pr n s) = fst (read_points c' rh pr n s') /\ sim (snd (read_points c rh pr n s)) (snd (read_points c' rh pr n s')).
  Proof.
    intros H. unfold read_points. destruct (h_count rh - pr <=? 0) eqn:E; [split; [reflexivity|exact H]|].
    set (m := if n <? 0 then h_count rh - pr else Z.min n (h_count rh - pr)).
    assert (0 <= m) as Hm by (unfold m; destruct (n <? 0) eqn:En; lia).
    destruct (sim_read_n_points (rh_psize rh) m s s' Hm H) as [A1 A2].
    destruct (read_n_points c (rh_psize rh) m s) as [r s1]. destruct (read_n_points c' (rh_psize rh) m s') as [r' s1'].
    cbn [fst snd] in *. subst r'. split; [reflexivity|exact A2].
  Qed.

  Lemma sim_chunk_loop rh k : forall fuel pr s s', sim s s' ->
    fst (chunk_loop fuel c rh k pr s) = fst (chunk_loop fuel c' rh k pr s')
    /\ sim (snd (chunk_loop fuel c rh k pr s)) (snd (chunk_loop fuel c' rh k pr s')).
  Proof.
    induction fuel as [|fu IH]; intros pr s s' H; [split; [reflexivity|exact H]|].
    cbn [chunk_loop]. destruct (sim_read_points rh pr k s s' H) as [A1 A2].
    destruct (read_points c rh pr k s) as [[r pr1] s1]. destruct (read_points c' rh pr k s') as [[r' pr1'] s1'].
    cbn [fst snd] in A1, A2. injection A1 as <- <-.
    destruct r as [[|r0 recs]|er]; try (split; [reflexivity|exact A2]).
    destruct (IH pr1 s1 s1' A2) as [B1 B2].
    destruct (chunk_loop fu c rh k pr1 s1) as [[r2 pr2] s2]. destruct (chunk_loop fu c' rh k pr1 s1') as [[r2' pr2'] s2'].
    cbn [fst snd] in *. injection B1 as <- <-. split; [reflexivity|exact B2].
  Qed.

  Lemma sim_run_steps fuel rh : forall steps pr s s', sim s s' ->
    fst (run_steps fuel c rh steps pr s) = fst (run_steps fuel c' rh steps pr s')
    /\ sim (snd (run_steps fuel c rh steps pr s)) (snd (run_steps fuel c' rh steps pr s')).
  Proof.
    induction steps as [|st more IH]; intros pr s s' H; [split; [reflexivity|exact H]|].
    cbn [run_steps].
    assert (fst (match st with SChunks k => chunk_loop fuel c rh k pr s | SPoints n => read_points c rh pr n s end)
            = fst (match st with SChunks k => chunk_loop fuel c' rh k pr s' | SPoints n => read_points c' rh pr n s' end)
            /\ sim (snd (match st with SChunks k => chunk_loop fuel c rh k pr s | SPoints n => read_points c rh pr n s end))
                   (snd (match st with SChunks k => chunk_loop fuel c' rh k pr s' | SPoints n => read_points c' rh pr n s' end))) as [A1 A2]
      by (destruct st; [now apply sim_chunk_loop|now apply sim_read_points]).
    destruct (match st with SChunks k => chunk_loop fuel c rh k pr s | SPoints n => read_points c rh pr n s end) as [[r pr1] s1].
    destruct (match st with SChunks k => chunk_loop fuel c' rh k pr s' | SPoints n => read_points c' rh pr n s' end) as [[r' pr1'] s1'].
    cbn [fst snd] in A1, A2. injection A1 as <- <-.
    destruct r as [recs|er]; [|split; [reflexivity|exact A2]].
    destruct (IH pr1 s1 s1' A2) as [B1 B2].
    destruct (run_steps fuel c rh more pr1 s1) as [[r2 pr2] s2]. destruct (run_steps fuel c' rh more pr1 s1') as [[r2' pr2'] s2'].
    cbn [fst snd] in *. injection B1 as <- <-. split; [reflexivity|exact B2].
  Qed.

  Lemma sim_skip_gap : forall fuel gap s s', sim s s' -> sim (skip_gap fuel gap s) (skip_gap fuel gap s').
  Proof.
    induction fuel as [|fu IH]; intros gap s s' H; [exact H|].
    cbn [skip_gap]. destruct (gap >? 0); [|exact H].
    destruct (sim_read gap s s' H) as [R1 R2].
    destruct (s_read gap s) as [d s1]. destruct (s_read gap s') as [d' s1']. cbn [fst snd] in R1, R2. subst d'.
    destruct (len d =? 0); [exact R2|]. now apply IH.
  Qed.

  Lemma sim_finish_evlrs rh s s' : sim s s' ->
    fst (finish_evlrs c rh s) = fst (finish_evlrs c' rh s') /\ sim (snd (finish_evlrs c rh s)) (snd (finish_evlrs c' rh s')).
  Proof.
    intros H. unfold finish_evlrs.
    destruct ((h_minor rh >=? 4) && (h_nev rh >? 0) && is_none (rh_evlrs rh)).
    - destruct (sim_can_seek s s' H) as (A1 & A1' & A2).
      destruct (s_can_seek c s) as [sk s1]. destruct (s_can_seek c' s') as [sk' s1']. cbn [fst snd] in A1, A1', A2. subst sk sk'.
      destruct (can_seek c) in |- *; [now apply sim_hdr_read_evlrs|].
      pose proof (sim_skip_gap skip_fuel (evlr_gap rh) s1 s1' A2) as G.
      destruct (sim_sread_vlrs (Z.to_nat (h_nev rh)) _ _ G) as [V1 V2].
      destruct (sread_vlrs (Z.to_nat (h_nev rh)) (skip_gap skip_fuel (evlr_gap rh) s1)) as [r s2].
      destruct (sread_vlrs (Z.to_nat (h_nev rh)) (skip_gap skip_fuel (evlr_gap rh) s1')) as [r' s2'].
      cbn [fst snd] in *. subst r'. split; [reflexivity|exact V2].
    - destruct ((h_minor rh >=? 4) && is_none (rh_evlrs rh)); (split; [reflexivity|exact H]).
  Qed.

  Theorem same_use e steps src :
    fst (read_via c e steps src) = fst (read_via c' e steps src)
    /\ norm (snd (read_via c e steps src)) = norm (snd (read_via c' e steps src))
    /\ fst (consume_via c e steps src) = fst (consume_via c' e steps src)
    /\ norm (snd (consume_via c e steps src)) = norm (snd (consume_via c' e steps src)).
  Proof.
    unfold read_via, consume_via. set (s0 := mkSt src 0 []).
    destruct (sim_open_reader e s0 s0 (sim_refl s0)) as [A1 A2].
    destruct (open_reader c e s0) as [o s1]. destruct (open_reader c' e s0) as [o' s1']. cbn [fst snd] in A1, A2. subst o'.
    assert (forall t t', sim t t' -> norm (st_log t) = norm (st_log t')) as L by (intros t t' (_ & _ & X); exact X).
    destruct o as [rh|er]; [|cbn [fst snd]; repeat split; now apply L].
    destruct (sim_run_steps (S (length src)) rh steps 0 s1 s1' A2) as [B1 B2].
    destruct (run_steps (S (length src)) c rh steps 0 s1) as [[r1 pr1] s2].
    destruct (run_steps (S (length src)) c' rh steps 0 s1') as [[r1' pr1'] s2']. cbn [fst snd] in B1, B2. injection B1 as <- <-.
    destruct r1 as [recs1|er]; [|cbn [fst snd]; repeat split; now apply L].
    destruct (sim_read_points rh pr1 (-1) s2 s2' B2) as [C1 C2].
    destruct (read_points c rh pr1 (-1) s2) as [[r2 pr2] s3]. destruct (read_points c' rh pr1 (-1) s2') as [[r2' pr2'] s3'].
    cbn [fst snd] in C1, C2. injection C1 as <- <-.
    destruct r2 as [recs2|er]; [|cbn [fst snd]; repeat split; now apply L].
    destruct (sim_finish_evlrs rh s3 s3' C2) as [D1 D2].
    destruct (finish_evlrs c rh s3) as [r3 s4]. destruct (finish_evlrs c' rh s3') as [r3' s4']. cbn [fst snd] in D1, D2. subst r3'.
    destruct r3 as [rh'|er]; cbn [fst snd]; repeat split; now apply L.
  Qed.
End TwoSources.
Print Assumptions same_use.

(* a log made of read() calls only is its own normal form; the normal form of a log without readinto is the log without
   the capability queries *)
Lemma norm_no_readinto l : forallb (fun o => match o with OReadInto _ => false | _ => true end) l = true -> norm l = filter not_query l.
Proof.
  unfold norm. induction l as [|o l IH]; intros H; [reflexivity|].
  cbn [forallb] in H. apply andb_true_iff in H as [Ho Hl]. cbn [filter]. destruct o; cbn [not_query map norm_op]; try discriminate; now rewrite ?IH.
Qed.

(* ------------------------------------------------------------------------------------ *)
(* a source that offers read() and nothing else = a source whose seekable() answers False *)
(* ------------------------------------------------------------------------------------ *)
From LasV Require Import Proofs.AccessProofs.

Lemma only_reads_norm l : only_reads l = true -> norm l = l.
Proof.
  unfold only_reads, norm. induction l as [|o l IH]; intros H; [reflexivity|].
  cbn [forallb] in H. apply andb_true_iff in H as [Ho Hl]. destruct o; try discriminate. cbn [filter not_query map norm_op]. now rewrite (IH Hl).
Qed.

Lemma offered_no_readinto c l : c_readinto c = false -> only_offered c l = true ->
  forallb (fun o => match o with OReadInto _ => false | _ => true end) l = true.
Proof.
  intros Hr. unfold only_offered. induction l as [|o l IH]; intros H; [reflexivity|].
  cbn [forallb] in *. apply andb_true_iff in H as [Ho Hl]. rewrite (IH Hl), andb_true_r.
  destruct o; cbn [offered] in Ho; try reflexivity. congruence.
Qed.

Theorem bare_like_nonseekable : forall c e steps src, c_has_seekable c = false -> c_readinto c = false ->
  let c' := mkCaps false false true in
  fst (read_via c e steps src) = fst (read_via c' e steps src)
  /\ snd (read_via c e steps src) = filter not_query (snd (read_via c' e steps src))
  /\ fst (consume_via c e steps src) = fst (consume_via c' e steps src)
  /\ snd (consume_via c e steps src) = filter not_query (snd (consume_via c' e steps src)).
Proof.
  intros c e steps src Hs Hr c'.
  assert (can_seek c = can_seek c') as Hcs by (unfold can_seek; rewrite Hs; reflexivity).
  destruct (same_use c c' Hcs e steps src) as (A & B & C & D).
  split; [exact A|]. split; [|split; [exact C|]].
  - rewrite <- (only_reads_norm (snd (read_via c e steps src))) by (apply (offered_bare c); auto using only_what_is_offered).
    rewrite B. apply norm_no_readinto. apply (offered_no_readinto c'); [reflexivity|apply only_what_is_offered].
  - rewrite <- (only_reads_norm (snd (consume_via c e steps src))) by (apply (offered_bare c); auto using only_what_is_offered_consume).
    rewrite D. apply norm_no_readinto. apply (offered_no_readinto c'); [reflexivity|apply only_what_is_offered_consume].
Qed.
Print Assumptions bare_like_nonseekable.
