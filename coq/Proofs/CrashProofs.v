(* Interrupted writes never yield points that were not written (task K, property C19). *)
From Coq Require Import String.
From Coq Require Import ZArith List Bool Lia ZifyBool.
From LasV Require Import Lib.Base Lib.BaseFacts Lib.Layout Proofs.LayoutProofs Gen.GenHeaderLayout Gen.GenFormatBits Gen.GenDims
  Model.Las Model.LasSpec Proofs.HeaderLen Proofs.VlrProofs Proofs.HeaderProofs Proofs.WriterProofs.
Import ListNotations.
Open Scope list_scope.
Open Scope Z_scope.

Definition write_trace (hdr0 : list Z) (chunks : list (list (list Z))) (eb hdr1 : list Z) : list (Z * list Z) :=
  let pts := map (fun c => concat c) (filter (fun c => match c with [] => false | _ => true end) chunks) in
  let starts := fold_left (fun acc p => acc ++ [last acc 0 + len p]) pts [len hdr0] in
  (0, hdr0) :: combine starts pts
  ++ (match eb with [] => [] | _ => [(len hdr0 + len (concat pts), eb)] end) ++ [(0, hdr1)].

(* ------------------------------------------------------------------------------------ *)
(* torn little-endian counters                                                           *)
(* ------------------------------------------------------------------------------------ *)
Lemma torn_le_mono : forall n old new j, 0 <= old <= new -> new < 256 ^ Z.of_nat n -> (j <= n)%nat ->
  0 <= le_dec (firstn j (le_enc n new) ++ skipn j (le_enc n old)) <= new.
Proof.
  induction n as [|n IH]; intros old new j Ho Hn Hj.
  - assert (j = 0)%nat as -> by lia. cbn [le_enc firstn skipn app le_dec]. lia.
  - pose proof Hn as Hn'. rewrite Nat2Z.inj_succ, Z.pow_succ_r in Hn' by lia.
    destruct j as [|j].
    + cbn [firstn skipn app]. rewrite le_dec_enc; lia.
    + cbn [le_enc firstn skipn app le_dec].
      assert (0 <= old / 256 <= new / 256) as H1
        by (split; [apply Z.div_pos; lia|apply Z.div_le_mono; lia]).
      assert (new / 256 < 256 ^ Z.of_nat n) as H2 by (apply Z.div_lt_upper_bound; lia).
      assert (j <= n)%nat as H3 by lia.
      specialize (IH (old / 256) (new / 256) j H1 H2 H3).
      pose proof (Z.div_mod new 256 ltac:(lia)) as Hd.
      pose proof (Z.mod_pos_bound new 256 ltac:(lia)) as Hm.
      set (X := le_dec (firstn j (le_enc n (new / 256)) ++ skipn j (le_enc n (old / 256)))) in *.
      clearbody X. set (q := new / 256) in *. set (r := new mod 256) in *. clearbody q r. lia.
Qed.
Print Assumptions torn_le_mono.

Lemma torn_le_zero : forall n v j, 0 <= v < 256 ^ Z.of_nat n -> (j <= n)%nat ->
  0 <= le_dec (firstn j (le_enc n v) ++ skipn j (le_enc n 0)) <= v.
Proof. intros n v j Hv Hj. apply torn_le_mono; lia. Qed.
Print Assumptions torn_le_zero.

(* ------------------------------------------------------------------------------------ *)
(* list helpers                                                                          *)
(* ------------------------------------------------------------------------------------ *)
Lemma fs_firstn_min {A} w p n (l : list A) :
  firstn w (skipn p (firstn n l)) = firstn (Nat.min w (n - p)) (skipn p l).
Proof. now rewrite skipn_firstn_comm, firstn_firstn. Qed.

Lemma fs_firstn {A} w p n (l : list A) : (p + w <= n)%nat ->
  firstn w (skipn p (firstn n l)) = firstn w (skipn p l).
Proof. intros H. rewrite fs_firstn_min. f_equal. lia. Qed.

Lemma fs_app {A} w p (a b : list A) : (p + w <= length a)%nat ->
  firstn w (skipn p (a ++ b)) = firstn w (skipn p a).
Proof.
  intros H. rewrite skipn_app, firstn_app.
  replace (p - length a)%nat with 0%nat by lia.
  rewrite skipn_length. replace (w - (length a - p))%nat with 0%nat by lia.
  cbn [firstn]. apply app_nil_r.
Qed.

(* a field read out of a buffer whose first j bytes come from a, the others from b *)
Lemma mix_field {A} : forall p w j (a b : list A), length a = length b ->
  firstn w (skipn p (firstn j a ++ skipn j b))
  = firstn (j - p) (firstn w (skipn p a)) ++ skipn (j - p) (firstn w (skipn p b)).
Proof.
  induction p as [|p IHp]; intros w j a b H.
  - cbn [skipn]. rewrite Nat.sub_0_r. revert j a b H.
    induction w as [|w IHw]; intros j a b H.
    + cbn [firstn]. now rewrite firstn_nil, skipn_nil.
    + destruct a as [|x a], b as [|y b]; try discriminate.
      * rewrite !firstn_nil, !skipn_nil. reflexivity.
      * destruct j as [|j]; [reflexivity|].
        cbn [firstn skipn app]. f_equal. apply IHw. now injection H.
  - destruct a as [|x a], b as [|y b]; try discriminate.
    + repeat (rewrite ?firstn_nil, ?skipn_nil; cbn [app]). reflexivity.
    + destruct j as [|j]; [reflexivity|].
      cbn [firstn skipn app Nat.sub]. apply IHp. now injection H.
Qed.

Lemma mix_length {A} j (a b : list A) : length a = length b -> (j <= length a)%nat ->
  length (firstn j a ++ skipn j b) = length a.
Proof. intros H Hj. rewrite app_length, firstn_length, skipn_length. lia. Qed.

Lemma le_enc_zero w : le_enc w 0 = zeros w.
Proof.
  induction w as [|w IH]; [reflexivity|]. cbn [le_enc].
  change (0 mod 256) with 0. change (0 / 256) with 0. rewrite IH. reflexivity.
Qed.

Lemma le_dec_zeros_prefix : forall w i, le_dec (firstn i (zeros w)) = 0.
Proof.
  induction w as [|w IH]; intros i.
  - cbn. now rewrite firstn_nil.
  - destruct i as [|i]; [reflexivity|]. unfold zeros. cbn [repeat firstn le_dec]. fold (zeros w). rewrite IH. lia.
Qed.

(* ------------------------------------------------------------------------------------ *)
(* write_at                                                                              *)
(* ------------------------------------------------------------------------------------ *)
Lemma write_at_torn : forall a a' rest j, length a = length a' -> (j <= length a')%nat ->
  write_at (a ++ rest) 0 (firstn j a') = firstn j a' ++ skipn j a ++ rest.
Proof.
  intros a a' rest j H Hj. unfold write_at. change (Z.to_nat 0) with 0%nat.
  cbn [firstn Nat.sub Nat.add zeros repeat app]. rewrite firstn_length.
  replace (Nat.min j (length a')) with j by lia.
  rewrite skipn_app. replace (j - length a)%nat with 0%nat by lia. reflexivity.
Qed.

Lemma write_at_nil bs : write_at [] 0 bs = bs.
Proof.
  unfold write_at. change (Z.to_nat 0) with 0%nat.
  cbn [firstn Nat.sub Nat.add zeros repeat app length]. rewrite skipn_nil. apply app_nil_r.
Qed.

(* ------------------------------------------------------------------------------------ *)
(* dec_fields, field by field: the value bound to a name is read at a fixed position     *)
(* ------------------------------------------------------------------------------------ *)
Fixpoint locate (l : layout) (n : string) (off : nat) (acc : option (kind * nat * nat)) : option (kind * nat * nat) :=
  match l with
  | [] => acc
  | (k, w, m) :: l' => locate l' n (off + w) (if String.eqb m n then Some (k, w, off) else acc)
  end.

Definition field_val (bs : list Z) (x : option (kind * nat * nat)) : option value :=
  match x with Some (k, w, o) => Some (fst (dec_field k w (skipn o bs))) | None => None end.

Definition no_var (l : layout) : bool :=
  forallb (fun f => match fst (fst f) with KVar => false | _ => true end) l.

Lemma dec_field_rest k w bs : k <> KVar -> snd (dec_field k w bs) = skipn w bs.
Proof. intros Hk. destruct k; try reflexivity. contradiction. Qed.

Lemma dec_fields_locate l : no_var l = true -> forall n bs off acc,
  aget_last (fst (dec_fields l (skipn off bs))) n (field_val bs acc) = field_val bs (locate l n off acc).
Proof.
  induction l as [|[[k w] m] l IH]; intros Hnv n bs off acc; [reflexivity|].
  cbn [no_var forallb fst] in Hnv. apply andb_true_iff in Hnv as [Hk Hnv]. fold (no_var l) in Hnv.
  cbn [dec_fields locate].
  destruct (dec_field k w (skipn off bs)) as [v rest] eqn:Ed.
  assert (rest = skipn (off + w) bs) as ->.
  { change rest with (snd (v, rest)). rewrite <- Ed. rewrite dec_field_rest by (intros ->; discriminate).
    now rewrite skipn_add. }
  assert (v = fst (dec_field k w (skipn off bs))) as Hv by now rewrite Ed.
  destruct (dec_fields l (skipn (off + w) bs)) as [a' rest'] eqn:Ea.
  cbn [fst aget_last].
  specialize (IH Hnv n bs (off + w)%nat (if String.eqb m n then Some (k, w, off) else acc)).
  rewrite Ea in IH. cbn [fst] in IH. rewrite <- IH. f_equal.
  destruct (String.eqb m n); [cbn [field_val]; now rewrite Hv|reflexivity].
Qed.

Lemma aint_dec_fields l n bs w o : no_var l = true -> locate l n 0 None = Some (KUInt, w, o) ->
  aint (fst (dec_fields l bs)) n = le_dec (firstn w (skipn o bs)).
Proof.
  intros Hnv Hl. unfold aint, aget.
  pose proof (dec_fields_locate l Hnv n bs 0%nat None) as H.
  change (skipn 0 bs) with bs in H. change (field_val bs None) with (@None value) in H.
  rewrite H, Hl. reflexivity.
Qed.

(* position and width of the point count, by minor version *)
Definition cntw (m : Z) : nat := if m >=? 4 then 8%nat else 4%nat.
Definition cntp (m : Z) : nat := if m >=? 4 then 247%nat else 107%nat.
Definition count_raw (m : Z) (s : list Z) : Z := le_dec (firstn (cntw m) (skipn (cntp m) s)).

Lemma hdr_raw mnr s :
  let a := fst (dec_fields (fixed_part (hr_layout mnr)) s) in
  aint a "offset_to_point_data" = le_dec (firstn 4 (skipn 96 s))
  /\ aint a "point_size" = le_dec (firstn 2 (skipn 105 s))
  /\ aint a "point_count" = count_raw mnr s.
Proof.
  unfold hr_layout, count_raw, cntw, cntp.
  destruct (mnr >=? 4); [|destruct (mnr =? 3); [|destruct (mnr =? 2)]];
    (repeat split; apply aint_dec_fields; vm_compute; reflexivity).
Qed.

(* ------------------------------------------------------------------------------------ *)
(* what a successful dec_header says of the raw bytes                                    *)
(* ------------------------------------------------------------------------------------ *)
Lemma dec_header_inv src re rh : dec_header src re = Ok rh ->
  (227 <= length src)%nat /\
  let off0 := le_dec (firstn 4 (skipn 96 (firstn 227 src))) in
  let stream := if off0 <? 227 then src else firstn (Z.to_nat off0) src in
  let mnr := le_dec (firstn 1 (skipn 25 stream)) in
  let a := fst (dec_fields (fixed_part (hr_layout mnr)) stream) in
  rh_offset rh = aint a "offset_to_point_data" /\ rh_psize rh = aint a "point_size"
  /\ aint (rh_fields rh) "point_count" = aint a "point_count".
Proof.
  unfold dec_header. cbv zeta. intros H.
  match type of H with (if ?c then _ else _) = _ => destruct c eqn:E1; [discriminate|] end.
  match type of H with (if ?c then _ else _) = _ => destruct c eqn:E2; [discriminate|] end.
  match type of H with (if ?c then _ else _) = _ => destruct c eqn:E3; [discriminate|] end.
  split.
  { rewrite firstn_length in E3. lia. }
  set (off0 := le_dec (firstn 4 (skipn 96 (firstn 227 src)))) in *.
  set (stream := if off0 <? 227 then src else firstn (Z.to_nat off0) src) in *.
  set (mnr := le_dec (firstn 1 (skipn 25 stream))) in *.
  destruct (dec_fields (fixed_part (hr_layout mnr)) stream) as [a rest] eqn:Ed.
  cbn [fst].
  match type of H with (if ?c then _ else _) = _ => destruct c eqn:E4; [discriminate|] end.
  match type of H with (if ?c then _ else _) = _ => destruct c eqn:E5; [discriminate|] end.
  match type of H with bind ?e _ = _ => destruct e as [[vl rest3]|e'] eqn:Ev; [|discriminate] end.
  cbn [bind] in H.
  match type of H with (if ?c then _ else _) = _ => destruct c eqn:E6; [discriminate|] end.
  match type of H with match ?e with Some _ => _ | None => _ end = _ => destruct e as [std|] eqn:Es; [|discriminate] end.
  match type of H with match ?e with Some _ => _ | None => _ end = _ => destruct e as [fs|] eqn:Ef; [|discriminate] end.
  match type of H with (if ?c then _ else _) = _ => destruct c eqn:E7; [discriminate|] end.
  match type of H with (if ?c then _ else _) = _ => destruct c eqn:E8; [discriminate|] end.
  match type of H with bind ?e _ = _ => destruct e as [ev|e'] eqn:Ee; [|discriminate] end.
  cbn [bind] in H. injection H as <-. cbn [rh_offset rh_psize rh_fields].
  split; [reflexivity|]. split; [reflexivity|].
  rewrite !aint_aset_other by reflexivity. reflexivity.
Qed.

(* ------------------------------------------------------------------------------------ *)
(* reading whole records back                                                            *)
(* ------------------------------------------------------------------------------------ *)
Lemma recs_ok_forall ps recs : recs_ok ps recs = true -> Forall (fun r : list Z => len r = ps) recs.
Proof.
  unfold recs_ok. intros H. apply Forall_forall. intros r Hr.
  rewrite forallb_forall in H. specialize (H r Hr). apply andb_true_iff in H as [H _]. lia.
Qed.

Lemma concat_len ps (recs : list (list Z)) : Forall (fun r => len r = ps) recs -> len (concat recs) = len recs * ps.
Proof.
  induction 1 as [|r rs Hr _ IH]; [reflexivity|].
  cbn [concat]. rewrite len_app, IH, Hr. unfold len. cbn [length]. lia.
Qed.

Lemma chunks_whole ps : (0 < ps)%nat -> forall recs : list (list Z), Forall (fun r => length r = ps) recs ->
  forall fuel, (length recs <= fuel)%nat -> chunks_of fuel ps (concat recs) = recs.
Proof.
  intros Hps. induction 1 as [|r rs Hr _ IH]; intros fuel Hf.
  - destruct fuel; reflexivity.
  - destruct fuel as [|fuel]; [cbn [length] in Hf; lia|].
    cbn [concat chunks_of]. destruct r as [|x r]; [cbn [length] in Hr; lia|].
    cbn [app]. change (x :: r ++ concat rs) with ((x :: r) ++ concat rs).
    rewrite firstn_app_exact, skipn_app_exact by assumption.
    rewrite IH; [reflexivity|]. cbn [length] in Hf. lia.
Qed.

Lemma firstn_forall {A} (P : A -> Prop) n l : Forall P l -> Forall P (firstn n l).
Proof.
  intros H. apply Forall_forall. intros x Hx. rewrite Forall_forall in H. apply H.
  rewrite <- (firstn_skipn n l). apply in_or_app. now left.
Qed.

Lemma read_records_prefix src off ps n recs tail :
  0 < ps -> 0 <= off -> 0 <= n <= len recs -> Forall (fun r : list Z => len r = ps) recs ->
  skipn (Z.to_nat off) src = concat recs ++ tail ->
  read_records src off ps 0 n = Ok (firstn (Z.to_nat n) recs).
Proof.
  intros Hps Hoff Hn Hall Hsk. unfold read_records.
  replace (off + 0 * ps) with off by lia. rewrite Hsk.
  assert (Forall (fun r => len r = ps) (firstn (Z.to_nat n) recs)) as Hall' by now apply firstn_forall.
  assert (len (firstn (Z.to_nat n) recs) = n) as Hln.
  { unfold len in *. rewrite firstn_length. lia. }
  pose proof (concat_len _ _ Hall') as Hcl. rewrite Hln in Hcl.
  assert (firstn (Z.to_nat (n * ps)) (concat recs ++ tail) = concat (firstn (Z.to_nat n) recs)) as ->.
  { rewrite <- (firstn_skipn (Z.to_nat n) recs) at 1. rewrite concat_app, <- app_assoc.
    apply firstn_app_exact. unfold len in Hcl. lia. }
  destruct (ps <=? 0) eqn:E; [lia|]. rewrite Hcl.
  rewrite Z.mod_mul by lia. change (0 =? 0) with true. cbv iota.
  f_equal. apply chunks_whole.
  - lia.
  - eapply Forall_impl; [|exact Hall']. intros r Hr. cbv beta in Hr. unfold len in Hr. lia.
  - unfold len in *. nia.
Qed.

(* ------------------------------------------------------------------------------------ *)
(* the reader over an image whose first 107 bytes are those of the session's header      *)
(* ------------------------------------------------------------------------------------ *)
Lemma via107 {A} w p (src hdr : list A) : (p + w <= 107)%nat -> firstn 107 src = firstn 107 hdr ->
  firstn w (skipn p src) = firstn w (skipn p hdr).
Proof. intros Hp H. rewrite <- (fs_firstn w p 107 src Hp), H. now apply fs_firstn. Qed.

Lemma read_core src hdr0 m ps recs :
  (227 <= length hdr0)%nat -> (cntp m + cntw m <= length hdr0)%nat ->
  le_dec (firstn 4 (skipn 96 hdr0)) = len hdr0 ->
  le_dec (firstn 1 (skipn 25 hdr0)) = m ->
  le_dec (firstn 2 (skipn 105 hdr0)) = ps ->
  firstn 107 src = firstn 107 hdr0 ->
  0 <= count_raw m (firstn (length hdr0) src) <= len recs ->
  (0 < count_raw m (firstn (length hdr0) src) -> exists tail, skipn (length hdr0) src = concat recs ++ tail) ->
  recs_ok ps recs = true -> 0 < ps ->
  reads_prefix_or_fails src recs.
Proof.
  intros HO Hcp Foff Fm Fps H107 Hc Hdata Hrecs Hps.
  unfold reads_prefix_or_fails, read_file.
  destruct (dec_header src true) as [rh|e] eqn:Eh; [|exact I]. cbn [bind].
  destruct (dec_header_inv _ _ _ Eh) as (Hlen & Hinv). cbv zeta in Hinv.
  assert (le_dec (firstn 4 (skipn 96 (firstn 227 src))) = len hdr0) as Eoff0.
  { rewrite fs_firstn by lia. rewrite (via107 4 96 src hdr0) by (assumption || lia). exact Foff. }
  rewrite Eoff0 in Hinv.
  assert (len hdr0 <? 227 = false) as E227 by (unfold len; lia).
  rewrite E227, to_nat_len in Hinv.
  assert (le_dec (firstn 1 (skipn 25 (firstn (length hdr0) src))) = m) as Em.
  { rewrite fs_firstn by lia. rewrite (via107 1 25 src hdr0) by (assumption || lia). exact Fm. }
  rewrite Em in Hinv.
  destruct (hdr_raw m (firstn (length hdr0) src)) as (R1 & R2 & R3).
  destruct Hinv as (Hoff & Hpsz & Hcnt).
  rewrite R1 in Hoff. rewrite R2 in Hpsz. rewrite R3 in Hcnt.
  rewrite fs_firstn in Hoff by lia. rewrite (via107 4 96 src hdr0) in Hoff by (assumption || lia).
  rewrite Foff in Hoff.
  rewrite fs_firstn in Hpsz by lia. rewrite (via107 2 105 src hdr0) in Hpsz by (assumption || lia).
  rewrite Fps in Hpsz.
  rewrite Hcnt. set (c := count_raw m (firstn (length hdr0) src)) in *.
  destruct (c <=? 0) eqn:Ec.
  - cbn [lf_points]. exists 0%nat. reflexivity.
  - destruct Hdata as [tail Htail]; [lia|].
    rewrite Hoff, Hpsz.
    rewrite (read_records_prefix src (len hdr0) ps c recs tail); try lia.
    + cbn [bind lf_points]. exists (Z.to_nat c). reflexivity.
    + now apply recs_ok_forall.
    + rewrite to_nat_len. exact Htail.
Qed.

(* ------------------------------------------------------------------------------------ *)
(* with_stats only touches the statistic fields                                          *)
(* ------------------------------------------------------------------------------------ *)
Lemma aget_fold_aset_other (pre : nat -> string) n : (forall i, String.eqb (pre i) n = false) ->
  forall (ps : list (nat * Z)) h,
  aget (fold_left (fun h p => aset h (pre (fst p)) (VInt (snd p))) ps h) n = aget h n.
Proof.
  intros Hn. induction ps as [|p ps IH]; intros h; cbn [fold_left]; [reflexivity|].
  rewrite IH. apply aget_aset_other, Hn.
Qed.

Lemma aget_with_stats_other h st n :
  (forall i, String.eqb (axis_name "maxs" i) n = false) ->
  (forall i, String.eqb (axis_name "mins" i) n = false) ->
  (forall i, String.eqb (by_return_name i) n = false) ->
  String.eqb "point_count" n = false -> String.eqb "start_of_first_evlr" n = false ->
  String.eqb "number_of_evlrs" n = false ->
  aget (with_stats h st) n = aget h n.
Proof.
  intros H1 H2 H3 H4 H5 H6. unfold with_stats. cbv zeta.
  rewrite !aget_aset_other by assumption. unfold set_list.
  rewrite (aget_fold_aset_other _ _ H3), (aget_fold_aset_other _ _ H2), (aget_fold_aset_other _ _ H1).
  reflexivity.
Qed.

Lemma aget_with_stats_count h st : aget (with_stats h st) "point_count" = Some (VInt (s_count st)).
Proof.
  unfold with_stats. cbv zeta. rewrite !aget_aset_other by reflexivity. apply aget_aset_same.
Qed.

Definition core_names : list string :=
  ["signature"; "file_source_id"; "global_encoding"; "uuid"; "version.major"; "version.minor";
   "system_identifier"; "generating_software"; "creation_yday"; "creation_year"; "header_size";
   "offset_to_point_data"; "number_of_vlrs"; "point_format_id"; "point_size";
   "extra_header_bytes"; "extra_vlr_bytes"]%string.

Ltac in_core := unfold core_names; cbn [In]; repeat (first [left; reflexivity | right]).

Lemma with_stats_core h st n : In n core_names -> aget (with_stats h st) n = aget h n.
Proof.
  intros Hin. unfold core_names in Hin. cbn [In] in Hin.
  repeat (destruct Hin as [<-|Hin]; [apply aget_with_stats_other; try reflexivity; try axis_ne; ret_ne|]).
  destruct Hin.
Qed.

Lemma aint_get a b n : aget a n = aget b n -> aint a n = aint b n.
Proof. unfold aint. now intros ->. Qed.
Lemma abytes_get a b n : aget a n = aget b n -> abytes a n = abytes b n.
Proof. unfold abytes. now intros ->. Qed.
Lemma wval_get_ext a b n : aget a n = aget b n -> wval a n = wval b n.
Proof. unfold wval. now intros ->. Qed.

Lemma wval_get h n v : String.eqb n "zero" = false -> String.eqb n "signature" = false ->
  aget h n = Some v -> wval h n = v.
Proof. unfold wval. now intros -> -> ->. Qed.

(* the three derived fields set by enc_header *)
Definition upd3 (X : assoc) (off hs nv : Z) : assoc :=
  aset (aset (aset X "offset_to_point_data" (VInt off)) "header_size" (VInt hs)) "number_of_vlrs" (VInt nv).

Lemma upd3_absorb X W off hs nv n : aget X n = aget (upd3 W off hs nv) n ->
  aget (upd3 X off hs nv) n = aget (upd3 W off hs nv) n.
Proof.
  intros H. unfold upd3 at 1.
  destruct (String.eqb "number_of_vlrs" n) eqn:E1.
  { apply String.eqb_eq in E1. subst n. unfold upd3. now rewrite !aget_aset_same. }
  rewrite aget_aset_other by exact E1.
  destruct (String.eqb "header_size" n) eqn:E2.
  { apply String.eqb_eq in E2. subst n. unfold upd3. rewrite aget_aset_same.
    rewrite aget_aset_other by reflexivity. now rewrite aget_aset_same. }
  rewrite aget_aset_other by exact E2.
  destruct (String.eqb "offset_to_point_data" n) eqn:E3.
  { apply String.eqb_eq in E3. subst n. unfold upd3. rewrite aget_aset_same.
    rewrite !aget_aset_other by reflexivity. now rewrite aget_aset_same. }
  rewrite aget_aset_other by exact E3. exact H.
Qed.

(* ------------------------------------------------------------------------------------ *)
(* the bytes of an encoded header at the positions the reader relies on                  *)
(* ------------------------------------------------------------------------------------ *)
Lemma enc_count_at p w off : forall l h fb rest c,
  nth_error l p = Some (KUInt, w, "point_count"%string) -> layout_fixed_ok (firstn (S p) l) = true ->
  Z.to_nat (layout_width (firstn p l)) = off ->
  aget h "point_count" = Some (VInt c) ->
  enc_fields l (hdr_vals h l) = Ok fb ->
  firstn w (skipn off (fb ++ rest)) = le_enc w c /\ 0 <= c < 256 ^ Z.of_nat w.
Proof.
  intros l h fb rest c Hn Hok Hoff Hc He.
  destruct (enc_fields_nth p l _ fb rest _ _ _ Hn Hok He) as (b & Hb & Hl & Hf).
  rewrite (nth_hdr_vals h l p _ _ _ Hn) in Hb. rewrite Hoff in Hf. rewrite Hf.
  rewrite (wval_get h "point_count" (VInt c) eq_refl eq_refl Hc) in Hb.
  cbn [enc_field] in Hb. unfold to_bytes in Hb.
  destruct ((0 <=? c) && (c <? 256 ^ Z.of_nat w)) eqn:E; [|discriminate].
  injection Hb as <-. split; [reflexivity|lia].
Qed.

Lemma hdr_bytes_facts W vl es h' bs c :
  enc_header W vl es = Ok (h', bs) -> aget W "point_count" = Some (VInt c) ->
  let m := aint W "version.minor" in
  1 <= m <= 4 /\ (227 <= length bs)%nat /\ (cntp m + cntw m <= length bs)%nat
  /\ le_dec (firstn 4 (skipn 96 bs)) = len bs
  /\ le_dec (firstn 1 (skipn 25 bs)) = m
  /\ le_dec (firstn 2 (skipn 105 bs)) = aint W "point_size"
  /\ firstn (cntw m) (skipn (cntp m) bs) = le_enc (cntw m) c /\ 0 <= c < 256 ^ Z.of_nat (cntw m).
Proof.
  intros He Hc. pose proof (enc_header_len _ _ _ _ _ He) as Hlen.
  destruct (enc_header_inv _ _ _ _ _ He) as (vb & hs0 & fb & Hv & Hh & _ & _ & Hh' & Hf & Hbs). cbv zeta.
  assert (aint h' "version.minor" = aint W "version.minor") as Hmn
    by (rewrite Hh'; rewrite !aint_aset_other by reflexivity; reflexivity).
  assert (aint h' "point_size" = aint W "point_size") as Hps
    by (rewrite Hh'; rewrite !aint_aset_other by reflexivity; reflexivity).
  assert (aget h' "point_count" = Some (VInt c)) as Hc'
    by (rewrite Hh'; rewrite !aget_aset_other by reflexivity; exact Hc).
  clear Hh'.
  destruct (hw_layout_width _ _ _ Hh) as [Hw Hok].
  pose proof (enc_fields_len _ _ _ Hok Hf) as Hfb. rewrite Hw in Hfb.
  destruct (tbl_cases_range _ _ _ Hh) as (_ & Hm & Hhs0).
  set (m := aint W "version.minor") in *.
  set (rest := abytes W "extra_header_bytes" ++ vb ++ abytes W "extra_vlr_bytes") in *.
  destruct (header_prefix m h' fb rest Hm Hf) as (_ & Pm & Poff).
  rewrite <- Hbs in Pm, Poff. rewrite Hmn in Pm. rewrite <- Hlen in Poff.
  assert (length fb <= length bs)%nat as Hlb by (rewrite Hbs, app_length; lia).
  assert (Z.of_nat (length fb) = hs0) as Hfb' by exact Hfb.
  rewrite <- Hps.
  split; [exact Hm|]. split; [lia|].
  destruct (header_size_tbl_cases _ _ _ Hh) as (_ & Hcases). clearbody m.
  destruct Hcases as [[-> ->]|[[-> ->]|[[-> ->]|[-> ->]]]].
  all: match type of Hf with enc_fields ?l _ = _ =>
    pose proof (enc_uint_at 14 2 "point_size" 105 l h' fb rest eq_refl eq_refl eq_refl eq_refl eq_refl Hf) as Pps
  end; rewrite <- Hbs in Pps.
  1-3: match type of Hf with enc_fields ?l _ = _ =>
    destruct (enc_count_at 15 4 107 l h' fb rest c eq_refl eq_refl eq_refl Hc' Hf) as [Pc Pr] end.
  4: match type of Hf with enc_fields ?l _ = _ =>
    destruct (enc_count_at 36 8 247 l h' fb rest c eq_refl eq_refl eq_refl Hc' Hf) as [Pc Pr] end.
  all: rewrite <- Hbs in Pc.
  all: cbv [cntp cntw Z.geb Z.compare Pos.compare Pos.compare_cont] in *.
  all: (split; [lia|]).
  all: repeat split; try assumption.
  all: apply Pr.
Qed.

(* ------------------------------------------------------------------------------------ *)
(* two encodings whose first p values agree have the same first bytes                    *)
(* ------------------------------------------------------------------------------------ *)
Lemma enc_fields_prefix_agree : forall p l v1 v2 b1 b2,
  layout_fixed_ok (firstn p l) = true -> firstn p v1 = firstn p v2 ->
  enc_fields l v1 = Ok b1 -> enc_fields l v2 = Ok b2 ->
  firstn (Z.to_nat (layout_width (firstn p l))) b1 = firstn (Z.to_nat (layout_width (firstn p l))) b2.
Proof.
  induction p as [|p IH]; intros l v1 v2 b1 b2 Hok Hv H1 H2; [reflexivity|].
  destruct l as [|[[k w] n] l]; [reflexivity|].
  destruct v1 as [|x1 v1]; [discriminate|]. destruct v2 as [|x2 v2]; [discriminate|].
  cbn [firstn] in Hv. injection Hv as Hx Hv. subst x2.
  cbn [enc_fields] in H1, H2.
  destruct (enc_field k w x1) as [c|e] eqn:Ec; [|discriminate]. cbn [bind] in H1, H2.
  destruct (enc_fields l v1) as [r1|e] eqn:E1; [|discriminate].
  destruct (enc_fields l v2) as [r2|e] eqn:E2; [|discriminate].
  cbn [bind] in H1, H2. injection H1 as <-. injection H2 as <-.
  change (firstn (S p) ((k, w, n) :: l)) with ((k, w, n) :: firstn p l) in *.
  cbn [layout_fixed_ok forallb fst snd] in Hok. apply andb_true_iff in Hok as [Hk Hok].
  fold (layout_fixed_ok (firstn p l)) in Hok.
  assert (length c = w) as Hl.
  { apply (enc_field_len _ _ _ _ Ec). destruct k; try exact I; [now apply Nat.ltb_lt|discriminate]. }
  rewrite layout_width_cons. cbn [fst snd].
  rewrite Z2Nat.inj_add by (try apply layout_width_nonneg; lia). rewrite Nat2Z.id.
  rewrite <- Hl. rewrite !firstn_app_2. f_equal. now apply (IH l v1 v2).
Qed.

(* re-encoding the header returned by enc_header with other statistics keeps every non-statistic field *)
Lemma reenc_agree W0 vl h0 b0 st h1 b1 :
  enc_header W0 vl false = Ok (h0, b0) -> enc_header (with_stats h0 st) vl true = Ok (h1, b1) ->
  (forall n, In n core_names -> aget h1 n = aget h0 n)
  /\ aint (with_stats h0 st) "version.minor" = aint W0 "version.minor"
  /\ exists vb fb0 fb1,
       enc_fields (fixed_part (hw_layout (aint W0 "version.minor"))) (hdr_vals h0 (fixed_part (hw_layout (aint W0 "version.minor")))) = Ok fb0
    /\ enc_fields (fixed_part (hw_layout (aint W0 "version.minor"))) (hdr_vals h1 (fixed_part (hw_layout (aint W0 "version.minor")))) = Ok fb1
    /\ b0 = fb0 ++ abytes W0 "extra_header_bytes" ++ vb ++ abytes W0 "extra_vlr_bytes"
    /\ b1 = fb1 ++ abytes W0 "extra_header_bytes" ++ vb ++ abytes W0 "extra_vlr_bytes".
Proof.
  intros H0 H1.
  destruct (enc_header_inv _ _ _ _ _ H0) as (vb0 & hs0 & fb0 & Hv0 & Hh0 & _ & _ & Hh0' & Hf0 & Hbs0).
  destruct (enc_header_inv _ _ _ _ _ H1) as (vb1 & hs1 & fb1 & Hv1 & Hh1 & _ & _ & Hh1' & Hf1 & Hbs1).
  rewrite Hv0 in Hv1. injection Hv1 as <-.
  set (W1 := with_stats h0 st) in *.
  cbv zeta in Hh0', Hh1'.
  assert (forall n, In n core_names -> aget W1 n = aget h0 n) as Hcore
    by (intros n Hn; apply with_stats_core, Hn).
  assert (forall n, String.eqb "offset_to_point_data" n = false -> String.eqb "header_size" n = false ->
            String.eqb "number_of_vlrs" n = false -> aget h0 n = aget W0 n) as Hkeep.
  { intros n A B C. rewrite Hh0'. now rewrite !aget_aset_other by assumption. }
  assert (aint W1 "version.minor" = aint W0 "version.minor") as Emn.
  { apply aint_get. rewrite Hcore by in_core. now apply Hkeep. }
  assert (aint W1 "version.major" = aint W0 "version.major") as Emj.
  { apply aint_get. rewrite Hcore by in_core. now apply Hkeep. }
  assert (abytes W1 "extra_header_bytes" = abytes W0 "extra_header_bytes") as Eeh.
  { apply abytes_get. rewrite Hcore by in_core. now apply Hkeep. }
  assert (abytes W1 "extra_vlr_bytes" = abytes W0 "extra_vlr_bytes") as Eev.
  { apply abytes_get. rewrite Hcore by in_core. now apply Hkeep. }
  rewrite Emn, Emj, Hh0 in Hh1. injection Hh1 as <-.
  rewrite Emn in Hf1. rewrite Eeh, Eev in Hh1', Hbs1.
  fold (upd3 W0 (hs0 + len (abytes W0 "extra_header_bytes") + len vb0 + len (abytes W0 "extra_vlr_bytes"))
             (hs0 + len (abytes W0 "extra_header_bytes")) (len vl)) in Hh0'.
  fold (upd3 W1 (hs0 + len (abytes W0 "extra_header_bytes") + len vb0 + len (abytes W0 "extra_vlr_bytes"))
             (hs0 + len (abytes W0 "extra_header_bytes")) (len vl)) in Hh1'.
  split; [|split; [exact Emn|]].
  - intros n Hn. rewrite Hh1', Hh0'. apply upd3_absorb. rewrite <- Hh0'. now apply Hcore.
  - exists vb0, fb0, fb1. repeat split; assumption.
Qed.

Lemma firstn_app_le {A} n (a b : list A) : (n <= length a)%nat -> firstn n (a ++ b) = firstn n a.
Proof.
  intros H. rewrite firstn_app. replace (n - length a)%nat with 0%nat by lia. cbn [firstn]. apply app_nil_r.
Qed.

Lemma l15_facts m : 1 <= m <= 4 ->
  Z.to_nat (layout_width (firstn 15 (fixed_part (hw_layout m)))) = 107%nat
  /\ layout_fixed_ok (firstn 15 (fixed_part (hw_layout m))) = true
  /\ map snd (firstn 15 (fixed_part (hw_layout m))) = firstn 15 core_names.
Proof.
  intros Hm. assert (m = 1 \/ m = 2 \/ m = 3 \/ m = 4) as [->|[->|[->| ->]]] by lia;
  (split; [|split]); vm_compute; reflexivity.
Qed.

(* the two headers of a writer session agree outside the statistic fields *)
Lemma headers_agree_prefix : forall ap h vl fmt recs evl hb0 h',
  enc_header (with_stats h stats0) vl false = Ok hb0 -> final_hdr ap h vl fmt recs evl = Ok h' ->
  forall hb1, enc_header (with_stats (fst hb0) (stats_of_header h')) vl true = Ok hb1 ->
  length (snd hb1) = length (snd hb0) /\ firstn 107 (snd hb1) = firstn 107 (snd hb0).
Proof.
  intros ap h vl fmt recs evl [h0 b0] h' H0 _ [h1 b1] H1. cbn [fst snd] in *.
  destruct (reenc_agree _ _ _ _ _ _ _ H0 H1) as (Hag & Emn & vb & fb0 & fb1 & Hf0 & Hf1 & -> & ->).
  destruct (enc_header_inv _ _ _ _ _ H0) as (_ & hs0 & _ & _ & Hh & _).
  destruct (hw_layout_width _ _ _ Hh) as [Hw Hok].
  pose proof (enc_fields_len _ _ _ Hok Hf0) as L0. pose proof (enc_fields_len _ _ _ Hok Hf1) as L1.
  rewrite Hw in L0, L1.
  destruct (tbl_cases_range _ _ _ Hh) as (_ & Hm & Hhs0).
  split.
  - rewrite !app_length. unfold len in *. lia.
  - set (m := aint (with_stats h stats0) "version.minor") in *.
    rewrite !firstn_app_le by (unfold len in *; lia).
    destruct (l15_facts m Hm) as (A1 & A2 & A3).
    clearbody m.
    assert (firstn 15 (hdr_vals h1 (fixed_part (hw_layout m))) = firstn 15 (hdr_vals h0 (fixed_part (hw_layout m)))) as Hvals.
    { unfold hdr_vals. rewrite !firstn_map. apply map_ext_in. intros f Hf.
      apply wval_get_ext, Hag.
      assert (In (snd f) (firstn 15 core_names)) as Hin by (rewrite <- A3; now apply in_map).
      rewrite <- (firstn_skipn 15 core_names). apply in_or_app. now left. }
    pose proof (enc_fields_prefix_agree 15 _ _ _ _ _ A2 Hvals Hf1 Hf0) as HH.
    rewrite A1 in HH. exact HH.
Qed.
Print Assumptions headers_agree_prefix.

(* ------------------------------------------------------------------------------------ *)
(* everything the crash argument needs of the two headers of a session                   *)
(* ------------------------------------------------------------------------------------ *)
Lemma final_hdr_count ap h vl fmt recs evl h0 b0 h' :
  enc_header (with_stats h stats0) vl false = Ok (h0, b0) ->
  final_hdr ap h vl fmt recs evl = Ok h' ->
  aint h' "point_count" = len recs /\ aint h' "point_size" = aint h0 "point_size".
Proof.
  intros H0. unfold final_hdr. rewrite H0. cbn [bind fst snd].
  destruct (enc_vlrs true evl) as [eb|e]; [|discriminate]. cbn [bind].
  match goal with |- bind (enc_header (with_stats h0 ?s) vl true) _ = _ -> _ => set (st := s) end.
  destruct (enc_header (with_stats h0 st) vl true) as [[hh bb]|e] eqn:E; [|discriminate].
  cbn [bind fst]. intros [= <-].
  split.
  - rewrite (enc_header_keeps _ _ _ _ _ "point_count" E) by reflexivity.
    unfold aint. rewrite aget_with_stats_count.
    unfold st. destruct evl; cbn [s_count]; apply stats_of_count.
  - rewrite (enc_header_keeps _ _ _ _ _ "point_size" E) by reflexivity.
    apply aint_get, with_stats_core. in_core.
Qed.

Lemma session_facts ap h vl fmt recs evl h0 b0 h' h1 b1 :
  enc_header (with_stats h stats0) vl false = Ok (h0, b0) ->
  final_hdr ap h vl fmt recs evl = Ok h' ->
  enc_header (with_stats h0 (stats_of_header h')) vl true = Ok (h1, b1) ->
  exists m,
    (227 <= length b0)%nat /\ (cntp m + cntw m <= length b0)%nat
    /\ le_dec (firstn 4 (skipn 96 b0)) = len b0
    /\ le_dec (firstn 1 (skipn 25 b0)) = m
    /\ le_dec (firstn 2 (skipn 105 b0)) = aint h' "point_size"
    /\ firstn (cntw m) (skipn (cntp m) b0) = le_enc (cntw m) 0
    /\ length b1 = length b0 /\ firstn 107 b1 = firstn 107 b0
    /\ firstn (cntw m) (skipn (cntp m) b1) = le_enc (cntw m) (len recs)
    /\ 0 <= len recs < 256 ^ Z.of_nat (cntw m).
Proof.
  intros H0 Hf H1.
  destruct (final_hdr_count _ _ _ _ _ _ _ _ _ H0 Hf) as [Hcnt Hps].
  destruct (hdr_bytes_facts _ _ _ _ _ 0 H0 (aget_with_stats_count h stats0)) as (A1 & A2 & A3 & A4 & A5 & A6 & A7 & _).
  destruct (hdr_bytes_facts _ _ _ _ _ _ H1 (aget_with_stats_count h0 (stats_of_header h')))
    as (_ & _ & _ & _ & _ & _ & B7 & B8).
  destruct (reenc_agree _ _ _ _ _ _ _ H0 H1) as (_ & Emn & _).
  rewrite Emn in B7, B8. cbn [stats_of_header s_count] in B7, B8. rewrite Hcnt in B7, B8.
  destruct (headers_agree_prefix ap h vl fmt recs evl (h0, b0) h' H0 Hf (h1, b1) H1) as [C1 C2].
  cbn [fst snd] in C1, C2.
  exists (aint (with_stats h stats0) "version.minor").
  rewrite Hps. rewrite (enc_header_keeps _ _ _ _ _ "point_size" H0) by reflexivity.
  repeat split; try assumption; apply B8.
Qed.

(* ------------------------------------------------------------------------------------ *)
(* the two kinds of crash images                                                         *)
(* ------------------------------------------------------------------------------------ *)
Definition hdr_facts (b0 b1 : list Z) (m ps n : Z) : Prop :=
  (227 <= length b0)%nat /\ (cntp m + cntw m <= length b0)%nat
  /\ le_dec (firstn 4 (skipn 96 b0)) = len b0
  /\ le_dec (firstn 1 (skipn 25 b0)) = m
  /\ le_dec (firstn 2 (skipn 105 b0)) = ps
  /\ firstn (cntw m) (skipn (cntp m) b0) = le_enc (cntw m) 0
  /\ length b1 = length b0 /\ firstn 107 b1 = firstn 107 b0
  /\ firstn (cntw m) (skipn (cntp m) b1) = le_enc (cntw m) n
  /\ 0 <= n < 256 ^ Z.of_nat (cntw m).

(* (A) any prefix of: the initial header followed by anything.  The count reads 0. *)
Lemma safeA b0 b1 m ps recs tail n :
  hdr_facts b0 b1 m ps (len recs) -> recs_ok ps recs = true -> 0 < ps ->
  reads_prefix_or_fails (firstn n (b0 ++ tail)) recs.
Proof.
  intros (F1 & F2 & F3 & F4 & F5 & F6 & _) Hrecs Hps.
  destruct (le_lt_dec 227 n) as [Hn|Hn].
  - assert (firstn (length b0) (firstn n (b0 ++ tail)) = firstn (Nat.min (length b0) n) b0) as Est.
    { rewrite firstn_firstn. apply firstn_app_le. lia. }
    assert (count_raw m (firstn (length b0) (firstn n (b0 ++ tail))) = 0) as Ec.
    { rewrite Est. unfold count_raw. rewrite fs_firstn_min.
      set (i := Nat.min (cntw m) (Nat.min (length b0) n - cntp m)).
      replace i with (Nat.min i (cntw m)) by (unfold i; lia).
      rewrite <- firstn_firstn, F6, le_enc_zero. apply le_dec_zeros_prefix. }
    apply (read_core _ b0 m ps recs); try assumption.
    + rewrite firstn_firstn. replace (Nat.min 107 n) with 107%nat by lia. apply firstn_app_le. lia.
    + rewrite Ec. pose proof (len_nonneg recs). lia.
    + rewrite Ec. lia.
  - unfold reads_prefix_or_fails, read_file.
    destruct (dec_header (firstn n (b0 ++ tail)) true) as [rh|e] eqn:Eh; [|exact I].
    destruct (dec_header_inv _ _ _ Eh) as [Hl _]. rewrite firstn_length in Hl. lia.
Qed.

(* (B) the final header partially written over the initial one, all the points present *)
Lemma safeB b0 b1 m ps recs tail j :
  hdr_facts b0 b1 m ps (len recs) -> recs_ok ps recs = true -> 0 < ps -> (j <= length b0)%nat ->
  reads_prefix_or_fails (firstn j b1 ++ skipn j b0 ++ concat recs ++ tail) recs.
Proof.
  intros (F1 & F2 & F3 & F4 & F5 & F6 & F7 & F8 & F9 & F10) Hrecs Hps Hj.
  rewrite app_assoc. set (mix := firstn j b1 ++ skipn j b0).
  assert (length mix = length b0) as Lmix by (unfold mix; rewrite mix_length; lia).
  assert (firstn (length b0) (mix ++ concat recs ++ tail) = mix) as Est by now apply firstn_app_exact.
  assert (0 <= count_raw m mix <= len recs) as Hc.
  { unfold count_raw, mix. rewrite mix_field by exact F7. rewrite F6, F9.
    destruct (le_lt_dec (j - cntp m) (cntw m)) as [Hle|Hgt].
    - now apply torn_le_zero.
    - rewrite firstn_all2 by (rewrite le_enc_length; lia).
      rewrite skipn_all2 by (rewrite le_enc_length; lia).
      rewrite app_nil_r, le_dec_enc by exact F10. lia. }
  apply (read_core _ b0 m ps recs); try assumption.
  - rewrite firstn_app_le by lia. change (firstn 107 mix) with (firstn 107 (skipn 0 mix)).
    unfold mix. rewrite mix_field by exact F7. rewrite Nat.sub_0_r.
    change (skipn 0 b1) with b1. change (skipn 0 b0) with b0. rewrite F8. apply firstn_skipn.
  - rewrite Est. exact Hc.
  - intros _. exists tail. now apply skipn_app_exact.
Qed.

(* ------------------------------------------------------------------------------------ *)
(* the write trace                                                                       *)
(* ------------------------------------------------------------------------------------ *)
Definition crash_from (f : list Z) (trace : list (Z * list Z)) (k j : nat) : list Z :=
  let done := fold_left apply_write (firstn k trace) f in
  match nth_error trace k with
  | Some (pos, bs) => write_at done pos (firstn j bs)
  | None => done
  end.

Lemma crash_image_from trace k j : crash_image trace k j = crash_from [] trace k j.
Proof. reflexivity. Qed.
Lemma crash_from_nil f k j : crash_from f [] k j = f.
Proof. destruct k; reflexivity. Qed.
Lemma crash_from_0 f pos bs t j : crash_from f ((pos, bs) :: t) 0 j = write_at f pos (firstn j bs).
Proof. reflexivity. Qed.
Lemma crash_from_S f w t k j : crash_from f (w :: t) (S k) j = crash_from (apply_write f w) t k j.
Proof. reflexivity. Qed.

Fixpoint cw (s : Z) (pts : list (list Z)) : list (Z * list Z) :=
  match pts with [] => [] | p :: ps => (s, p) :: cw (s + len p) ps end.
Fixpoint sums (s : Z) (pts : list (list Z)) : list Z :=
  match pts with [] => [] | p :: ps => (s + len p) :: sums (s + len p) ps end.

Lemma starts_eq : forall (pts : list (list Z)) acc,
  fold_left (fun acc p => acc ++ [last acc 0 + len p]) pts acc = acc ++ sums (last acc 0) pts.
Proof.
  induction pts as [|p ps IH]; intros acc; cbn [fold_left sums].
  - now rewrite app_nil_r.
  - rewrite IH, last_last, <- app_assoc. reflexivity.
Qed.

Lemma combine_cw : forall pts s, combine (s :: sums s pts) pts = cw s pts.
Proof.
  induction pts as [|p ps IH]; intros s; [reflexivity|].
  cbn [sums combine cw]. f_equal. apply IH.
Qed.

Lemma concat_nonempty (chunks : list (list (list Z))) :
  concat (map (fun c => concat c) (filter (fun c => match c with [] => false | _ => true end) chunks))
  = concat (concat chunks).
Proof.
  induction chunks as [|c cs IH]; [reflexivity|].
  cbn [filter concat]. destruct c as [|r c].
  - exact IH.
  - cbn [map concat]. rewrite IH. now rewrite concat_app.
Qed.

(* the appending writes: either the image is the old file plus something, or all of them are done *)
Lemma crash_appends : forall pts f rest k j,
  (exists t, crash_from f (cw (len f) pts ++ rest) k j = f ++ t)
  \/ ((length pts <= k)%nat
      /\ crash_from f (cw (len f) pts ++ rest) k j = crash_from (f ++ concat pts) rest (k - length pts) j).
Proof.
  induction pts as [|p ps IH]; intros f rest k j.
  - right. cbn [cw app length concat]. rewrite app_nil_r, Nat.sub_0_r. split; [lia|reflexivity].
  - cbn [cw app]. destruct k as [|k].
    + left. rewrite crash_from_0, write_at_end. eauto.
    + rewrite crash_from_S. unfold apply_write. cbn [fst snd]. rewrite write_at_end.
      rewrite <- len_app.
      destruct (IH (f ++ p) rest k j) as [[t Ht]|[Hk Ht]].
      * left. exists (p ++ t). rewrite Ht. now rewrite app_assoc.
      * right. split; [cbn [length]; lia|]. rewrite Ht. cbn [concat length Nat.sub].
        now rewrite app_assoc.
Qed.

(* the rewrite of the header at position 0, possibly torn, then nothing more *)
Lemma last_write b0 b1 m ps recs tail j :
  hdr_facts b0 b1 m ps (len recs) -> recs_ok ps recs = true -> 0 < ps ->
  reads_prefix_or_fails (write_at (b0 ++ concat recs ++ tail) 0 (firstn j b1)) recs.
Proof.
  intros HF Hrecs Hps. pose proof HF as (_ & _ & _ & _ & _ & _ & F7 & _).
  assert (firstn j b1 = firstn (Nat.min j (length b1)) b1) as ->.
  { rewrite <- firstn_firstn, firstn_all. reflexivity. }
  rewrite write_at_torn by lia.
  apply (safeB b0 b1 m ps); try assumption. lia.
Qed.

Lemma last_step b0 b1 m ps recs tail k j :
  hdr_facts b0 b1 m ps (len recs) -> recs_ok ps recs = true -> 0 < ps ->
  reads_prefix_or_fails (crash_from (b0 ++ concat recs ++ tail) [(0, b1)] k j) recs.
Proof.
  intros HF Hrecs Hps. destruct k as [|k].
  - rewrite crash_from_0. now apply (last_write b0 b1 m ps).
  - rewrite crash_from_S, crash_from_nil. unfold apply_write. cbn [fst snd].
    rewrite <- (firstn_all b1) at 1. now apply (last_write b0 b1 m ps).
Qed.

(* C19, one-shot and chunked writer *)
Theorem crash_safe : forall ap h vl fmt chunks evl hb0 eb h' hb1 k j,
  enc_header (with_stats h stats0) vl false = Ok hb0 ->
  enc_vlrs true evl = Ok eb ->
  final_hdr ap h vl fmt (concat chunks) evl = Ok h' ->
  enc_header (with_stats (fst hb0) (stats_of_header h')) vl true = Ok hb1 ->
  wf_header h' vl = true -> wf_header (fst hb0) vl = true -> forallb (wf_vlr true) evl = true ->
  recs_ok (aint h' "point_size") (concat chunks) = true -> 0 < aint h' "point_size" ->
  reads_prefix_or_fails (crash_image (write_trace (snd hb0) chunks eb (snd hb1)) k j) (concat chunks).
Proof.
  intros ap h vl fmt chunks evl [h0 b0] eb h' [h1 b1] k j H0 _ Hf H1 _ _ _ Hrecs Hps.
  cbn [fst snd] in *.
  destruct (session_facts _ _ _ _ _ _ _ _ _ _ _ H0 Hf H1) as (m & HF).
  fold (hdr_facts b0 b1 m (aint h' "point_size") (len (concat chunks))) in HF.
  set (ps := aint h' "point_size") in *. set (recs := concat chunks) in *.
  unfold write_trace. cbv zeta. rewrite concat_nonempty. fold recs.
  set (pts := map (fun c => concat c) (filter (fun c => match c with [] => false | _ => true end) chunks)).
  assert (concat pts = concat recs) as Hpts by apply concat_nonempty.
  rewrite starts_eq. cbn [last app]. rewrite combine_cw.
  rewrite crash_image_from.
  destruct k as [|k].
  - rewrite crash_from_0, write_at_nil.
    pose proof (safeA b0 b1 m ps recs [] j HF Hrecs Hps) as HA. now rewrite app_nil_r in HA.
  - rewrite crash_from_S. unfold apply_write at 1. cbn [fst snd]. rewrite write_at_nil.
    match goal with |- context [cw (len b0) pts ++ ?r] => set (rest := r) end.
    destruct (crash_appends pts b0 rest k j) as [[t Ht]|[Hk Ht]]; rewrite Ht.
    + rewrite <- (firstn_all (b0 ++ t)). now apply (safeA b0 b1 m ps).
    + rewrite Hpts. unfold rest. clear Ht rest.
      destruct eb as [|e eb].
      * cbn [app]. rewrite <- (app_nil_r (concat recs)). now apply (last_step b0 b1 m ps).
      * cbn [app]. set (ebs := e :: eb).
        destruct (k - length pts)%nat as [|k'].
        -- rewrite crash_from_0. rewrite <- Hpts, <- len_app, Hpts, write_at_end.
           rewrite <- app_assoc, <- (firstn_all (b0 ++ _)). now apply (safeA b0 b1 m ps).
        -- rewrite crash_from_S. unfold apply_write at 1. cbn [fst snd].
           rewrite <- Hpts, <- len_app, Hpts, write_at_end, <- app_assoc.
           now apply (last_step b0 b1 m ps).
Qed.
Print Assumptions crash_safe.
