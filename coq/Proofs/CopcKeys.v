(* C15 — voxel key arithmetic: child / parent / direction, the implicit octree of keys has no repetition. *)
From Coq Require Import String.
From Coq Require Import ZArith List Bool Lia ZifyBool.
From LasV Require Import Lib.Base Gen.GenCopc Model.Copc.
Import ListNotations.
Open Scope list_scope.
Open Scope Z_scope.

Lemma key_eqb_eq : forall a b, key_eqb a b = true <-> a = b.
Proof.
  intros [a1 a2 a3 a4] [b1 b2 b3 b4]. unfold key_eqb. cbn [kl kx ky kz]. split.
  - intros H. apply andb_prop in H. destruct H as [H H4]. apply andb_prop in H. destruct H as [H H3].
    apply andb_prop in H. destruct H as [H1 H2]. f_equal; lia.
  - intros H. inversion H. subst. rewrite !Z.eqb_refl. reflexivity.
Qed.

Lemma key_eqb_refl : forall a, key_eqb a a = true.
Proof. intros a. apply key_eqb_eq. reflexivity. Qed.

Lemma key_eqb_neq : forall a b, key_eqb a b = false <-> a <> b.
Proof.
  intros a b. split.
  - intros H E. apply key_eqb_eq in E. congruence.
  - intros H. destruct (key_eqb a b) eqn:E; [apply key_eqb_eq in E; contradiction | reflexivity].
Qed.

Lemma key_eqb_sym : forall a b, key_eqb a b = key_eqb b a.
Proof.
  intros a b. destruct (key_eqb a b) eqn:E.
  - apply key_eqb_eq in E. subst. symmetry. apply key_eqb_refl.
  - symmetry. apply key_eqb_neq. apply key_eqb_neq in E. congruence.
Qed.

Lemma key_eq_dec : forall a b : vkey, {a = b} + {a <> b}.
Proof.
  intros a b. destruct (key_eqb a b) eqn:E.
  - left. apply key_eqb_eq. exact E.
  - right. apply key_eqb_neq. exact E.
Qed.

(* (x << 1) | b = 2 x + b for a bit b *)
Lemma lor_shiftl_bit : forall x b, (b = 0 \/ b = 1) -> Z.lor (Z.shiftl x 1) b = 2 * x + b.
Proof.
  intros x b Hb. rewrite Z.shiftl_mul_pow2 by lia. change (2 ^ 1) with 2.
  destruct Hb as [-> | ->].
  - rewrite Z.lor_0_r. lia.
  - apply Z.bits_inj'. intros n Hn. rewrite Z.lor_spec.
    destruct (Z.eq_dec n 0) as [-> | Hn0].
    + replace (x * 2) with (2 * x) by lia. rewrite Z.testbit_even_0.
      replace (2 * x + 1) with (2 * x + 1) by lia. rewrite Z.testbit_odd_0. reflexivity.
    + replace n with (Z.succ (n - 1)) by lia.
      replace (x * 2) with (2 * x) by lia.
      rewrite Z.testbit_even_succ by lia. rewrite Z.testbit_odd_succ by lia.
      replace (Z.succ (n - 1)) with n by lia.
      assert (H1 : Z.testbit 1 n = false).
      { apply Z.bits_above_log2; simpl; lia. }
      rewrite H1. apply orb_false_r.
Qed.

Lemma dirs_eq : dirs = [0; 1; 2; 3; 4; 5; 6; 7].
Proof. reflexivity. Qed.

Lemma in_dirs : forall d, In d dirs <-> 0 <= d < 8.
Proof.
  intros d. rewrite dirs_eq. simpl. split.
  - intros H. repeat (destruct H as [H | H]; [lia |]). contradiction.
  - intros H. assert (d = 0 \/ d = 1 \/ d = 2 \/ d = 3 \/ d = 4 \/ d = 5 \/ d = 6 \/ d = 7) by lia.
    intuition.
Qed.

Lemma child_spec : forall k d, 0 <= d < 8 ->
  child k d = mkKey (kl k + 1) (2 * kx k + d mod 2) (2 * ky k + (d / 2) mod 2) (2 * kz k + (d / 4) mod 2).
Proof.
  intros k d Hd. unfold child, gen_child_level, gen_child_x, gen_child_y, gen_child_z.
  assert (Hc : d = 0 \/ d = 1 \/ d = 2 \/ d = 3 \/ d = 4 \/ d = 5 \/ d = 6 \/ d = 7) by lia.
  destruct Hc as [-> | [-> | [-> | [-> | [-> | [-> | [-> | ->]]]]]]];
    rewrite !lor_shiftl_bit by (vm_compute; auto); reflexivity.
Qed.

Lemma child_level : forall k d, kl (child k d) = kl k + 1.
Proof. intros. reflexivity. Qed.

Lemma parent_child : forall k d, 0 <= d < 8 -> parent (child k d) = k.
Proof.
  intros [l x y z] d Hd. rewrite child_spec by exact Hd. unfold parent. cbn [kl kx ky kz].
  assert (0 <= d mod 2 < 2) by (apply Z.mod_pos_bound; lia).
  assert (0 <= (d / 2) mod 2 < 2) by (apply Z.mod_pos_bound; lia).
  assert (0 <= (d / 4) mod 2 < 2) by (apply Z.mod_pos_bound; lia).
  f_equal; try lia.
  - symmetry. apply (Z.div_unique_pos (2 * x + d mod 2) 2 x (d mod 2)); lia.
  - symmetry. apply (Z.div_unique_pos (2 * y + (d / 2) mod 2) 2 y ((d / 2) mod 2)); lia.
  - symmetry. apply (Z.div_unique_pos (2 * z + (d / 4) mod 2) 2 z ((d / 4) mod 2)); lia.
Qed.

Lemma dir_child : forall k d, 0 <= d < 8 -> dir_of (child k d) = d.
Proof.
  intros [l x y z] d Hd. rewrite child_spec by exact Hd. unfold dir_of. cbn [kl kx ky kz].
  assert (Hc : d = 0 \/ d = 1 \/ d = 2 \/ d = 3 \/ d = 4 \/ d = 5 \/ d = 6 \/ d = 7) by lia.
  assert (E : forall a b, 0 <= b < 2 -> (2 * a + b) mod 2 = b).
  { intros a b Hb. symmetry. apply (Z.mod_unique_pos (2 * a + b) 2 a b); lia. }
  destruct Hc as [-> | [-> | [-> | [-> | [-> | [-> | [-> | ->]]]]]]];
    rewrite !E by (vm_compute; split; congruence); reflexivity.
Qed.

Lemma dir_of_range : forall k, 0 <= dir_of k < 8.
Proof.
  intros k. unfold dir_of.
  assert (0 <= kx k mod 2 < 2) by (apply Z.mod_pos_bound; lia).
  assert (0 <= ky k mod 2 < 2) by (apply Z.mod_pos_bound; lia).
  assert (0 <= kz k mod 2 < 2) by (apply Z.mod_pos_bound; lia).
  lia.
Qed.

Lemma child_parent : forall k, child (parent k) (dir_of k) = k.
Proof.
  intros [l x y z]. rewrite child_spec by apply dir_of_range. unfold parent, dir_of. cbn [kl kx ky kz].
  assert (Hx : 0 <= x mod 2 < 2) by (apply Z.mod_pos_bound; lia).
  assert (Hy : 0 <= y mod 2 < 2) by (apply Z.mod_pos_bound; lia).
  assert (Hz : 0 <= z mod 2 < 2) by (apply Z.mod_pos_bound; lia).
  set (a := x mod 2) in *. set (b := y mod 2) in *. set (c := z mod 2) in *.
  assert (E1 : (a + 2 * b + 4 * c) mod 2 = a).
  { symmetry. apply (Z.mod_unique_pos _ 2 (b + 2 * c) a); lia. }
  assert (E2 : ((a + 2 * b + 4 * c) / 2) mod 2 = b).
  { replace ((a + 2 * b + 4 * c) / 2) with (b + 2 * c).
    - symmetry. apply (Z.mod_unique_pos _ 2 c b); lia.
    - apply (Z.div_unique_pos _ 2 (b + 2 * c) a); lia. }
  assert (E3 : ((a + 2 * b + 4 * c) / 4) mod 2 = c).
  { replace ((a + 2 * b + 4 * c) / 4) with c.
    - apply Z.mod_small; lia.
    - apply (Z.div_unique_pos _ 4 c (a + 2 * b)); lia. }
  rewrite E1, E2, E3. subst a b c.
  pose proof (Z.div_mod x 2). pose proof (Z.div_mod y 2). pose proof (Z.div_mod z 2).
  f_equal; lia.
Qed.

Lemma child_inj : forall k d1 d2, 0 <= d1 < 8 -> 0 <= d2 < 8 -> child k d1 = child k d2 -> d1 = d2.
Proof.
  intros k d1 d2 H1 H2 E. rewrite <- (dir_child k d1 H1), <- (dir_child k d2 H2), E. reflexivity.
Qed.

Lemma in_children : forall k c, In c (children k) <-> exists d, 0 <= d < 8 /\ c = child k d.
Proof.
  intros k c. unfold children. rewrite in_map_iff. split.
  - intros [d [E Hd]]. exists d. split; [apply in_dirs; exact Hd | auto].
  - intros [d [Hd E]]. exists d. split; [auto | apply in_dirs; exact Hd].
Qed.

Lemma in_children_parent : forall k c, In c (children k) -> parent c = k /\ kl c = kl k + 1.
Proof.
  intros k c H. apply in_children in H. destruct H as [d [Hd ->]]. split; [apply parent_child; exact Hd | reflexivity].
Qed.

Lemma child_of_parent_in : forall k, In k (children (parent k)).
Proof. intros k. apply in_children. exists (dir_of k). split; [apply dir_of_range | symmetry; apply child_parent]. Qed.

Lemma NoDup_map_inj_in : forall {A B} (f : A -> B) l,
  (forall a b, In a l -> In b l -> f a = f b -> a = b) -> NoDup l -> NoDup (map f l).
Proof.
  intros A B f l. induction l as [|x xs IH]; intros Hinj Hnd; [constructor|].
  inversion Hnd as [|? ? Hx Hxs]; subst. simpl. constructor.
  - intros Hin. apply in_map_iff in Hin. destruct Hin as [y [Hy Hyin]].
    assert (y = x) by (apply Hinj; simpl; auto). subst. contradiction.
  - apply IH; [intros a b Ha Hb; apply Hinj; simpl; auto | exact Hxs].
Qed.

Lemma NoDup_children : forall k, NoDup (children k).
Proof.
  intros k. unfold children. apply NoDup_map_inj_in.
  - intros a b Ha Hb E. apply in_dirs in Ha. apply in_dirs in Hb. eapply child_inj; eauto.
  - rewrite dirs_eq. repeat constructor; simpl; intuition lia.
Qed.

Lemma length_children : forall k, length (children k) = 8%nat.
Proof. intros. reflexivity. Qed.

(* ---------- ancestors and the enumeration of the key tree ---------- *)
Fixpoint anc (n : nat) (k : vkey) : vkey := match n with O => k | S m => parent (anc m k) end.

Lemma anc_level : forall n k, kl (anc n k) = kl k - Z.of_nat n.
Proof. induction n as [|n IH]; intros k; cbn [anc]; [lia|]. unfold parent at 1. cbn [kl]. rewrite IH. lia. Qed.

Lemma anc_parent_comm : forall n k, anc n (parent k) = parent (anc n k).
Proof. induction n as [|n IH]; intros k; cbn [anc]; [reflexivity | rewrite IH; reflexivity]. Qed.

(* keys of the sub-tree of k down to n more levels *)
Fixpoint enum (n : nat) (k : vkey) : list vkey :=
  k :: match n with O => [] | S m => flat_map (enum m) (children k) end.

Lemma in_enum_anc : forall n k x, In x (enum n k) -> exists j, (j <= n)%nat /\ anc j x = k.
Proof.
  induction n as [|n IH]; intros k x H; cbn [enum] in H.
  - destruct H as [<- | []]. exists O. split; [lia | reflexivity].
  - destruct H as [<- | H]; [exists O; split; [lia | reflexivity]|].
    apply in_flat_map in H. destruct H as [c [Hc Hx]].
    destruct (IH c x Hx) as [j [Hj Ej]]. exists (S j). split; [lia|].
    cbn [anc]. rewrite Ej. apply in_children_parent in Hc. apply Hc.
Qed.

Lemma NoDup_app_intro : forall {A} (l1 l2 : list A),
  NoDup l1 -> NoDup l2 -> (forall x, In x l1 -> In x l2 -> False) -> NoDup (l1 ++ l2).
Proof.
  intros A l1. induction l1 as [|x xs IH]; intros l2 H1 H2 Hd; simpl; [exact H2|].
  inversion H1 as [|? ? Hx Hxs]; subst. constructor.
  - intros Hin. apply in_app_or in Hin. destruct Hin as [Hin | Hin]; [contradiction | apply (Hd x); simpl; auto].
  - apply IH; [exact Hxs | exact H2 | intros y Hy; apply Hd; simpl; auto].
Qed.

Lemma NoDup_flat_map : forall {A B} (f : A -> list B) l,
  NoDup l -> (forall a, In a l -> NoDup (f a)) ->
  (forall a b x, In a l -> In b l -> In x (f a) -> In x (f b) -> a = b) ->
  NoDup (flat_map f l).
Proof.
  intros A B f l. induction l as [|a l IH]; intros Hnd Hf Hdis; simpl; [constructor|].
  inversion Hnd as [|? ? Ha Hl]; subst.
  apply NoDup_app_intro.
  - apply Hf; simpl; auto.
  - apply IH; [exact Hl | intros; apply Hf; simpl; auto | intros a0 b x Ha0 Hb; apply Hdis; simpl; auto].
  - intros x Hx Hx2. apply in_flat_map in Hx2. destruct Hx2 as [b [Hb Hxb]].
    assert (a = b) by (apply (Hdis a b x); simpl; auto). subst. contradiction.
Qed.

Lemma NoDup_enum : forall n k, NoDup (enum n k).
Proof.
  induction n as [|n IH]; intros k; cbn [enum].
  - constructor; [simpl; tauto | constructor].
  - constructor.
    + intros Hin. apply in_flat_map in Hin. destruct Hin as [c [Hc Hx]].
      apply in_enum_anc in Hx. destruct Hx as [j [_ Ej]].
      apply in_children_parent in Hc. destruct Hc as [_ Hl].
      pose proof (anc_level j k) as Hal. rewrite Ej in Hal. lia.
    + apply NoDup_flat_map.
      * apply NoDup_children.
      * intros a _. apply IH.
      * intros a b x Ha Hb Hxa Hxb.
        apply in_enum_anc in Hxa. destruct Hxa as [ja [_ Ea]].
        apply in_enum_anc in Hxb. destruct Hxb as [jb [_ Eb]].
        apply in_children_parent in Ha. apply in_children_parent in Hb.
        pose proof (anc_level ja x) as La. pose proof (anc_level jb x) as Lb.
        rewrite Ea in La. rewrite Eb in Lb.
        assert (ja = jb) by lia. subst jb. rewrite <- Ea, <- Eb. reflexivity.
Qed.

Lemma enum_children_disjoint : forall k a b x n m, In a (children k) -> In b (children k) ->
  In x (enum n a) -> In x (enum m b) -> a = b.
Proof.
  intros k a b x n m Ha Hb Hxa Hxb.
  apply in_enum_anc in Hxa. destruct Hxa as [ja [_ Ea]].
  apply in_enum_anc in Hxb. destruct Hxb as [jb [_ Eb]].
  apply in_children_parent in Ha. apply in_children_parent in Hb.
  pose proof (anc_level ja x) as La. pose proof (anc_level jb x) as Lb.
  rewrite Ea in La. rewrite Eb in Lb.
  assert (ja = jb) by lia. subst jb. rewrite <- Ea, <- Eb. reflexivity.
Qed.

Lemma enum_not_self : forall k c n, In c (children k) -> ~ In k (enum n c).
Proof.
  intros k c n Hc Hx. apply in_enum_anc in Hx. destruct Hx as [j [_ Ej]].
  apply in_children_parent in Hc. destruct Hc as [_ Hl].
  pose proof (anc_level j k) as Hal. rewrite Ej in Hal. lia.
Qed.

Lemma enum_head : forall n k, In k (enum n k).
Proof. intros n k. destruct n; simpl; auto. Qed.
