(* C08, the file around the record lists: every way of reading a file whose records are where its header says, and
   append sessions (LasAppender) as a way of writing. *)
From Coq Require Import String.
From Coq Require Import ZArith List Bool Lia ZifyBool.
From LasV Require Import Lib.Base Lib.BaseFacts Lib.Layout Proofs.LayoutProofs Gen.GenKnown Model.Las Model.LasSpec
  Proofs.VlrProofs Model.Known Proofs.KnownProofs.
Import ListNotations.
Open Scope list_scope.
Open Scope Z_scope.

(* ------------------------------------------------------------------------------------ *)
(* every way of reading a file whose records are where its header says                    *)
(* ------------------------------------------------------------------------------------ *)
Lemma skipn_skipn_add {A} a b (l : list A) : skipn a (skipn b l) = skipn (b + a) l.
Proof.
  revert l; induction b as [|b IH]; intros l; [reflexivity|].
  destruct l as [|x l]; [now rewrite !skipn_nil|]. cbn [Nat.add skipn]. apply IH.
Qed.

(* a file written by anything: VLRs behind the header, points, any bytes (gap), the EVLRs where the header says, any
   bytes behind them: both lists are read, in order *)
Theorem file_read_located hs off vl pts gap el tail vb eb :
  forallb (wf_vlr false) vl = true -> forallb (wf_vlr true) el = true ->
  enc_vlrs false vl = Ok vb -> enc_vlrs true el = Ok eb ->
  read_file hs true (mkLoc (len vl) off (len el) (hs + len vb + len pts + len gap)) (vb ++ pts ++ gap ++ eb ++ tail)
  = Ok (map vlr_factory vl, Some (map vlr_factory el)).
Proof.
  intros Hv He Evb Eeb. unfold read_file. cbn [l_nvlr l_nevlr l_estart].
  unfold len at 1. rewrite Nat2Z.id, (read_after_write false vl vb _ Hv Evb). cbn [bind fst].
  destruct el as [|e0 el].
  - reflexivity.
  - assert ((0 <? len (e0 :: el)) = true) as -> by (unfold len; cbn [length]; lia).
    replace (Z.to_nat (hs + len vb + len pts + len gap - hs)) with (length (vb ++ pts ++ gap))
      by (unfold len; rewrite !app_length; lia).
    replace (vb ++ pts ++ gap ++ eb ++ tail) with ((vb ++ pts ++ gap) ++ eb ++ tail) by (now rewrite <- !app_assoc).
    rewrite skipn_app_length. unfold len. rewrite Nat2Z.id.
    now rewrite (read_after_write true (e0 :: el) eb tail He Eeb).
Qed.

(* a source that can only be read forward gives what a source that can seek gives, wherever behind the header and
   not behind the first EVLR it stands when the EVLRs are wanted (right behind the points, in particular), on every
   file, whatever lies between that position and the EVLRs *)
Theorem read_routes_agree hs v14 loc pos body : hs <= pos -> pos <= l_estart loc ->
  read_file_from hs v14 loc pos body = read_file hs v14 loc body.
Proof.
  intros H1 H2. unfold read_file_from, read_file.
  destruct (read_known false (Z.to_nat (l_nvlr loc)) body) as [r|e]; [|reflexivity]. cbn [bind].
  destruct v14; [|reflexivity]. destruct (0 <? l_nevlr loc); [|reflexivity].
  assert ((l_estart loc <? pos) = false) as -> by lia.
  rewrite skipn_skipn_add. now replace (Z.to_nat (pos - hs) + Z.to_nat (l_estart loc - pos))%nat with (Z.to_nat (l_estart loc - hs)) by lia.
Qed.

(* ------------------------------------------------------------------------------------ *)
(* append sessions                                                                       *)
(* ------------------------------------------------------------------------------------ *)
Lemma firstn_app_length {A} (a b : list A) : firstn (length a) (a ++ b) = a.
Proof. induction a as [|x a IH]; [now destruct b|]. cbn [length firstn app]. now rewrite IH. Qed.

Lemma kv_records_length l : forall vs, kv_records l = Ok vs -> length vs = length l.
Proof.
  induction l as [|k l IH]; intros vs H.
  - cbn in H. now injection H as <-.
  - cbn [kv_records] in H. destruct (kv_record k) as [v|e]; [|discriminate]. cbn [bind] in H.
    destruct (kv_records l) as [ws|e]; [|discriminate]. cbn [bind] in H. injection H as <-. cbn [length]. now rewrite (IH ws eq_refl).
Qed.

(* an append session on a laid-out file (VLRs, points, then anything: a gap, the old EVLRs, bytes behind them) leaves
   exactly the file that writing the records that were read, the old points followed by the appended ones, and the
   EVLR list held at close would have produced from scratch - whatever was appended (nothing, empty chunks, points)
   and however the list was changed. Only a file without EVLRs that gets none is not cut: it must end behind its
   points (and, its header naming no EVLR, say 0 for their start) for the equality to hold. *)
Theorem append_as_write hs v14 loc vl vb vl' vb' pts trailing newpts kel :
  forallb (wf_vlr false) vl = true -> enc_vlrs false vl = Ok vb ->
  l_nvlr loc = len vl -> l_offset loc = hs + len vb -> 0 <= l_nevlr loc ->
  kv_records (map vlr_factory vl) = Ok vl' -> enc_vlrs false vl' = Ok vb' -> len vb' = len vb ->
  (v14 = false \/ (l_nevlr loc = 0 /\ opt_list kel = []) -> trailing = [] /\ l_estart loc = 0) ->
  append_file hs v14 loc (vb ++ pts ++ trailing) (len pts) newpts kel
  = write_file_known hs v14 loc (map vlr_factory vl) (pts ++ newpts) (if v14 then kel else None).
Proof.
  intros Hv Evb Hn Ho Hne Kv Evb' Hlen Htr.
  assert (length vb' = length vb) as Hlen' by (unfold len in Hlen; lia).
  assert (length vl' = length vl) as Hvl by (rewrite (kv_records_length _ _ Kv); apply map_length).
  unfold append_file, write_file_known. rewrite Hn. unfold len at 1. rewrite Nat2Z.id.
  rewrite (read_after_write false vl vb _ Hv Evb). cbn [bind fst]. rewrite Kv. cbn [bind]. rewrite Evb'. cbn [bind].
  rewrite Ho, Hlen, Z.eqb_refl. cbn [negb].
  replace (Z.to_nat (hs + len vb + len pts - hs)) with (length (vb ++ pts)) by (unfold len; rewrite app_length; lia).
  assert (overwrite (vb ++ pts ++ trailing) (length (vb ++ pts)) newpts
          = (vb ++ pts ++ newpts) ++ skipn (length newpts) trailing) as Hov.
  { unfold overwrite. replace (vb ++ pts ++ trailing) with ((vb ++ pts) ++ trailing) by (now rewrite <- app_assoc).
    rewrite firstn_app_length. rewrite <- skipn_skipn_add, skipn_app_length. now rewrite <- !app_assoc. }
  rewrite Hov.
  assert (forall X, firstn (length (vb ++ pts) + length newpts) ((vb ++ pts ++ newpts) ++ X) = vb ++ pts ++ newpts) as Hfi.
  { intros X. rewrite <- app_length. replace ((vb ++ pts) ++ newpts) with (vb ++ pts ++ newpts) by (now rewrite <- app_assoc).
    apply firstn_app_length. }
  assert (forall X, vb' ++ skipn (length vb') (vb ++ X) = vb' ++ X) as Hsk.
  { intros X. now rewrite Hlen', skipn_app_length. }
  assert (len vl' = len vl) as Hvl2 by (unfold len; lia).
  unfold write_file, partial_reset. cbn [l_nevlr l_estart l_nvlr l_offset]. rewrite !reset_nevlr, !reset_estart.
  destruct v14.
  - destruct kel as [[|k kl]|].
    + (* an empty list *)
      cbn [negb kv_records bind]. rewrite Evb'. cbn [bind fst snd andb].
      destruct (0 <? l_nevlr loc) eqn:E0.
      * cbn [bind fst snd l_nvlr l_offset]. rewrite Hfi, Hsk, Hlen, Hvl2. rewrite <- ?app_assoc; reflexivity.
      * destruct Htr as [-> He]; [right; split; [lia|reflexivity]|].
        cbn [bind fst snd l_nvlr l_offset]. rewrite skipn_nil, app_nil_r, Hsk, Hlen, Hvl2.
        replace (l_nevlr loc) with 0 by lia. rewrite He. rewrite <- ?app_assoc; reflexivity.
    + cbn [negb]. destruct (kv_records (k :: kl)) as [el|e] eqn:Ek; [|reflexivity]. cbn [bind]. rewrite Evb'. cbn [bind].
      destruct el as [|e0 el]; [apply kv_records_length in Ek; discriminate|].
      destruct (enc_vlrs true (e0 :: el)) as [eb|e]; [|reflexivity].
      cbn [bind fst snd l_nvlr l_offset]. rewrite Hfi. rewrite <- !app_assoc. rewrite Hsk, Hlen, Hvl2.
      replace (hs + Z.of_nat (length (vb ++ pts) + length newpts)) with (hs + len vb + len (pts ++ newpts))
        by (unfold len; rewrite !app_length; lia).
      rewrite <- ?app_assoc; reflexivity.
    + cbn [bind fst snd andb]. rewrite Evb'. cbn [bind fst snd].
      destruct (0 <? l_nevlr loc) eqn:E0.
      * cbn [bind fst snd l_nvlr l_offset]. rewrite Hfi, Hsk, Hlen, Hvl2. rewrite <- ?app_assoc; reflexivity.
      * destruct Htr as [-> He]; [right; split; [lia|reflexivity]|].
        cbn [bind fst snd l_nvlr l_offset]. rewrite skipn_nil, app_nil_r, Hsk, Hlen, Hvl2.
        replace (l_nevlr loc) with 0 by lia. rewrite He. rewrite <- ?app_assoc; reflexivity.
  - destruct Htr as [-> He]; [now left|]. cbn [andb bind fst snd]. rewrite Evb'. cbn [bind fst snd l_nvlr l_offset].
    rewrite skipn_nil, app_nil_r, Hsk, Hlen, Hvl2. rewrite <- ?app_assoc; reflexivity.
Qed.

Lemma wf_bytes_all ext l : forallb (wf_vlr ext) l = true -> Forall (fun v => bytes_ok (v_data v) = true) l.
Proof. intros H. apply Forall_forall. intros v Hin. rewrite forallb_forall in H. apply (wf_vlr_bytes ext). now apply H. Qed.

(* what is read (by every route, see read_routes_agree) from a 1.4 file after an append session: the VLRs it had, the
   EVLR list the appender held at close - records that were read from the file, new ones, in any arrangement, or
   none - and the file is: VLRs, old points, appended points, those EVLRs, nothing else *)
Theorem append_roundtrip hs loc vl vb vl' vb' pts trailing newpts kel el' loc' body' :
  forallb (wf_vlr false) vl = true -> enc_vlrs false vl = Ok vb ->
  l_nvlr loc = len vl -> l_offset loc = hs + len vb -> 0 <= l_nevlr loc ->
  kv_records (map vlr_factory vl) = Ok vl' -> forallb (wf_vlr false) vl' = true ->
  enc_vlrs false vl' = Ok vb' -> len vb' = len vb ->
  (l_nevlr loc = 0 /\ opt_list kel = [] -> trailing = [] /\ l_estart loc = 0) ->
  kv_records (opt_list kel) = Ok el' -> forallb (wf_vlr true) el' = true ->
  append_file hs true loc (vb ++ pts ++ trailing) (len pts) newpts kel = Ok (loc', body') ->
  read_file hs true loc' body' = Ok (map vlr_factory vl, Some (map vlr_factory el'))
  /\ exists eb, enc_vlrs true el' = Ok eb /\ body' = vb' ++ (pts ++ newpts) ++ eb
     /\ l_nevlr loc' = len el' /\ (el' <> [] -> l_estart loc' = hs + len vb' + len (pts ++ newpts)).
Proof.
  intros Hv Evb Hn Ho Hne Kv Hv' Evb' Hlen Htr Ke He' Ha.
  rewrite (append_as_write hs true loc vl vb vl' vb' pts trailing newpts kel Hv Evb Hn Ho Hne Kv Evb' Hlen) in Ha.
  2:{ intros [H|H]; [discriminate|now apply Htr]. }
  destruct (kv_records_stable vl vl' (wf_bytes_all _ _ Hv) Kv) as (H1 & _).
  unfold write_file_known in Ha. rewrite Kv in Ha. cbn [bind negb] in Ha.
  assert (write_file hs true loc vl' (pts ++ newpts) (Some el') = Ok (loc', body')) as Hw.
  { destruct kel as [l|]; cbn [opt_list] in Ke.
    - rewrite Ke in Ha. exact Ha.
    - cbn in Ke. injection Ke as <-. rewrite <- Ha. unfold write_file. destruct (enc_vlrs false vl'); reflexivity. }
  split.
  - rewrite (file_roundtrip hs true loc vl' (pts ++ newpts) (Some el') loc' body' Hv' He' Hw). cbn [opt_list]. now rewrite H1.
  - destruct (file_layout hs true loc vl' (pts ++ newpts) (Some el') loc' body' Hw) as (vb2 & eb & E1 & E2 & Hb & _ & _ & Hz & Hnz).
    cbn [opt_list] in *. rewrite Evb' in E1. injection E1 as <-. exists eb. repeat split; try assumption.
    + destruct el' as [|e0 el'].
      * destruct Hz as [Hz _]; [now left|]. exact Hz.
      * destruct Hnz as (_ & Hz' & _); [discriminate|]. exact Hz'.
    + intros Hne'. now destruct (Hnz Hne') as (_ & _ & Hs).
Qed.

(* in particular the records the appender read from the file and still holds at close (moved, or next to new ones)
   are read again as they were handed out: same class, content, ids and description *)
Theorem append_keeps_read_records el el' : forallb (wf_vlr true) el = true ->
  kv_records (map vlr_factory el) = Ok el' ->
  map vlr_factory el' = map vlr_factory el /\ map v_uid el' = map v_uid el /\ map v_rid el' = map v_rid el
  /\ map v_desc el' = map v_desc el.
Proof.
  intros He Ke. destruct (kv_records_stable el el' (wf_bytes_all _ _ He) Ke) as (H1 & H2 & H3 & H4 & _). now repeat split.
Qed.

(* VLRs that do not serialise to the room they have in the file: the session is refused and there is no new file *)
Theorem append_refused_resized hs v14 loc vl vb vl' vb' rest npts newpts kel :
  forallb (wf_vlr false) vl = true -> enc_vlrs false vl = Ok vb -> l_nvlr loc = len vl -> l_offset loc = hs + len vb ->
  kv_records (map vlr_factory vl) = Ok vl' -> enc_vlrs false vl' = Ok vb' -> len vb' <> len vb ->
  append_file hs v14 loc (vb ++ rest) npts newpts kel = Err ELaspy.
Proof.
  intros Hv Evb Hn Ho Kv Evb' Hlen. unfold append_file. rewrite Hn. unfold len at 1. rewrite Nat2Z.id.
  rewrite (read_after_write false vl vb _ Hv Evb). cbn [bind fst]. rewrite Kv. cbn [bind]. rewrite Evb'. cbn [bind].
  rewrite Ho. assert ((hs + len vb' =? hs + len vb) = false) as -> by lia. reflexivity.
Qed.
