(* C12 proofs: table facts by computation (all 11 formats, all 121 pairs), the copy loop by induction over the
   target's dimension list, points by induction over the record. *)
From Coq Require Import String.
From Coq Require Import ZArith List Bool Lia ZifyBool.
From LasV Require Import Lib.Base Lib.BaseFacts Gen.GenFormatBits Gen.GenDims Model.SubField Proofs.SubFieldProofs
  Model.HeaderOps Proofs.HeaderOpsProofs Model.Convert.
Import ListNotations.
Open Scope list_scope.
Open Scope Z_scope.

(* ---------------- strings, association lists ---------------- *)
Lemma seqb_refl s : String.eqb s s = true.
Proof. apply String.eqb_refl. Qed.

Lemma mem_In n l : mem n l = true <-> In n l.
Proof.
  unfold mem. rewrite existsb_exists. split.
  - intros (x & Hx & E). apply String.eqb_eq in E. now subst.
  - intros H. exists n. split; [exact H|apply seqb_refl].
Qed.

Lemma mem_false n l : mem n l = false <-> ~ In n l.
Proof. rewrite <- mem_In. destruct (mem n l); split; intros; congruence. Qed.

Lemma nodupb_NoDup l : nodupb l = true -> NoDup l.
Proof.
  induction l as [|a r IH]; intros H; [constructor|].
  cbn [nodupb] in H. apply andb_true_iff in H as [Ha Hr]. constructor; [|now apply IH].
  apply mem_false. now destruct (mem a r).
Qed.

Lemma NoDup_nodupb l : NoDup l -> nodupb l = true.
Proof.
  induction 1 as [|a r Ha _ IH]; [reflexivity|]. cbn [nodupb]. rewrite IH.
  apply mem_false in Ha. now rewrite Ha.
Qed.

Lemma NoDup_app_iff {A} (a b : list A) : NoDup (a ++ b) <-> NoDup a /\ NoDup b /\ (forall x, In x a -> ~ In x b).
Proof.
  induction a as [|x a IH]; cbn [app].
  - split.
    + intros H. split; [constructor|]. split; [exact H|intros x []].
    + intros (_ & H & _). exact H.
  - split.
    + intros H. inversion H as [|? ? Hx Hr]; subst. apply IH in Hr as (Ha & Hb & Hd).
      split; [constructor; [intros Hin; apply Hx, in_or_app; now left|exact Ha]|].
      split; [exact Hb|]. intros y [<-|Hy]; [intros Hin; apply Hx, in_or_app; now right|now apply Hd].
    + intros (Ha & Hb & Hd). inversion Ha as [|? ? Hx Hr]; subst. constructor.
      * intros Hin. apply in_app_or in Hin as [Hin|Hin]; [contradiction|]. apply (Hd x); [now left|exact Hin].
      * apply IH. split; [exact Hr|]. split; [exact Hb|]. intros y Hy. apply Hd. now right.
Qed.

Lemma lookup_in n p : In n (map fst p) -> exists v, lookup n p = Some v.
Proof.
  unfold lookup. induction p as [|[k x] r IH]; intros H; [destruct H|].
  cbn [find fst]. destruct (String.eqb k n) eqn:E; [now exists x|].
  apply IH. destruct H as [H|H]; [|exact H]. cbn in H. subst. now rewrite seqb_refl in E.
Qed.

Lemma lookup_some_in n p v : lookup n p = Some v -> In n (map fst p).
Proof.
  unfold lookup. destruct (find (fun e => String.eqb (fst e) n) p) as [e|] eqn:F; [|discriminate].
  intros _. apply find_some in F as [Hin E]. apply String.eqb_eq in E. subst. now apply in_map.
Qed.

Lemma update_keys n v p : map fst (update n v p) = map fst p.
Proof.
  induction p as [|[k x] r IH]; [reflexivity|]. cbn [update].
  destruct (String.eqb k n); cbn [map fst]; [reflexivity|now rewrite IH].
Qed.

Lemma lookup_update_same n v p : In n (map fst p) -> lookup n (update n v p) = Some v.
Proof.
  unfold lookup. induction p as [|[k x] r IH]; intros H; [destruct H|].
  cbn [update]. destruct (String.eqb k n) eqn:E.
  - cbn [find fst]. now rewrite E.
  - cbn [find fst]. rewrite E. apply IH. destruct H as [H|H]; [|exact H].
    cbn in H. subst. now rewrite seqb_refl in E.
Qed.

Lemma lookup_update_other n k v p : k <> n -> lookup k (update n v p) = lookup k p.
Proof.
  intros Hne. unfold lookup. induction p as [|[k' x] r IH]; [reflexivity|].
  cbn [update]. destruct (String.eqb k' n) eqn:E.
  - apply String.eqb_eq in E. subst k'. cbn [find fst].
    destruct (String.eqb n k) eqn:E2; [apply String.eqb_eq in E2; congruence|reflexivity].
  - cbn [find fst]. destruct (String.eqb k' k); [reflexivity|exact IH].
Qed.

Lemma lookup_zero f n : In n (storage_names f) -> lookup n (zero_point f) = Some 0.
Proof.
  unfold zero_point, lookup. induction (storage_names f) as [|k r IH]; intros H; [destruct H|].
  cbn [map find fst]. destruct (String.eqb k n) eqn:E; [reflexivity|].
  apply IH. destruct H as [H|H]; [subst; now rewrite seqb_refl in E|exact H].
Qed.

Lemma zero_keys f : map fst (zero_point f) = storage_names f.
Proof. unfold zero_point. rewrite map_map. cbn [fst]. apply map_id. Qed.

Lemma zero_values f n v : lookup n (zero_point f) = Some v -> v = 0.
Proof.
  intros H. pose proof (lookup_some_in _ _ _ H) as Hin. rewrite zero_keys in Hin.
  rewrite (lookup_zero _ _ Hin) in H. congruence.
Qed.

Lemma field_type_in f n t : field_type f n = Some t -> In n (storage_names f).
Proof.
  unfold field_type, storage_names.
  destruct (find (fun x => String.eqb (fld_name x) n) (fmt_fields f)) as [x|] eqn:F; [|discriminate].
  intros _. apply find_some in F as [Hin E]. apply String.eqb_eq in E. subst. now apply in_map.
Qed.

(* ---------------- table facts, by computation ---------------- *)
Definition in_subs (T : Z) (n c : string) (m : Z) : bool :=
  existsb (fun e => let '(f, n', c', m') := e in (f =? T) && String.eqb n' n && String.eqb c' c && (m' =? m)) all_sub_fields.

Definition dim_ok (T : Z) (n : string) : bool :=
  match sub_of T n with
  | Some (c, m) =>
      in_subs T n c m
      && match field_type T c with Some t => is_int t | None => false end
      && forallb (fun n' => String.eqb n' n ||
                   match sub_of T n' with
                   | Some (c', m') => negb (String.eqb c' c) || existsb (Z.eqb m') (siblings T c m)
                   | None => negb (String.eqb n' c)
                   end) (dim_names T)
  | None =>
      match field_type T n with Some _ => true | None => false end
      && forallb (fun n' => match sub_of T n' with Some (c', _) => negb (String.eqb c' n) | None => true end) (dim_names T)
  end.

Definition fmt_ok (T : Z) : bool :=
  nodupb (dim_names T) && nodupb (storage_names T) && forallb (dim_ok T) (dim_names T)
  && mem "X" (dim_names T) && mem "Y" (dim_names T) && mem "Z" (dim_names T)
  && match sub_of T "X", sub_of T "Y", sub_of T "Z" with None, None, None => true | _, _, _ => false end.

(* what record[n] yields on a record of format S, values aside *)
Definition src_type (S : Z) (n : string) : option dtype :=
  match sub_of S n with Some (c, _) => field_type S c | None => field_type S n end.

(* same name => same storage dtype unless the target is a sub-field (then any integer dtype); a name that is not a
   dimension of the source is not readable from it at all *)
Definition pair_ok (S T : Z) : bool :=
  forallb (fun n =>
    match src_type S n with
    | None => true
    | Some t =>
        mem n (dim_names S)
        && match sub_of T n with
           | Some _ => is_int t
           | None => match field_type T n with Some t' => dtype_eqb t t' | None => false end
           end
    end) (dim_names T).

Definition tables_ok : bool :=
  forallb fmt_ok std_ids && forallb (fun s => forallb (pair_ok s) std_ids) std_ids.

Lemma tables_sweep : tables_ok = true.
Proof. vm_compute. reflexivity. Qed.

Lemma fmts_sweep : forallb fmt_ok std_ids = true.
Proof. vm_compute. reflexivity. Qed.
Lemma pairs_sweep : forallb (fun s => forallb (pair_ok s) std_ids) std_ids = true.
Proof. vm_compute. reflexivity. Qed.

Lemma std_known_in f : std_known f = true -> In f std_ids.
Proof.
  unfold std_known, std_ids. rewrite existsb_exists. intros (r & Hin & E).
  apply Z.eqb_eq in E. subst. apply in_map_iff. now exists r.
Qed.

Lemma fmt_ok_std f : std_known f = true -> fmt_ok f = true.
Proof.
  intros H. apply std_known_in in H. pose proof fmts_sweep as S. rewrite forallb_forall in S. now apply S.
Qed.

Lemma pair_ok_std s t : std_known s = true -> std_known t = true -> pair_ok s t = true.
Proof.
  intros Hs Ht. apply std_known_in in Hs, Ht. pose proof pairs_sweep as S.
  rewrite forallb_forall in S. specialize (S s Hs).
  rewrite forallb_forall in S. now apply S.
Qed.

Lemma in_subs_In T n c m : in_subs T n c m = true -> In (T, n, c, m) all_sub_fields.
Proof.
  unfold in_subs. rewrite existsb_exists. intros ([[[f n'] c'] m'] & Hin & E).
  apply andb_true_iff in E as [E Em]. apply andb_true_iff in E as [E Ec]. apply andb_true_iff in E as [Ef En].
  apply Z.eqb_eq in Ef, Em. apply String.eqb_eq in En, Ec. now subst.
Qed.

(* Prop-level reading of dim_ok *)
Definition sub_facts (T : Z) (n c : string) (m : Z) : Prop :=
  In (T, n, c, m) all_sub_fields
  /\ (exists t, field_type T c = Some t /\ is_int t = true)
  /\ (forall n', In n' (dim_names T) -> n' <> n ->
        match sub_of T n' with
        | Some (c', m') => c' = c -> In m' (siblings T c m)
        | None => n' <> c
        end).
Definition plain_facts (T : Z) (n : string) : Prop :=
  (exists t, field_type T n = Some t)
  /\ (forall n', In n' (dim_names T) -> match sub_of T n' with Some (c', _) => c' <> n | None => True end).

Lemma dim_facts T n : fmt_ok T = true -> In n (dim_names T) ->
  match sub_of T n with Some (c, m) => sub_facts T n c m | None => plain_facts T n end.
Proof.
  intros Hok Hin. unfold fmt_ok in Hok.
  repeat (apply andb_true_iff in Hok as [Hok ?]).
  assert (dim_ok T n = true) as D. { match goal with H : forallb (dim_ok T) _ = true |- _ => rewrite forallb_forall in H; now apply H end. }
  unfold dim_ok in D. destruct (sub_of T n) as [[c m]|] eqn:Es.
  - apply andb_true_iff in D as [D Dall]. apply andb_true_iff in D as [Din Dty].
    split; [now apply in_subs_In|]. split.
    + destruct (field_type T c) as [t|]; [|discriminate]. now exists t.
    + intros n' Hn' Hne. rewrite forallb_forall in Dall. specialize (Dall n' Hn').
      destruct (String.eqb n' n) eqn:E; [apply String.eqb_eq in E; congruence|]. cbn [orb] in Dall.
      destruct (sub_of T n') as [[c' m']|].
      * intros ->. rewrite seqb_refl in Dall. cbn [negb orb] in Dall.
        apply existsb_exists in Dall as (x & Hx & Ex). apply Z.eqb_eq in Ex. now subst.
      * intros ->. rewrite seqb_refl in Dall. discriminate.
  - apply andb_true_iff in D as [Dty Dall]. split.
    + destruct (field_type T n) as [t|]; [now exists t|discriminate].
    + intros n' Hn'. rewrite forallb_forall in Dall. specialize (Dall n' Hn').
      destruct (sub_of T n') as [[c' m']|]; [|exact I].
      intros ->. rewrite seqb_refl in Dall. discriminate.
Qed.

Lemma fmt_nodup T : fmt_ok T = true -> NoDup (dim_names T).
Proof.
  unfold fmt_ok. intros H. repeat (apply andb_true_iff in H as [H ?]). now apply nodupb_NoDup.
Qed.

Lemma fmt_storage_nodup T : fmt_ok T = true -> NoDup (storage_names T).
Proof.
  unfold fmt_ok. intros H. repeat (apply andb_true_iff in H as [H ?]). now apply nodupb_NoDup.
Qed.

(* ---------------- the dtype of the new record ---------------- *)
Lemma dtype_ok_iff T eds : NoDup (storage_names T) -> NoDup (map ed_name eds) ->
  (dtype_ok T eds = true <-> forall e, In e eds -> ~ In (ed_name e) (storage_names T)).
Proof.
  intros Ht He. unfold dtype_ok, record_names. split.
  - intros H e Hin Hs. apply nodupb_NoDup in H. apply NoDup_app_iff in H as (_ & _ & Hd).
    apply (Hd _ Hs). now apply in_map.
  - intros H. apply NoDup_nodupb. apply NoDup_app_iff. split; [exact Ht|]. split; [exact He|].
    intros x Hx Hin. apply in_map_iff in Hin as (e & <- & Hine). exact (H e Hine Hx).
Qed.

Lemma clashb_iff T eds : clashb T eds = true <-> name_clash T eds.
Proof.
  unfold clashb, name_clash. rewrite existsb_exists. split; intros (e & Hin & H); exists e; (split; [exact Hin|]); now apply mem_In.
Qed.

Lemma dtype_ok_clashb T eds : NoDup (storage_names T) -> NoDup (map ed_name eds) -> dtype_ok T eds = negb (clashb T eds).
Proof.
  intros Ht He. destruct (clashb T eds) eqn:C; cbn [negb].
  - apply clashb_iff in C as (e & Hin & Hs). destruct (dtype_ok T eds) eqn:D; [|reflexivity].
    exfalso. pose proof (proj1 (dtype_ok_iff T eds Ht He) D) as D'. exact (D' e Hin Hs).
  - apply (proj2 (dtype_ok_iff T eds Ht He)). intros e Hin Hs.
    assert (clashb T eds = true) as C' by (apply clashb_iff; exists e; auto). congruence.
Qed.

Lemma wf_names l : wf_las l -> NoDup (map ed_name (l_edims l)).
Proof. intros (_ & Hnd & _). unfold record_names in Hnd. now apply NoDup_app_iff in Hnd as (_ & H & _). Qed.

Lemma fmt_xyz T : fmt_ok T = true ->
  (In "X"%string (dim_names T) /\ In "Y"%string (dim_names T) /\ In "Z"%string (dim_names T))
  /\ sub_of T "X" = None /\ sub_of T "Y" = None /\ sub_of T "Z" = None.
Proof.
  unfold fmt_ok. intros H. repeat (apply andb_true_iff in H as [H ?]).
  split; [repeat split; now apply mem_In|].
  destruct (sub_of T "X"), (sub_of T "Y"), (sub_of T "Z"); try discriminate. auto.
Qed.

(* ---------------- reading a dimension ---------------- *)
Lemma get_dim_type S sp n v t : get_dim S sp n = Some (v, t) -> src_type S n = Some t.
Proof.
  unfold get_dim, src_type. destruct (sub_of S n) as [[c m]|].
  - destruct (lookup c sp); [|discriminate]. destruct (field_type S c); [|discriminate]. now intros [= _ ->].
  - destruct (lookup n sp); [|discriminate]. destruct (field_type S n); [|discriminate]. now intros [= _ ->].
Qed.

Lemma get_dim_total S sp n : fmt_ok S = true -> wf_spoint S sp -> In n (dim_names S) -> exists v t, get_dim S sp n = Some (v, t).
Proof.
  intros Hok Hwf Hin. pose proof (dim_facts _ _ Hok Hin) as F. unfold get_dim.
  destruct (sub_of S n) as [[c m]|].
  - destruct F as (_ & (t & Ht & _) & _). pose proof (field_type_in _ _ _ Ht) as Hc.
    rewrite <- Hwf in Hc. destruct (lookup_in _ _ Hc) as [b ->]. rewrite Ht. eauto.
  - destruct F as ((t & Ht) & _). pose proof (field_type_in _ _ _ Ht) as Hc.
    rewrite <- Hwf in Hc. destruct (lookup_in _ _ Hc) as [b ->]. rewrite Ht. eauto.
Qed.

Lemma get_dim_absent S T sp n : pair_ok S T = true -> In n (dim_names T) -> ~ In n (dim_names S) -> get_dim S sp n = None.
Proof.
  intros Hp Hin Hnot. destruct (get_dim S sp n) as [[v t]|] eqn:G; [|reflexivity].
  apply get_dim_type in G. unfold pair_ok in Hp. rewrite forallb_forall in Hp. specialize (Hp n Hin).
  rewrite G in Hp. apply andb_true_iff in Hp as [Hm _]. apply mem_In in Hm. contradiction.
Qed.

(* ---------------- the invariant of the record being filled ---------------- *)
Definition good (T : Z) (p : spoint) : Prop :=
  map fst p = storage_names T
  /\ (forall n c m b, sub_of T n = Some (c, m) -> lookup c p = Some b -> 0 <= b < 256).

Lemma good_zero T : good T (zero_point T).
Proof.
  split; [apply zero_keys|]. intros n c m b _ H. apply zero_values in H. lia.
Qed.

(* the three possible outcomes of one iteration *)
Inductive step_outcome (S T : Z) (sp p : spoint) (n : string) : result spoint -> Prop :=
| SOskip : get_dim S sp n = None -> step_outcome S T sp p n (Ok p)
| SOplain v t : get_dim S sp n = Some (v, t) -> sub_of T n = None -> In n (storage_names T) ->
    step_outcome S T sp p n (Ok (update n v p))
| SOsub v t c m b : get_dim S sp n = Some (v, t) -> sub_of T n = Some (c, m) -> lookup c p = Some b ->
    0 <= v <= sf_max m -> step_outcome S T sp p n (Ok (update c (sf_put m b v) p))
| SOover v t c m : get_dim S sp n = Some (v, t) -> sub_of T n = Some (c, m) -> (v > sf_max m \/ v < 0) ->
    step_outcome S T sp p n (Err EOverflow).

Lemma step_cases S T sp p n : fmt_ok T = true -> pair_ok S T = true -> good T p -> In n (dim_names T) ->
  step_outcome S T sp p n (copy_step S T sp (Ok p) n).
Proof.
  intros Hok Hp [Hk Hb] Hin. cbn [copy_step].
  destruct (get_dim S sp n) as [[v t]|] eqn:G; [|now constructor].
  pose proof (get_dim_type _ _ _ _ _ G) as Ety.
  pose proof (dim_facts _ _ Hok Hin) as F.
  unfold pair_ok in Hp. rewrite forallb_forall in Hp. specialize (Hp n Hin). rewrite Ety in Hp.
  apply andb_true_iff in Hp as [_ Hp].
  unfold set_dim. cbn [fst snd]. destruct (sub_of T n) as [[c m]|] eqn:Es.
  - destruct F as (Hall & (tc & Htc & _) & _).
    pose proof (field_type_in _ _ _ Htc) as Hc. rewrite <- Hk in Hc. destruct (lookup_in _ _ Hc) as [b Hl].
    rewrite Hl, Hp. unfold sf_assign.
    destruct (v >? sf_max m) eqn:E1; [cbn [bind]; apply (SOover S T sp p n v t c m); auto; lia|].
    destruct (v <? 0) eqn:E2; [cbn [bind]; apply (SOover S T sp p n v t c m); auto; lia|].
    cbn [bind]. apply (SOsub S T sp p n v t c m b); auto. lia.
  - destruct F as ((t' & Ht') & _). rewrite Ht' in Hp |- *. rewrite Hp.
    apply (SOplain S T sp p n v t); auto. now apply field_type_in in Ht'.
Qed.

Lemma good_update_plain T p n v : fmt_ok T = true -> good T p -> In n (dim_names T) -> sub_of T n = None ->
  good T (update n v p).
Proof.
  intros Hok [Hk Hb] Hin Es. split; [now rewrite update_keys|].
  intros n' c m b Hs Hl.
  (* c is a composed field, n a plain dimension of T: different names *)
  assert (c <> n) as Hne.
  { pose proof (dim_facts _ _ Hok Hin) as F. rewrite Es in F. destruct F as (_ & F).
    destruct (in_dec string_dec n' (dim_names T)) as [Hn'|Hn'].
    - specialize (F n' Hn'). now rewrite Hs in F.
    - (* n' not a dimension name: still a row of the table, use the row of any dimension with that composed field *)
      intros ->. unfold sub_of in Hs.
      destruct (find (fun sf => String.eqb (fst (fst sf)) n') (fmt_subs T)) as [[[a b'] m']|] eqn:Fd; [|discriminate].
      injection Hs as -> ->. apply find_some in Fd as [Hrow _].
      (* n is a storage field (plain) and has sub-fields => dim_names replaces it: n would not be a dimension name *)
      exfalso. unfold dim_names in Hin. apply in_flat_map in Hin as (x & Hx & Hxin).
      destruct (subs_in T (fld_name x)) as [|s0 rest] eqn:Esub.
      + destruct Hxin as [<-|[]]. unfold subs_in in Esub.
        assert (In (a, fld_name x, m) (filter (fun sf => String.eqb (snd (fst sf)) (fld_name x)) (fmt_subs T))) as Hf.
        { apply filter_In. split; [exact Hrow|]. cbn. apply seqb_refl. }
        rewrite Esub in Hf. destruct Hf.
      + apply in_map_iff in Hxin as (sf & Hname & Hsf). rewrite <- Esub in Hsf. unfold subs_in in Hsf.
        apply filter_In in Hsf as [Hsf _]. unfold sub_of in Es.
        destruct (find (fun sf0 => String.eqb (fst (fst sf0)) n) (fmt_subs T)) as [[[a1 b1] m1]|] eqn:Fd2; [discriminate|].
        pose proof (find_none _ _ Fd2 _ Hsf) as Hno. cbn beta in Hno. rewrite Hname, seqb_refl in Hno. discriminate. }
  rewrite lookup_update_other in Hl by exact Hne. now apply (Hb n' c m b).
Qed.

Lemma good_update_sub T p n c m b v : fmt_ok T = true -> good T p -> In n (dim_names T) -> sub_of T n = Some (c, m) ->
  lookup c p = Some b -> 0 <= v <= sf_max m -> good T (update c (sf_put m b v) p).
Proof.
  intros Hok [Hk Hb] Hin Es Hl Hv. split; [now rewrite update_keys|].
  intros n' c' m' b' Hs' Hl'.
  destruct (string_dec c' c) as [->|Hne].
  - rewrite lookup_update_same in Hl' by (eapply lookup_some_in; exact Hl). injection Hl' as <-.
    pose proof (dim_facts _ _ Hok Hin) as F. rewrite Es in F. destruct F as (Hall & _).
    pose proof (Hb n c m b Es Hl) as Hbb.
    destruct (sf_set_get _ _ _ _ b v Hall Hbb Hv) as (_ & _ & Hr & _). exact Hr.
  - rewrite lookup_update_other in Hl' by exact Hne. now apply (Hb n' c' m' b').
Qed.

Lemma step_good S T sp p n p1 : fmt_ok T = true -> pair_ok S T = true -> good T p -> In n (dim_names T) ->
  copy_step S T sp (Ok p) n = Ok p1 -> good T p1.
Proof.
  intros Hok Hp Hg Hin E. pose proof (step_cases S T sp p n Hok Hp Hg Hin) as C. rewrite E in C.
  inversion C; subst.
  - exact Hg.
  - now apply good_update_plain.
  - eapply good_update_sub; eauto.
Qed.

(* what the iteration for n does to dimension n *)
Lemma step_same S T sp p n p1 : fmt_ok T = true -> pair_ok S T = true -> good T p -> In n (dim_names T) ->
  copy_step S T sp (Ok p) n = Ok p1 ->
  dim_val T p1 n = match dim_val S sp n with Some v => Some v | None => dim_val T p n end.
Proof.
  intros Hok Hp Hg Hin E. pose proof (step_cases S T sp p n Hok Hp Hg Hin) as C. rewrite E in C.
  pose proof (dim_facts _ _ Hok Hin) as F. destruct Hg as [Hk Hb].
  inversion C; subst; unfold dim_val at 2.
  - match goal with H : get_dim S sp n = None |- _ => rewrite H end. reflexivity.
  - match goal with H : get_dim S sp n = Some _ |- _ => rewrite H end. cbn [fst].
    unfold dim_val, get_dim. match goal with H : sub_of T n = None |- _ => rewrite H in F |- * end.
    destruct F as ((t' & Ht') & _). rewrite Ht'.
    rewrite lookup_update_same by (rewrite Hk; assumption). reflexivity.
  - match goal with H : get_dim S sp n = Some _ |- _ => rewrite H end. cbn [fst].
    unfold dim_val, get_dim. match goal with H : sub_of T n = Some _ |- _ => rewrite H in F |- *; rename H into Es end.
    destruct F as (Hall & (tc & Htc & _) & _). rewrite Htc.
    match goal with H : lookup c p = Some b |- _ => rename H into Hl end.
    rewrite lookup_update_same by (eapply lookup_some_in; exact Hl). cbn [fst].
    pose proof (Hb n c m b Es Hl) as Hbb.
    match goal with H : 0 <= v <= sf_max m |- _ => rename H into Hv end.
    destruct (sf_set_get _ _ _ _ b v Hall Hbb Hv) as (_ & Hr & _). now rewrite Hr.
Qed.

(* ... and to every other dimension: nothing *)
Lemma step_other S T sp p n p1 n' : fmt_ok T = true -> pair_ok S T = true -> good T p -> In n (dim_names T) ->
  copy_step S T sp (Ok p) n = Ok p1 -> In n' (dim_names T) -> n' <> n -> dim_val T p1 n' = dim_val T p n'.
Proof.
  intros Hok Hp Hg Hin E Hin' Hne. pose proof (step_cases S T sp p n Hok Hp Hg Hin) as C. rewrite E in C.
  pose proof (dim_facts _ _ Hok Hin) as F. pose proof (dim_facts _ _ Hok Hin') as F'. destruct Hg as [Hk Hb].
  inversion C; subst.
  - reflexivity.
  - match goal with H : sub_of T n = None |- _ => rewrite H in F end. destruct F as (_ & F).
    specialize (F n' Hin'). unfold dim_val, get_dim. destruct (sub_of T n') as [[c' m']|].
    + rewrite lookup_update_other by exact F. reflexivity.
    + rewrite lookup_update_other by exact Hne. reflexivity.
  - match goal with H : sub_of T n = Some _ |- _ => rewrite H in F; rename H into Es end.
    destruct F as (Hall & _ & F). specialize (F n' Hin' Hne).
    match goal with H : lookup c p = Some b |- _ => rename H into Hl end.
    match goal with H : 0 <= v <= sf_max m |- _ => rename H into Hv end.
    pose proof (Hb n c m b Es Hl) as Hbb.
    unfold dim_val, get_dim. destruct (sub_of T n') as [[c' m']|].
    + destruct (string_dec c' c) as [->|Hc].
      * rewrite lookup_update_same by (eapply lookup_some_in; exact Hl). rewrite Hl.
        destruct (field_type T c); [|reflexivity]. cbn [fst].
        destruct (sf_set_get _ _ _ _ b v Hall Hbb Hv) as (_ & _ & _ & _ & Hs). now rewrite (Hs m' (F eq_refl)).
      * rewrite lookup_update_other by exact Hc. reflexivity.
    + rewrite lookup_update_other by exact F. reflexivity.
Qed.

Lemma fold_err S T sp ns e : fold_left (copy_step S T sp) ns (Err e) = Err e.
Proof. induction ns as [|a r IH]; [reflexivity|exact IH]. Qed.

Lemma step_err_overflow S T sp p n e : fmt_ok T = true -> pair_ok S T = true -> good T p -> In n (dim_names T) ->
  copy_step S T sp (Ok p) n = Err e -> e = EOverflow /\ misfit S T sp n.
Proof.
  intros Hok Hp Hg Hin E. pose proof (step_cases S T sp p n Hok Hp Hg Hin) as C. rewrite E in C.
  inversion C; subst. split; [reflexivity|]. unfold misfit. eauto 8.
Qed.

Lemma step_misfit S T sp p n : fmt_ok T = true -> pair_ok S T = true -> good T p -> In n (dim_names T) ->
  misfit S T sp n -> copy_step S T sp (Ok p) n = Err EOverflow.
Proof.
  intros Hok Hp Hg Hin (v & t & c & m & G & Es & Hv).
  pose proof (step_cases S T sp p n Hok Hp Hg Hin) as C.
  inversion C as [G'|v' t' G' Es'|v' t' c' m' b' G' Es' Hl Hv'|v' t' c' m' G' Es' Hv']; try congruence.
  - rewrite G in G'. rewrite Es in Es'. injection G' as <- <-. injection Es' as <- <-. lia.
  - symmetry. exact H.
Qed.

(* the loop over a part ns of the target's dimension names *)
Lemma fold_spec S T sp : fmt_ok T = true -> pair_ok S T = true ->
  forall ns p p', NoDup ns -> (forall n, In n ns -> In n (dim_names T)) -> good T p ->
  fold_left (copy_step S T sp) ns (Ok p) = Ok p' ->
  good T p'
  /\ (forall n, In n ns -> dim_val T p' n = match dim_val S sp n with Some v => Some v | None => dim_val T p n end)
  /\ (forall n, In n (dim_names T) -> ~ In n ns -> dim_val T p' n = dim_val T p n).
Proof.
  intros Hok Hp. induction ns as [|a r IH]; intros p p' Hnd Hsub Hg E.
  - cbn in E. injection E as <-. split; [exact Hg|]. split; [intros n []|reflexivity].
  - cbn [fold_left] in E. destruct (copy_step S T sp (Ok p) a) as [p1|e] eqn:E1; [|rewrite fold_err in E; discriminate].
    assert (In a (dim_names T)) as Ha by (apply Hsub; now left).
    pose proof (step_good _ _ _ _ _ _ Hok Hp Hg Ha E1) as Hg1.
    inversion Hnd as [|? ? Hnotin Hnd']; subst.
    destruct (IH p1 p' Hnd' (fun n H => Hsub n (or_intror H)) Hg1 E) as (Hg' & Hin & Hout).
    split; [exact Hg'|]. split.
    + intros n [<-|Hn].
      * rewrite (Hout a Ha Hnotin). now apply step_same.
      * rewrite (Hin n Hn). assert (n <> a) as Hne by (intros ->; contradiction).
        now rewrite (step_other _ _ _ _ _ _ n Hok Hp Hg Ha E1 (Hsub n (or_intror Hn)) Hne).
    + intros n Hn Hnot. rewrite (Hout n Hn) by (intros H; apply Hnot; now right).
      apply (step_other _ _ _ _ _ _ n Hok Hp Hg Ha E1 Hn). intros ->. apply Hnot. now left.
Qed.

(* the loop ends in Ok or OverflowError, the latter exactly when some value does not fit *)
Lemma fold_total S T sp : fmt_ok T = true -> pair_ok S T = true ->
  forall ns p, (forall n, In n ns -> In n (dim_names T)) -> good T p ->
  (exists p', fold_left (copy_step S T sp) ns (Ok p) = Ok p' /\ forall n, In n ns -> ~ misfit S T sp n)
  \/ (fold_left (copy_step S T sp) ns (Ok p) = Err EOverflow /\ exists n, In n ns /\ misfit S T sp n).
Proof.
  intros Hok Hp. induction ns as [|a r IH]; intros p Hsub Hg.
  - left. exists p. split; [reflexivity|intros n []].
  - assert (In a (dim_names T)) as Ha by (apply Hsub; now left). cbn [fold_left].
    destruct (copy_step S T sp (Ok p) a) as [p1|e] eqn:E1.
    + pose proof (step_good _ _ _ _ _ _ Hok Hp Hg Ha E1) as Hg1.
      destruct (IH p1 (fun n H => Hsub n (or_intror H)) Hg1) as [(p' & E & Hfit)|(E & n & Hn & Hm)].
      * left. exists p'. split; [exact E|]. intros n [<-|Hn]; [|now apply Hfit].
        intros Hm. rewrite (step_misfit _ _ _ _ _ Hok Hp Hg Ha Hm) in E1. discriminate.
      * right. split; [exact E|]. exists n. split; [now right|exact Hm].
    + destruct (step_err_overflow _ _ _ _ _ _ Hok Hp Hg Ha E1) as [-> Hm].
      right. rewrite fold_err. split; [reflexivity|]. exists a. split; [now left|exact Hm].
Qed.

(* ---------------- one point ---------------- *)
Lemma dim_val_zero T n : fmt_ok T = true -> In n (dim_names T) -> dim_val T (zero_point T) n = Some 0.
Proof.
  intros Hok Hin. pose proof (dim_facts _ _ Hok Hin) as F. unfold dim_val, get_dim.
  destruct (sub_of T n) as [[c m]|].
  - destruct F as (_ & (t & Ht & _) & _). rewrite Ht, (lookup_zero _ _ (field_type_in _ _ _ Ht)). cbn [fst].
    unfold sf_get. rewrite Z.land_0_l. now rewrite Z.shiftr_0_l.
  - destruct F as ((t & Ht) & _). rewrite Ht, (lookup_zero _ _ (field_type_in _ _ _ Ht)). reflexivity.
Qed.

Lemma copy_std_spec S T sp p' : fmt_ok T = true -> pair_ok S T = true -> copy_std S T sp = Ok p' ->
  wf_spoint T p'
  /\ forall n, In n (dim_names T) -> dim_val T p' n = match dim_val S sp n with Some v => Some v | None => Some 0 end.
Proof.
  intros Hok Hp E. unfold copy_std in E.
  destruct (fold_spec S T sp Hok Hp (dim_names T) (zero_point T) p' (fmt_nodup _ Hok) (fun n H => H) (good_zero T) E)
    as ([Hk _] & Hin & _).
  split; [exact Hk|]. intros n Hn. rewrite (Hin n Hn). now rewrite (dim_val_zero _ _ Hok Hn).
Qed.

Lemma copy_std_total S T sp : fmt_ok T = true -> pair_ok S T = true ->
  (exists p', copy_std S T sp = Ok p' /\ forall n, In n (dim_names T) -> ~ misfit S T sp n)
  \/ (copy_std S T sp = Err EOverflow /\ exists n, In n (dim_names T) /\ misfit S T sp n).
Proof. intros Hok Hp. exact (fold_total S T sp Hok Hp (dim_names T) (zero_point T) (fun n H => H) (good_zero T)). Qed.

(* extra dimensions: copy by name over the same, duplicate-free, list of names is the identity *)
Lemma find_combine_skip (eds : list edim) (src : list (list Z)) (e : edim) :
  ~ In (ed_name e) (map ed_name eds) ->
  find (fun q : edim * list Z => String.eqb (ed_name (fst q)) (ed_name e)) (combine eds src) = None.
Proof.
  revert src. induction eds as [|a r IH]; intros src Hn; [reflexivity|].
  destruct src as [|s src]; [reflexivity|]. cbn [combine find fst].
  destruct (String.eqb (ed_name a) (ed_name e)) eqn:E.
  - apply String.eqb_eq in E. exfalso. apply Hn. left. exact E.
  - apply IH. intros H. apply Hn. now right.
Qed.

Lemma combine_app_eq {A B} (a c : list A) (b d : list B) : length b = length a ->
  combine (a ++ c) (b ++ d) = combine a b ++ combine c d.
Proof.
  revert b. induction a as [|x a IH]; intros [|y b] H; try discriminate; [reflexivity|].
  cbn [app combine]. f_equal. apply IH. cbn in H. lia.
Qed.

Lemma copy_ext_gen (pre eds : list edim) (psrc src : list (list Z)) :
  length psrc = length pre -> length src = length eds -> NoDup (map ed_name (pre ++ eds)) ->
  map (fun e => match find (fun q : edim * list Z => String.eqb (ed_name (fst q)) (ed_name e)) (combine (pre ++ eds) (psrc ++ src)) with
                | Some q => snd q | None => repeat 0 (Z.to_nat (ed_width e)) end) eds = src.
Proof.
  revert pre psrc src. induction eds as [|a r IH]; intros pre psrc src Hp Hs Hnd.
  - destruct src; [reflexivity|discriminate].
  - destruct src as [|s src]; [discriminate|]. cbn [map]. f_equal.
    + rewrite combine_app_eq by exact Hp.
      assert (forall l1 l2, find (fun q : edim * list Z => String.eqb (ed_name (fst q)) (ed_name a)) l1 = None ->
              find (fun q : edim * list Z => String.eqb (ed_name (fst q)) (ed_name a)) (l1 ++ l2) =
              find (fun q : edim * list Z => String.eqb (ed_name (fst q)) (ed_name a)) l2) as Happ.
      { induction l1 as [|x l1 IH1]; intros l2 H; [reflexivity|]. cbn [app find] in *.
        destruct (String.eqb (ed_name (fst x)) (ed_name a)); [discriminate|now apply IH1]. }
      rewrite Happ.
      * cbn [combine find fst]. now rewrite seqb_refl.
      * apply find_combine_skip. rewrite map_app in Hnd. apply NoDup_remove_2 in Hnd.
        intros H. apply Hnd. apply in_or_app. now left.
    + replace (pre ++ a :: r) with ((pre ++ [a]) ++ r) by (now rewrite <- app_assoc).
      replace (psrc ++ s :: src) with ((psrc ++ [s]) ++ src) by (now rewrite <- app_assoc).
      apply IH.
      * rewrite !app_length. cbn. lia.
      * cbn in Hs. lia.
      * now rewrite <- app_assoc.
Qed.

Lemma copy_ext_id eds src : length src = length eds -> NoDup (map ed_name eds) -> copy_ext eds src = src.
Proof. intros Hl Hnd. exact (copy_ext_gen [] eds [] src eq_refl Hl Hnd). Qed.

(* ---------------- lists of points ---------------- *)
Lemma mapM_ok {A B} (f : A -> result B) l l' : mapM f l = Ok l' ->
  length l' = length l /\ forall i da db, (i < length l)%nat -> f (nth i l da) = Ok (nth i l' db).
Proof.
  revert l'. induction l as [|a r IH]; intros l' H.
  - cbn in H. injection H as <-. split; [reflexivity|]. intros i da db Hi. cbn in Hi. lia.
  - cbn [mapM] in H. destruct (f a) as [b|e] eqn:Ea; [|discriminate]. cbn [bind] in H.
    destruct (mapM f r) as [bs|e] eqn:Er; [|discriminate]. cbn [bind] in H. injection H as <-.
    destruct (IH bs eq_refl) as [Hl Hn]. split; [cbn; now rewrite Hl|].
    intros [|i] da db Hi; [exact Ea|]. cbn [nth]. apply Hn. cbn in Hi. lia.
Qed.

Lemma mapM_total {A B} (f : A -> result B) (e : err) (bad : A -> Prop) l :
  (forall a, In a l -> (exists b, f a = Ok b /\ ~ bad a) \/ (f a = Err e /\ bad a)) ->
  (exists l', mapM f l = Ok l' /\ forall a, In a l -> ~ bad a) \/ (mapM f l = Err e /\ exists a, In a l /\ bad a).
Proof.
  induction l as [|a r IH]; intros H.
  - left. exists []. split; [reflexivity|intros a []].
  - cbn [mapM]. destruct (H a (or_introl eq_refl)) as [(b & Eb & Hb)|[Ee Hb]].
    + rewrite Eb. cbn [bind]. destruct (IH (fun x Hx => H x (or_intror Hx))) as [(l' & El & Hl)|(El & x & Hx & Hbx)].
      * left. rewrite El. cbn [bind]. exists (b :: l'). split; [reflexivity|]. intros x [<-|Hx]; [exact Hb|now apply Hl].
      * right. rewrite El. cbn [bind]. split; [reflexivity|]. exists x. split; [now right|exact Hbx].
    + right. rewrite Ee. cbn [bind]. split; [reflexivity|]. exists a. split; [now left|exact Hb].
Qed.

(* ---------------- the whole conversion ---------------- *)
Lemma convert_inv l tgt ver l' : convert l tgt ver = Ok l' ->
  exists hs, hstep (mkHS (l_ver l) (l_fmt l)) (HConvert tgt ver) = Ok hs
    /\ l_ver l' = hs_v hs /\ l_fmt l' = hs_f hs /\ l_edims l' = l_edims l
    /\ mapM (convert_point (l_fmt l) (hs_f hs) (l_edims l)) (l_pts l) = Ok (l_pts l')
    /\ l_vlrs l' = user_vlrs (l_vlrs l) ++ eb_part (l_edims l) /\ l_evlrs l' = l_evlrs l
    /\ dtype_ok (hs_f hs) (l_edims l) = true.
Proof.
  unfold convert. destruct (hstep _ _) as [hs|e] eqn:Eh; [|discriminate]. cbn [bind].
  destruct (dtype_ok _ _) eqn:Ed; [|discriminate].
  destruct (mapM _ _) as [pts|e] eqn:Em; [|discriminate]. cbn [bind]. intros [= <-]. exists hs. cbn. auto 10.
Qed.

Lemma hconvert_fmt s tgt ver hs : hstep s (HConvert tgt ver) = Ok hs ->
  hs_f hs = match tgt with Some f => f | None => hs_f s end.
Proof.
  cbn [hstep]. set (g := match tgt with Some f0 => f0 | None => hs_f s end). destruct ver as [v|].
  - intros H. apply checked_ok in H as [_ ->]. reflexivity.
  - destruct (preferred g); [|discriminate]. intros H. apply checked_ok in H as [_ ->]. reflexivity.
Qed.

Lemma hcompat_std hs : hcompat hs = true -> std_known (hs_f hs) = true.
Proof.
  unfold hcompat, compat_v. intros H. apply existsb_exists in H as ([[a b] fs] & Hrow & E).
  apply andb_true_iff in E as [_ E]. apply existsb_exists in E as (x & Hx & Ex). apply Z.eqb_eq in Ex. subst x.
  (* every format listed for a version is a known format: by computation on the tables *)
  assert (forallb (fun row : Z * Z * list Z => forallb std_known (snd row)) version_to_point_fmt = true) as Hall by (vm_compute; reflexivity).
  rewrite forallb_forall in Hall. specialize (Hall _ Hrow). cbn [snd] in Hall. rewrite forallb_forall in Hall. now apply Hall.
Qed.

Theorem convert_count l tgt ver l' : convert l tgt ver = Ok l' -> length (l_pts l') = length (l_pts l).
Proof. intros H. apply convert_inv in H as (hs & _ & _ & _ & _ & Hm & _). now apply mapM_ok in Hm as [Hl _]. Qed.

Lemma convert_point_at l tgt ver l' i : convert l tgt ver = Ok l' -> (i < length (l_pts l))%nat ->
  forall da db, convert_point (l_fmt l) (l_fmt l') (l_edims l) (nth i (l_pts l) da) = Ok (nth i (l_pts l') db).
Proof.
  intros H Hi da db. apply convert_inv in H as (hs & _ & _ & -> & _ & Hm & _).
  apply mapM_ok in Hm as [_ Hn]. now apply Hn.
Qed.

Lemma convert_fmts_ok l tgt ver l' : convert l tgt ver = Ok l' -> wf_las l ->
  fmt_ok (l_fmt l) = true /\ fmt_ok (l_fmt l') = true /\ pair_ok (l_fmt l) (l_fmt l') = true.
Proof.
  intros H (Hs & _). apply convert_inv in H as (hs & Hh & _ & -> & _).
  pose proof (hcompat_std _ (hstep_compat _ _ _ Hh)) as Ht.
  split; [now apply fmt_ok_std|]. split; [now apply fmt_ok_std|now apply pair_ok_std].
Qed.

Lemma wf_nth l i d : wf_las l -> (i < length (l_pts l))%nat -> wf_point (l_fmt l) (l_edims l) (nth i (l_pts l) d).
Proof. intros (_ & _ & Hf) Hi. rewrite Forall_forall in Hf. apply Hf. now apply nth_In. Qed.

(* every dimension of the target: the source's value when the source has a dimension of that name, else 0 *)
Theorem convert_dims l tgt ver l' i n da db : convert l tgt ver = Ok l' -> wf_las l -> (i < length (l_pts l))%nat ->
  In n (dim_names (l_fmt l')) ->
  dim_val (l_fmt l') (fst (nth i (l_pts l') db)) n =
    (if mem n (dim_names (l_fmt l)) then dim_val (l_fmt l) (fst (nth i (l_pts l) da)) n else Some 0)
  /\ (In n (dim_names (l_fmt l)) -> dim_val (l_fmt l) (fst (nth i (l_pts l) da)) n <> None).
Proof.
  intros H Hwf Hi Hn. destruct (convert_fmts_ok _ _ _ _ H Hwf) as (HokS & HokT & Hp).
  pose proof (convert_point_at _ _ _ _ i H Hi da db) as Hc. unfold convert_point in Hc.
  destruct (copy_std _ _ _) as [sp'|e] eqn:Ec; [|discriminate]. cbn [bind] in Hc.
  destruct (copy_std_spec _ _ _ _ HokT Hp Ec) as [_ Hd]. specialize (Hd n Hn).
  replace (fst (nth i (l_pts l') db)) with sp' by (now injection Hc as <-).
  destruct (wf_nth l i da Hwf Hi) as [Hws _].
  split.
  - rewrite Hd. destruct (mem n (dim_names (l_fmt l))) eqn:Em.
    + apply mem_In in Em. destruct (get_dim_total _ _ _ HokS Hws Em) as (v & t & G). unfold dim_val. now rewrite G.
    + apply mem_false in Em. unfold dim_val. now rewrite (get_dim_absent _ _ _ _ Hp Hn Em).
  - intros Hs. destruct (get_dim_total _ _ _ HokS Hws Hs) as (v & t & G). unfold dim_val. rewrite G. discriminate.
Qed.

Theorem convert_xyz l tgt ver l' i da db : convert l tgt ver = Ok l' -> wf_las l -> (i < length (l_pts l))%nat ->
  forall c, In c ["X"%string; "Y"%string; "Z"%string] ->
  lookup c (fst (nth i (l_pts l') db)) = lookup c (fst (nth i (l_pts l) da)) /\ lookup c (fst (nth i (l_pts l) da)) <> None.
Proof.
  intros H Hwf Hi c Hc. destruct (convert_fmts_ok _ _ _ _ H Hwf) as (HokS & HokT & Hp).
  destruct (fmt_xyz _ HokS) as ((SX & SY & SZ) & sx & sy & sz).
  destruct (fmt_xyz _ HokT) as ((TX & TY & TZ) & tx & ty & tz).
  assert (In c (dim_names (l_fmt l)) /\ In c (dim_names (l_fmt l')) /\ sub_of (l_fmt l) c = None /\ sub_of (l_fmt l') c = None)
    as (Hs & Ht & Es & Et).
  { cbn in Hc. destruct Hc as [<-|[<-|[<-|[]]]]; auto. }
  destruct (convert_dims _ _ _ _ i c da db H Hwf Hi Ht) as [Hd Hnn]. specialize (Hnn Hs).
  assert (mem c (dim_names (l_fmt l)) = true) as Hm by (now apply mem_In). rewrite Hm in Hd.
  pose proof (dim_facts _ _ HokS Hs) as FS. rewrite Es in FS. destruct FS as ((ts & Hts) & _).
  pose proof (dim_facts _ _ HokT Ht) as FT. rewrite Et in FT. destruct FT as ((tt & Htt) & _).
  unfold dim_val, get_dim in Hd, Hnn. rewrite Es, Hts in Hd, Hnn. rewrite Et, Htt in Hd.
  destruct (lookup c (fst (nth i (l_pts l) da))) as [v|]; [|congruence].
  destruct (lookup c (fst (nth i (l_pts l') db))) as [v'|]; [|discriminate].
  cbn [fst] in Hd. split; [exact Hd|discriminate].
Qed.

Theorem convert_extra l tgt ver l' : convert l tgt ver = Ok l' -> wf_las l ->
  l_edims l' = l_edims l
  /\ forall i da db, (i < length (l_pts l))%nat -> snd (nth i (l_pts l') db) = snd (nth i (l_pts l) da).
Proof.
  intros H Hwf. split; [apply convert_inv in H as (hs & _ & _ & _ & He & _); exact He|].
  intros i da db Hi. pose proof (convert_point_at _ _ _ _ i H Hi da db) as Hc. unfold convert_point in Hc.
  destruct (copy_std _ _ _) as [sp'|e]; [|discriminate]. cbn [bind] in Hc. injection Hc as Hc. rewrite <- Hc. cbn [snd].
  destruct (wf_nth l i da Hwf Hi) as [_ Hl]. apply copy_ext_id; [exact Hl|now apply wf_names].
Qed.

Lemma filter_fst_user (vs : list cvlr) : filter (fun v : cvlr => fst v) (user_vlrs vs) = [].
Proof.
  unfold user_vlrs. induction vs as [|[b x] r IH]; [reflexivity|]. cbn [filter fst].
  destruct b; cbn [negb filter fst]; exact IH.
Qed.

Lemma user_vlrs_idem (vs : list cvlr) : user_vlrs (user_vlrs vs) = user_vlrs vs.
Proof.
  unfold user_vlrs. induction vs as [|[b x] r IH]; [reflexivity|]. cbn [filter fst].
  destruct b; cbn [negb]; [exact IH|]. cbn [filter fst negb]. now rewrite IH.
Qed.

Lemma filter_app_eb (vs : list cvlr) eds :
  user_vlrs (vs ++ eb_part eds) = user_vlrs vs /\ filter (fun v : cvlr => fst v) (user_vlrs vs ++ eb_part eds) = eb_part eds.
Proof.
  split.
  - unfold user_vlrs. rewrite filter_app. destruct eds; cbn; now rewrite app_nil_r.
  - rewrite filter_app, filter_fst_user. destruct eds; reflexivity.
Qed.

Theorem convert_vlrs l tgt ver l' : convert l tgt ver = Ok l' ->
  l_vlrs l' = user_vlrs (l_vlrs l) ++ eb_part (l_edims l)
  /\ user_vlrs (l_vlrs l') = user_vlrs (l_vlrs l)
  /\ filter (fun v : cvlr => fst v) (l_vlrs l') = eb_part (l_edims l')
  /\ (l_vlrs l = user_vlrs (l_vlrs l) ++ eb_part (l_edims l) -> l_vlrs l' = l_vlrs l).
Proof.
  intros H. apply convert_inv in H as (hs & _ & _ & _ & He & _ & Hv & _). rewrite Hv, He.
  destruct (filter_app_eb (user_vlrs (l_vlrs l)) (l_edims l)) as [F1 F2].
  pose proof (user_vlrs_idem (l_vlrs l)) as Hidem.
  split; [reflexivity|]. split; [now rewrite F1, Hidem|]. split.
  - rewrite <- Hidem at 1. exact F2.
  - intros Hs. now symmetry.
Qed.

Theorem convert_evlrs l tgt ver l' : convert l tgt ver = Ok l' -> l_evlrs l' = l_evlrs l.
Proof. intros H. now apply convert_inv in H as (hs & _ & _ & _ & _ & _ & _ & He & _). Qed.

(* version rule *)
Theorem convert_version l tgt ver l' : convert l tgt ver = Ok l' ->
  compat_v (l_ver l') (l_fmt l') = true
  /\ l_fmt l' = match tgt with Some f => f | None => l_fmt l end
  /\ match ver with
     | Some w => l_ver l' = w
     | None => exists p, preferred (l_fmt l') = Some p /\ l_ver l' = vmax (l_ver l) p
               /\ (fst (l_ver l) < fst (l_ver l') \/ (fst (l_ver l) = fst (l_ver l') /\ snd (l_ver l) <= snd (l_ver l')))
     end.
Proof.
  intros H. apply convert_inv in H as (hs & Hh & -> & -> & _).
  split; [exact (hstep_compat _ _ _ Hh)|]. split; [exact (hconvert_fmt _ _ _ _ Hh)|].
  destruct ver as [w|].
  - cbn [hstep] in Hh. now apply checked_ok in Hh as [_ ->].
  - pose proof (hconvert_fmt _ _ _ _ Hh) as Hf. pose proof (convert_keeps_version _ _ _ Hh) as Hk.
    cbn [hstep hs_f hs_v] in Hh, Hf, Hk. rewrite <- Hf in Hh.
    destruct (preferred (hs_f hs)) as [p|]; [|discriminate]. exists p.
    apply checked_ok in Hh as [_ Hh]. split; [reflexivity|]. split; [now rewrite Hh|exact Hk].
Qed.

Theorem convert_incompatible l tgt w :
  compat_v w (match tgt with Some f => f | None => l_fmt l end) = false -> convert l tgt (Some w) = Err ELaspy.
Proof.
  intros H. unfold convert. cbn [hstep hs_f]. unfold checked. rewrite H.
  destruct (version_known w); reflexivity.
Qed.

(* the outcome is decided by the version rule, then by the field names of the new record (numpy), then by whether
   every value fits *)
Definition point_misfit (S T : Z) (p : point) : Prop := exists n, In n (dim_names T) /\ misfit S T (fst p) n.

Lemma hstep_target_ok l tgt ver hs : wf_las l -> hstep (mkHS (l_ver l) (l_fmt l)) (HConvert tgt ver) = Ok hs ->
  fmt_ok (hs_f hs) = true /\ pair_ok (l_fmt l) (hs_f hs) = true
  /\ dtype_ok (hs_f hs) (l_edims l) = negb (clashb (hs_f hs) (l_edims l)).
Proof.
  intros Hwf Hh. pose proof Hwf as (Hs & _).
  pose proof (hcompat_std _ (hstep_compat _ _ _ Hh)) as Ht.
  pose proof (fmt_ok_std _ Ht) as HokT. split; [exact HokT|]. split; [now apply pair_ok_std|].
  apply dtype_ok_clashb; [now apply fmt_storage_nodup|now apply wf_names].
Qed.

Theorem convert_outcome l tgt ver hs : wf_las l -> hstep (mkHS (l_ver l) (l_fmt l)) (HConvert tgt ver) = Ok hs ->
  (name_clash (hs_f hs) (l_edims l) /\ convert l tgt ver = Err EValue)
  \/ (~ name_clash (hs_f hs) (l_edims l)
      /\ ((exists l', convert l tgt ver = Ok l' /\ forall p, In p (l_pts l) -> ~ point_misfit (l_fmt l) (hs_f hs) p)
          \/ (convert l tgt ver = Err EOverflow /\ exists p, In p (l_pts l) /\ point_misfit (l_fmt l) (hs_f hs) p))).
Proof.
  intros Hwf Hh. destruct (hstep_target_ok l tgt ver hs Hwf Hh) as (HokT & Hp & Hd).
  unfold convert. rewrite Hh. cbn [bind]. rewrite Hd.
  destruct (clashb (hs_f hs) (l_edims l)) eqn:C; cbn [negb].
  - left. split; [now apply clashb_iff|reflexivity].
  - right. split; [intros Hc; apply clashb_iff in Hc; congruence|].
    destruct (mapM_total (convert_point (l_fmt l) (hs_f hs) (l_edims l)) EOverflow (point_misfit (l_fmt l) (hs_f hs)) (l_pts l))
      as [(pts & Em & Hfit)|(Em & p & Hp' & Hbad)].
    + intros p _. unfold convert_point, point_misfit.
      destruct (copy_std_total (l_fmt l) (hs_f hs) (fst p) HokT Hp) as [(sp' & E & Hfit)|(E & n & Hn & Hm)].
      * left. rewrite E. cbn [bind]. eexists. split; [reflexivity|]. intros (n & Hn & Hm). exact (Hfit n Hn Hm).
      * right. rewrite E. cbn [bind]. split; [reflexivity|]. eauto.
    + left. rewrite Em. cbn [bind]. eexists. split; [reflexivity|exact Hfit].
    + right. rewrite Em. cbn [bind]. split; [reflexivity|]. eauto.
Qed.

(* an extra dimension named like a packed field of the target: refused, whatever the values *)
Theorem convert_clash_refused l tgt ver hs e : wf_las l -> hstep (mkHS (l_ver l) (l_fmt l)) (HConvert tgt ver) = Ok hs ->
  In e (l_edims l) -> In (ed_name e) (storage_names (hs_f hs)) -> convert l tgt ver = Err EValue.
Proof.
  intros Hwf Hh Hin Hs. destruct (convert_outcome l tgt ver hs Hwf Hh) as [[_ E]|[Hn _]]; [exact E|].
  exfalso. apply Hn. exists e. auto.
Qed.

Theorem convert_value_error_iff l tgt ver hs : wf_las l -> hstep (mkHS (l_ver l) (l_fmt l)) (HConvert tgt ver) = Ok hs ->
  (convert l tgt ver = Err EValue <-> name_clash (hs_f hs) (l_edims l)).
Proof.
  intros Hwf Hh. destruct (convert_outcome l tgt ver hs Hwf Hh) as [[Hc E]|[Hn [(l' & E & _)|[E _]]]].
  - split; auto.
  - split; [rewrite E; discriminate|contradiction].
  - split; [rewrite E; discriminate|contradiction].
Qed.

(* the result is again a well-formed object: its record has no repeated field name, every point has the target's
   packed fields and one value per extra dimension (so a result can be converted again) *)
Theorem convert_wf l tgt ver l' : convert l tgt ver = Ok l' -> wf_las l -> wf_las l'.
Proof.
  intros H Hwf. pose proof (convert_inv _ _ _ _ H) as (hs & Hh & _ & Hf & He & Hm & _ & _ & Hd).
  destruct (convert_fmts_ok _ _ _ _ H Hwf) as (_ & HokT & Hp). rewrite Hf in HokT, Hp.
  split; [rewrite Hf; exact (hcompat_std _ (hstep_compat _ _ _ Hh))|]. split.
  - rewrite Hf, He. unfold dtype_ok in Hd. now apply nodupb_NoDup.
  - rewrite Hf, He. clear H Hf He. revert Hm. generalize (l_pts l'). induction (l_pts l) as [|a r IH]; intros pts Hm.
    + cbn in Hm. injection Hm as <-. constructor.
    + cbn [mapM] in Hm. destruct (convert_point (l_fmt l) (hs_f hs) (l_edims l) a) as [b|e] eqn:Ea; [|discriminate].
      cbn [bind] in Hm. destruct (mapM _ r) as [bs|e] eqn:Er; [|discriminate]. cbn [bind] in Hm. injection Hm as <-.
      constructor; [|now apply IH].
      unfold convert_point in Ea. destruct (copy_std _ _ _) as [sp|e] eqn:Ec; [|discriminate]. cbn [bind] in Ea.
      injection Ea as <-. split; cbn [fst snd].
      * now destruct (copy_std_spec _ _ _ _ HokT Hp Ec) as [Hk _].
      * unfold copy_ext. now rewrite map_length.
Qed.

(* lost dimensions *)
Lemma dedup_In n l : In n (dedup l) <-> In n l.
Proof.
  induction l as [|a r IH]; [reflexivity|]. cbn [dedup]. destruct (mem a r) eqn:E.
  - rewrite IH. split; [now right|]. intros [<-|H]; [now apply mem_In|exact H].
  - cbn [In]. now rewrite IH.
Qed.

Lemma dedup_NoDup l : NoDup (dedup l).
Proof.
  induction l as [|a r IH]; [constructor|]. cbn [dedup]. destruct (mem a r) eqn:E; [exact IH|].
  constructor; [|exact IH]. rewrite dedup_In. now apply mem_false.
Qed.

Theorem lost_spec a b : NoDup (lost a b) /\ forall n, In n (lost a b) <-> (In n (dim_names a) /\ ~ In n (dim_names b)).
Proof.
  unfold lost. split; [apply NoDup_filter, dedup_NoDup|].
  intros n. rewrite filter_In, dedup_In. split; intros [H1 H2]; (split; [exact H1|]).
  - apply mem_false. now destruct (mem n (dim_names b)).
  - apply mem_false in H2. now rewrite H2.
Qed.

(* the two directions of convert_outcome, per point and dimension *)
Theorem convert_narrowing l tgt ver hs i d n v c m : wf_las l ->
  hstep (mkHS (l_ver l) (l_fmt l)) (HConvert tgt ver) = Ok hs -> ~ name_clash (hs_f hs) (l_edims l) ->
  (i < length (l_pts l))%nat ->
  In n (dim_names (hs_f hs)) -> dim_val (l_fmt l) (fst (nth i (l_pts l) d)) n = Some v ->
  sub_of (hs_f hs) n = Some (c, m) -> (v > sf_max m \/ v < 0) -> convert l tgt ver = Err EOverflow.
Proof.
  intros Hwf Hh Hnc Hi Hn Hv Hs Hbad.
  destruct (convert_outcome l tgt ver hs Hwf Hh) as [[Hc _]|[_ [(l' & _ & Hfit)|[E _]]]]; [contradiction| |exact E].
  exfalso. apply (Hfit (nth i (l_pts l) d)); [now apply nth_In|]. exists n. split; [exact Hn|].
  unfold dim_val in Hv. destruct (get_dim (l_fmt l) (fst (nth i (l_pts l) d)) n) as [[v' t]|] eqn:G; [|discriminate].
  cbn [fst] in Hv. injection Hv as ->. exists v, t, c, m. auto.
Qed.

(* a misfit is never answered by a result, name clash or not *)
Theorem convert_never_truncates l tgt ver hs i d n v c m : wf_las l ->
  hstep (mkHS (l_ver l) (l_fmt l)) (HConvert tgt ver) = Ok hs -> (i < length (l_pts l))%nat ->
  In n (dim_names (hs_f hs)) -> dim_val (l_fmt l) (fst (nth i (l_pts l) d)) n = Some v ->
  sub_of (hs_f hs) n = Some (c, m) -> (v > sf_max m \/ v < 0) ->
  convert l tgt ver = Err EOverflow \/ convert l tgt ver = Err EValue.
Proof.
  intros Hwf Hh Hi Hn Hv Hs Hbad.
  destruct (convert_outcome l tgt ver hs Hwf Hh) as [[_ E]|[Hnc _]]; [now right|left].
  exact (convert_narrowing l tgt ver hs i d n v c m Hwf Hh Hnc Hi Hn Hv Hs Hbad).
Qed.

Theorem convert_fits l tgt ver hs : wf_las l -> hstep (mkHS (l_ver l) (l_fmt l)) (HConvert tgt ver) = Ok hs ->
  (forall e, In e (l_edims l) -> ~ In (ed_name e) (storage_names (hs_f hs))) ->
  (forall p n v c m, In p (l_pts l) -> In n (dim_names (hs_f hs)) -> dim_val (l_fmt l) (fst p) n = Some v ->
     sub_of (hs_f hs) n = Some (c, m) -> 0 <= v <= sf_max m) ->
  exists l', convert l tgt ver = Ok l'.
Proof.
  intros Hwf Hh Hnames Hall.
  destruct (convert_outcome l tgt ver hs Hwf Hh)
    as [[(e & Hin & Hs) _]|[_ [(l' & E & _)|(_ & p & Hp & n & Hn & v & t & c & m & G & Hs & Hbad)]]].
  - exfalso. exact (Hnames e Hin Hs).
  - eauto.
  - exfalso. assert (dim_val (l_fmt l) (fst p) n = Some v) as Hv by (unfold dim_val; now rewrite G).
    specialize (Hall p n v c m Hp Hn Hv Hs). lia.
Qed.

(* an error of convert is a LaspyException (version rule), a ValueError (field names) or an OverflowError, nothing else *)
Theorem convert_errors l tgt ver e : wf_las l -> convert l tgt ver = Err e -> e = ELaspy \/ e = EValue \/ e = EOverflow.
Proof.
  intros Hwf H. destruct (hstep (mkHS (l_ver l) (l_fmt l)) (HConvert tgt ver)) as [hs|e'] eqn:Hh.
  - destruct (convert_outcome l tgt ver hs Hwf Hh) as [[_ E]|[_ [(l' & E & _)|[E _]]]]; rewrite E in H; [|discriminate|].
    + right. left. congruence.
    + right. right. congruence.
  - unfold convert in H. rewrite Hh in H. cbn [bind] in H. injection H as <-. left.
    cbn [hstep] in Hh. unfold checked in Hh.
    destruct ver as [w|].
    + destruct (version_known w); [|congruence]. destruct (compat_v w _); congruence.
    + destruct (preferred _); [|congruence].
      destruct (version_known _); [|congruence]. destruct (compat_v _ _); congruence.
Qed.

(* ---------------- the result is used: names resolve, extra dimensions are found under their names ---------------- *)
Lemma find_by_name eds e : NoDup (map ed_name eds) -> In e eds ->
  find (fun x => String.eqb (ed_name x) (ed_name e)) eds = Some e.
Proof.
  induction eds as [|a r IH]; intros Hnd Hin; [destruct Hin|].
  cbn [find]. destruct Hin as [->|Hin]; [now rewrite seqb_refl|].
  destruct (String.eqb (ed_name a) (ed_name e)) eqn:E.
  - apply String.eqb_eq in E. cbn [map] in Hnd. apply NoDup_cons_iff in Hnd as [Hn _]. exfalso. apply Hn.
    rewrite E. now apply in_map.
  - cbn [map] in Hnd. apply NoDup_cons_iff in Hnd as [_ Hnd]. now apply IH.
Qed.

Lemma find_name_some eds n : In n (map ed_name eds) -> find (fun x => String.eqb (ed_name x) n) eds <> None.
Proof.
  induction eds as [|a r IH]; intros Hin; [destruct Hin|]. cbn [find].
  destruct (String.eqb (ed_name a) n) eqn:E; [discriminate|]. destruct Hin as [H|H]; [|now apply IH].
  rewrite H, seqb_refl in E. discriminate.
Qed.

Theorem convert_resolve l tgt ver l' : convert l tgt ver = Ok l' -> wf_las l ->
  listed_names l' = dim_names (l_fmt l') ++ map ed_name (l_edims l)
  /\ (forall n, In n (listed_names l') -> resolve (l_fmt l') (l_edims l') n <> None)
  /\ (forall n, In n (dim_names (l_fmt l')) -> resolve (l_fmt l') (l_edims l') n = Some RStd)
  /\ (forall e, In e (l_edims l) -> ~ In (ed_name e) (dim_names (l_fmt l')) ->
        resolve (l_fmt l') (l_edims l') (ed_name e) = Some (RExt e)).
Proof.
  intros H Hwf. pose proof (proj1 (convert_extra _ _ _ _ H Hwf)) as He. unfold listed_names, resolve. rewrite He.
  split; [reflexivity|]. split; [|split].
  - intros n Hin. destruct (mem n (dim_names (l_fmt l'))) eqn:M; [discriminate|].
    apply in_app_or in Hin as [Hin|Hin]; [apply mem_In in Hin; congruence|].
    pose proof (find_name_some _ _ Hin) as Hf. destruct (find _ _); [discriminate|congruence].
  - intros n Hin. apply mem_In in Hin. now rewrite Hin.
  - intros e Hin Hn. apply mem_false in Hn. rewrite Hn. rewrite (find_by_name _ _ (wf_names _ Hwf) Hin). reflexivity.
Qed.

Lemma ext_value_in eds src e : length src = length eds -> NoDup (map ed_name eds) -> In e eds ->
  exists b, find (fun q : edim * list Z => String.eqb (ed_name (fst q)) (ed_name e)) (combine eds src) = Some (e, b).
Proof.
  revert src. induction eds as [|a r IH]; intros src Hl Hnd Hin; [destruct Hin|].
  destruct src as [|s src]; [discriminate|]. cbn [combine find fst].
  cbn [map] in Hnd. apply NoDup_cons_iff in Hnd as [Hn Hnd].
  destruct Hin as [->|Hin]; [rewrite seqb_refl; now exists s|].
  destruct (String.eqb (ed_name a) (ed_name e)) eqn:E.
  - apply String.eqb_eq in E. exfalso. apply Hn. rewrite E. now apply in_map.
  - apply IH; [cbn in Hl; lia|exact Hnd|exact Hin].
Qed.

Theorem convert_ext_value l tgt ver l' i da db : convert l tgt ver = Ok l' -> wf_las l -> (i < length (l_pts l))%nat ->
  (forall n, ext_value (l_edims l') (nth i (l_pts l') db) n = ext_value (l_edims l) (nth i (l_pts l) da) n)
  /\ (forall e, In e (l_edims l) -> exists b, ext_value (l_edims l') (nth i (l_pts l') db) (ed_name e) = Some (e, b)).
Proof.
  intros H Hwf Hi. destruct (convert_extra _ _ _ _ H Hwf) as [He Hb].
  assert (forall n, ext_value (l_edims l') (nth i (l_pts l') db) n = ext_value (l_edims l) (nth i (l_pts l) da) n) as Heq.
  { intros n. unfold ext_value. now rewrite He, (Hb i da db Hi). }
  split; [exact Heq|]. intros e Hin. rewrite Heq. unfold ext_value.
  destruct (wf_nth l i da Hwf Hi) as [_ Hl]. exact (ext_value_in _ _ _ Hl (wf_names _ Hwf) Hin).
Qed.

(* every record of the source other than the extra-bytes record is a record of the result, whatever it describes
   (waveform packet descriptors when the target has no wave packets, georeferencing, lookups ...) *)
Theorem convert_vlr_kept l tgt ver l' v : convert l tgt ver = Ok l' -> In v (l_vlrs l) -> fst v = false -> In v (l_vlrs l').
Proof.
  intros H Hin Hf. destruct (convert_vlrs _ _ _ _ H) as [E _]. rewrite E. apply in_or_app. left.
  unfold user_vlrs. apply filter_In. split; [exact Hin|now rewrite Hf].
Qed.
