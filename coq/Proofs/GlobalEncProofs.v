From Coq Require Import ZArith List Bool Lia.
From LasV Require Import Lib.Base Lib.BaseFacts Gen.GenGlobalEncoding Model.GlobalEnc.
Import ListNotations.
Open Scope Z_scope.

(* complete sweep of the 16-bit domain: 65536 values x 5 flags x 2 targets *)
Lemma ge_sweep : forall_below 65536 ge_all_ok = true.
Proof. vm_compute. reflexivity. Qed.

Lemma ge_masks_ok_true : ge_masks_ok = true.
Proof. vm_compute. reflexivity. Qed.

Lemma ge_flag_ok_all v i b : 0 <= v < 65536 -> (i < 5)%nat -> ge_flag_ok i v b = true.
Proof.
  intros Hv Hi. pose proof (forall_below_spec _ _ ge_sweep v Hv) as H.
  unfold ge_all_ok in H. rewrite forallb_forall in H.
  assert (In i (seq 0 5)) as Hin by (apply in_seq; lia).
  specialize (H i Hin). apply andb_true_iff in H as [Ht Hf]. destruct b; assumption.
Qed.

Lemma ge_flag_sound v i b :
  0 <= v < 65536 -> (i < 5)%nat ->
  ge_get i (ge_set i v b) = b
  /\ Z.land (Z.lxor (ge_set i v b) v) (Z.lnot (ge_mask i)) = 0
  /\ 0 <= ge_set i v b < 65536.
Proof.
  intros Hv Hi. pose proof (ge_flag_ok_all v i b Hv Hi) as H. unfold ge_flag_ok in H.
  repeat (apply andb_true_iff in H as [H ?]).
  split; [now apply Bool.eqb_prop|]. split; lia.
Qed.

(* bit-level reading of "no other bit changes" *)
Lemma ge_other_bits v i b n :
  0 <= v < 65536 -> (i < 5)%nat -> 0 <= n -> Z.testbit (ge_mask i) n = false ->
  Z.testbit (ge_set i v b) n = Z.testbit v n.
Proof.
  intros Hv Hi Hn Hm. destruct (ge_flag_sound v i b Hv Hi) as (_ & H & _).
  assert (Z.testbit (Z.land (Z.lxor (ge_set i v b) v) (Z.lnot (ge_mask i))) n = false) as Hb
    by (rewrite H; apply Z.bits_0).
  rewrite Z.land_spec, Z.lxor_spec, Z.lnot_spec, Hm in Hb by lia.
  destruct (Z.testbit (ge_set i v b) n), (Z.testbit v n); simpl in Hb; congruence.
Qed.

(* a flag is read from its own bit only: getter = testbit at the mask's position *)
Definition ge_get_is_bit (v : Z) : bool :=
  forallb (fun i => Bool.eqb (ge_get i v) (negb (Z.land v (ge_mask i) =? 0))) (seq 0 5).
Lemma ge_get_sweep : forall_below 65536 ge_get_is_bit = true.
Proof. vm_compute. reflexivity. Qed.

Lemma ge_get_bit v i : 0 <= v < 65536 -> (i < 5)%nat ->
  ge_get i v = negb (Z.land v (ge_mask i) =? 0).
Proof.
  intros Hv Hi. pose proof (forall_below_spec _ _ ge_get_sweep v Hv) as H.
  unfold ge_get_is_bit in H. rewrite forallb_forall in H.
  apply Bool.eqb_prop, H, in_seq. lia.
Qed.

(* setting flag j leaves flag i <> j as it was *)
Definition ge_indep_ok (v : Z) : bool :=
  forallb (fun i => forallb (fun j => (i =? j)%nat ||
     (Bool.eqb (ge_get i (ge_set j v true)) (ge_get i v) && Bool.eqb (ge_get i (ge_set j v false)) (ge_get i v)))
     (seq 0 5)) (seq 0 5).
Lemma ge_indep_sweep : forall_below 65536 ge_indep_ok = true.
Proof. vm_compute. reflexivity. Qed.

Lemma ge_independent v i j b : 0 <= v < 65536 -> (i < 5)%nat -> (j < 5)%nat -> i <> j ->
  ge_get i (ge_set j v b) = ge_get i v.
Proof.
  intros Hv Hi Hj Hne. pose proof (forall_below_spec _ _ ge_indep_sweep v Hv) as H.
  unfold ge_indep_ok in H. rewrite forallb_forall in H.
  assert (In i (seq 0 5)) as Hii by (apply in_seq; lia).
  specialize (H i Hii). rewrite forallb_forall in H.
  assert (In j (seq 0 5)) as Hjj by (apply in_seq; lia).
  specialize (H j Hjj). apply orb_true_iff in H as [H|H].
  - apply Nat.eqb_eq in H. contradiction.
  - apply andb_true_iff in H as [Ht Hf]. destruct b; now apply Bool.eqb_prop.
Qed.

(* histories *)
Definition ops_ok (ops : list (nat * bool)) : Prop := Forall (fun op => (fst op < 5)%nat) ops.

Lemma ge_run_range v ops : 0 <= v < 65536 -> ops_ok ops -> 0 <= ge_run v ops < 65536.
Proof.
  revert v; induction ops as [|[j b] r IH]; intros v Hv Hops; [exact Hv|].
  inversion Hops as [|? ? Hj Hr]; subst. cbn [ge_run fold_left fst snd].
  apply IH; [|exact Hr]. apply (ge_flag_sound v j b Hv Hj).
Qed.

Lemma last_assign_acc i ops acc :
  last_assign i ops acc = match last_assign i ops None with Some x => Some x | None => acc end.
Proof.
  revert acc; induction ops as [|[j b] r IH]; intros acc; [reflexivity|].
  cbn [last_assign]. destruct (i =? j)%nat.
  - rewrite (IH (Some b)). destruct (last_assign i r None); reflexivity.
  - apply IH.
Qed.

Lemma ge_run_flags v ops i : 0 <= v < 65536 -> ops_ok ops -> (i < 5)%nat ->
  ge_get i (ge_run v ops) = match last_assign i ops None with Some b => b | None => ge_get i v end.
Proof.
  intros Hv Hops Hi. revert v Hv. induction ops as [|[j b] r IH]; intros v Hv; [reflexivity|].
  inversion Hops as [|? ? Hj Hr]; subst. cbn [fst] in Hj.
  cbn [ge_run fold_left fst snd last_assign]. fold (ge_run (ge_set j v b) r).
  pose proof (ge_flag_sound v j b Hv Hj) as (Hget & _ & Hrange).
  rewrite (IH Hr _ Hrange).
  destruct (Nat.eqb_spec i j) as [->|Hne].
  - rewrite (last_assign_acc j r (Some b)). destruct (last_assign j r None); [reflexivity|exact Hget].
  - destruct (last_assign i r None); [reflexivity|]. now apply ge_independent.
Qed.

Lemma ge_run_other_bits v ops n : 0 <= v < 65536 -> ops_ok ops -> 0 <= n ->
  (forall i, (i < 5)%nat -> Z.testbit (ge_mask i) n = false) ->
  Z.testbit (ge_run v ops) n = Z.testbit v n.
Proof.
  intros Hv Hops Hn Hm. revert v Hv. induction ops as [|[j b] r IH]; intros v Hv; [reflexivity|].
  inversion Hops as [|? ? Hj Hr]; subst. cbn [fst] in Hj. cbn [ge_run fold_left fst snd].
  fold (ge_run (ge_set j v b) r). rewrite (IH Hr); [|apply (ge_flag_sound v j b Hv Hj)].
  apply ge_other_bits; auto.
Qed.
