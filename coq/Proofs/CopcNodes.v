(* C15 — on a well-formed hierarchy the traversal returns exactly the nodes of the selected levels whose cube
   overlaps the box. *)
From Coq Require Import String.
From Coq Require Import ZArith List Bool Lia ZifyBool Arith Permutation.
From LasV Require Import Lib.Base Gen.GenCopc Model.Copc Proofs.CopcKeys Proofs.CopcDict Proofs.CopcTerm.
Import ListNotations.
Open Scope list_scope.
Open Scope Z_scope.

Lemma NoDup_map_inj : forall {A B} (f : A -> B) l a b, NoDup (map f l) -> In a l -> In b l -> f a = f b -> a = b.
Proof.
  intros A B f l. induction l as [|x xs IH]; intros a b Hnd Ha Hb E; [contradiction|].
  cbn [map] in Hnd. inversion Hnd as [|? ? Hx Hxs]; subst.
  destruct Ha as [-> | Ha]; destruct Hb as [-> | Hb].
  - reflexivity.
  - exfalso. apply Hx. rewrite E. apply in_map. exact Hb.
  - exfalso. apply Hx. rewrite <- E. apply in_map. exact Ha.
  - apply IH; assumption.
Qed.

Lemma flat_map_ext_in : forall {A B} (f g : A -> list B) l, (forall a, In a l -> f a = g a) -> flat_map f l = flat_map g l.
Proof.
  intros A B f g l. induction l as [|x xs IH]; intros H; simpl; [reflexivity|].
  rewrite (H x) by (simpl; auto). rewrite IH; [reflexivity | intros; apply H; simpl; auto].
Qed.

(* ---------- geometry: the cube of a child lies in the cube of its parent ---------- *)
Lemma ov1_parent : forall rlo side l x b0 b1, 0 <= side -> 0 <= l ->
  ov1 rlo side (l + 1) x b0 b1 = true -> ov1 rlo side l (x / 2) b0 b1 = true.
Proof.
  intros rlo side l x b0 b1 Hs Hl H. unfold ov1, gen_overlap, gen_bounds_den, gen_bounds_lo, gen_bounds_hi in *.
  rewrite Z.pow_add_r in H by lia. change (2 ^ 1) with 2 in H.
  assert (HP : 0 < 2 ^ l) by (apply Z.pow_pos_nonneg; lia).
  set (P := 2 ^ l) in *.
  pose proof (Z.div_mod x 2) as Hx. assert (Hr : 0 <= x mod 2 < 2) by (apply Z.mod_pos_bound; lia).
  set (q := x / 2) in *. set (r := x mod 2) in *.
  assert (Hx' : x = 2 * q + r) by lia. clearbody q r P. subst x.
  apply andb_prop in H. destruct H as [H1 H2]. apply andb_true_intro.
  assert (Hc : r = 0 \/ r = 1) by lia.
  clear Hx. destruct Hc as [-> | ->]; split.
  all: lia.
Qed.

Lemma overlaps_parent : forall g k b, 0 <= g_side g -> 0 < kl k ->
  overlaps g k b = true -> overlaps g (parent k) b = true.
Proof.
  intros g k b Hs Hl H. unfold overlaps in *. unfold parent. cbn [kl kx ky kz].
  apply andb_prop in H. destruct H as [H Hz]. apply andb_prop in H. destruct H as [Hx Hy].
  replace (kl k) with (kl k - 1 + 1) in Hx, Hy, Hz by lia.
  assert (Hl' : 0 <= kl k - 1) by lia.
  rewrite (ov1_parent _ _ (kl k - 1) _ _ _ Hs Hl' Hx), (ov1_parent _ _ (kl k - 1) _ _ _ Hs Hl' Hy),
          (ov1_parent _ _ (kl k - 1) _ _ _ Hs Hl' Hz). reflexivity.
Qed.

Section Nodes.
Variable t : tree.
Variable g : geom.
Variable ob : option box.
Variable lv : option (Z * Z).
Hypothesis WF : wf_tree t.

Let E := all_entries t.
Let N := nodes_of t.

Lemma in_N : forall e, In e N <-> In e E /\ is_ref e = false.
Proof.
  intros e. unfold N, nodes_of, is_node. rewrite filter_In. fold E.
  destruct (is_ref e); simpl; intuition congruence.
Qed.

Lemma node_lookup : forall e, In e N -> lookup (e_key e) N = Some e.
Proof.
  intros e He. destruct (lookup (e_key e) N) as [e0|] eqn:E0.
  - apply lookup_some in E0. destruct E0 as [Ek Hin]. f_equal.
    apply (NoDup_map_inj e_key N); [apply (wf_unique t WF) | exact Hin | exact He | exact Ek].
  - exfalso. apply (proj1 (lookup_none _ _) E0 e He). reflexivity.
Qed.

(* the nodes the query must return from the sub-tree of k, n more levels down *)
Fixpoint expect (n : nat) (k : vkey) : list entry :=
  if in_bounds g ob k && below_stop lv k then
    match lookup k N with
    | None => []
    | Some e => (if in_level lv k then [e] else []) ++
                match n with O => [] | S m => flat_map (expect m) (children k) end
    end
  else [].

Definition F (k : vkey) : list entry := expect (idx t k) k.

Definition inv (h : list entry) (st : list vkey) : Prop :=
  incl h E
  /\ (forall e0, In e0 N -> (e_key e0 = root_key \/ vis_res h (parent (e_key e0)) = true) -> lookup (e_key e0) h <> None)
  /\ (forall a, In a st -> a = root_key \/ vis_res h (parent a) = true).

Lemma page_at_cases : forall ps off size, page_at ps off size = [] \/ In (page_at ps off size) (map snd ps).
Proof.
  induction ps as [|[[o s] p] r IH]; intros off size; cbn [page_at]; [left; reflexivity|].
  destruct ((o =? off) && (s =? size)).
  - right. simpl. auto.
  - destruct (IH off size) as [H | H]; [left; exact H | right; simpl; auto].
Qed.

Lemma inv_merge : forall h st st2 off size, inv h st -> (forall a, In a st2 -> In a st) ->
  inv (merge h (page_at (t_pages t) off size)) st2.
Proof.
  intros h st st2 off size [Hh [H2 S1]] Hst. set (P := page_at (t_pages t) off size).
  split; [apply incl_merge_E; exact Hh|]. split.
  - intros e0 He0 Hor.
    destruct (key_eq_dec (e_key e0) root_key) as [Hr | Hr].
    { apply merge_present_kept. apply H2; auto. }
    destruct Hor as [Hor | Hor]; [contradiction|].
    destruct (vis_res h (parent (e_key e0))) eqn:Ev.
    { apply merge_present_kept. apply H2; auto. }
    (* the parent became visible through the page *)
    unfold vis_res in Hor, Ev. rewrite merge_spec in Hor.
    assert (Hpd : exists ep, lookup (parent (e_key e0)) (page_dict P) = Some ep /\ is_ref ep = false).
    { fold P in Hor. revert Hor Ev. destruct (lookup (parent (e_key e0)) h) as [o|] eqn:Eo.
      - destruct (is_ref o) eqn:Ero; cbn [negb]; [|discriminate]. intros Hor _.
        destruct (lookup (parent (e_key e0)) (page_dict P)) as [ep|] eqn:Ep.
        + exists ep. split; [reflexivity|]. destruct (is_ref ep); [discriminate | reflexivity].
        + rewrite Ero in Hor. discriminate.
      - intros Hor _. destruct (lookup (parent (e_key e0)) (page_dict P)) as [ep|] eqn:Ep; [|discriminate].
        exists ep. split; [reflexivity|]. destruct (is_ref ep); [discriminate | reflexivity]. }
    destruct Hpd as [ep [Hep Hrp]]. apply lookup_some in Hep. destruct Hep as [Hkp Hinp].
    unfold page_dict in Hinp. apply in_rev in Hinp.
    assert (HP : In P (all_pages t)).
    { unfold all_pages. destruct (page_at_cases (t_pages t) off size) as [Hc | Hc].
      - fold P in Hc. rewrite Hc in Hinp. contradiction.
      - right. exact Hc. }
    assert (Hlev : 0 < kl (e_key e0)).
    { pose proof (wf_level t WF e0 He0). destruct (Z.eq_dec (kl (e_key e0)) 0) as [Hz | Hz]; [|lia].
      exfalso. apply Hr. apply (wf_root t WF e0 He0 Hz). }
    destruct (wf_children t WF P ep e0 HP Hinp Hrp He0 Hlev (eq_sym Hkp)) as [e' [Hin' Hk']].
    assert (Hpl : lookup (e_key e0) (page_dict P) <> None).
    { intros Hn. apply (proj1 (lookup_none _ _) Hn e'); [unfold page_dict; rewrite <- in_rev; exact Hin' | exact Hk']. }
    rewrite merge_spec. fold P. destruct (lookup (e_key e0) h) as [o|].
    + destruct (is_ref o); [destruct (lookup (e_key e0) (page_dict P))|]; discriminate.
    + exact Hpl.
  - intros a Ha. destruct (S1 a (Hst a Ha)) as [Hl | Hl]; [left; exact Hl | right; apply vis_res_merge; exact Hl].
Qed.

Lemma idx_child : forall k c, kl k < depth_of E -> In c (children k) -> idx t k = S (idx t c).
Proof.
  intros k c Hk Hc. apply in_children_parent in Hc. destruct Hc as [_ Hc]. unfold idx. fold E. rewrite Hc. lia.
Qed.

Lemma traverse_wf : forall fuel h st acc, inv h st ->
  traverse fuel t g ob lv h st acc = Err EFuel \/
  exists ns, traverse fuel t g ob lv h st acc = Ok ns /\ Permutation ns (rev acc ++ flat_map F st).
Proof.
  induction fuel as [|f IH]; intros h st acc Hinv.
  - destruct st as [|k st']; cbn [traverse]; [|left; reflexivity].
    right. exists (rev acc). split; [reflexivity|]. cbn [flat_map]. rewrite app_nil_r. apply Permutation_refl.
  - destruct st as [|k st']; cbn [traverse].
    { right. exists (rev acc). split; [reflexivity|]. cbn [flat_map]. rewrite app_nil_r. apply Permutation_refl. }
    assert (Hinv' : inv h st').
    { destruct Hinv as [A [B C]]. split; [exact A|]. split; [exact B|]. intros a Ha. apply C. simpl; auto. }
    cbn [flat_map]. unfold F at 1.
    destruct (in_bounds g ob k) eqn:Eb; cbn [negb].
    2:{ assert (Hx : expect (idx t k) k = []) by (destruct (idx t k); cbn [expect]; rewrite Eb; reflexivity).
        rewrite Hx. cbn [app]. apply IH. exact Hinv'. }
    destruct (below_stop lv k) eqn:Es; cbn [negb].
    2:{ assert (Hx : expect (idx t k) k = []) by (destruct (idx t k); cbn [expect]; rewrite Eb, Es; reflexivity).
        rewrite Hx. cbn [app]. apply IH. exact Hinv'. }
    destruct Hinv as [Hh [H2 S1]].
    destruct (lookup k h) as [e|] eqn:Ee.
    2:{ assert (Hn : lookup k N = None).
        { destruct (lookup k N) as [e0|] eqn:E0; [|reflexivity]. exfalso.
          apply lookup_some in E0. destruct E0 as [Ek Hin]. subst k.
          apply (H2 e0 Hin); [|exact Ee]. apply (S1 (e_key e0)). simpl; auto. }
        assert (Hx : expect (idx t k) k = []) by (destruct (idx t k); cbn [expect]; rewrite Eb, Es, Hn; reflexivity).
        rewrite Hx. cbn [app]. apply IH. exact Hinv'. }
    pose proof (lookup_some k h e Ee) as [Eke Hine].
    destruct (is_ref e) eqn:Er.
    + (* page reference *)
      destruct (wf_ref t WF e (Hh e Hine) Er) as [e' [He' Hr']]. rewrite Eke in He'.
      assert (Hd : page_describes k (page_at (t_pages t) (e_off e) (e_size e)) = true).
      { unfold page_describes. rewrite He', Hr'. reflexivity. }
      rewrite Hd.
      assert (Hi2 : inv (merge h (page_at (t_pages t) (e_off e) (e_size e))) (st' ++ [k])).
      { apply (inv_merge h (k :: st')); [split; [exact Hh | split; [exact H2 | exact S1]]|].
        intros a Ha. apply in_app_or in Ha. destruct Ha as [Ha | [<- | []]]; simpl; auto. }
      destruct (IH _ _ acc Hi2) as [Hf | [ns [Hns Hp]]]; [left; exact Hf|].
      right. exists ns. split; [exact Hns|]. eapply Permutation_trans; [exact Hp|].
      apply Permutation_app_head. rewrite flat_map_app. cbn [flat_map]. rewrite app_nil_r.
      apply Permutation_app_comm.
    + (* a node *)
      assert (HeN : In e N) by (apply in_N; split; [apply Hh; exact Hine | exact Er]).
      assert (Hcnt : e_cnt e >=? gen_node_min_count = true).
      { pose proof (wf_count t WF e HeN). unfold gen_node_min_count. lia. }
      rewrite Hcnt.
      assert (Hlk : lookup k N = Some e) by (rewrite <- Eke; apply node_lookup; exact HeN).
      assert (Hdep : kl k < depth_of E) by (rewrite <- Eke; apply depth_of_spec; apply Hh; exact Hine).
      assert (Hx : expect (idx t k) k = (if in_level lv k then [e] else []) ++ flat_map F (children k)).
      { destruct (idx t k) as [|m] eqn:Ei.
        - exfalso. unfold idx in Ei. fold E in Ei. lia.
        - cbn [expect]. rewrite Eb, Es, Hlk. cbn [andb]. f_equal. apply flat_map_ext_in.
          intros c Hc. unfold F. pose proof (idx_child k c Hdep Hc) as Hic. rewrite Ei in Hic.
          injection Hic as Hic. rewrite Hic. reflexivity. }
      rewrite Hx.
      assert (Hi2 : inv h (rev (children k) ++ st')).
      { split; [exact Hh|]. split; [exact H2|]. intros a Ha. apply in_app_or in Ha. destruct Ha as [Ha | Ha].
        - right. apply in_rev in Ha. apply in_children_parent in Ha. destruct Ha as [Hp _]. rewrite Hp.
          unfold vis_res. rewrite Ee, Er. reflexivity.
        - apply S1. simpl; auto. }
      destruct (IH _ _ (if in_level lv k then e :: acc else acc) Hi2) as [Hf | [ns [Hns Hp]]]; [left; exact Hf|].
      right. exists ns. split; [exact Hns|]. eapply Permutation_trans; [exact Hp|].
      rewrite flat_map_app.
      assert (Hrev : Permutation (flat_map F (rev (children k))) (flat_map F (children k))).
      { apply Permutation_flat_map. apply Permutation_sym. apply Permutation_rev. }
      destruct (in_level lv k); cbn [rev].
      * rewrite <- !app_assoc. apply Permutation_app_head. cbn [app]. apply perm_skip.
        apply Permutation_app_tail. exact Hrev.
      * cbn [app]. apply Permutation_app_head. apply Permutation_app_tail. exact Hrev.
Qed.

Lemma inv_init : inv (page_dict (t_root t)) [root_key].
Proof.
  split.
  - intros e He. unfold page_dict in He. apply in_rev in He. unfold E, all_entries. apply in_or_app. left. exact He.
  - split.
    + intros e0 He0 Hor.
      destruct (key_eq_dec (e_key e0) root_key) as [Hr | Hr].
      * destruct (wf_root_page t WF e0 He0 Hr) as [e' [Hin Hk]]. intros Hn.
        apply (proj1 (lookup_none _ _) Hn e'); [unfold page_dict; rewrite <- in_rev; exact Hin | rewrite Hk, Hr; reflexivity].
      * destruct Hor as [Hor | Hor]; [contradiction|].
        unfold vis_res in Hor. destruct (lookup (parent (e_key e0)) (page_dict (t_root t))) as [ep|] eqn:Ep; [|discriminate].
        apply lookup_some in Ep. destruct Ep as [Hkp Hinp]. unfold page_dict in Hinp. apply in_rev in Hinp.
        assert (Hrp : is_ref ep = false) by (destruct (is_ref ep); [discriminate | reflexivity]).
        assert (Hlev : 0 < kl (e_key e0)).
        { pose proof (wf_level t WF e0 He0). destruct (Z.eq_dec (kl (e_key e0)) 0) as [Hz | Hz]; [|lia].
          exfalso. apply Hr. apply (wf_root t WF e0 He0 Hz). }
        assert (HP : In (t_root t) (all_pages t)) by (unfold all_pages; simpl; auto).
        destruct (wf_children t WF _ ep e0 HP Hinp Hrp He0 Hlev (eq_sym Hkp)) as [e' [Hin' Hk']].
        intros Hn. apply (proj1 (lookup_none _ _) Hn e'); [unfold page_dict; rewrite <- in_rev; exact Hin' | exact Hk'].
    + intros a [<- | []]. left. reflexivity.
Qed.

(* ---------- the static list F root is the target ---------- *)
Lemma in_expect : forall n k e, In e (expect n k) ->
  In e N /\ in_bounds g ob (e_key e) = true /\ in_level lv (e_key e) = true /\ In (e_key e) (enum n k).
Proof.
  induction n as [|n IH]; intros k e H; cbn [expect] in H.
  - destruct (in_bounds g ob k && below_stop lv k) eqn:Ebs; [|contradiction].
    destruct (lookup k N) as [e0|] eqn:E0; [|contradiction]. rewrite app_nil_r in H.
    destruct (in_level lv k) eqn:El; [|contradiction]. destruct H as [<- | []].
    apply lookup_some in E0. destruct E0 as [Ek Hin]. subst k. apply andb_prop in Ebs.
    repeat split; [exact Hin | apply Ebs | exact El | simpl; auto].
  - destruct (in_bounds g ob k && below_stop lv k) eqn:Ebs; [|contradiction].
    destruct (lookup k N) as [e0|] eqn:E0; [|contradiction].
    apply in_app_or in H. destruct H as [H | H].
    + destruct (in_level lv k) eqn:El; [|contradiction]. destruct H as [<- | []].
      apply lookup_some in E0. destruct E0 as [Ek Hin]. subst k. apply andb_prop in Ebs.
      repeat split; [exact Hin | apply Ebs | exact El | simpl; auto].
    + apply in_flat_map in H. destruct H as [c [Hc He]]. destruct (IH c e He) as [A [B [C D]]].
      repeat split; try assumption. cbn [enum]. right. apply in_flat_map. exists c. split; assumption.
Qed.

Lemma NoDup_expect : forall n k, NoDup (expect n k).
Proof.
  induction n as [|n IH]; intros k; cbn [expect].
  - destruct (in_bounds g ob k && below_stop lv k); [|constructor].
    destruct (lookup k N); [|constructor]. rewrite app_nil_r.
    destruct (in_level lv k); [constructor; [simpl; tauto | constructor] | constructor].
  - destruct (in_bounds g ob k && below_stop lv k); [|constructor].
    destruct (lookup k N) as [e0|] eqn:E0; [|constructor].
    apply NoDup_app_intro.
    + destruct (in_level lv k); [constructor; [simpl; tauto | constructor] | constructor].
    + apply NoDup_flat_map; [apply NoDup_children | intros; apply IH |].
      intros a b x Ha Hb Hxa Hxb. apply in_expect in Hxa. apply in_expect in Hxb.
      eapply enum_children_disjoint; [exact Ha | exact Hb | apply Hxa | apply Hxb].
    + intros x Hx1 Hx2. destruct (in_level lv k); [|contradiction]. destruct Hx1 as [<- | []].
      apply lookup_some in E0. destruct E0 as [Ek _].
      apply in_flat_map in Hx2. destruct Hx2 as [c [Hc Hx]]. apply in_expect in Hx.
      destruct Hx as [_ [_ [_ Hx]]]. rewrite Ek in Hx. eapply enum_not_self; eauto.
Qed.

Lemma anc_is_node : forall j e, In e N -> Z.of_nat j <= kl (e_key e) ->
  exists ea, In ea N /\ e_key ea = anc j (e_key e).
Proof.
  induction j as [|j IH]; intros e He Hj.
  - exists e. split; [exact He | reflexivity].
  - destruct (IH e He ltac:(lia)) as [ea [Hea Eka]].
    assert (Hl : 0 < kl (e_key ea)) by (rewrite Eka, anc_level; lia).
    destruct (wf_parent t WF ea Hea Hl) as [ep [Hep Ekp]]. exists ep. split; [exact Hep|].
    cbn [anc]. rewrite Ekp, Eka. reflexivity.
Qed.

Hypothesis side_ok : 0 <= g_side g.

Lemma in_bounds_parent : forall k, 0 < kl k -> in_bounds g ob k = true -> in_bounds g ob (parent k) = true.
Proof.
  intros k Hl H. unfold in_bounds in *. destruct ob as [b|]; [|reflexivity]. apply overlaps_parent; assumption.
Qed.

Lemma below_stop_parent : forall k, below_stop lv k = true -> below_stop lv (parent k) = true.
Proof. intros k H. unfold below_stop in *. destruct lv as [[lo hi]|]; [|reflexivity]. unfold parent. cbn [kl]. lia. Qed.

Lemma expect_complete : forall j n k e, In e N -> anc j (e_key e) = k -> (j <= n)%nat -> 0 <= kl k ->
  in_bounds g ob (e_key e) = true -> below_stop lv (e_key e) = true -> in_level lv (e_key e) = true ->
  In e (expect n k).
Proof.
  induction j as [|j IH]; intros n k e He Ea Hn Hk Hb Hs Hl.
  - cbn [anc] in Ea. subst k. destruct n; cbn [expect]; rewrite Hb, Hs, (node_lookup e He), Hl; simpl; auto.
  - destruct n as [|n]; [lia|]. cbn [anc] in Ea. set (c := anc j (e_key e)) in *.
    assert (Hlc : kl c = kl k + 1) by (rewrite <- Ea; unfold parent; cbn [kl]; lia).
    assert (Hc : In c (children k)) by (rewrite <- Ea; apply child_of_parent_in).
    assert (Hin : In e (expect n c)) by (apply (IH n c e); try assumption; try reflexivity; lia).
    (* k itself is a node, in bounds and below the stop *)
    assert (Hjl : Z.of_nat (S j) <= kl (e_key e)).
    { pose proof (anc_level j (e_key e)) as Hal. fold c in Hal. lia. }
    destruct (anc_is_node (S j) e He Hjl) as [ek [Hek Ekk]]. cbn [anc] in Ekk. fold c in Ekk. rewrite Ea in Ekk.
    assert (Hbk : in_bounds g ob k = true /\ below_stop lv k = true).
    { (* bounds and stop propagate upwards along the ancestors of e *)
      rewrite <- Ea. unfold c.
      assert (Hup : forall i, Z.of_nat i <= kl (e_key e) ->
                in_bounds g ob (anc i (e_key e)) = true /\ below_stop lv (anc i (e_key e)) = true).
      { induction i as [|i IHi]; intros Hi; [split; assumption|].
        destruct (IHi ltac:(lia)) as [B1 B2]. cbn [anc]. split.
        - apply in_bounds_parent; [rewrite anc_level; lia | exact B1].
        - apply below_stop_parent. exact B2. }
      apply (Hup (S j)). exact Hjl. }
    destruct Hbk as [Hbk Hsk]. cbn [expect]. rewrite Hbk, Hsk. cbn [andb].
    rewrite <- Ekk, (node_lookup ek Hek). apply in_or_app. right.
    apply in_flat_map. exists c. split; [rewrite Ekk; exact Hc | exact Hin].
Qed.

Lemma in_level_below_stop : forall k, in_level lv k = true -> below_stop lv k = true.
Proof. intros k H. unfold in_level, below_stop in *. destruct lv as [[lo hi]|]; [lia | reflexivity]. Qed.

Lemma F_root_target : Permutation (F root_key) (target t g ob lv).
Proof.
  apply NoDup_Permutation.
  - apply NoDup_expect.
  - unfold target. apply NoDup_filter. apply NoDup_filter. eapply NoDup_map_inv. apply (wf_unique t WF).
  - intros e. unfold target. rewrite !filter_In. unfold sel_box, sel_level. fold N. split.
    + intros H. apply in_expect in H. tauto.
    + intros [[He Hl] Hb].
      pose proof (wf_level t WF e He) as Hlev.
      set (j := Z.to_nat (kl (e_key e))).
      assert (Hj : Z.of_nat j = kl (e_key e)) by (unfold j; lia).
      destruct (anc_is_node j e He ltac:(lia)) as [er [Her Ekr]].
      assert (Hroot : anc j (e_key e) = root_key).
      { rewrite <- Ekr. apply (wf_root t WF er Her). rewrite Ekr, anc_level. lia. }
      unfold F. apply (expect_complete j); try assumption.
      * assert (Hd : kl (e_key e) < depth_of E).
        { apply depth_of_spec. apply in_N in He. apply He. }
        unfold idx. fold E. cbn [root_key kl]. lia.
      * cbn [root_key kl]. lia.
      * apply in_level_below_stop. exact Hl.
Qed.

Theorem load_octree_nodes : forall fuel, (fuel_bound t <= fuel)%nat ->
  exists ns, load_octree fuel t g ob lv = Ok ns /\ Permutation ns (target t g ob lv).
Proof.
  intros fuel Hf. pose proof (load_octree_terminates t g ob lv fuel Hf) as Hne.
  unfold load_octree in *.
  destruct (traverse_wf fuel (page_dict (t_root t)) [root_key] [] inv_init) as [Hx | [ns [Hns Hp]]]; [contradiction|].
  exists ns. split; [exact Hns|]. eapply Permutation_trans; [exact Hp|].
  cbn [rev app flat_map]. rewrite app_nil_r. apply F_root_target.
Qed.

End Nodes.
