From Coq Require Import ZArith List Bool Lia ZifyBool.
From LasV Require Import Lib.Base Gen.GenCursor Model.Cursor Model.CursorIter.
Import ListNotations.
Open Scope Z_scope.

(* one next(k), k >= 1, on a reader whose source stands at the cursor *)
Lemma next_step n r src k : 1 <= k -> 0 <= r <= n ->
  cstep (mkC n r src) (CNext k) =
    if r <? n then (mkC n (r + Z.min k (n - r)) (src + Z.min k (n - r)), OSlice src (src + Z.min k (n - r)))
    else (mkC n r src, OErr EStop).
Proof.
  intros Hk Hr. cbn [cstep]. unfold do_read, gen_read_points. cbn [c_n c_read c_src].
  destruct (n - r <=? 0) eqn:E0.
  - replace (-1 <? 0) with true by reflexivity. rewrite Z.eqb_refl. destruct (r <? n) eqn:E; [lia|reflexivity].
  - destruct (k <? 0) eqn:Ek; [lia|]. destruct (Z.min k (n - r) <? 0) eqn:E1; [lia|].
    destruct (r <? n) eqn:E; [|lia]. destruct (src =? src + Z.min k (n - r)) eqn:E2; [lia|reflexivity].
Qed.

(* next() on an exhausted reader changes nothing, as often as it is called *)
Lemma next_exhausted s k : c_n s <= c_read s -> cstep s (CNext k) = (s, OErr EStop).
Proof.
  intros H. destruct s as [n r src]. cbn [c_n c_read] in H. cbn [cstep]. unfold do_read, gen_read_points. cbn [c_n c_read c_src].
  destruct (n - r <=? 0) eqn:E0; [|lia]. replace (-1 <? 0) with true by reflexivity. now rewrite Z.eqb_refl.
Qed.

Lemma loop_fuel_spec fuel : forall n r src k, 1 <= k -> 0 <= r <= n -> (Z.to_nat (n - r) < fuel)%nat ->
  let '(s', os) := for_loop_fuel fuel (mkC n r src) k in
  s' = mkC n n (src + (n - r)) /\ tiles src (src + (n - r)) k os.
Proof.
  induction fuel as [|f IH]; intros n r src k Hk Hr Hf; [lia|].
  cbn [for_loop_fuel]. rewrite (next_step n r src k Hk Hr).
  destruct (r <? n) eqn:E.
  - assert (H1 : 0 <= r + Z.min k (n - r) <= n) by lia.
    assert (H2 : (Z.to_nat (n - (r + Z.min k (n - r))) < f)%nat) by lia.
    specialize (IH n (r + Z.min k (n - r)) (src + Z.min k (n - r)) k Hk H1 H2).
    destruct (for_loop_fuel f _ k) as [s'' os]. destruct IH as (-> & T). split; [f_equal; lia|].
    cbn [tiles]. split; [reflexivity|]. split; [lia|]. split; [lia|]. split; [lia|].
    replace (src + (n - r)) with (src + Z.min k (n - r) + (n - (r + Z.min k (n - r)))) by lia. exact T.
  - assert (r = n) by lia. subst r. split; [f_equal; lia|]. cbn [tiles]. lia.
Qed.

(* the complete for loop, from any state a history can reach (source at the cursor): the chunks tile the rest of the file, the
   cursor and the source end at the last record, and the state is an ordinary state of the reader *)
Theorem for_loop_spec s k : 1 <= k -> 0 <= c_read s <= c_n s ->
  fst (for_loop s k) = mkC (c_n s) (c_n s) (c_src s + (c_n s - c_read s))
  /\ tiles (c_src s) (c_src s + (c_n s - c_read s)) k (snd (for_loop s k)).
Proof.
  intros Hk Hr. destruct s as [n r src]. cbn [c_n c_read c_src] in *. unfold for_loop. cbn [c_n c_read].
  pose proof (loop_fuel_spec (S (Z.to_nat (n - r))) n r src k Hk Hr (Nat.lt_succ_diag_r _)) as H.
  destruct (for_loop_fuel _ _ k) as [s' os]. exact H.
Qed.

(* crun, one operation at a time *)
Definition cacc (acc : cstate * list cout) (op : cop) : cstate * list cout :=
  let '(s', o) := cstep (fst acc) op in (s', snd acc ++ [o]).

Lemma crun_gen ops : forall s acc,
  fold_left cacc ops (s, acc) = (fst (fold_left cacc ops (s, [])), acc ++ snd (fold_left cacc ops (s, []))).
Proof.
  induction ops as [|op ops IH]; intros s acc; cbn [fold_left].
  - cbn [fst snd]. now rewrite app_nil_r.
  - assert (E : forall a, cacc (s, a) op = (fst (cstep s op), a ++ [snd (cstep s op)]))
      by (intros a; unfold cacc; cbn [fst snd]; now destruct (cstep s op)).
    rewrite !E. rewrite (IH _ (acc ++ _)), (IH _ ([] ++ _)). cbn [fst snd app]. now rewrite <- app_assoc.
Qed.

Lemma crun_cons s op ops :
  crun s (op :: ops) = (fst (crun (fst (cstep s op)) ops), snd (cstep s op) :: snd (crun (fst (cstep s op)) ops)).
Proof.
  unfold crun. change (fun acc op0 => let '(s', o) := cstep (fst acc) op0 in (s', snd acc ++ [o])) with cacc.
  cbn [fold_left]. unfold cacc at 2. cbn [fst snd]. destruct (cstep s op) as [s' o]. cbn [fst snd app].
  now rewrite (crun_gen ops s' [o]).
Qed.

Lemma nexts_exhausted k m : forall s, c_n s <= c_read s ->
  crun s (repeat (CNext k) m) = (s, repeat (OErr EStop) m).
Proof.
  induction m as [|m IH]; intros s H; [reflexivity|].
  cbn [repeat]. rewrite crun_cons, (next_exhausted s k H). cbn [fst snd]. now rewrite (IH s H).
Qed.

Lemma nexts_loop fuel : forall m n r src k, 1 <= k -> 0 <= r <= n -> (Z.to_nat (n - r) < fuel)%nat ->
  (length (snd (for_loop_fuel fuel (mkC n r src) k)) < m)%nat ->
  crun (mkC n r src) (repeat (CNext k) m) =
    (fst (for_loop_fuel fuel (mkC n r src) k),
     snd (for_loop_fuel fuel (mkC n r src) k) ++ repeat (OErr EStop) (m - length (snd (for_loop_fuel fuel (mkC n r src) k)))).
Proof.
  induction fuel as [|f IH]; intros m n r src k Hk Hr Hf Hm; [lia|].
  destruct m as [|m]; [lia|]. cbn [repeat]. rewrite crun_cons.
  cbn [for_loop_fuel] in *. rewrite (next_step n r src k Hk Hr) in *.
  destruct (r <? n) eqn:E.
  - cbn [fst snd].
    assert (H1 : 0 <= r + Z.min k (n - r) <= n) by lia.
    assert (H2 : (Z.to_nat (n - (r + Z.min k (n - r))) < f)%nat) by lia.
    specialize (IH m n (r + Z.min k (n - r)) (src + Z.min k (n - r)) k Hk H1 H2).
    destruct (for_loop_fuel f _ k) as [s'' os]. cbn [fst snd length] in *.
    rewrite IH by lia. cbn [fst snd app]. reflexivity.
  - cbn [fst snd length app] in *. rewrite nexts_exhausted by (cbn [c_n c_read]; lia). now rewrite Nat.sub_0_r.
Qed.

(* the for loop IS next() called until StopIteration: any number m of next(k) calls larger than the number of chunks gives the
   chunks of the loop followed by StopIteration only, and leaves the reader in the state the loop leaves it in (this is how the
   correspondence runs a loop through the extracted model) *)
Theorem for_loop_is_repeated_next s k m : 1 <= k -> 0 <= c_read s <= c_n s ->
  (length (snd (for_loop s k)) < m)%nat ->
  crun s (repeat (CNext k) m) = (fst (for_loop s k), snd (for_loop s k) ++ repeat (OErr EStop) (m - length (snd (for_loop s k)))).
Proof.
  intros Hk Hr Hm. destruct s as [n r src]. cbn [c_n c_read] in *. unfold for_loop in *. cbn [c_n c_read] in *.
  apply nexts_loop; try assumption. lia.
Qed.

(* the reader outlives the loop: after it, a seek to any point of the file is served like on a fresh reader, and a second pass
   from there reads the same records *)
Theorem seek_after_loop s k pos : 1 <= k -> 0 <= c_read s <= c_n s -> 0 <= pos < c_n s ->
  cstep (fst (for_loop s k)) (CSeek pos 0) = (mkC (c_n s) pos pos, OSeek pos).
Proof.
  intros Hk Hr Hp. destruct (for_loop_spec s k Hk Hr) as (-> & _).
  cbn [cstep c_n c_read]. unfold gen_seek. cbn [Z.eqb].
  destruct (negb ((0 <=? pos) && (pos <? c_n s))) eqn:E; [lia|reflexivity].
Qed.

(* necessity: a reader closed by its exhausted iterator refuses exactly the seeks the property requires to succeed *)
Theorem closing_iterator_breaks s k pos : 1 <= k -> 0 <= c_read s <= c_n s -> 0 <= pos < c_n s ->
  closed_after_loop_seek (fst (for_loop s k)) pos 0 <> snd (cstep (fst (for_loop s k)) (CSeek pos 0)).
Proof.
  intros Hk Hr Hp. rewrite (seek_after_loop s k pos Hk Hr Hp). destruct (for_loop_spec s k Hk Hr) as (-> & _).
  unfold closed_after_loop_seek. cbn [c_n c_read snd]. unfold gen_seek. cbn [Z.eqb].
  destruct (negb ((0 <=? pos) && (pos <? c_n s))) eqn:E; [lia|discriminate].
Qed.
