(* C16 — the transport under a range request (requests_retry_session: retrying adapter) and what it keeps between requests. *)
From Coq Require Import ZArith List Bool Lia Arith.
From LasV Require Import Lib.Base Gen.GenFetch Model.Fetch Proofs.FetchProofs Proofs.FetchExecProofs Proofs.FetchPrologueProofs.
Import ListNotations.
Open Scope Z_scope.

(* ---- one request through the retrying adapter ---- *)

(* at least one attempt, at most 1 + total *)
Lemma send_retry_attempts : forall sts t c r net k,
  (k < snd (send_retry sts t c r net k) <= k + S t)%nat.
Proof.
  induction t as [|t IH]; intros c r net k; simpl.
  - destruct (net k) as [ | | |x]; simpl; try lia. destruct (forced sts (r_status x)); simpl; lia.
  - destruct (net k) as [ | | |x]; simpl; try lia.
    + destruct c as [|c]; simpl; [lia|]. specialize (IH c r net (S k)). lia.
    + destruct r as [|r]; simpl; [lia|]. specialize (IH c r net (S k)). lia.
    + destruct (forced sts (r_status x)); simpl; [|lia]. specialize (IH c r net (S k)). lia.
Qed.

(* m <= total attempts fail in a way that is retried, the next one does not: its answer is the outcome, after m + 1 attempts *)
Lemma send_retry_masked : forall sts m t c r net k,
  (m <= t)%nat -> (t <= c)%nat -> (t <= r)%nat ->
  (forall j, (j < m)%nat -> retryable sts (net (k + j)%nat) = true) ->
  retryable sts (net (k + m)%nat) = false ->
  send_retry sts t c r net k = (final (net (k + m)%nat), S (k + m)).
Proof.
  induction m as [|m IH]; intros t c r net k Hm Hc Hr Hall Hfin.
  - rewrite Nat.add_0_r in *. destruct t; simpl; destruct (net k) as [ | | |x]; simpl in *; try discriminate; try reflexivity;
      rewrite Hfin; reflexivity.
  - destruct t as [|t]; [lia|].
    assert (H0 : retryable sts (net k) = true) by (specialize (Hall O); rewrite Nat.add_0_r in Hall; apply Hall; lia).
    assert (Hshift : forall j, (j < m)%nat -> retryable sts (net (S k + j)%nat) = true).
    { intros j Hj. specialize (Hall (S j)). replace (S k + j)%nat with (k + S j)%nat by lia. apply Hall. lia. }
    assert (Hfin' : retryable sts (net (S k + m)%nat) = false) by (replace (S k + m)%nat with (k + S m)%nat by lia; exact Hfin).
    simpl. destruct (net k) as [ | | |x] eqn:E; simpl in H0; try discriminate.
    + destruct c as [|c]; [lia|]. rewrite (IH t c r net (S k)); try lia; auto.
      replace (S k + m)%nat with (k + S m)%nat by lia. reflexivity.
    + destruct r as [|r]; [lia|]. rewrite (IH t c r net (S k)); try lia; auto.
      replace (S k + m)%nat with (k + S m)%nat by lia. reflexivity.
    + rewrite H0. rewrite (IH t c r net (S k)); try lia; auto.
      replace (S k + m)%nat with (k + S m)%nat by lia. reflexivity.
Qed.

(* 1 + total attempts fail in a way that is retried: the send raises after exactly 1 + total attempts *)
Lemma send_retry_exhausted : forall sts t c r net k,
  (t <= c)%nat -> (t <= r)%nat ->
  (forall j, (j <= t)%nat -> retryable sts (net (k + j)%nat) = true) ->
  send_retry sts t c r net k = (TExhausted, S (k + t)).
Proof.
  induction t as [|t IH]; intros c r net k Hc Hr Hall.
  - specialize (Hall O). rewrite Nat.add_0_r in *. simpl. destruct (net k) as [ | | |x]; simpl in *; try reflexivity.
    + discriminate Hall. lia.
    + rewrite Hall by lia. reflexivity.
  - assert (H0 : retryable sts (net k) = true) by (specialize (Hall O); rewrite Nat.add_0_r in Hall; apply Hall; lia).
    assert (Hshift : forall j, (j <= t)%nat -> retryable sts (net (S k + j)%nat) = true).
    { intros j Hj. specialize (Hall (S j)). replace (S k + j)%nat with (k + S j)%nat by lia. apply Hall. lia. }
    simpl. destruct (net k) as [ | | |x] eqn:E; simpl in H0; try discriminate.
    + destruct c as [|c]; [lia|]. rewrite (IH c r net (S k)); try lia; auto. f_equal. lia.
    + destruct r as [|r]; [lia|]. rewrite (IH c r net (S k)); try lia; auto. f_equal. lia.
    + rewrite H0. rewrite (IH c r net (S k)); try lia; auto. f_equal. lia.
Qed.

Lemma gen_retry_counters : (rt_total gen_retry <= rt_connect gen_retry)%nat /\ (rt_total gen_retry <= rt_read gen_retry)%nat.
Proof. vm_compute. split; repeat constructor. Qed.

Theorem transport_attempts : forall net,
  (1 <= snd (send_cfg gen_retry net) <= S (rt_total gen_retry))%nat.
Proof. intros net. unfold send_cfg. pose proof (send_retry_attempts (rt_statuses gen_retry) (rt_total gen_retry) (rt_connect gen_retry) (rt_read gen_retry) net 0). lia. Qed.

Theorem transport_masked : forall net m,
  (m <= rt_total gen_retry)%nat ->
  (forall j, (j < m)%nat -> retryable (rt_statuses gen_retry) (net j) = true) ->
  retryable (rt_statuses gen_retry) (net m) = false ->
  send_cfg gen_retry net = (final (net m), S m).
Proof.
  intros net m Hm Hall Hfin. unfold send_cfg. destruct gen_retry_counters as [Hc Hr].
  exact (send_retry_masked _ m _ _ _ net 0%nat Hm Hc Hr Hall Hfin).
Qed.

Theorem transport_exhausted : forall net,
  (forall j, (j <= rt_total gen_retry)%nat -> retryable (rt_statuses gen_retry) (net j) = true) ->
  send_cfg gen_retry net = (TExhausted, S (rt_total gen_retry)).
Proof.
  intros net Hall. unfold send_cfg. destruct gen_retry_counters as [Hc Hr].
  exact (send_retry_exhausted _ _ _ _ net 0%nat Hc Hr Hall).
Qed.

(* a server that answers every attempt of a request in the same way *)
Theorem transport_persistent : forall (a : range -> answer) r,
  via_retry gen_retry (fun r _ => a r) r =
  match a r with AResp x => if forced (rt_statuses gen_retry) (r_status x) then None else Some x | _ => None end.
Proof.
  intros a r. unfold via_retry.
  destruct (retryable (rt_statuses gen_retry) (a r)) eqn:E.
  - rewrite transport_exhausted by (intros; exact E). simpl.
    destruct (a r) as [ | | |x]; simpl in *; try reflexivity; try discriminate. rewrite E. reflexivity.
  - rewrite (transport_masked (fun _ => a r) 0%nat) by (try lia; try exact E; intros; lia). simpl.
    destruct (a r) as [ | | |x]; simpl in *; try reflexivity; try discriminate. rewrite E. reflexivity.
Qed.

(* a range request made through the session fails exactly when one is made and the adapter gives up, the body cannot be read, or
   the answer that ends the attempts carries a client / server error status *)
Theorem transport_request_fails_iff : forall net pos n,
  stream_fails gen_stream_read (via_retry gen_retry net) (pos, n) =
  negb (n =? 0) && match fst (send_cfg gen_retry (net (pos, n))) with
                   | TResp x => (400 <=? r_status x) && (r_status x <? 600)
                   | _ => true
                   end.
Proof.
  intros net pos n. rewrite stream_fails_gen. unfold via_retry.
  destruct (fst (send_cfg gen_retry (net (pos, n)))); reflexivity.
Qed.

(* ---- what the transport keeps between requests ---- *)

Lemma transport_kept_nothing : gen_transport_kept = TkNothing.
Proof. reflexivity. Qed.

Theorem history_nothing_kept : forall sends free, slot_history gen_transport_kept free sends = Some free.
Proof. rewrite transport_kept_nothing. induction sends as [|b t IH]; intros free; simpl; auto. Qed.

(* a pool whose slot comes back however the send ends never runs dry, whatever the history *)
Theorem history_released_in_finally : forall c sends, slot_history (TkSlots (S c) true) (S c) sends = Some (S c).
Proof.
  intros c. induction sends as [|b t IH]; simpl; auto.
  rewrite andb_false_r. exact IH.
Qed.

Lemma slot_history_leak_count : forall c sends free,
  (length (filter (fun b => b) sends) < free)%nat ->
  slot_history (TkSlots c false) free sends = Some (free - length (filter (fun b => b) sends))%nat.
Proof.
  intros c. induction sends as [|b t IH]; intros free H; simpl in *.
  - f_equal. lia.
  - destruct free as [|f]; [lia|]. destruct b; simpl in *.
    + rewrite IH by lia. f_equal.
    + rewrite IH by lia. f_equal.
Qed.

(* a pool whose slot is lost when send raises: fewer failed sends than slots show nothing ... *)
Theorem history_leak_invisible : forall c sends,
  (length (filter (fun b => b) sends) < c)%nat -> slot_history (TkSlots c false) c sends <> None.
Proof. intros c sends H. rewrite slot_history_leak_count by exact H. discriminate. Qed.

(* ... and after `capacity` failed sends - spread over any queries, with any number of successful sends in between - every later
   send blocks for ever, on a healthy server too *)
Lemma slot_history_dry : forall cap later l free,
  length (filter (fun b => b) l) = free -> slot_history (TkSlots cap false) free (l ++ false :: later) = None.
Proof.
  intros cap later. induction l as [|x l IHl]; intros free Hl; simpl in *.
  - subst free. reflexivity.
  - destruct free as [|f]; [reflexivity|]. destruct x; simpl in *.
    + injection Hl as Hl. exact (IHl f Hl).
    + exact (IHl (S f) Hl).
Qed.

Theorem history_leak_blocks : forall c sends later,
  length (filter (fun b => b) sends) = c -> slot_history (TkSlots c false) c (sends ++ false :: later) = None.
Proof. intros c sends later H. exact (slot_history_dry c later sends c H). Qed.

(* ---- the strategies over the transport ---- *)
Theorem queue_over_transport : forall file net ranges n ps, (1 <= n)%nat ->
  Sorted.StronglySorted (fun a b : range => fst a < fst b) ranges ->
  preach gen_worker_prog file (stream_fails gen_stream_read (via_retry gen_retry net)) (pinit gen_main_prog ranges (gen_fetch_workers n)) ps ->
  main_done (p_s ps) = true ->
  if existsb (stream_fails gen_stream_read (via_retry gen_retry net)) ranges
  then exists r, s_status (p_s ps) = MRaised r /\ In r ranges /\ stream_fails gen_stream_read (via_retry gen_retry net) r = true
  else s_status (p_s ps) = MReturned /\ s_buf (p_s ps) = local_read file ranges.
Proof.
  intros file net ranges n ps Hn Hso Hr Hd.
  destruct (existsb (stream_fails gen_stream_read (via_retry gen_retry net)) ranges) eqn:E.
  - rewrite fetch_workers_id in Hr. apply existsb_exists in E as (r0 & Hin0 & Hf0).
    exact (prologue_failure_raises file (stream_fails gen_stream_read (via_retry gen_retry net)) ranges n ps Hn Hr Hd
             (ex_intro _ r0 (conj Hin0 Hf0))).
  - pose proof (queue_http file (via_retry gen_retry net) ranges n ps Hn Hso Hr Hd) as H. rewrite E in H. exact H.
Qed.
