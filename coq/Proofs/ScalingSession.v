(* C11: sessions (Model/Scaling.v section 4): a writer / appender kept open while the caller edits its header and
   record, every assignment route, values that are themselves views.
   The point: the arrays an open writer refers to are its own (LasWriter deep-copies the header it is given:
   gen_writer_copies_header, regenerated from the source), no operation of the caller can reach them, so the
   scaling every chunk is rescaled to and the scaling written at close are the ones the writer was opened with. *)
From Coq Require Import ZArith QArith Qabs List Bool Lia Lqa ZifyBool.
From LasV Require Import Lib.Base Gen.GenScaling Model.Scaling Proofs.ScalingProofs.
Import ListNotations.
Open Scope list_scope.
Open Scope Z_scope.

Section SessionProofs.
  Variable T : Type.
  Variable present : Z -> T -> T -> T.
  Variable store restore : T -> T -> T -> result Z.
  Variable teqb : T -> T -> bool.
  Variable d : T.
  Hypothesis store_fits : forall v s o X, store v s o = Ok X -> fitsP X.
  Hypothesis restore_fits : forall v s o X, restore v s o = Ok X -> fitsP X.
  Hypothesis store_err : forall v s o e, store v s o = Err e -> e = EOverflow.
  Hypothesis restore_err : forall v s o e, restore v s o = Err e -> e = EOverflow.

  Notation st := (st T).
  Notation sst := (sst T).
  Notation step := (step T present store restore teqb d).
  Notation sstep := (sstep T present store restore teqb d).
  Notation srun := (srun T present store restore teqb d).
  Notation write_points := (write_points T present restore teqb d).
  Notation get := (get T).
  Notation alloc := (alloc T).
  Notation wfT := (@wf T).

  (* ---- the frame of an operation ---- *)
  Definition refs (s : st) : list nat := [h_s s; h_o s; r_s s; r_o s].

  (* arrays are only ever added; an array that existed changes only if the header or the record refers to it;
     afterwards the header and the record refer to arrays they referred to before, or to new ones *)
  Definition frame (s s' : st) : Prop :=
    (length (heap s) <= length (heap s'))%nat /\
    (forall i, (i < length (heap s))%nat -> ~ In i (refs s) -> get (heap s') i = get (heap s) i) /\
    (forall i, In i (refs s') -> In i (refs s) \/ (length (heap s) <= i)%nat).

  Lemma frame_same_objects : forall s s', same_objects s s' -> frame s s'.
  Proof.
    intros s s' (I & RS & RO & HS & HO & L & H). unfold frame, refs. split; [exact L|]. split.
    - intros i Hi _. apply H. exact Hi.
    - intros i Hi. left. rewrite RS, RO, HS, HO in Hi. exact Hi.
  Qed.

  Lemma frame_same : forall s s', heap s' = heap s -> (forall i, In i (refs s') -> In i (refs s)) -> frame s s'.
  Proof.
    intros s s' H R. unfold frame. rewrite H. split; [lia|]. split; [reflexivity|]. intros i Hi. left. apply R. exact Hi.
  Qed.

  Lemma get_set_at_other : forall (h : list (list T)) i j x, i <> j -> get (set_at h i x) j = get h j.
  Proof. intros h i j x H. unfold Scaling.get. apply nth_set_at_other. exact H. Qed.

  Ltac refs_case Hi :=
    unfold refs in Hi; cbn [heap h_s h_o r_s r_o ints In] in Hi;
    destruct Hi as [<-|[<-|[<-|[<-|[]]]]];
    first [left; unfold refs; cbn [In heap h_s h_o r_s r_o ints]; tauto
          |right; rewrite ?app_length; cbn [length]; lia].

  Lemma assign_axes_refs : forall axes s k vals,
    let r := assign_axes T store d s axes k vals in
    heap (fst r) = heap s /\ h_s (fst r) = h_s s /\ h_o (fst r) = h_o s /\ r_s (fst r) = r_s s /\ r_o (fst r) = r_o s.
  Proof.
    intros axes. induction axes as [|a r IH]; intros s k vals; cbn [Scaling.assign_axes]; [cbn; auto|].
    pose proof (lasdata_assign_refs T store d store_err false s a (nth k vals [])) as H. cbv zeta in H.
    cbn [Scaling.sync] in H.
    destruct (lasdata_assign T store d false s a (nth k vals [])) as [s1 x]. cbn [fst snd] in *.
    destruct H as (A & B & C & D & E).
    destruct x; cbn [fst]; [|auto|auto].
    specialize (IH s1 (S k) vals). cbv zeta in IH. destruct IH as (A' & B' & C' & D' & E').
    rewrite A', B', C', D', E'. auto.
  Qed.

  Lemma assign_view_refs : forall s a idx vals,
    let r := assign_view T store d s a idx vals in
    heap (fst r) = heap s /\ h_s (fst r) = h_s s /\ h_o (fst r) = h_o s /\ r_s (fst r) = r_s s /\ r_o (fst r) = r_o s.
  Proof.
    intros s a idx vals. unfold Scaling.assign_view. destruct vals as [|v0 vr]; [cbn; auto|].
    destruct (mapM _ _) as [xs|e]; [|cbn; auto]. destruct (Nat.eqb _ _); cbn; auto.
  Qed.

  Lemma step_frame : forall s o, wfT s -> frame s (fst (step s o)).
  Proof.
    intros s o W. destruct o as [a|a|ax v|ax v|ax vals|vals|ax vals|ns no| |ws wo].
    - cbn [Scaling.step Scaling.alloc fst snd heap h_s h_o r_s r_o ints]. unfold frame. cbn [heap].
      split; [rewrite app_length; cbn; lia|]. split.
      + intros i Hi _. apply (get_app_old T). exact Hi.
      + intros i Hi. refs_case Hi.
    - cbn [Scaling.step Scaling.alloc fst snd heap h_s h_o r_s r_o ints]. unfold frame. cbn [heap].
      split; [rewrite app_length; cbn; lia|]. split.
      + intros i Hi _. apply (get_app_old T). exact Hi.
      + intros i Hi. refs_case Hi.
    - cbn [Scaling.step fst heap]. unfold frame. cbn [heap]. split; [rewrite set_at_length; lia|]. split.
      + intros i Hi N. apply get_set_at_other. intro E. apply N. subst i. unfold refs. cbn. auto.
      + intros i Hi. refs_case Hi.
    - cbn [Scaling.step fst heap]. unfold frame. cbn [heap]. split; [rewrite set_at_length; lia|]. split.
      + intros i Hi N. apply get_set_at_other. intro E. apply N. subst i. unfold refs. cbn. auto.
      + intros i Hi. refs_case Hi.
    - destruct (step_assign_spec T present store restore teqb d store_err s ax vals) as (A & B & C & D & E & _).
      apply frame_same; [exact A|]. intros i Hi. unfold refs in *. rewrite B, C, D, E in Hi. cbn [In] in *. tauto.
    - cbn [Scaling.step].
      destruct (assign_axes_refs gen_xyz_axes (sync T gen_xyz_syncs s) 0 vals) as (A & B & C & D & E).
      assert (S : heap (sync T gen_xyz_syncs s) = heap s /\ h_s (sync T gen_xyz_syncs s) = h_s s /\ h_o (sync T gen_xyz_syncs s) = h_o s
                  /\ In (r_s (sync T gen_xyz_syncs s)) (refs s) /\ In (r_o (sync T gen_xyz_syncs s)) (refs s)).
      { destruct gen_xyz_syncs; unfold refs; cbn; tauto. }
      destruct S as (S1 & S2 & S3 & S4 & S5).
      apply frame_same; [congruence|]. intros i Hi. unfold refs in Hi. rewrite B, C, D, E, S2, S3 in Hi.
      cbn [In] in Hi. destruct Hi as [<-|[<-|[<-|[<-|[]]]]]; unfold refs; cbn [In]; auto.
    - destruct (step_rec_assign_spec T present store restore teqb d store_err s ax vals) as (A & B & C & D & E & _).
      apply frame_same; [exact A|]. intros i Hi. unfold refs in *. rewrite B, C, D, E in Hi. exact Hi.
    - cbn [Scaling.step]. unfold Scaling.rec_change_scaling.
      destruct ns as [a|], no as [b|]; cbn [Scaling.alloc fst snd heap h_s h_o r_s r_o ints];
        match goal with |- context [new_columns ?A ?B ?C ?D ?E ?F ?G] => destruct (new_columns A B C D E F G) as [cols|e] end;
        cbn [fst snd heap h_s h_o r_s r_o ints]; unfold frame; cbn [heap];
        (split; [rewrite ?app_length; cbn [length]; lia|]); (split; [|intros i Hi; refs_case Hi]);
        intros i Hi _; rewrite ?(get_app_old T) by (rewrite ?app_length; cbn [length]; lia); reflexivity.
    - apply frame_same_objects. exact (proj1 (step_write_spec T present store restore teqb d restore_fits restore_err s W)).
    - apply frame_same_objects. exact (proj1 (step_stream_spec T present store restore teqb d restore_fits restore_err s ws wo W)).
  Qed.

  (* ---- an open writer is out of the caller's reach ---- *)
  Definition sep (s : st) (w : wsess) : Prop :=
    (w_s w < length (heap s))%nat /\ (w_o w < length (heap s))%nat /\ ~ In (w_s w) (refs s) /\ ~ In (w_o w) (refs s).

  Lemma sep_frame : forall s s' w, sep s w -> frame s s' ->
    sep s' w /\ get (heap s') (w_s w) = get (heap s) (w_s w) /\ get (heap s') (w_o w) = get (heap s) (w_o w).
  Proof.
    intros s s' w (A & B & C & D) (L & H & R). split; [|split; [apply H; assumption|apply H; assumption]].
    unfold sep. split; [lia|]. split; [lia|]. split; intro Hi; apply R in Hi; destruct Hi as [Hi|Hi]; auto; lia.
  Qed.

  Lemma sep_cols : forall s w c, sep s w -> sep s (mkws (w_s w) (w_o w) c).
  Proof. intros s w c H. exact H. Qed.

  Definition swf (ss : sst) : Prop :=
    wfT (base ss) /\ match wr ss with Some w => sep (base ss) w | None => True end.

  (* ---- every session operation keeps the record's integers in range and has a frame ---- *)
  Lemma Forall_nth_nil : forall (cols : list (list Z)) k, cols_fit cols -> Forall fitsP (nth k cols []).
  Proof.
    intros cols k H. destruct (Nat.lt_ge_cases k (length cols)) as [L|L].
    - unfold cols_fit in H. rewrite Forall_forall in H. apply H. apply nth_In. exact L.
    - rewrite nth_overflow by exact L. constructor.
  Qed.

  Lemma set_many_fit : forall idx col xs, Forall fitsP col -> Forall fitsP xs -> Forall fitsP (set_many col idx xs).
  Proof.
    intros idx. induction idx as [|i ir IH]; intros col xs Hc Hx; cbn [set_many]; [exact Hc|].
    destruct xs as [|x xr]; [exact Hc|]. inversion Hx; subst. apply IH; [|assumption].
    apply Forall_set_at; assumption.
  Qed.

  Lemma assign_view_wf : forall s a idx vals, wfT s -> wfT (fst (assign_view T store d s a idx vals)).
  Proof.
    intros s a idx vals W. unfold Scaling.assign_view. destruct vals as [|v0 vr]; [exact W|].
    destruct (mapM _ (v0 :: vr)) as [xs|e] eqn:M; [|exact W].
    destruct (Nat.eqb _ _); [|exact W]. cbn [fst].
    destruct W as [H1 H2 H3 H4 H5]. constructor; cbn [heap h_s h_o r_s r_o ints]; auto.
    unfold cols_fit. apply Forall_set_at; [exact H5|].
    apply set_many_fit.
    - apply Forall_nth_nil. exact H5.
    - apply mapM_ok in M. eapply Forall2_Forall_r; [exact M|]. intros v X Hv. eapply store_fits. exact Hv.
  Qed.

  Lemma alloc2_wf_sep : forall s a b, wfT s ->
    let s2 := mkst ((heap s ++ [a]) ++ [b]) (h_s s) (h_o s) (r_s s) (r_o s) (ints s) in
    forall c, wfT s2 /\ sep s2 (mkws (length (heap s)) (length (heap s ++ [a])) c) /\ same_objects s s2
              /\ get (heap s2) (length (heap s)) = a /\ get (heap s2) (length (heap s ++ [a])) = b.
  Proof.
    intros s a b W s2 c. destruct (alloc2_facts T s a b W) as (W2 & SO & Ga & Gb & _ & _). fold s2 in W2, SO, Ga, Gb.
    split; [exact W2|]. split; [|auto].
    destruct W as [H1 H2 H3 H4 H5]. unfold sep, refs. subst s2. cbn [w_s w_o heap h_s h_o r_s r_o In].
    rewrite !app_length. cbn [length]. repeat split; try lia.
  Qed.

  Lemma sstep_base : forall ss o, swf ss ->
    wfT (base (fst (sstep ss o))) /\ frame (base ss) (base (fst (sstep ss o))).
  Proof.
    intros ss o [W S]. destruct ss as [s wo]. cbn [base wr] in *.
    destruct o as [o|a v|a v|a v|a idx v|vals|a|a|ax v|ax v| |ws wo' pre| | ]; cbn [Scaling.sstep base wr with_base fst snd].
    - split; [apply step_wf; assumption|apply step_frame; exact W].
    - split; [apply step_wf; assumption|apply step_frame; exact W].
    - split; [apply lasdata_assign_wf; assumption|].
      destruct (lasdata_assign_refs T store d store_err false s a (vsrc_vals T present d s v)) as (A & B & C & D & E).
      cbn [Scaling.sync] in D, E. apply frame_same; [exact A|]. intros i Hi. unfold refs in *. rewrite B, C, D, E in Hi. exact Hi.
    - split; [apply assign_rec_wf; assumption|].
      destruct (assign_rec_spec T store d store_err s a (vsrc_vals T present d s v)) as (A & B & C & D & E & _).
      apply frame_same; [exact A|]. intros i Hi. unfold refs in *. rewrite B, C, D, E in Hi. exact Hi.
    - split; [apply assign_view_wf; assumption|].
      destruct (assign_view_refs s a idx (vsrc_vals T present d s v)) as (A & B & C & D & E).
      apply frame_same; [exact A|]. intros i Hi. unfold refs in *. rewrite B, C, D, E in Hi. exact Hi.
    - split; [apply assign_axes_wf; assumption|].
      destruct (assign_axes_refs [0; 1; 2]%nat s 0 vals) as (A & B & C & D & E).
      apply frame_same; [exact A|]. intros i Hi. unfold refs in *. rewrite B, C, D, E in Hi. exact Hi.
    - cbn [Scaling.alloc fst snd base heap h_s h_o r_s r_o ints]. destruct W as [H1 H2 H3 H4 H5]. split.
      + constructor; cbn [heap h_s h_o r_s r_o ints]; rewrite ?app_length; cbn [length]; try lia. exact H5.
      + unfold frame. cbn [heap]. split; [rewrite app_length; cbn; lia|]. split.
        * intros i Hi _. apply (get_app_old T). exact Hi.
        * intros i Hi. refs_case Hi.
    - cbn [Scaling.alloc fst snd base heap h_s h_o r_s r_o ints]. destruct W as [H1 H2 H3 H4 H5]. split.
      + constructor; cbn [heap h_s h_o r_s r_o ints]; rewrite ?app_length; cbn [length]; try lia. exact H5.
      + unfold frame. cbn [heap]. split; [rewrite app_length; cbn; lia|]. split.
        * intros i Hi _. apply (get_app_old T). exact Hi.
        * intros i Hi. refs_case Hi.
    - destruct W as [H1 H2 H3 H4 H5]. split.
      + constructor; cbn [heap h_s h_o r_s r_o ints]; rewrite ?set_at_length; auto.
      + unfold frame. cbn [heap]. split; [rewrite set_at_length; lia|]. split.
        * intros i Hi N. apply get_set_at_other. intro E. apply N. subst i. unfold refs. cbn. auto.
        * intros i Hi. refs_case Hi.
    - destruct W as [H1 H2 H3 H4 H5]. split.
      + constructor; cbn [heap h_s h_o r_s r_o ints]; rewrite ?set_at_length; auto.
      + unfold frame. cbn [heap]. split; [rewrite set_at_length; lia|]. split.
        * intros i Hi N. apply get_set_at_other. intro E. apply N. subst i. unfold refs. cbn. auto.
        * intros i Hi. refs_case Hi.
    - change gen_writer_copies_header with true. cbn [Scaling.alloc fst snd base heap h_s h_o r_s r_o ints].
      destruct (alloc2_wf_sep s (get (heap s) (h_s s)) (get (heap s ++ [get (heap s) (h_s s)]) (h_o s)) W [[]; []; []]) as (W2 & _ & SO & _).
      split; [exact W2|apply frame_same_objects; exact SO].
    - cbn [Scaling.alloc fst snd base heap h_s h_o r_s r_o ints].
      destruct (alloc2_wf_sep s ws wo' W pre) as (W2 & _ & SO & _).
      split; [exact W2|apply frame_same_objects; exact SO].
    - destruct wo as [w|]; cbn [base]; [|split; [exact W|apply frame_same_objects, same_objects_refl]].
      destruct (write_points_spec T present restore teqb d restore_fits restore_err s (w_s w) (w_o w) W) as [E _].
      assert (B : base (fst (match snd (write_points s (w_s w) (w_o w)) with
                             | OFile f => (mksst (fst (write_points s (w_s w) (w_o w))) (Some (mkws (w_s w) (w_o w) (app_cols (w_cols w) (f_ints f)))), ONone)
                             | x => (mksst (fst (write_points s (w_s w) (w_o w))) (Some w), x)
                             end)) = s).
      { destruct (snd (write_points s (w_s w) (w_o w))); cbn [fst base]; exact E. }
      rewrite B. split; [exact W|apply frame_same_objects, same_objects_refl].
    - destruct wo as [w|]; cbn [base fst]; (split; [exact W|apply frame_same_objects, same_objects_refl]).
  Qed.

  (* which writer is open after an operation *)
  Definition keeps (o : sop T) : bool :=
    match o with SOpenHdr | SOpenWith _ _ _ | SClose => false | _ => true end.

  Lemma sstep_wr_keeps : forall ss o w, wr ss = Some w -> keeps o = true ->
    exists c, wr (fst (sstep ss o)) = Some (mkws (w_s w) (w_o w) c).
  Proof.
    intros [s wo] o w E K. cbn [wr] in E. subst wo. destruct w as [a b c].
    destruct o; try discriminate K; cbn [Scaling.sstep base wr with_base fst snd Scaling.alloc w_s w_o w_cols];
      try (exists c; reflexivity).
    destruct (snd (write_points s a b)); cbn [fst wr]; eexists; reflexivity.
  Qed.

  Lemma sstep_swf : forall ss o, swf ss -> swf (fst (sstep ss o)).
  Proof.
    intros ss o H. pose proof (sstep_base ss o H) as [W F]. split; [exact W|].
    destruct (keeps o) eqn:K.
    - destruct (wr ss) as [w|] eqn:E.
      + destruct (sstep_wr_keeps ss o w E K) as [c Ec]. rewrite Ec.
        destruct H as [_ S]. rewrite E in S. apply (sep_cols _ _ c). exact (proj1 (sep_frame _ _ _ S F)).
      + assert (N : wr (fst (sstep ss o)) = None).
        { destruct ss as [s wo]. cbn [wr] in E. subst wo.
          destruct o; try discriminate K; cbn [Scaling.sstep base wr with_base fst snd Scaling.alloc]; reflexivity. }
        rewrite N. exact I.
    - destruct ss as [s wo]. destruct H as [W0 _]. cbn [base] in W0.
      destruct o; try discriminate K; cbn [Scaling.sstep base wr with_base fst snd].
      + change gen_writer_copies_header with true. cbn [Scaling.alloc fst snd base wr heap h_s h_o r_s r_o ints].
        exact (proj1 (proj2 (alloc2_wf_sep s (get (heap s) (h_s s)) (get (heap s ++ [get (heap s) (h_s s)]) (h_o s)) W0 [[]; []; []]))).
      + cbn [Scaling.alloc fst snd base wr heap h_s h_o r_s r_o ints].
        exact (proj1 (proj2 (alloc2_wf_sep s ws wo0 W0 pre))).
      + destruct wo; cbn [fst wr]; exact I.
  Qed.

  Lemma srun_swf : forall ops ss, swf ss -> swf (fst (srun ss ops)).
  Proof.
    intros ops. induction ops as [|o r IH]; intros ss H; cbn [Scaling.srun]; [exact H|].
    pose proof (sstep_swf ss o H) as H1. destruct (sstep ss o) as [s1 x]. cbn [fst] in H1.
    specialize (IH s1 H1). destruct (srun s1 r) as [s2 xs]. exact IH.
  Qed.

  (* whatever the caller does while the writer stays open - header edits in place or by replacement, record scaling
     edits, assignments by any route, change_scaling, other writes, further chunks - the writer's arrays hold what they held *)
  Lemma srun_frozen : forall ops ss w, swf ss -> wr ss = Some w -> forallb keeps ops = true ->
    let ss' := fst (srun ss ops) in
    swf ss' /\ (exists c, wr ss' = Some (mkws (w_s w) (w_o w) c))
    /\ get (heap (base ss')) (w_s w) = get (heap (base ss)) (w_s w)
    /\ get (heap (base ss')) (w_o w) = get (heap (base ss)) (w_o w).
  Proof.
    intros ops. induction ops as [|o r IH]; intros ss w H E K; cbn [Scaling.srun].
    - cbn [fst]. split; [exact H|]. split; [exists (w_cols w); destruct w; exact E|auto].
    - cbn [forallb] in K. apply andb_true_iff in K. destruct K as [K1 K2].
      pose proof (sstep_swf ss o H) as H1. pose proof (sstep_base ss o H) as [_ F].
      destruct (sstep_wr_keeps ss o w E K1) as [c Ec].
      destruct H as [_ S]. rewrite E in S. destruct (sep_frame _ _ _ S F) as (_ & G1 & G2).
      destruct (sstep ss o) as [s1 x]. cbn [fst] in *.
      specialize (IH s1 (mkws (w_s w) (w_o w) c) H1 Ec K2). cbv zeta in IH. cbn [w_s w_o] in IH.
      destruct (srun s1 r) as [s2 xs]. cbn [fst] in *. destruct IH as (A & B & C & D).
      split; [exact A|]. split; [exact B|]. split; congruence.
  Qed.

  (* ---- opening ---- *)
  Lemma sstep_open_hdr : forall ss, swf ss ->
    let s := base ss in let r := sstep ss SOpenHdr in
    snd r = ONone /\ same_objects s (base (fst r)) /\
    exists w, wr (fst r) = Some w /\ w_cols w = [[]; []; []]
      /\ get (heap (base (fst r))) (w_s w) = get (heap s) (h_s s) /\ get (heap (base (fst r))) (w_o w) = get (heap s) (h_o s).
  Proof.
    intros [s wo] [W _] s0 r. subst s0 r. cbn [base] in *. cbn [Scaling.sstep base].
    change gen_writer_copies_header with true. cbn [Scaling.alloc fst snd base wr heap h_s h_o r_s r_o ints].
    destruct (alloc2_wf_sep s (get (heap s) (h_s s)) (get (heap s ++ [get (heap s) (h_s s)]) (h_o s)) W [[]; []; []]) as (_ & _ & SO & Ga & Gb).
    split; [reflexivity|]. split; [exact SO|]. eexists. split; [reflexivity|]. cbn [w_s w_o w_cols]. split; [reflexivity|].
    split; [exact Ga|]. cbn [heap] in Gb. etransitivity; [exact Gb|]. apply (get_app_old T). destruct W; assumption.
  Qed.

  Lemma sstep_open_with : forall ss ws wo pre, swf ss ->
    let s := base ss in let r := sstep ss (SOpenWith ws wo pre) in
    snd r = ONone /\ same_objects s (base (fst r)) /\
    exists w, wr (fst r) = Some w /\ w_cols w = pre
      /\ get (heap (base (fst r))) (w_s w) = ws /\ get (heap (base (fst r))) (w_o w) = wo.
  Proof.
    intros [s wo0] ws wo pre [W _] s0 r. subst s0 r. cbn [base] in *. cbn [Scaling.sstep base].
    cbn [Scaling.alloc fst snd base wr heap h_s h_o r_s r_o ints].
    destruct (alloc2_wf_sep s ws wo W pre) as (_ & _ & SO & Ga & Gb).
    split; [reflexivity|]. split; [exact SO|]. eexists. split; [reflexivity|]. cbn [w_s w_o w_cols]. auto.
  Qed.

  (* ---- one chunk ---- *)
  Definition chunk_outcome (ss : sst) (w : wsess) (r : sst * out T) : Prop :=
    let s := base ss in
    let rs := get (heap s) (r_s s) in let ro := get (heap s) (r_o s) in
    let ws := get (heap s) (w_s w) in let wo := get (heap s) (w_o w) in
    base (fst r) = s /\        (* the caller's objects are exactly as they were, whether the write succeeds or raises *)
    match snd r with
    | ONone => exists f, file_axes T present restore teqb d (ints s) rs ro ws wo f
                         /\ wr (fst r) = Some (mkws (w_s w) (w_o w) (app_cols (w_cols w) (f_ints f)))
    | OErr e => e = EOverflow /\ wr (fst r) = Some w /\ nth 0 (ints s) [] <> []
                /\ scaling_equal_c T teqb rs ro ws wo = false
                /\ exists k X, (k < 3)%nat /\ In X (nth k (ints s) []) /\
                     restore (present X (at3 T d rs k) (at3 T d ro k)) (at3 T d ws k) (at3 T d wo k) = Err EOverflow
    | OFile _ => False
    end.

  Lemma sstep_write : forall ss w, swf ss -> wr ss = Some w -> chunk_outcome ss w (sstep ss SWrite).
  Proof.
    intros [s wo] w [W _] E. cbn [wr base] in *. subst wo. unfold chunk_outcome. cbn [Scaling.sstep base wr].
    pose proof (write_points_spec T present restore teqb d restore_fits restore_err s (w_s w) (w_o w) W) as HS. cbv zeta in HS.
    assert (Wr : written T present restore teqb d s (get (heap s) (w_s w)) (get (heap s) (w_o w)) (write_points s (w_s w) (w_o w))).
    { unfold written. destruct HS as [F S]. rewrite F. split; [apply same_objects_refl|]. exact S. }
    apply written_outcome in Wr. unfold write_outcome in Wr. destruct HS as [F _].
    destruct (write_points s (w_s w) (w_o w)) as [s' x]. cbn [fst snd] in *. subst s'. destruct Wr as [_ Wr].
    destruct x as [|e|f]; cbn [fst snd base wr]; [contradiction| |].
    - split; [reflexivity|]. destruct Wr as (A & B & C & D). auto.
    - split; [reflexivity|]. exists f. auto.
  Qed.

  (* ---- closing: the file carries what the writer's arrays hold ---- *)
  Lemma sstep_close : forall ss w, wr ss = Some w ->
    sstep ss SClose = (mksst (base ss) None,
                       OFile (mkfile (get (heap (base ss)) (w_s w)) (get (heap (base ss)) (w_o w)) (w_cols w))).
  Proof. intros [s wo] w E. cbn [wr] in E. subst wo. reflexivity. Qed.
End SessionProofs.

Arguments swf {T}. Arguments keeps {T}.

(* ---- the two instances ---- *)
Lemma init_swf : forall T sc off cols, cols_fit cols -> swf (mksst (init T sc off cols) None).
Proof. intros T sc off cols H. split; [apply init_wf; exact H|exact I]. Qed.

Definition q_chunk_outcome := chunk_outcome Q q_present q_restore_checked Qeq_bool 0%Q.
Definition f_chunk_outcome := chunk_outcome fl f_present f_restore_checked fl_eqb None.

Lemma q_srun_swf : forall ops ss, swf ss -> swf (fst (q_srun ss ops)).
Proof. intros ops ss. apply srun_swf; [exact q_store_fits|exact q_restore_fits|exact q_store_err|exact q_restore_err]. Qed.
Lemma f_srun_swf : forall ops ss, swf ss -> swf (fst (f_srun ss ops)).
Proof. intros ops ss. apply srun_swf; [exact f_store_fits|exact f_restore_fits|exact f_store_err|exact f_rechecked_err]. Qed.

Lemma q_srun_frozen : forall ops ss w, swf ss -> wr ss = Some w -> forallb keeps ops = true ->
  let ss' := fst (q_srun ss ops) in
  swf ss' /\ (exists c, wr ss' = Some (mkws (w_s w) (w_o w) c))
  /\ get Q (heap (base ss')) (w_s w) = get Q (heap (base ss)) (w_s w)
  /\ get Q (heap (base ss')) (w_o w) = get Q (heap (base ss)) (w_o w).
Proof. intros ops ss w. apply srun_frozen; [exact q_store_fits|exact q_restore_fits|exact q_store_err|exact q_restore_err]. Qed.

Lemma f_srun_frozen : forall ops ss w, swf ss -> wr ss = Some w -> forallb keeps ops = true ->
  let ss' := fst (f_srun ss ops) in
  swf ss' /\ (exists c, wr ss' = Some (mkws (w_s w) (w_o w) c))
  /\ get fl (heap (base ss')) (w_s w) = get fl (heap (base ss)) (w_s w)
  /\ get fl (heap (base ss')) (w_o w) = get fl (heap (base ss)) (w_o w).
Proof. intros ops ss w. apply srun_frozen; [exact f_store_fits|exact f_restore_fits|exact f_store_err|exact f_rechecked_err]. Qed.

Lemma q_open_hdr : forall ss, swf ss ->
  let s := base ss in let r := q_sstep ss SOpenHdr in
  snd r = ONone /\ same_objects s (base (fst r)) /\
  exists w, wr (fst r) = Some w /\ w_cols w = [[]; []; []]
    /\ get Q (heap (base (fst r))) (w_s w) = get Q (heap s) (h_s s) /\ get Q (heap (base (fst r))) (w_o w) = get Q (heap s) (h_o s).
Proof. intros ss. apply sstep_open_hdr. Qed.

Lemma f_open_hdr : forall ss, swf ss ->
  let s := base ss in let r := f_sstep ss SOpenHdr in
  snd r = ONone /\ same_objects s (base (fst r)) /\
  exists w, wr (fst r) = Some w /\ w_cols w = [[]; []; []]
    /\ get fl (heap (base (fst r))) (w_s w) = get fl (heap s) (h_s s) /\ get fl (heap (base (fst r))) (w_o w) = get fl (heap s) (h_o s).
Proof. intros ss. apply sstep_open_hdr. Qed.

Lemma q_open_with : forall ss ws wo pre, swf ss ->
  let s := base ss in let r := q_sstep ss (SOpenWith ws wo pre) in
  snd r = ONone /\ same_objects s (base (fst r)) /\
  exists w, wr (fst r) = Some w /\ w_cols w = pre
    /\ get Q (heap (base (fst r))) (w_s w) = ws /\ get Q (heap (base (fst r))) (w_o w) = wo.
Proof. intros ss ws wo pre. apply sstep_open_with. Qed.

Lemma f_open_with : forall ss ws wo pre, swf ss ->
  let s := base ss in let r := f_sstep ss (SOpenWith ws wo pre) in
  snd r = ONone /\ same_objects s (base (fst r)) /\
  exists w, wr (fst r) = Some w /\ w_cols w = pre
    /\ get fl (heap (base (fst r))) (w_s w) = ws /\ get fl (heap (base (fst r))) (w_o w) = wo.
Proof. intros ss ws wo pre. apply sstep_open_with. Qed.

Lemma q_session_write : forall ss w, swf ss -> wr ss = Some w -> q_chunk_outcome ss w (q_sstep ss SWrite).
Proof. intros ss w. apply sstep_write; [exact q_restore_fits|exact q_restore_err]. Qed.
Lemma f_session_write : forall ss w, swf ss -> wr ss = Some w -> f_chunk_outcome ss w (f_sstep ss SWrite).
Proof. intros ss w. apply sstep_write; [exact f_restore_fits|exact f_rechecked_err]. Qed.

Lemma q_session_close : forall ss w, wr ss = Some w ->
  q_sstep ss SClose = (mksst (base ss) None, OFile (mkfile (get Q (heap (base ss)) (w_s w)) (get Q (heap (base ss)) (w_o w)) (w_cols w))).
Proof. intros ss w. apply sstep_close. Qed.
Lemma f_session_close : forall ss w, wr ss = Some w ->
  f_sstep ss SClose = (mksst (base ss) None, OFile (mkfile (get fl (heap (base ss)) (w_s w)) (get fl (heap (base ss)) (w_o w)) (w_cols w))).
Proof. intros ss w. apply sstep_close. Qed.

(* ---- a value that is a view is taken by what it presents; every route reduces to the assignments of section 3 ---- *)
Lemma sstep_attr_view : forall T present store restore teqb d ss a v,
  sstep T present store restore teqb d ss (SAttr a v)
  = with_base T ss (step T present store restore teqb d (base ss) (Assign a (vsrc_vals T present d (base ss) v))).
Proof. reflexivity. Qed.

Lemma sstep_recattr_view : forall T present store restore teqb d ss a v,
  sstep T present store restore teqb d ss (SRecAttr a v)
  = with_base T ss (step T present store restore teqb d (base ss) (RecAssign a (vsrc_vals T present d (base ss) v))).
Proof. reflexivity. Qed.

Lemma vsrc_other_vals : forall T present d s xs sc off,
  vsrc_vals T present d s (VOther xs sc off) = map (fun X => present X sc off) xs.
Proof. reflexivity. Qed.

Lemma vsrc_self_vals : forall T present d s a idx,
  vsrc_vals T present d s (VSelf a idx) = pick (presented T present d s a) d idx.
Proof. reflexivity. Qed.

Lemma view_value_spec : forall T present store restore teqb d ss a v,
  sstep T present store restore teqb d ss (SAttr a v)
  = with_base T ss (step T present store restore teqb d (base ss) (Assign a (vsrc_vals T present d (base ss) v)))
  /\ sstep T present store restore teqb d ss (SRecAttr a v)
  = with_base T ss (step T present store restore teqb d (base ss) (RecAssign a (vsrc_vals T present d (base ss) v)))
  /\ (forall xs sc off, vsrc_vals T present d (base ss) (VOther xs sc off) = map (fun X => present X sc off) xs)
  /\ (forall b idx, vsrc_vals T present d (base ss) (VSelf b idx) = pick (presented T present d (base ss) b) d idx).
Proof. intros. repeat split; reflexivity. Qed.

(* exact arithmetic: a view of another record with the SAME scale and offset hands its integers over unchanged;
   with another scale or offset every stored integer is the nearest one to the coordinate the view presents *)
Lemma q_view_same_grid : forall X s o, (0 < s)%Q -> q_store_checked (q_present X s o) s o = (if coord_fits X then Ok X else Err EOverflow).
Proof. intros X s o H. unfold q_store_checked. rewrite q_store_present by exact H. reflexivity. Qed.

Lemma q_view_other_grid : forall X sc off s o X', (0 < s)%Q ->
  q_store_checked (q_present X sc off) s o = Ok X' ->
  fitsP X' /\ (Qabs (q_present X' s o - q_present X sc off) <= s / 2)%Q.
Proof.
  intros X sc off s o X' Hs H. apply q_checked_ok in H. destruct H as [-> F]. split; [exact F|]. apply q_half_step. exact Hs.
Qed.

(* ---- round 6: augmented assignments (+=, -=, *=, /=) on scaled views ---- *)
(* the views define no in-place operator: `las.<axis>[idx] op= d` evaluates the view's binary operator on the coordinates
   presented - plain arithmetic, regenerated from ArrayView.__add__ ... - and assigns the result back by the same route *)
Lemma vsrc_selfop_vals : forall T present d s a idx g ds,
  vsrc_vals T present d s (VSelfOp a idx g ds) = map2 g (pick (presented T present d s a) d idx) ds.
Proof. reflexivity. Qed.

Lemma view_ops_shape :
  gen_view_inplace_falls_back = true
  /\ (forall x y, f_view_op BAdd x y = f_add x y) /\ (forall x y, f_view_op BSub x y = f_sub x y)
  /\ (forall x y, f_view_op BMul x y = f_mul x y) /\ (forall x y, f_view_op BDiv x y = f_div x y)
  /\ (forall x y, q_view_op BAdd x y = x + y)%Q /\ (forall x y, q_view_op BSub x y = x - y)%Q
  /\ (forall x y, q_view_op BMul x y = x * y)%Q /\ (forall x y, q_view_op BDiv x y = x / y)%Q.
Proof. repeat split. Qed.

Lemma inplace_routes : forall T present store restore teqb d ss a idx g ds,
  let v := VSelfOp a idx g ds in
  let vals := map2 g (pick (presented T present d (base ss) a) d idx) ds in
  sstep T present store restore teqb d ss (SAttr a v) = with_base T ss (step T present store restore teqb d (base ss) (Assign a vals))
  /\ sstep T present store restore teqb d ss (SItem a v) = with_base T ss (lasdata_assign T store d false (base ss) a vals)
  /\ sstep T present store restore teqb d ss (SRecAttr a v) = with_base T ss (step T present store restore teqb d (base ss) (RecAssign a vals))
  /\ sstep T present store restore teqb d ss (SView a idx v) = with_base T ss (assign_view T store d (base ss) a idx vals).
Proof. intros. repeat split; reflexivity. Qed.

(* a non-finite operand (nan, inf; also x * inf, x / 0): the result is non-finite whatever the coordinate, a non-finite value
   is refused by the range test (OverflowError), and a refused assignment stores nothing *)
Lemma f_view_op_nonfinite : forall b x, f_view_op b x None = None.
Proof. intros [] [x|]; reflexivity. Qed.

Lemma f_store_nonfinite : forall s o, f_store_checked None s o = Err EOverflow.
Proof. reflexivity. Qed.

Lemma f_inplace_nonfinite_vals : forall s a i ir b,
  exists r, vsrc_vals fl f_present None s (VSelfOp a (i :: ir) (f_view_op b) (repeat None (length (i :: ir)))) = None :: r.
Proof.
  intros. rewrite vsrc_selfop_vals. unfold map2, pick. cbn [map length repeat combine fst snd].
  rewrite f_view_op_nonfinite. eexists. reflexivity.
Qed.

Lemma f_inplace_nonfinite : forall ss a i ir b,
  let v := VSelfOp a (i :: ir) (f_view_op b) (repeat None (length (i :: ir))) in
  (let r := f_sstep ss (SRecAttr a v) in base (fst r) = base ss /\ snd r = OErr EOverflow)
  /\ (let r := f_sstep ss (SView a (i :: ir) v) in base (fst r) = base ss /\ snd r = OErr EOverflow)
  /\ (let r := f_sstep ss (SAttr a v) in ints (base (fst r)) = ints (base ss) /\ snd r = OErr EOverflow)
  /\ (let r := f_sstep ss (SItem a v) in ints (base (fst r)) = ints (base ss) /\ snd r = OErr EOverflow).
Proof.
  intros ss a i ir b v. destruct (f_inplace_nonfinite_vals (base ss) a i ir b) as [r E]. fold v in E.
  unfold f_sstep. cbn [Scaling.sstep]. rewrite E. unfold with_base.
  cbn [Scaling.step Scaling.assign_rec Scaling.assign_view Scaling.lasdata_assign Scaling.mapM fst snd base].
  repeat split; reflexivity.
Qed.
