(* Facts about the binary64 rounding rnd64 (Model/Scaling.v) and the binary64 interchange codec (Model/F64Bits.v):
   A. powers of two, the exponent of the last place, the binade structure shared by rounding and encoding;
   B. rnd64 is monotone, finite between finite results, and its results are binary64 values;
   C. the encoder is monotone for the order f64_key, its range; D. the codec round trips. *)
From Coq Require Import ZArith QArith Qabs Qpower Qround List Bool Lia Lqa.
From LasV Require Import Lib.Base Model.Las Model.Scaling Proofs.ScalingProofs Proofs.ScalingFloat Model.F64Bits.
Open Scope Z_scope.

Local Notation P e := (Qpower (inject_Z 2) e).

(* ------------------------------------------------------------------------------------------------ *)
(* A. powers of two                                                                                  *)
(* ------------------------------------------------------------------------------------------------ *)
Lemma P_ge1 : forall k, 0 <= k -> (1 <= P k)%Q.
Proof.
  intros k H. rewrite <- P_Z by exact H. change 1%Q with (inject_Z 1). rewrite <- Zle_Qle.
  pose proof (Z.pow_pos_nonneg 2 k ltac:(lia) H). lia.
Qed.

Lemma P_le : forall a b, a <= b -> (P a <= P b)%Q.
Proof.
  intros a b H. replace b with (a + (b - a)) by lia. rewrite P_plus.
  setoid_replace (P a) with (P a * 1)%Q at 1 by ring.
  apply Qmult_le_l; [apply P_pos|]. apply P_ge1. lia.
Qed.

Lemma P_lt_inv : forall a b, (P a < P b)%Q -> a < b.
Proof.
  intros a b H. destruct (Z_lt_le_dec a b) as [L|L]; [exact L|].
  apply P_le in L. apply Qle_not_lt in L. contradiction.
Qed.

Lemma P_inv : forall e, (P e * P (- e) == 1)%Q.
Proof. intros e. rewrite <- P_plus. replace (e + - e) with 0 by lia. reflexivity. Qed.

Lemma Qpos_num : forall q, (0 < q)%Q <-> 0 < Qnum q.
Proof. intros [n d]. unfold Qlt. cbn [Qnum Qden]. lia. Qed.

Lemma frac_pos : forall n d, 0 < n -> 0 < d -> (0 < inject_Z n / inject_Z d)%Q.
Proof.
  intros n d Hn Hd. apply Qlt_shift_div_l.
  - unfold Qlt, inject_Z; cbn [Qnum Qden]; lia.
  - rewrite Qmult_0_l. unfold Qlt, inject_Z; cbn [Qnum Qden]; lia.
Qed.

(* floor(log2 (n/d)) from above *)
Lemma flog2_upper : forall n d, 0 < n -> 0 < d -> (inject_Z n / inject_Z d < P (flog2 n d + 1))%Q.
Proof.
  intros n d Hn Hd. unfold flog2.
  pose proof (Z.log2_spec n Hn) as [_ Ln]. pose proof (Z.log2_spec d Hd) as [Ld _].
  pose proof (Z.log2_nonneg n) as Nn. pose proof (Z.log2_nonneg d) as Nd.
  set (a := Z.log2 n) in *. set (b := Z.log2 d) in *. set (k := a - b).
  assert (Dq : (0 < inject_Z d)%Q) by (unfold Qlt, inject_Z; cbn [Qnum Qden]; lia).
  assert (Generic : (inject_Z n / inject_Z d < P (k + 1))%Q).
  { apply Qlt_shift_div_r; [exact Dq|].
    apply Qlt_le_trans with (P (k + 1) * P b)%Q.
    - rewrite <- P_plus. replace (k + 1 + b) with (Z.succ a) by (subst k; lia).
      rewrite <- P_Z by lia. rewrite <- Zlt_Qlt. exact Ln.
    - apply Qmult_le_l; [apply P_pos|]. rewrite <- P_Z by lia. rewrite <- Zle_Qle. exact Ld. }
  destruct (0 <=? k) eqn:K.
  - apply Z.leb_le in K. destruct (d * 2 ^ k <=? n) eqn:C; [exact Generic|].
    apply Z.leb_gt in C. replace (k - 1 + 1) with k by lia.
    apply Qlt_shift_div_r; [exact Dq|].
    rewrite <- P_Z by exact K. rewrite <- inject_Z_mult, <- Zlt_Qlt. lia.
  - apply Z.leb_gt in K. destruct (d <=? n * 2 ^ (- k)) eqn:C; [exact Generic|].
    apply Z.leb_gt in C. replace (k - 1 + 1) with k by lia.
    apply Qlt_shift_div_r; [exact Dq|].
    assert (C' : (inject_Z n * P (- k) < inject_Z d)%Q).
    { rewrite <- P_Z by lia. rewrite <- inject_Z_mult, <- Zlt_Qlt. exact C. }
    apply Qle_lt_trans with (P k * (inject_Z n * P (- k)))%Q.
    + setoid_replace (P k * (inject_Z n * P (- k)))%Q with (inject_Z n * (P k * P (- k)))%Q by ring.
      rewrite P_inv, Qmult_1_r. apply Qle_refl.
    + apply Qmult_lt_l; [apply P_pos|exact C'].
Qed.

(* the exponent of the last place of q > 0: the e of rnd64_pos and of mag_enc *)
Definition ex (q : Q) : Z := Z.max (flog2 (Qnum q) (Zpos (Qden q)) - 52) (-1074).

Lemma ex_lo : forall q, -1074 <= ex q.
Proof. intros q. unfold ex. lia. Qed.

Lemma ex_hi : forall q, (0 < q)%Q -> (q < P (ex q + 53))%Q.
Proof.
  intros q Hq. apply Qpos_num in Hq.
  pose proof (flog2_upper (Qnum q) (Zpos (Qden q)) Hq ltac:(lia)) as U. rewrite <- Q_as_frac in U.
  eapply Qlt_le_trans; [exact U|]. apply P_le. unfold ex. lia.
Qed.

Lemma ex_normal : forall q, (0 < q)%Q -> -1074 < ex q -> (P (ex q + 52) <= q)%Q.
Proof.
  intros q Hq He. apply Qpos_num in Hq.
  pose proof (flog2_lower (Qnum q) (Zpos (Qden q)) Hq ltac:(lia)) as L. rewrite <- Q_as_frac in L.
  eapply Qle_trans; [|exact L]. apply P_le. unfold ex in *. lia.
Qed.

(* e is THE exponent of the last place of q *)
Lemma ex_unique : forall q e, (0 < q)%Q -> -1074 <= e -> (q < P (e + 53))%Q -> (-1074 < e -> (P (e + 52) <= q)%Q) ->
  ex q = e.
Proof.
  intros q e Hq He Hhi Hlo.
  pose proof (ex_lo q) as L0. pose proof (ex_hi q Hq) as H0. pose proof (ex_normal q Hq) as N0.
  destruct (Z.lt_trichotomy (ex q) e) as [L|[L|L]]; [|exact L|].
  - assert (A : (P (e + 52) < P (ex q + 53))%Q) by (eapply Qle_lt_trans; [apply Hlo; lia|exact H0]).
    apply P_lt_inv in A. lia.
  - assert (A : (P (ex q + 52) < P (e + 53))%Q) by (eapply Qle_lt_trans; [apply N0; lia|exact Hhi]).
    apply P_lt_inv in A. lia.
Qed.

(* the integer significand read by a monotone integer-valued g that fixes the integers (rhe: rounding; Qfloor: encoding) *)
Section Binade.
  Variable g : Q -> Z.
  Hypothesis g_mono : forall x y, (x <= y)%Q -> g x <= g y.
  Hypothesis g_Z : forall k, g (inject_Z k) = k.

  Definition sig (q : Q) : Z := g (q * P (- ex q)).

  Lemma scaled_hi : forall q, (0 < q)%Q -> (q * P (- ex q) < inject_Z (2 ^ 53))%Q.
  Proof.
    intros q Hq. rewrite P_Z by lia.
    setoid_replace (P 53) with (P (ex q + 53) * P (- ex q))%Q.
    - apply Qmult_lt_r; [apply P_pos|apply ex_hi; exact Hq].
    - rewrite <- P_plus. replace (ex q + 53 + - ex q) with 53 by lia. reflexivity.
  Qed.

  Lemma scaled_lo : forall q, (0 < q)%Q -> -1074 < ex q -> (inject_Z (2 ^ 52) <= q * P (- ex q))%Q.
  Proof.
    intros q Hq He. rewrite P_Z by lia.
    setoid_replace (P 52) with (P (ex q + 52) * P (- ex q))%Q.
    - apply Qmult_le_compat_r; [apply ex_normal; assumption|apply Qlt_le_weak, P_pos].
    - rewrite <- P_plus. replace (ex q + 52 + - ex q) with 52 by lia. reflexivity.
  Qed.

  Lemma sig_hi : forall q, (0 < q)%Q -> sig q <= 2 ^ 53.
  Proof.
    intros q Hq. unfold sig. rewrite <- (g_Z (2 ^ 53)). apply g_mono, Qlt_le_weak, scaled_hi, Hq.
  Qed.

  Lemma sig_lo : forall q, (0 < q)%Q -> -1074 < ex q -> 2 ^ 52 <= sig q.
  Proof.
    intros q Hq He. unfold sig. rewrite <- (g_Z (2 ^ 52)). apply g_mono, scaled_lo; assumption.
  Qed.

  Lemma sig_nonneg : forall q, (0 < q)%Q -> 0 <= sig q.
  Proof.
    intros q Hq. unfold sig. rewrite <- (g_Z 0). apply g_mono.
    apply Qmult_le_0_compat; apply Qlt_le_weak; [exact Hq|apply P_pos].
  Qed.

  (* two positive values: same binade grid and ordered significands, or the larger one is normal on a coarser grid *)
  Lemma binade_cases : forall q1 q2, (0 < q1)%Q -> (q1 <= q2)%Q ->
    (ex q1 = ex q2 /\ sig q1 <= sig q2) \/ (ex q1 < ex q2 /\ 2 ^ 52 <= sig q2).
  Proof.
    intros q1 q2 H1 H12. assert (H2 : (0 < q2)%Q) by (eapply Qlt_le_trans; eassumption).
    destruct (Z.lt_trichotomy (ex q1) (ex q2)) as [L|[L|L]].
    - right. split; [exact L|]. apply sig_lo; [exact H2|]. pose proof (ex_lo q1). lia.
    - left. split; [exact L|]. unfold sig. rewrite L. apply g_mono.
      apply Qmult_le_compat_r; [exact H12|apply Qlt_le_weak, P_pos].
    - exfalso. pose proof (ex_lo q2) as L2.
      assert (A : (P (ex q1 + 52) < P (ex q2 + 53))%Q).
      { eapply Qle_lt_trans; [apply ex_normal; [exact H1|lia]|].
        eapply Qle_lt_trans; [exact H12|apply ex_hi; exact H2]. }
      apply P_lt_inv in A. lia.
  Qed.
End Binade.

(* ------------------------------------------------------------------------------------------------ *)
(* B. rnd64                                                                                          *)
(* ------------------------------------------------------------------------------------------------ *)
Lemma rhe_mono : forall x y, (x <= y)%Q -> rhe x <= rhe y.
Proof.
  intros x y H. destruct (Z_le_gt_dec (rhe x) (rhe y)) as [L|G]; [exact L|exfalso].
  pose proof (rhe_half x) as Hx. pose proof (rhe_half y) as Hy.
  apply Qabs_Qle_condition in Hx. apply Qabs_Qle_condition in Hy.
  destruct Hx as [Hx1 Hx2]. destruct Hy as [Hy1 Hy2].
  assert (G' : (inject_Z (rhe y) + 1 <= inject_Z (rhe x))%Q).
  { change 1%Q with (inject_Z 1). rewrite <- inject_Z_plus, <- Zle_Qle. lia. }
  assert (E : (x == y)%Q) by lra.
  apply rhe_Qeq in E. lia.
Qed.

(* the integer significand computed by rnd64_pos is rhe (q / 2^e) *)
Lemma rnd64_m_sig : forall q, (0 < q)%Q ->
  (if 0 <=? ex q then rhe_frac (Qnum q) (Zpos (Qden q) * 2 ^ ex q) else rhe_frac (Qnum q * 2 ^ (- ex q)) (Zpos (Qden q)))
  = sig rhe q.
Proof.
  intros q Hq. unfold sig. set (e := ex q). destruct q as [n d]. cbn [Qnum Qden].
  assert (Dq : ~ (inject_Z (Zpos d) == 0)%Q) by (unfold Qeq, inject_Z; cbn [Qnum Qden]; lia).
  destruct (0 <=? e) eqn:E.
  - apply Z.leb_le in E.
    assert (Dp : 0 < Zpos d * 2 ^ e) by (apply Z.mul_pos_pos; [lia|apply Z.pow_pos_nonneg; lia]).
    transitivity (rhe (n # Z.to_pos (Zpos d * 2 ^ e))).
    + unfold rhe. cbn [Qnum Qden]. rewrite Z2Pos.id by exact Dp. reflexivity.
    + apply rhe_Qeq. rewrite (frac_inject n _ Dp), inject_Z_mult, (P_Z e E).
      rewrite (Q_as_frac (n # d)). cbn [Qnum Qden]. rewrite Qpower_opp. field. split; [apply P_ne0|exact Dq].
  - apply Z.leb_gt in E.
    transitivity (rhe (n * 2 ^ (- e) # d)); [reflexivity|].
    apply rhe_Qeq. rewrite (Qmake_inject (n * 2 ^ (- e)) d), inject_Z_mult, (P_Z (- e)) by lia.
    rewrite (Qmake_inject n d). ring.
Qed.

Lemma rnd64_pos_sig : forall q, (0 < q)%Q ->
  rnd64_pos (Qnum q) (Zpos (Qden q))
  = if (0 <=? ex q) && (2 ^ 1024 <=? sig rhe q * 2 ^ ex q) then None else Some (dyadic (sig rhe q) (ex q)).
Proof.
  intros q Hq. unfold rnd64_pos. fold (ex q). cbv zeta. rewrite (rnd64_m_sig q Hq). reflexivity.
Qed.

(* the value before the overflow test *)
Definition raw (q : Q) : Q := (inject_Z (sig rhe q) * P (ex q))%Q.

Lemma raw_nonneg : forall q, (0 < q)%Q -> (0 <= raw q)%Q.
Proof.
  intros q Hq. unfold raw. apply Qmult_le_0_compat; [|apply Qlt_le_weak, P_pos].
  change 0%Q with (inject_Z 0). rewrite <- Zle_Qle. apply (sig_nonneg rhe rhe_mono rhe_inject q Hq).
Qed.

Lemma P1024_big : (inject_Z (2 ^ 53) * 1 < P 1024)%Q.
Proof. rewrite <- P_Z by lia. rewrite Qmult_1_r, <- Zlt_Qlt. vm_compute. reflexivity. Qed.

Lemma rnd64_pos_cases : forall q, (0 < q)%Q ->
  (rnd64_pos (Qnum q) (Zpos (Qden q)) = None /\ (P 1024 <= raw q)%Q)
  \/ (exists r, rnd64_pos (Qnum q) (Zpos (Qden q)) = Some r /\ (r == raw q)%Q /\ (raw q < P 1024)%Q).
Proof.
  intros q Hq. rewrite (rnd64_pos_sig q Hq). unfold raw.
  pose proof (sig_hi rhe rhe_mono rhe_inject q Hq) as Mhi.
  pose proof (sig_nonneg rhe rhe_mono rhe_inject q Hq) as Mlo.
  set (m := sig rhe q) in *. set (e := ex q) in *.
  destruct (0 <=? e) eqn:E; cbn [andb].
  - apply Z.leb_le in E. destruct (2 ^ 1024 <=? m * 2 ^ e) eqn:O.
    + left. split; [reflexivity|]. apply Z.leb_le in O.
      rewrite <- (P_Z e E), <- inject_Z_mult, <- (P_Z 1024) by lia. rewrite <- Zle_Qle. exact O.
    + right. exists (dyadic m e). split; [reflexivity|]. split; [apply dyadic_eq|]. apply Z.leb_gt in O.
      rewrite <- (P_Z e E), <- inject_Z_mult, <- (P_Z 1024) by lia. rewrite <- Zlt_Qlt. exact O.
  - right. apply Z.leb_gt in E. exists (dyadic m e). split; [reflexivity|]. split; [apply dyadic_eq|].
    eapply Qle_lt_trans; [|exact P1024_big].
    apply Qle_trans with (inject_Z (2 ^ 53) * P e)%Q.
    + apply Qmult_le_compat_r; [rewrite <- Zle_Qle; exact Mhi|apply Qlt_le_weak, P_pos].
    + apply Qmult_le_l; [reflexivity|]. change 1%Q with (P 0). apply P_le. lia.
Qed.

Lemma raw_mono : forall q1 q2, (0 < q1)%Q -> (q1 <= q2)%Q -> (raw q1 <= raw q2)%Q.
Proof.
  intros q1 q2 H1 H12. unfold raw.
  destruct (binade_cases rhe rhe_mono rhe_inject q1 q2 H1 H12) as [[E M]|[E M]].
  - rewrite E. apply Qmult_le_compat_r; [rewrite <- Zle_Qle; exact M|apply Qlt_le_weak, P_pos].
  - pose proof (sig_hi rhe rhe_mono rhe_inject q1 H1) as Mhi.
    apply Qle_trans with (inject_Z (2 ^ 53) * P (ex q1))%Q.
    { apply Qmult_le_compat_r; [rewrite <- Zle_Qle; exact Mhi|apply Qlt_le_weak, P_pos]. }
    apply Qle_trans with (inject_Z (2 ^ 52) * P (ex q2))%Q.
    { rewrite !P_Z by lia. rewrite <- !P_plus. apply P_le. lia. }
    apply Qmult_le_compat_r; [rewrite <- Zle_Qle; exact M|apply Qlt_le_weak, P_pos].
Qed.

(* all signs *)
Definition rawQ (q : Q) : Q :=
  match Qnum q with Z0 => 0%Q | Zpos _ => raw q | Zneg _ => (- raw (- q))%Q end.

Lemma Qnum_pos : forall p d, (0 < Zpos p # d)%Q.
Proof. intros p d. unfold Qlt. cbn [Qnum Qden]. lia. Qed.

Lemma rnd64_cases : forall q,
  (rnd64 q = None /\ (P 1024 <= Qabs (rawQ q))%Q)
  \/ (exists r, rnd64 q = Some r /\ (r == rawQ q)%Q /\ (Qabs (rawQ q) < P 1024)%Q).
Proof.
  intros [[|p|p] d]; unfold rnd64, rawQ; cbn [Qnum Qden].
  - right. exists 0%Q. split; [reflexivity|]. split; [reflexivity|]. apply P_pos.
  - pose proof (Qnum_pos p d) as Hq. pose proof (raw_nonneg _ Hq) as Hr.
    destruct (rnd64_pos_cases (Zpos p # d) Hq) as [[E B]|(r & E & R & B)]; cbn [Qnum Qden] in E; rewrite E.
    + left. split; [reflexivity|]. rewrite (Qabs_pos _ Hr). exact B.
    + right. exists r. split; [reflexivity|]. split; [exact R|]. rewrite (Qabs_pos _ Hr). exact B.
  - change (- (Zneg p # d))%Q with (Zpos p # d).
    pose proof (Qnum_pos p d) as Hq. pose proof (raw_nonneg _ Hq) as Hr.
    destruct (rnd64_pos_cases (Zpos p # d) Hq) as [[E B]|(r & E & R & B)]; cbn [Qnum Qden] in E; rewrite E.
    + left. split; [reflexivity|]. rewrite Qabs_opp, (Qabs_pos _ Hr). exact B.
    + right. exists (- r)%Q. split; [reflexivity|]. split; [rewrite R; reflexivity|].
      rewrite Qabs_opp, (Qabs_pos _ Hr). exact B.
Qed.

Lemma rawQ_mono : forall q1 q2, (q1 <= q2)%Q -> (rawQ q1 <= rawQ q2)%Q.
Proof.
  intros [[|p1|p1] d1] [[|p2|p2] d2] H; unfold rawQ; cbn [Qnum Qden];
    try (exfalso; unfold Qle in H; cbn [Qnum Qden] in H; lia).
  - apply Qle_refl.
  - apply raw_nonneg, Qnum_pos.
  - apply raw_mono; [apply Qnum_pos|exact H].
  - change (- (Zneg p1 # d1))%Q with (Zpos p1 # d1).
    pose proof (raw_nonneg _ (Qnum_pos p1 d1)). lra.
  - change (- (Zneg p1 # d1))%Q with (Zpos p1 # d1).
    pose proof (raw_nonneg _ (Qnum_pos p1 d1)). pose proof (raw_nonneg _ (Qnum_pos p2 d2)). lra.
  - change (- (Zneg p1 # d1))%Q with (Zpos p1 # d1). change (- (Zneg p2 # d2))%Q with (Zpos p2 # d2).
    apply Qopp_le_compat. apply raw_mono; [apply Qnum_pos|].
    unfold Qle in *. cbn [Qnum Qden] in *. lia.
Qed.

(* THEOREM (brief 2): rounding to binary64 is monotone ... *)
Theorem rnd64_mono : forall q1 q2 r1 r2, (q1 <= q2)%Q -> rnd64 q1 = Some r1 -> rnd64 q2 = Some r2 -> (r1 <= r2)%Q.
Proof.
  intros q1 q2 r1 r2 H E1 E2.
  destruct (rnd64_cases q1) as [[N _]|(r & E & R & _)]; [congruence|]. rewrite E in E1. injection E1 as ->.
  destruct (rnd64_cases q2) as [[N _]|(r & E' & R' & _)]; [congruence|]. rewrite E' in E2. injection E2 as ->.
  rewrite R, R'. apply rawQ_mono, H.
Qed.
Print Assumptions rnd64_mono.

(* ... and overflow can only happen at the ends: between two arguments with finite results every result is finite *)
Theorem rnd64_between : forall q1 q2 q3 r1 r3, (q1 <= q2)%Q -> (q2 <= q3)%Q ->
  rnd64 q1 = Some r1 -> rnd64 q3 = Some r3 ->
  exists r2, rnd64 q2 = Some r2 /\ (r1 <= r2)%Q /\ (r2 <= r3)%Q.
Proof.
  intros q1 q2 q3 r1 r3 H12 H23 E1 E3.
  destruct (rnd64_cases q1) as [[N _]|(r & E & R1 & B1)]; [congruence|]. rewrite E in E1. injection E1 as ->.
  destruct (rnd64_cases q3) as [[N _]|(r & E' & R3 & B3)]; [congruence|]. rewrite E' in E3. injection E3 as ->.
  pose proof (rawQ_mono _ _ H12) as M12. pose proof (rawQ_mono _ _ H23) as M23.
  apply Qabs_Qlt_condition in B1. apply Qabs_Qlt_condition in B3.
  destruct (rnd64_cases q2) as [[N B2]|(r2 & E2 & R2 & _)].
  - exfalso. revert B2. apply Qlt_not_le. apply Qabs_Qlt_condition. split; lra.
  - exists r2. split; [exact E2|]. rewrite R1, R2, R3. split; assumption.
Qed.
Print Assumptions rnd64_between.

(* finite results are below 2^1024 in magnitude *)
Lemma rnd64_bound : forall q r, rnd64 q = Some r -> (Qabs r < P 1024)%Q.
Proof.
  intros q r E. destruct (rnd64_cases q) as [[N _]|(r' & E' & R & B)]; [congruence|].
  rewrite E' in E. injection E as ->. rewrite R. exact B.
Qed.

(* ------------------------------------------------------------------------------------------------ *)
(* C. the encoder                                                                                    *)
(* ------------------------------------------------------------------------------------------------ *)
Definition magraw (q : Q) : Z := (ex q + 1074) * 2 ^ 52 + sig Qfloor q.

Lemma mag_enc_raw : forall q, mag_enc q = Z.min (magraw q) EXP_INF.
Proof.
  intros q. unfold mag_enc, magraw, sig. fold (ex q). cbv zeta. f_equal. f_equal.
  apply Qfloor_comp. rewrite dyadic_eq. ring.
Qed.

Ltac consts :=
  unfold EXP_INF, SIGN, F64_MAX, F64_MIN in *;
  change (2 ^ 52) with 4503599627370496 in *; change (2 ^ 53) with 9007199254740992 in *;
  change (2 ^ 63) with 9223372036854775808 in *; change (2 ^ 64) with 18446744073709551616 in *.

Lemma magraw_nonneg : forall q, (0 < q)%Q -> 0 <= magraw q.
Proof.
  intros q Hq. unfold magraw. pose proof (ex_lo q). pose proof (sig_nonneg Qfloor Qfloor_resp_le Qfloor_Z q Hq).
  consts. lia.
Qed.

Lemma magraw_mono : forall q1 q2, (0 < q1)%Q -> (q1 <= q2)%Q -> magraw q1 <= magraw q2.
Proof.
  intros q1 q2 H1 H12. unfold magraw.
  destruct (binade_cases Qfloor Qfloor_resp_le Qfloor_Z q1 q2 H1 H12) as [[E M]|[E M]].
  - rewrite E. lia.
  - pose proof (sig_hi Qfloor Qfloor_resp_le Qfloor_Z q1 H1) as Mhi. consts. lia.
Qed.

Lemma sig_floor_lt : forall q, (0 < q)%Q -> sig Qfloor q < 2 ^ 53.
Proof.
  intros q Hq. unfold sig. rewrite Zlt_Qlt.
  eapply Qle_lt_trans; [apply Qfloor_le|]. apply scaled_hi, Hq.
Qed.

Lemma ex_fin : forall q, (0 < q)%Q -> (q < P 1024)%Q -> ex q <= 971.
Proof.
  intros q Hq B. destruct (Z_le_gt_dec (ex q) 971) as [L|G]; [exact L|].
  assert (A : (P (ex q + 52) < P 1024)%Q) by (eapply Qle_lt_trans; [apply ex_normal; [exact Hq|lia]|exact B]).
  apply P_lt_inv in A. lia.
Qed.

Lemma magraw_fin : forall q, (0 < q)%Q -> (q < P 1024)%Q -> magraw q <= F64_MAX.
Proof.
  intros q Hq B. unfold magraw. pose proof (ex_fin q Hq B). pose proof (sig_floor_lt q Hq). consts. lia.
Qed.

Lemma mag_enc_range : forall q, (0 < q)%Q -> 0 <= mag_enc q <= EXP_INF.
Proof. intros q Hq. rewrite mag_enc_raw. pose proof (magraw_nonneg q Hq). consts. lia. Qed.

Lemma mag_enc_mono : forall q1 q2, (0 < q1)%Q -> (q1 <= q2)%Q -> mag_enc q1 <= mag_enc q2.
Proof. intros q1 q2 H1 H12. rewrite !mag_enc_raw. pose proof (magraw_mono q1 q2 H1 H12). lia. Qed.

Lemma mag_enc_fin : forall q, (0 < q)%Q -> (q < P 1024)%Q -> mag_enc q = magraw q /\ magraw q <= F64_MAX.
Proof. intros q Hq B. rewrite mag_enc_raw. pose proof (magraw_fin q Hq B). consts. lia. Qed.

(* the rank of the pattern of a value *)
Definition keyQ (q : Q) : Z :=
  match Qnum q with Z0 => 0 | Zpos _ => mag_enc q | Zneg _ => - mag_enc (- q) end.

Lemma key_bits : forall q, f64_key (bits_of_fl (Some q)) = keyQ q.
Proof.
  intros [[|p|p] d]; unfold bits_of_fl, keyQ; cbn [Qnum Qden].
  - reflexivity.
  - pose proof (mag_enc_range _ (Qnum_pos p d)) as R. unfold f64_key. consts.
    destruct (mag_enc (Zpos p # d) <? 9223372036854775808) eqn:E; [reflexivity|apply Z.ltb_ge in E; lia].
  - change (- (Zneg p # d))%Q with (Zpos p # d). pose proof (mag_enc_range _ (Qnum_pos p d)) as R.
    cbv zeta. destruct (mag_enc (Zpos p # d) =? 0) eqn:Z0.
    + apply Z.eqb_eq in Z0. rewrite Z0. reflexivity.
    + apply Z.eqb_neq in Z0. unfold f64_key. consts.
      destruct (9223372036854775808 + mag_enc (Zpos p # d) <? 9223372036854775808) eqn:E;
        [apply Z.ltb_lt in E; lia|lia].
Qed.

Lemma keyQ_mono : forall q1 q2, (q1 <= q2)%Q -> keyQ q1 <= keyQ q2.
Proof.
  intros [[|p1|p1] d1] [[|p2|p2] d2] H; unfold keyQ; cbn [Qnum Qden];
    try (exfalso; unfold Qle in H; cbn [Qnum Qden] in H; lia).
  - lia.
  - apply mag_enc_range, Qnum_pos.
  - apply mag_enc_mono; [apply Qnum_pos|exact H].
  - change (- (Zneg p1 # d1))%Q with (Zpos p1 # d1). pose proof (mag_enc_range _ (Qnum_pos p1 d1)). lia.
  - change (- (Zneg p1 # d1))%Q with (Zpos p1 # d1).
    pose proof (mag_enc_range _ (Qnum_pos p1 d1)). pose proof (mag_enc_range _ (Qnum_pos p2 d2)). lia.
  - change (- (Zneg p1 # d1))%Q with (Zpos p1 # d1). change (- (Zneg p2 # d2))%Q with (Zpos p2 # d2).
    assert (mag_enc (Zpos p2 # d2) <= mag_enc (Zpos p1 # d1)); [|lia].
    apply mag_enc_mono; [apply Qnum_pos|]. unfold Qle in *. cbn [Qnum Qden] in *. lia.
Qed.

(* THEOREM (brief 1, order): the encoding is monotone from (Q, <=) to the binary64 order on patterns *)
Theorem bits_mono : forall q1 q2, (q1 <= q2)%Q -> f64_key (bits_of_fl (Some q1)) <= f64_key (bits_of_fl (Some q2)).
Proof. intros q1 q2 H. rewrite !key_bits. apply keyQ_mono, H. Qed.
Print Assumptions bits_mono.

(* the patterns the encoder produces: never negative, never beyond the infinities, never -0.0 *)
Definition enc_pattern (b : Z) : Prop := 0 <= b <= EXP_INF \/ SIGN < b <= SIGN + EXP_INF.

Theorem bits_pattern : forall x, enc_pattern (bits_of_fl x).
Proof.
  intros [[[|p|p] d]|]; unfold bits_of_fl, enc_pattern; cbn [Qnum Qden].
  - left. consts. lia.
  - left. apply mag_enc_range, Qnum_pos.
  - change (- (Zneg p # d))%Q with (Zpos p # d). pose proof (mag_enc_range _ (Qnum_pos p d)) as R.
    cbv zeta. destruct (mag_enc (Zpos p # d) =? 0) eqn:Z0.
    + left. consts. lia.
    + right. apply Z.eqb_neq in Z0. lia.
  - left. consts. lia.
Qed.
Print Assumptions bits_pattern.

(* THEOREM (brief 1, equal rank -> equal pattern) *)
Theorem key_inj : forall a b, enc_pattern a -> enc_pattern b -> f64_key a = f64_key b -> a = b.
Proof.
  intros a b Ha Hb K. unfold enc_pattern, f64_key in *. consts.
  destruct (a <? 9223372036854775808) eqn:Ea; destruct (b <? 9223372036854775808) eqn:Eb; lia.
Qed.
Print Assumptions key_inj.

(* THEOREM (brief 1, finite values lie between F64_MIN and F64_MAX) *)
Theorem bits_fin : forall q, (Qabs q < P 1024)%Q ->
  f64_key F64_MIN <= f64_key (bits_of_fl (Some q)) <= f64_key F64_MAX.
Proof.
  intros q B. rewrite key_bits. apply Qabs_Qlt_condition in B. destruct B as [B1 B2].
  change (f64_key F64_MIN) with (- F64_MAX). change (f64_key F64_MAX) with F64_MAX.
  destruct q as [[|p|p] d]; unfold keyQ; cbn [Qnum Qden].
  - consts. lia.
  - pose proof (mag_enc_fin _ (Qnum_pos p d) B2) as [E F]. pose proof (magraw_nonneg _ (Qnum_pos p d)).
    rewrite E. consts. lia.
  - change (- (Zneg p # d))%Q with (Zpos p # d).
    assert (B : (Zpos p # d < P 1024)%Q).
    { setoid_replace (Zpos p # d) with (- (Zneg p # d))%Q by reflexivity. lra. }
    pose proof (mag_enc_fin _ (Qnum_pos p d) B) as [E F]. pose proof (magraw_nonneg _ (Qnum_pos p d)).
    rewrite E. consts. lia.
Qed.
Print Assumptions bits_fin.

(* ------------------------------------------------------------------------------------------------ *)
(* D. the codec round trips                                                                          *)
(* ------------------------------------------------------------------------------------------------ *)
(* significand and exponent of the last place of a positive binary64 value: subnormal (E = -1074, M < 2^52) or normal *)
Definition canon (M E : Z) : Prop := 0 < M < 2 ^ 53 /\ -1074 <= E <= 971 /\ (-1074 < E -> 2 ^ 52 <= M).

(* the finite binary64 values *)
Definition is_b64 (q : Q) : Prop := (q == 0)%Q \/ exists M E, canon M E /\ (Qabs q == inject_Z M * P E)%Q.

Lemma canon_pos : forall M E, canon M E -> (0 < inject_Z M * P E)%Q.
Proof.
  intros M E (HM & _ & _). apply Qmult_lt_0_compat; [|apply P_pos].
  change 0%Q with (inject_Z 0). rewrite <- Zlt_Qlt. lia.
Qed.

Lemma canon_ex : forall M E q, canon M E -> (q == inject_Z M * P E)%Q -> ex q = E /\ sig Qfloor q = M.
Proof.
  intros M E q C Hq. pose proof (canon_pos M E C) as Pq. rewrite <- Hq in Pq.
  destruct C as (HM & HE & HN).
  assert (X : ex q = E).
  { apply ex_unique; [exact Pq|lia| |].
    - rewrite Hq. rewrite (Z.add_comm E 53), P_plus. apply Qmult_lt_r; [apply P_pos|].
      rewrite <- P_Z by lia. rewrite <- Zlt_Qlt. lia.
    - intros N. rewrite Hq. rewrite (Z.add_comm E 52), P_plus. apply Qmult_le_compat_r; [|apply Qlt_le_weak, P_pos].
      rewrite <- P_Z by lia. rewrite <- Zle_Qle. apply HN, N. }
  split; [exact X|]. unfold sig. rewrite X. transitivity (Qfloor (inject_Z M)); [|apply Qfloor_Z]. apply Qfloor_comp.
  rewrite Hq, <- Qmult_assoc, P_inv. ring.
Qed.

Lemma mag_enc_canon : forall M E q, canon M E -> (q == inject_Z M * P E)%Q -> mag_enc q = (E + 1074) * 2 ^ 52 + M.
Proof.
  intros M E q C Hq. destruct (canon_ex M E q C Hq) as [X S]. rewrite mag_enc_raw. unfold magraw. rewrite X, S.
  destruct C as (HM & HE & HN). consts. lia.
Qed.

Ltac Zify.zify_post_hook ::= Z.to_euclidean_division_equations.

Lemma mag_dec_canon : forall M E, canon M E ->
  exists q, mag_dec ((E + 1074) * 2 ^ 52 + M) = Some q /\ (q == inject_Z M * P E)%Q.
Proof.
  intros M E (HM & HE & HN). unfold mag_dec. cbv zeta.
  set (t := (E + 1074) * 2 ^ 52 + M).
  destruct (Z_lt_le_dec M (2 ^ 52)) as [Sub|Nor].
  - assert (E = -1074) as -> by lia.
    assert (D : t / 2 ^ 52 = 0) by (subst t; consts; lia).
    assert (F : t mod 2 ^ 52 = M) by (subst t; consts; lia).
    rewrite D, F. cbn [Z.leb Z.eqb Z.compare]. exists (dyadic M (-1074)). split; [reflexivity|apply dyadic_eq].
  - assert (D : t / 2 ^ 52 = E + 1075) by (subst t; consts; lia).
    assert (F : t mod 2 ^ 52 = M - 2 ^ 52) by (subst t; consts; lia).
    rewrite D, F.
    destruct (2047 <=? E + 1075) eqn:A; [apply Z.leb_le in A; lia|].
    destruct (E + 1075 =? 0) eqn:B; [apply Z.eqb_eq in B; lia|].
    exists (dyadic M E). split; [|apply dyadic_eq].
    f_equal. f_equal; lia.
Qed.

Lemma fields : forall t, 0 < t < EXP_INF -> exists M E, canon M E /\ t = (E + 1074) * 2 ^ 52 + M.
Proof.
  intros t Ht. unfold canon. destruct (Z_lt_le_dec t (2 ^ 52)) as [Sub|Nor].
  - exists t, (-1074). consts. lia.
  - exists (2 ^ 52 + t mod 2 ^ 52), (t / 2 ^ 52 - 1075). consts. lia.
Qed.

Lemma is_b64_Qeq : forall q q', (q == q')%Q -> is_b64 q' -> is_b64 q.
Proof.
  intros q q' H [Z0|(M & E & C & Eq)]; [left; rewrite H; exact Z0|right].
  exists M, E. split; [exact C|]. rewrite H. exact Eq.
Qed.

(* results of the rounding are binary64 values *)
Theorem rnd64_b64 : forall p q, rnd64 p = Some q -> is_b64 q.
Proof.
  intros p q H.
  assert (G : forall x, (0 < x)%Q -> (raw x < P 1024)%Q -> (raw x == 0)%Q \/ exists M E, canon M E /\ (raw x == inject_Z M * P E)%Q).
  { intros x Hx B. unfold raw in *.
    pose proof (sig_hi rhe rhe_mono rhe_inject x Hx) as Mhi.
    pose proof (sig_nonneg rhe rhe_mono rhe_inject x Hx) as Mlo.
    pose proof (sig_lo rhe rhe_mono rhe_inject x Hx) as Mn. pose proof (ex_lo x) as Elo.
    set (m := sig rhe x) in *. set (e := ex x) in *.
    destruct (Z.eq_dec m 0) as [Z0|NZ]; [left; rewrite Z0; ring|right].
    destruct (Z.eq_dec m (2 ^ 53)) as [Top|NT].
    - exists (2 ^ 52), (e + 1). rewrite Top in *. split.
      + assert (A : (P (e + 53) < P 1024)%Q).
        { rewrite (Z.add_comm e 53), P_plus, <- (P_Z 53) by lia. exact B. }
        apply P_lt_inv in A. unfold canon. consts. lia.
      + rewrite !P_Z by lia. rewrite <- !P_plus. replace (53 + e) with (52 + (e + 1)) by lia. reflexivity.
    - exists m, e. split; [|reflexivity]. unfold canon. split; [lia|]. split; [|exact Mn]. split; [exact Elo|].
      destruct (Z_le_gt_dec e 971) as [L|Gt]; [exact L|exfalso].
      assert (A : (P (e + 52) < P 1024)%Q).
      { eapply Qle_lt_trans; [|exact B]. rewrite (Z.add_comm e 52), P_plus, <- (P_Z 52) by lia.
        apply Qmult_le_compat_r; [rewrite <- Zle_Qle; apply Mn; lia|apply Qlt_le_weak, P_pos]. }
      apply P_lt_inv in A. lia. }
  destruct (rnd64_cases p) as [[N _]|(r & E & R & B)]; [congruence|]. rewrite E in H. injection H as ->.
  apply (is_b64_Qeq _ _ R). clear R E. unfold is_b64. destruct p as [[|n|n] d]; unfold rawQ in *; cbn [Qnum Qden] in *.
  - left. reflexivity.
  - pose proof (raw_nonneg _ (Qnum_pos n d)) as Nn. rewrite (Qabs_pos _ Nn) in B.
    destruct (G _ (Qnum_pos n d) B) as [Z0|(M & E & C & Eq)]; [left; exact Z0|right].
    exists M, E. split; [exact C|]. rewrite (Qabs_pos _ Nn). exact Eq.
  - change (- (Zneg n # d))%Q with (Zpos n # d) in *.
    pose proof (raw_nonneg _ (Qnum_pos n d)) as Nn. rewrite Qabs_opp, (Qabs_pos _ Nn) in B.
    destruct (G _ (Qnum_pos n d) B) as [Z0|(M & E & C & Eq)]; [left; rewrite Z0; reflexivity|right].
    exists M, E. split; [exact C|]. rewrite Qabs_opp, (Qabs_pos _ Nn). exact Eq.
Qed.
Print Assumptions rnd64_b64.

Lemma fl_of_bits_mag : forall t, 0 <= t < SIGN -> fl_of_bits t = mag_dec t /\ fl_of_bits (SIGN + t) = option_map Qopp (mag_dec t).
Proof.
  intros t Ht. unfold fl_of_bits. consts. split.
  - destruct (t <? 0) eqn:A; [apply Z.ltb_lt in A; lia|]. destruct (18446744073709551616 <=? t) eqn:B; [apply Z.leb_le in B; lia|].
    cbn [orb]. destruct (t <? 9223372036854775808) eqn:C; [reflexivity|apply Z.ltb_ge in C; lia].
  - destruct (9223372036854775808 + t <? 0) eqn:A; [apply Z.ltb_lt in A; lia|].
    destruct (18446744073709551616 <=? 9223372036854775808 + t) eqn:B; [apply Z.leb_le in B; lia|].
    cbn [orb]. destruct (9223372036854775808 + t <? 9223372036854775808) eqn:C; [apply Z.ltb_lt in C; lia|].
    replace (9223372036854775808 + t - 9223372036854775808) with t by lia. reflexivity.
Qed.

(* THEOREM (brief 1): decoding the encoding of a binary64 value gives the value back *)
Theorem fl_of_bits_of_fl : forall q, is_b64 q -> exists q', fl_of_bits (bits_of_fl (Some q)) = Some q' /\ (q' == q)%Q.
Proof.
  intros [[|p|p] d] H; unfold bits_of_fl; cbn [Qnum Qden].
  - exists (dyadic 0 (-1074)). split; [vm_compute; reflexivity|]. rewrite dyadic_eq. unfold Qeq. cbn. lia.
  - destruct H as [Z0|(M & E & C & HQ)]; [unfold Qeq in Z0; cbn in Z0; lia|].
    rewrite Qabs_pos in HQ by (apply Qlt_le_weak, Qnum_pos).
    rewrite (mag_enc_canon M E _ C HQ).
    destruct (mag_dec_canon M E C) as (q' & D & Eq').
    assert (R : 0 <= (E + 1074) * 2 ^ 52 + M < SIGN) by (destruct C as (? & ? & ?); consts; lia).
    destruct (fl_of_bits_mag _ R) as [F _]. rewrite F, D. exists q'. split; [reflexivity|]. rewrite Eq', HQ. reflexivity.
  - change (- (Zneg p # d))%Q with (Zpos p # d).
    destruct H as [Z0|(M & E & C & HQ)]; [unfold Qeq in Z0; cbn in Z0; lia|].
    assert (HQ' : (Zpos p # d == inject_Z M * P E)%Q).
    { rewrite <- HQ. setoid_replace (Zneg p # d) with (- (Zpos p # d))%Q by reflexivity.
      rewrite Qabs_opp, Qabs_pos by (apply Qlt_le_weak, Qnum_pos). reflexivity. }
    rewrite (mag_enc_canon M E _ C HQ'). cbv zeta.
    destruct (mag_dec_canon M E C) as (q' & D & Eq').
    assert (R : 0 < (E + 1074) * 2 ^ 52 + M < SIGN) by (destruct C as (? & ? & ?); consts; lia).
    destruct ((E + 1074) * 2 ^ 52 + M =? 0) eqn:Z0; [apply Z.eqb_eq in Z0; lia|].
    destruct (fl_of_bits_mag ((E + 1074) * 2 ^ 52 + M) ltac:(lia)) as [_ F]. rewrite F, D. cbn [option_map].
    exists (- q')%Q. split; [reflexivity|]. rewrite Eq', <- HQ'. reflexivity.
Qed.
Print Assumptions fl_of_bits_of_fl.

(* THEOREM (brief 1): encoding the decoding of a finite pattern other than -0.0 gives the pattern back *)
Theorem bits_of_fl_of_bits : forall b, 0 <= b < EXP_INF \/ SIGN < b < SIGN + EXP_INF -> bits_of_fl (fl_of_bits b) = b.
Proof.
  intros b Hb.
  assert (G : forall t, 0 < t < EXP_INF -> exists p d, mag_dec t = Some (Zpos p # d) /\ mag_enc (Zpos p # d) = t).
  { intros t Ht. destruct (fields t Ht) as (M & E & C & ->).
    destruct (mag_dec_canon M E C) as (q' & D & Eq'). pose proof (canon_pos M E C) as Pq. rewrite <- Eq' in Pq.
    destruct q' as [[|p|p] d]; try (exfalso; unfold Qlt in Pq; cbn in Pq; lia).
    exists p, d. split; [exact D|]. apply (mag_enc_canon M E _ C Eq'). }
  destruct (Z.eq_dec b 0) as [->|NZ]; [vm_compute; reflexivity|].
  destruct Hb as [Hb|Hb].
  - destruct (G b ltac:(lia)) as (p & d & D & En).
    destruct (fl_of_bits_mag b ltac:(consts; lia)) as [F _]. rewrite F, D. unfold bits_of_fl. cbn [Qnum]. exact En.
  - destruct (G (b - SIGN) ltac:(lia)) as (p & d & D & En).
    destruct (fl_of_bits_mag (b - SIGN) ltac:(consts; lia)) as [_ F].
    replace (SIGN + (b - SIGN)) with b in F by lia. rewrite F, D. cbn [option_map].
    change (- (Zpos p # d))%Q with (Zneg p # d). unfold bits_of_fl. cbn [Qnum].
    change (- (Zneg p # d))%Q with (Zpos p # d). cbv zeta. rewrite En.
    destruct (b - SIGN =? 0) eqn:Z0; [apply Z.eqb_eq in Z0; lia|lia].
Qed.
Print Assumptions bits_of_fl_of_bits.

(* decoding yields binary64 values only *)
Theorem fl_of_bits_b64 : forall b q, fl_of_bits b = Some q -> is_b64 q.
Proof.
  intros b q H.
  assert (G : forall t q, 0 <= t < SIGN -> mag_dec t = Some q -> (q == 0)%Q \/ exists M E, canon M E /\ (q == inject_Z M * P E)%Q).
  { intros t x Ht D. destruct (Z.eq_dec t 0) as [->|NZ].
    - left. vm_compute in D. injection D as <-. reflexivity.
    - destruct (Z_lt_le_dec t EXP_INF) as [Fin|Inf].
      + right. destruct (fields t ltac:(lia)) as (M & E & C & ->). destruct (mag_dec_canon M E C) as (q' & D' & Eq').
        rewrite D' in D. injection D as <-. exists M, E. split; [exact C|exact Eq'].
      + exfalso. unfold mag_dec in D. cbv zeta in D.
        destruct (2047 <=? t / 2 ^ 52) eqn:A; [discriminate|]. apply Z.leb_gt in A. consts. lia. }
  unfold fl_of_bits in H.
  destruct ((b <? 0) || (2 ^ 64 <=? b)) eqn:R; [discriminate|]. apply orb_false_iff in R. destruct R as [R1 R2].
  apply Z.ltb_ge in R1. apply Z.leb_gt in R2.
  destruct (b <? SIGN) eqn:S.
  - apply Z.ltb_lt in S. destruct (G b q ltac:(lia) H) as [Z0|(M & E & C & Eq)]; [left; exact Z0|right].
    exists M, E. split; [exact C|]. rewrite Eq. apply Qabs_pos, Qlt_le_weak, canon_pos, C.
  - apply Z.ltb_ge in S. destruct (mag_dec (b - SIGN)) as [x|] eqn:D; [|discriminate]. cbn [option_map] in H. injection H as <-.
    destruct (G (b - SIGN) x ltac:(consts; lia) D) as [Z0|(M & E & C & Eq)]; [left; rewrite Z0; reflexivity|right].
    exists M, E. split; [exact C|]. rewrite Qabs_opp, Eq. apply Qabs_pos, Qlt_le_weak, canon_pos, C.
Qed.
Print Assumptions fl_of_bits_b64.
