(* C16 — proofs about the executor strategy of Model/Fetch.v. *)
From Coq Require Import ZArith List Bool Lia Permutation.
From LasV Require Import Lib.Base Gen.GenFetch Model.Fetch Proofs.FetchProofs.
Import ListNotations.
Open Scope list_scope.
Open Scope Z_scope.

Lemma set_nth_length : forall A (l : list A) i x, (i < length l)%nat -> length (set_nth i x l) = length l.
Proof.
  intros A l i x H. unfold set_nth. rewrite app_length. cbn [length]. rewrite firstn_length, skipn_length. lia.
Qed.
Lemma set_nth_same : forall A (l : list A) i x d, (i < length l)%nat -> nth i (set_nth i x l) d = x.
Proof.
  induction l as [|h l IH]; intros i x d H; cbn in H; [lia|].
  destruct i as [|i]; cbn; auto. apply IH. lia.
Qed.
Lemma set_nth_other : forall A (l : list A) i j x d, (i < length l)%nat -> i <> j -> nth j (set_nth i x l) d = nth j l d.
Proof.
  induction l as [|h l IH]; intros i j x d Hl H; cbn in Hl; [lia|].
  destruct i as [|i], j as [|j]; cbn; auto; try lia. apply IH; lia.
Qed.

Lemma nth_error_firstn_S : forall A (l : list A) k r, nth_error l k = Some r ->
  l = firstn k l ++ r :: skipn (S k) l /\ firstn (S k) l = firstn k l ++ [r].
Proof.
  induction l as [|h l IH]; intros [|k] r H; cbn in H; try discriminate.
  - inversion H; subst. cbn. auto.
  - destruct (IH _ _ H) as [H1 H2]. split.
    + cbn. f_equal. exact H1.
    + change (firstn (S (S k)) (h :: l)) with (h :: firstn (S k) l). rewrite H2. reflexivity.
Qed.

Lemma ff_app : forall fails l1 l2, first_failing fails (l1 ++ l2) =
  match first_failing fails l1 with Some r => Some r | None => first_failing fails l2 end.
Proof. induction l1 as [|r l IH]; intro l2; cbn; auto. destruct (fails r); auto. Qed.

Lemma perm_mid : forall A (x : A) X Y Z, Permutation (x :: X ++ Y ++ Z) (X ++ Y ++ x :: Z).
Proof. intros. rewrite (app_assoc X Y (x :: Z)). apply Permutation_cons_app. rewrite <- app_assoc. reflexivity. Qed.

Lemma exec_shape : gen_exec_stream_per_job = true /\ gen_exec_collect = BySubmission /\ gen_exec_job = [JSeek; JRead]
                   /\ gen_exec_pool_joined = true.
Proof. repeat split. Qed.

Section ExecProofs.
Variable file : list Z.
Variable fails : range -> bool.
Variable ranges : list range.

Notation n := (length ranges).
Notation xs := (xstep gen_exec_stream_per_job gen_exec_collect gen_exec_job file fails).
Notation xws := (xwstep gen_exec_stream_per_job gen_exec_job file fails).
Notation xms := (xmstep gen_exec_collect).

Definition xidx (w : xw) : list nat := match w with XJob i _ _ => [i] | _ => [] end.
Definition held (ws : list xw) : list nat := flat_map xidx ws.
Definition res (r : range) : fres := if fails r then FExc r else FData (slice file r).
Definition expected : outcome :=
  match first_failing fails ranges with None => OReturned (local_read file ranges) | Some r => ORaised r end.

Definition xw_ok (pos : list Z) (w : xw) : Prop :=
  match w with
  | XJob i r pc => nth_error ranges i = Some r /\ (pc = O \/ (pc = 1%nat /\ nth i pos 0 = fst r))
  | _ => True
  end.
Definition main_ok (s : xstate) : Prop :=
  match x_main s with
  | XCollect k acc => (k <= n)%nat /\ acc = map (slice file) (firstn k ranges) /\ first_failing fails (firstn k ranges) = None
                      /\ Forall (fun w => is_xexit w = false) (x_ws s) /\ (ranges <> [] -> x_ws s <> [])
  | XShutdown o => o = expected
  | XDone o => o = expected /\ forallb is_xexit (x_ws s) = true
  end.

Record xinv (s : xstate) : Prop := mkXinv {
  xi_fut_len : length (x_fut s) = n;
  xi_pos_len : length (x_pos s) = S n;
  xi_pend : Forall (fun p => nth_error ranges (fst p) = Some (snd p)) (x_pending s);
  xi_wok : Forall (xw_ok (x_pos s)) (x_ws s);
  xi_nodup : NoDup (map fst (x_pending s) ++ held (x_ws s));
  xi_fut : forall i r, nth_error ranges i = Some r -> nth i (x_fut s) None = None \/ nth i (x_fut s) None = Some (res r);
  xi_acct : forall i, (i < n)%nat -> nth i (x_fut s) None = None -> In i (map fst (x_pending s) ++ held (x_ws s));
  xi_main : main_ok s }.

Lemma held_mid : forall a w b, held (a ++ w :: b) = held a ++ xidx w ++ held b.
Proof. intros. unfold held. rewrite flat_map_app. reflexivity. Qed.

Lemma held_in : forall ws i r pc, In (XJob i r pc) ws -> In i (held ws).
Proof. intros ws i r pc H. unfold held. apply in_flat_map. exists (XJob i r pc). split; auto. left. reflexivity. Qed.

(* the other workers hold other jobs *)
Lemma others_ne : forall P a b i w, NoDup (P ++ held a ++ [i] ++ held b) -> In w (a ++ b) ->
  match w with XJob i' _ _ => i' <> i | _ => True end.
Proof.
  intros P a b i w Hnd Hin. destruct w as [|i' r' pc'|]; auto. intro; subst i'.
  rewrite app_assoc in Hnd. apply NoDup_remove_2 in Hnd. apply Hnd.
  apply in_app_or in Hin. rewrite <- app_assoc. apply in_or_app. right. apply in_or_app.
  destruct Hin as [H|H]; [left|right]; eapply held_in; eauto.
Qed.

Lemma wok_pos_change : forall P a b i pos v, (i < length pos)%nat -> NoDup (P ++ held a ++ [i] ++ held b) ->
  Forall (xw_ok pos) a -> Forall (xw_ok pos) b ->
  Forall (xw_ok (set_nth i v pos)) a /\ Forall (xw_ok (set_nth i v pos)) b.
Proof.
  intros P a b i pos v Hlen Hnd Ha Hb.
  assert (H : forall w, In w (a ++ b) -> xw_ok pos w -> xw_ok (set_nth i v pos) w).
  { intros w Hin Hok. pose proof (others_ne _ _ _ _ _ Hnd Hin) as Hne. destruct w as [|i' r' pc'|]; auto.
    cbn in *. destruct Hok as [H1 H2]. split; auto. destruct H2 as [H2|[H2 H3]]; auto. right. split; auto.
    rewrite set_nth_other; auto. }
  rewrite Forall_forall in Ha, Hb. split; apply Forall_forall; intros w Hin; apply H; auto; apply in_or_app; auto.
Qed.

Lemma wok_nonexit_mid : forall (a b : list xw) w w', is_xexit w' = false ->
  Forall (fun w => is_xexit w = false) (a ++ w :: b) -> Forall (fun w => is_xexit w = false) (a ++ w' :: b).
Proof.
  intros a b w w' Hw' H. apply Forall_app in H as [Ha Hb]. inversion Hb; subst. apply Forall_app; split; auto.
Qed.

(* main's part of the invariant when a worker that is not leaving is replaced by one that is not leaving *)
Lemma main_ok_worker : forall s s' a b w w',
  x_main s' = x_main s -> x_ws s = a ++ w :: b -> x_ws s' = a ++ w' :: b -> is_xexit w = false ->
  (is_xexit w' = false \/ exists o, x_main s = XShutdown o) -> main_ok s -> main_ok s'.
Proof.
  intros s s' a b w w' Hm Hws Hws' Hw Hw' H. unfold main_ok in *. rewrite Hm.
  destruct (x_main s) as [k acc|o|o].
  - destruct H as (H1 & H2 & H3 & H4 & H5). repeat split; auto.
    + rewrite Hws'. rewrite Hws in H4. destruct Hw' as [Hw'|[o Ho]]; [|discriminate]. eapply wok_nonexit_mid; eauto.
    + intros _. rewrite Hws'. destruct a; discriminate.
  - exact H.
  - destruct H as [_ H]. rewrite Hws, forallb_app in H. apply andb_true_iff in H as [_ H]. cbn in H.
    rewrite Hw in H. discriminate.
Qed.

Lemma idx_lt : forall i r, nth_error ranges i = Some r -> (i < n)%nat.
Proof. intros i r H. apply nth_error_Some. congruence. Qed.

Ltac xfields := cbn [x_fut x_pos x_pending x_ws x_order x_main].

Lemma xinv_wstep : forall s w s', xinv s -> xws s w = Some s' -> xinv s'.
Proof.
  intros s w s' [Hfl Hpl Hpend Hwok Hnd Hfut Hacct Hmain] Hstep.
  unfold xwstep in Hstep.
  destruct (nth_error (x_ws s) w) as [st|] eqn:Hn; [|discriminate].
  destruct (set_nth_split _ _ _ _ Hn) as (a & b & Hws & _ & Hset).
  assert (Hwab : Forall (xw_ok (x_pos s)) a /\ xw_ok (x_pos s) st /\ Forall (xw_ok (x_pos s)) b).
  { rewrite Hws in Hwok. apply Forall_app in Hwok as [Ha Hc]. inversion Hc; auto. }
  destruct Hwab as (Hoka & Hst & Hokb).
  rewrite Hws in Hnd, Hacct. rewrite held_mid in Hnd, Hacct.
  unfold with_xw, sidx in Hstep. rewrite !Hset in Hstep.
  destruct st as [|i r pc|]; [| |discriminate].
  - (* idle *)
    destruct (x_pending s) as [|[i r] p] eqn:Hp.
    + destruct (x_main s) as [k acc|o|o] eqn:Hm; try discriminate. inversion Hstep; subst s'; clear Hstep.
      constructor; xfields; rewrite ?Hset.
      * exact Hfl.
      * exact Hpl.
      * constructor.
      * apply Forall_app; split; auto; constructor; solve [exact I|auto].
      * rewrite held_mid. exact Hnd.
      * exact Hfut.
      * rewrite held_mid. exact Hacct.
      * eapply (main_ok_worker s _ a b XIdle XExit); xfields; eauto.
    + inversion Hstep; subst s'; clear Hstep. inversion Hpend as [|? ? Hir Hp']; subst. cbn in Hir.
      constructor; xfields; rewrite ?Hset.
      * exact Hfl.
      * exact Hpl.
      * exact Hp'.
      * apply Forall_app; split; auto; constructor; solve [cbn; auto|auto].
      * rewrite held_mid. cbn [xidx map fst] in *. eapply Permutation_NoDup; [|exact Hnd]. apply perm_mid.
      * exact Hfut.
      * intros i0 Hi0 Hf0. rewrite held_mid. cbn [xidx map fst] in *. eapply Permutation_in; [apply perm_mid|].
        apply Hacct; auto.
      * eapply (main_ok_worker s _ a b XIdle (XJob i r 0)); xfields; eauto.
  - (* a job *)
    destruct Hst as [Hir Hpc]. pose proof (idx_lt _ _ Hir) as Hlt.
    cbn [xidx] in *.
    destruct Hpc as [->|[-> Hpos]]; cbn [gen_exec_stream_per_job gen_exec_job nth_error] in Hstep.
    + (* seek *)
      inversion Hstep; subst s'; clear Hstep.
      destruct (wok_pos_change _ a b i (x_pos s) (fst r) ltac:(lia) Hnd Hoka Hokb) as [Ha' Hb'].
      constructor; xfields; rewrite ?Hset.
      * exact Hfl.
      * rewrite set_nth_length; lia.
      * exact Hpend.
      * apply Forall_app; split; auto; constructor; [|solve [auto]]. cbn. split; auto. right. split; auto.
        apply set_nth_same. lia.
      * rewrite held_mid. exact Hnd.
      * exact Hfut.
      * rewrite held_mid. exact Hacct.
      * eapply (main_ok_worker s _ a b (XJob i r 0) (XJob i r 1)); xfields; eauto.
    + (* read *)
      rewrite Hpos in Hstep. rewrite <- surjective_pairing in Hstep.
      assert (Hnd' : NoDup (map fst (x_pending s) ++ held a ++ held b)).
      { rewrite app_assoc in Hnd. apply NoDup_remove_1 in Hnd. rewrite <- app_assoc in Hnd. exact Hnd. }
      assert (Hacct' : forall v i0, (i0 < n)%nat -> nth i0 (set_nth i (Some v) (x_fut s)) None = None ->
                                   In i0 (map fst (x_pending s) ++ held a ++ held b)).
      { intros v i0 Hi0 Hf0. destruct (Nat.eq_dec i i0) as [->|Hne].
        - rewrite set_nth_same in Hf0 by lia. discriminate.
        - rewrite set_nth_other in Hf0 by lia. specialize (Hacct _ Hi0 Hf0).
          apply in_app_or in Hacct as [H|H]; [apply in_or_app; auto|].
          apply in_app_or in H as [H|H]; [apply in_or_app; right; apply in_or_app; auto|].
          cbn in H. destruct H as [H|H]; [congruence|]. apply in_or_app; right; apply in_or_app; auto. }
      assert (Hfut' : forall i0 r0, nth_error ranges i0 = Some r0 ->
                 nth i0 (set_nth i (Some (res r)) (x_fut s)) None = None \/
                 nth i0 (set_nth i (Some (res r)) (x_fut s)) None = Some (res r0)).
      { intros i0 r0 H0. destruct (Nat.eq_dec i i0) as [->|Hne].
        - rewrite set_nth_same by lia. right. congruence.
        - rewrite set_nth_other by lia. auto. }
      unfold res in Hfut'.
      destruct (fails r) eqn:Hf; inversion Hstep; subst s'; clear Hstep.
      * constructor; xfields; rewrite ?Hset.
        -- rewrite set_nth_length; lia.
        -- exact Hpl.
        -- exact Hpend.
        -- apply Forall_app; split; auto; constructor; solve [exact I|auto].
        -- rewrite held_mid. exact Hnd'.
        -- exact Hfut'.
        -- rewrite held_mid. apply Hacct'.
        -- eapply (main_ok_worker s _ a b (XJob i r 1) XIdle); xfields; eauto.
      * destruct (wok_pos_change _ a b i (x_pos s) (fst r + snd r) ltac:(lia) Hnd Hoka Hokb) as [Ha' Hb'].
        constructor; xfields; rewrite ?Hset.
        -- rewrite set_nth_length; lia.
        -- rewrite set_nth_length; lia.
        -- exact Hpend.
        -- apply Forall_app; split; auto; constructor; solve [exact I|auto].
        -- rewrite held_mid. exact Hnd'.
        -- exact Hfut'.
        -- rewrite held_mid. apply Hacct'.
        -- eapply (main_ok_worker s _ a b (XJob i r 1) XIdle); xfields; eauto.
Qed.

Lemma xinv_mstep : forall s s', xinv s -> xms s = Some s' -> xinv s'.
Proof.
  intros s s' [Hfl Hpl Hpend Hwok Hnd Hfut Hacct Hmain] Hstep.
  unfold xmstep in Hstep. unfold main_ok in Hmain.
  destruct (x_main s) as [k acc|o|o] eqn:Hm.
  - destruct Hmain as (Hk & Hacc & Hff & Hne & Hws). rewrite Hfl in Hstep.
    destruct (Nat.eqb k n) eqn:E.
    + apply Nat.eqb_eq in E. inversion Hstep; subst s'; clear Hstep.
      constructor; auto. unfold main_ok; cbn. rewrite E, firstn_all in *. unfold expected. rewrite Hff, Hacc. reflexivity.
    + apply Nat.eqb_neq in E. cbn [gen_exec_collect] in Hstep.
      destruct (nth_error ranges k) as [rk|] eqn:Hrk; [|apply nth_error_None in Hrk; lia].
      destruct (nth_error_firstn_S _ _ _ _ Hrk) as [Hsplit HS].
      destruct (Hfut _ _ Hrk) as [Hf|Hf]; rewrite Hf in Hstep; [discriminate|]. unfold res in Hstep.
      destruct (fails rk) eqn:Hfr; inversion Hstep; subst s'; clear Hstep.
      * constructor; auto. unfold main_ok; cbn. unfold expected. rewrite Hsplit, ff_app, Hff. cbn. rewrite Hfr. reflexivity.
      * constructor; auto. unfold main_ok; cbn [x_main with_xm x_ws].
        split; [lia|]. split; [rewrite HS, map_app, Hacc; reflexivity|].
        split; [rewrite HS, ff_app, Hff; cbn; rewrite Hfr; reflexivity|]. split; auto.
  - destruct (forallb is_xexit (x_ws s)) eqn:E; inversion Hstep; subst s'; clear Hstep.
    constructor; auto. unfold main_ok; cbn. auto.
  - discriminate.
Qed.

Lemma xinv_step : forall s t s', xinv s -> xs s t = Some s' -> xinv s'.
Proof. intros s [|w] s' Hi Hs; cbn in Hs; [eapply xinv_mstep|eapply xinv_wstep]; eauto. Qed.

Lemma held_idle : forall k, held (repeat XIdle k) = [].
Proof. induction k; cbn; auto. Qed.
Lemma nth_repeat_none : forall A k i, nth i (repeat (@None A) k) None = None.
Proof. induction k; destruct i; cbn; auto. Qed.
Lemma combine_seq_ok : forall (l : list range) pre,
  Forall (fun p => nth_error (pre ++ l) (fst p) = Some (snd p)) (combine (seq (length pre) (length l)) l).
Proof.
  induction l as [|r l IH]; intro pre; cbn; constructor.
  - cbn. rewrite nth_error_app2 by lia. rewrite Nat.sub_diag. reflexivity.
  - specialize (IH (pre ++ [r])). rewrite <- app_assoc in IH. cbn in IH. rewrite app_length in IH. cbn in IH.
    replace (length pre + 1)%nat with (S (length pre)) in IH by lia. exact IH.
Qed.
Lemma map_fst_combine_seq : forall (l : list range) st, map fst (combine (seq st (length l)) l) = seq st (length l).
Proof. induction l as [|r l IH]; intro st; cbn; auto. f_equal. apply IH. Qed.

Lemma xinv_init : forall workers, (1 <= workers)%nat -> xinv (xinit ranges workers).
Proof.
  intros workers Hw. unfold xinit. constructor; xfields.
  - apply repeat_length.
  - apply repeat_length.
  - apply (combine_seq_ok ranges []).
  - apply Forall_forall. intros w Hin. apply repeat_spec in Hin. subst w. exact I.
  - rewrite held_idle, app_nil_r, map_fst_combine_seq. apply seq_NoDup.
  - intros i r _. left. apply nth_repeat_none.
  - intros i Hi _. rewrite held_idle, app_nil_r, map_fst_combine_seq. apply in_seq. lia.
  - unfold main_ok; cbn. repeat split; auto.
    + lia.
    + apply Forall_forall. intros w Hin. apply repeat_spec in Hin. subst w. reflexivity.
    + intro Hne. destruct ranges; [contradiction|]. destruct workers; [lia|]. cbn. discriminate.
Qed.

Definition xreach_gen (workers : nat) (s : xstate) : Prop :=
  xreach gen_exec_stream_per_job gen_exec_collect gen_exec_job file fails (xinit ranges workers) s.

Lemma xinv_reach : forall workers s, (1 <= workers)%nat -> xreach_gen workers s -> xinv s.
Proof.
  intros workers s Hw Hr. induction Hr as [|s t s' Hr IH Hs]; [apply xinv_init; auto|eapply xinv_step; eauto].
Qed.

(* the outcome is a function of the request alone: the blocks in submission order, or the first failing range *)
Theorem exec_safe : forall workers s o, (1 <= workers)%nat -> xreach_gen workers s ->
  x_main s = XShutdown o \/ x_main s = XDone o -> o = expected.
Proof.
  intros workers s o Hw Hr Hm. destruct (xinv_reach _ _ Hw Hr) as [_ _ _ _ _ _ _ Hmain]. unfold main_ok in Hmain.
  destruct Hm as [Hm|Hm]; rewrite Hm in Hmain; tauto.
Qed.

(* main leaves the with block only when every pool thread has exited *)
Theorem exec_joined : forall workers s o, (1 <= workers)%nat -> xreach_gen workers s ->
  x_main s = XDone o -> forallb is_xexit (x_ws s) = true.
Proof.
  intros workers s o Hw Hr Hm. destruct (xinv_reach _ _ Hw Hr) as [_ _ _ _ _ _ _ Hmain]. unfold main_ok in Hmain.
  rewrite Hm in Hmain. tauto.
Qed.

(* ... and then nothing moves any more: once the call has returned or raised no thread it started takes another step (no request,
   no seek, no job begun) *)
Theorem exec_done_final : forall workers s o, (1 <= workers)%nat -> xreach_gen workers s ->
  x_main s = XDone o -> xstuck gen_exec_stream_per_job gen_exec_collect gen_exec_job file fails s.
Proof.
  intros workers s o Hw Hr Hm. pose proof (exec_joined _ _ _ Hw Hr Hm) as Hex. intros [|w]; cbn [xstep].
  - unfold xmstep. rewrite Hm. reflexivity.
  - unfold xwstep. destruct (nth_error (x_ws s) w) as [st|] eqn:Hn; auto.
    rewrite forallb_forall in Hex. specialize (Hex _ (nth_error_In _ _ Hn)). destruct st; try discriminate. reflexivity.
Qed.

Lemma xjob_enabled : forall s w i r pc, nth_error (x_ws s) w = Some (XJob i r pc) -> exists s', xws s w = Some s'.
Proof.
  intros s w i r pc Hn. unfold xwstep. rewrite Hn. destruct (nth_error gen_exec_job pc) as [[|]|]; eauto.
  destruct (fails _); eauto.
Qed.

Theorem exec_progress : forall workers s, (1 <= workers)%nat -> xreach_gen workers s ->
  xstuck gen_exec_stream_per_job gen_exec_collect gen_exec_job file fails s -> exists o, x_main s = XDone o.
Proof.
  intros workers s Hw Hr Hstuck. destruct (xinv_reach _ _ Hw Hr) as [Hfl Hpl Hpend Hwok Hnd Hfut Hacct Hmain].
  assert (Hjob : forall w i r pc, nth_error (x_ws s) w = Some (XJob i r pc) -> False).
  { intros w i r pc Hn. destruct (xjob_enabled _ _ _ _ _ Hn) as [s' Hs']. specialize (Hstuck (S w)). cbn in Hstuck. congruence. }
  pose proof (Hstuck O) as H0. cbn in H0. unfold xmstep in H0. unfold main_ok in Hmain.
  destruct (x_main s) as [k acc|o|o] eqn:Hm.
  - exfalso. destruct Hmain as (Hk & Hacc & Hff & Hne & Hws). rewrite Hfl in H0.
    destruct (Nat.eqb k n) eqn:E; [discriminate|]. apply Nat.eqb_neq in E. cbn [gen_exec_collect] in H0.
    assert (Hk' : (k < n)%nat) by lia.
    destruct (nth k (x_fut s) None) as [[d|r]|] eqn:Hf; try discriminate.
    specialize (Hacct _ Hk' Hf).
    assert (Hnn : ranges <> []) by (destruct ranges; cbn in Hk'; [lia|discriminate]).
    specialize (Hws Hnn). destruct (x_ws s) as [|w0 ws] eqn:Ews; [contradiction|].
    apply in_app_or in Hacct as [Hin|Hin].
    + (* job k still queued: worker 0 can take it (or is running a job) *)
      destruct w0 as [|i r pc|].
      * specialize (Hstuck 1%nat). cbn in Hstuck. unfold xwstep in Hstuck. rewrite Ews in Hstuck. cbn in Hstuck.
        destruct (x_pending s) as [|[i r] p]; [contradiction|discriminate].
      * apply (Hjob O i r pc). rewrite ?Ews. reflexivity.
      * inversion Hne; discriminate.
    + (* job k is held by a worker, which can move *)
      unfold held in Hin. apply in_flat_map in Hin as (w & Hw1 & Hw2). destruct w as [|i r pc|]; try contradiction.
      apply In_nth_error in Hw1 as [j Hj]. apply (Hjob j i r pc). rewrite ?Ews. exact Hj.
  - exfalso. destruct (forallb is_xexit (x_ws s)) eqn:E; [discriminate|].
    assert (Hex : exists w, In w (x_ws s) /\ is_xexit w = false).
    { clear -E. induction (x_ws s) as [|w ws IH]; cbn in E; [discriminate|].
      destruct (is_xexit w) eqn:Ew; [destruct (IH E) as (w' & H1 & H2); exists w'; split; auto; right; auto|].
      exists w. split; auto. left; auto. }
    destruct Hex as (w & Hin & Hw'). apply In_nth_error in Hin as [j Hj].
    destruct w as [|i r pc|]; [|eapply Hjob; eauto|discriminate].
    specialize (Hstuck (S j)). cbn in Hstuck. unfold xwstep in Hstuck. rewrite Hj, Hm in Hstuck.
    destruct (x_pending s) as [|[i r] p]; discriminate.
  - eauto.
Qed.

Lemma xwsum_mid : forall job a w b, xwsum job (a ++ w :: b) = (xwsum job a + xwmeasure job w + xwsum job b)%nat.
Proof. intros job a w b. unfold xwsum. induction a as [|x a IH]; cbn; [lia|]. fold (xwsum job) in *. rewrite IH. lia. Qed.

Ltac xmsimp := cbn [x_fut x_pos x_pending x_ws x_order x_main with_xm length xwmeasure]; change (length gen_exec_job) with 2%nat.

Theorem exec_terminates : forall workers s t s', (1 <= workers)%nat -> xreach_gen workers s -> xs s t = Some s' ->
  (xmeasure gen_exec_job s' < xmeasure gen_exec_job s)%nat.
Proof.
  intros workers s t s' Hw Hr Hstep. destruct (xinv_reach _ _ Hw Hr) as [Hfl Hpl Hpend Hwok Hnd Hfut Hacct Hmain].
  destruct t as [|w]; cbn in Hstep.
  - unfold xmstep in Hstep. unfold main_ok in Hmain. unfold xmeasure.
    destruct (x_main s) as [k acc|o|o] eqn:Hm.
    + destruct Hmain as (Hk & _). rewrite Hfl in *.
      destruct (Nat.eqb k n) eqn:E.
      * inversion Hstep; subst s'; xmsimp. lia.
      * apply Nat.eqb_neq in E. cbn [gen_exec_collect] in Hstep.
        destruct (nth k (x_fut s) None) as [[d|r]|]; inversion Hstep; subst s'; xmsimp; rewrite ?Hfl; lia.
    + destruct (forallb is_xexit (x_ws s)); inversion Hstep; subst s'; xmsimp. lia.
    + discriminate.
  - unfold xwstep in Hstep.
    destruct (nth_error (x_ws s) w) as [st|] eqn:Hn; [|discriminate].
    destruct (set_nth_split _ _ _ _ Hn) as (a & b & Hws & _ & Hset).
    assert (Hst : xw_ok (x_pos s) st).
    { rewrite Hws in Hwok. apply Forall_app in Hwok as [_ Hc]. inversion Hc; auto. }
    unfold xmeasure. rewrite Hws at 1. rewrite xwsum_mid. unfold with_xw, sidx in Hstep.
    destruct st as [|i r pc|]; [| |discriminate].
    + destruct (x_pending s) as [|[i r] p].
      * destruct (x_main s) eqn:Hm; inversion Hstep; subst s'; xmsimp; rewrite Hset, xwsum_mid; xmsimp; lia.
      * inversion Hstep; subst s'; xmsimp; rewrite Hset, xwsum_mid; xmsimp; lia.
    + destruct Hst as [Hir Hpc]. pose proof (idx_lt _ _ Hir) as Hlt.
      destruct Hpc as [->|[-> Hpos]]; cbn [gen_exec_stream_per_job gen_exec_job nth_error] in Hstep.
      * inversion Hstep; subst s'; xmsimp; rewrite Hset, xwsum_mid; xmsimp; lia.
      * destruct (fails _); inversion Hstep; subst s'; xmsimp; rewrite Hset, xwsum_mid, set_nth_length by lia; xmsimp; lia.
Qed.

End ExecProofs.

(* ------------------------------------------------------------------------------------------------ refutations *)
(* one stream shared by the jobs: a seek of one job lands between seek and read of another *)
Theorem exec_shared_stream_race : exists sched,
  let fails := fun _ : range => false in
  let file := [10; 11; 12; 13; 14; 15] in
  let ranges := [(0, 2); (2, 2)] in
  let s := xrun false BySubmission gen_exec_job file fails (xinit ranges 2) sched in
  x_main s = XDone (OReturned [12; 13; 14; 15]) /\ local_read file ranges = [10; 11; 12; 13].
Proof. exists [1; 2; 1; 2; 1; 2; 0; 0; 0; 0; 1; 2; 0]%nat. vm_compute. split; reflexivity. Qed.

(* results taken in completion order without a sort: the second block answered first comes first *)
Theorem exec_completion_order_race : exists sched,
  let fails := fun _ : range => false in
  let file := [10; 11; 12; 13] in
  let ranges := [(0, 2); (2, 2)] in
  let s := xrun true ByCompletion gen_exec_job file fails (xinit ranges 2) sched in
  x_main s = XDone (OReturned [12; 13; 10; 11]) /\ local_read file ranges = [10; 11; 12; 13].
Proof. exists [1; 2; 2; 2; 1; 1; 0; 0; 0; 0; 1; 2; 0]%nat. vm_compute. split; reflexivity. Qed.
