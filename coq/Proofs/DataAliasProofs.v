(* Proofs about the aliasing model of derived LasData objects (Model/DataAlias.v): separation is an invariant of every
   history, and under separation an operation on one LasData leaves every other LasData - hence the file it writes - alone. *)
From Coq Require Import String.
From Coq Require Import ZArith List Bool Lia ZifyBool.
From LasV Require Import Lib.Base Lib.BaseFacts Lib.Layout Model.Las Model.LasSpec Model.WriterAlias Model.DataAlias
  Proofs.WriterAliasProofs.
Import ListNotations.
Open Scope list_scope.
Open Scope Z_scope.

(* ------------------------------------------------------------------------------------ *)
(* lists                                                                                 *)
(* ------------------------------------------------------------------------------------ *)
Lemma set_nth_length {A} (x : A) : forall l a, length (set_nth a x l) = length l.
Proof. induction l as [|y l IH]; intros a; [now destruct a|]. destruct a; cbn [set_nth length]; [reflexivity|]. now rewrite IH. Qed.

Lemma map_set_nth {A B} (f : A -> B) (x : A) : forall l a, map f (set_nth a x l) = set_nth a (f x) (map f l).
Proof. induction l as [|y l IH]; intros a; [now destruct a|]. destruct a; cbn [set_nth map]; [reflexivity|]. now rewrite IH. Qed.

Lemma set_nth_id {A} (y : A) : forall l a, nth_error l a = Some y -> set_nth a y l = l.
Proof.
  induction l as [|z l IH]; intros a H; [now destruct a|]. destruct a; cbn [set_nth nth_error] in *.
  - now injection H as ->.
  - now rewrite IH.
Qed.

Lemma In_set_nth {A} (x z : A) : forall l a, In z (set_nth a x l) -> z = x \/ In z l.
Proof.
  induction l as [|y l IH]; intros a H; [now destruct a|]. destruct a; cbn [set_nth] in H.
  - destruct H as [<-|H]; [now left|right; now right].
  - destruct H as [<-|H]; [right; now left|]. destruct (IH a H) as [->|Hi]; [now left|right; now right].
Qed.

Lemma NoDup_snoc {A} (x : A) : forall l, NoDup l -> ~ In x l -> NoDup (l ++ [x]).
Proof.
  induction l as [|y l IH]; intros Hn Hx; cbn [app].
  - constructor; [intros []|constructor].
  - inversion Hn as [|? ? Hy Hl]; subst. constructor.
    + intros Hi. apply in_app_or in Hi as [Hi|[<-|[]]]; [contradiction|]. apply Hx. now left.
    + apply IH; [exact Hl|]. intros Hi. apply Hx. now right.
Qed.

Lemma NoDup_nth_inj {A} (l : list A) i j a : NoDup l -> nth_error l i = Some a -> nth_error l j = Some a -> i = j.
Proof.
  intros Hn Hi Hj. apply (proj1 (NoDup_nth_error l) Hn).
  - apply nth_error_Some. congruence.
  - congruence.
Qed.

Lemma map_set_nth_same {A B} (f : A -> B) (x y : A) l a : nth_error l a = Some y -> f x = f y -> map f (set_nth a x l) = map f l.
Proof. intros H E. rewrite map_set_nth, E. apply set_nth_id. now apply map_nth_error. Qed.

(* ------------------------------------------------------------------------------------ *)
(* separation is preserved                                                               *)
(* ------------------------------------------------------------------------------------ *)
Lemma derive_sep w i f : sep w -> sep (derive w i f).
Proof.
  intros (I1 & I2 & I3 & I4). unfold derive.
  destruct (nth_error (dw_objs w) i) as [o|] eqn:Eo; [|now repeat split].
  unfold alloc_copy.
  destruct (nth_error (dw_hdrs w) (lo_hdr o)) as [h|] eqn:Eh; [|now repeat split].
  destruct (nth_error (dw_fmts w) (ho_fmt h)) as [d|] eqn:Ed; [|now repeat split].
  cbn [dw_fmts dw_hdrs dw_objs]. unfold sep. cbn [dw_fmts dw_hdrs dw_objs].
  rewrite !map_app, !app_length. cbn [map lo_hdr ho_fmt length]. repeat split.
  - apply NoDup_snoc; [exact I1|]. intros Hi. apply in_map_iff in Hi as (o' & E & Ho'). specialize (I2 o' Ho'). lia.
  - intros o' Ho'. apply in_app_or in Ho' as [Ho'|[<-|[]]]; [specialize (I2 o' Ho'); lia|cbn [lo_hdr]; lia].
  - apply NoDup_snoc; [exact I3|]. intros Hi. apply in_map_iff in Hi as (h' & E & Hh'). specialize (I4 h' Hh'). lia.
  - intros h' Hh'. apply in_app_or in Hh' as [Hh'|[<-|[]]]; [specialize (I4 h' Hh'); lia|cbn [ho_fmt]; lia].
Qed.

Lemma edit_sep w i e : sep w -> sep (edit_obj w i e).
Proof.
  intros (I1 & I2 & I3 & I4). unfold edit_obj.
  destruct (nth_error (dw_objs w) i) as [o|] eqn:Eo; [|now repeat split].
  destruct (nth_error (dw_hdrs w) (lo_hdr o)) as [h|] eqn:Eh; [|now repeat split].
  set (h' := mkHO _ _ _ (ho_fmt h)).
  unfold sep. cbn [dw_fmts dw_hdrs dw_objs].
  assert (map ho_fmt (set_nth (lo_hdr o) h' (dw_hdrs w)) = map ho_fmt (dw_hdrs w)) as Mh
    by (apply (map_set_nth_same ho_fmt h' h); [exact Eh|reflexivity]).
  assert (forall r, map lo_hdr (set_nth i (mkLO (lo_hdr o) r) (dw_objs w)) = map lo_hdr (dw_objs w)) as Mo
    by (intros r; apply (map_set_nth_same lo_hdr _ o); [exact Eo|reflexivity]).
  assert (length (match de_fmt e with Some d => set_nth (ho_fmt h) d (dw_fmts w) | None => dw_fmts w end) = length (dw_fmts w)) as Lf
    by (destruct (de_fmt e); [apply set_nth_length|reflexivity]).
  rewrite Mh, Lf, set_nth_length. repeat split.
  - destruct (de_recs e); [rewrite Mo|]; exact I1.
  - intros o' Ho'. destruct (de_recs e) as [r|]; [|now apply I2].
    apply In_set_nth in Ho' as [->|Ho']; [|now apply I2]. cbn [lo_hdr]. apply I2. eapply nth_error_In. exact Eo.
  - exact I3.
  - intros h'' Hh. apply In_set_nth in Hh as [->|Hh]; [|now apply I4]. unfold h'. cbn [ho_fmt]. apply I4. eapply nth_error_In. exact Eh.
Qed.

Lemma create_sep w f vl evl d recs : sep w -> sep (create w f vl evl d recs).
Proof.
  intros (I1 & I2 & I3 & I4). unfold create, sep. cbn [dw_fmts dw_hdrs dw_objs].
  rewrite !map_app, !app_length. cbn [map lo_hdr ho_fmt length]. repeat split.
  - apply NoDup_snoc; [exact I1|]. intros Hi. apply in_map_iff in Hi as (o' & E & Ho'). specialize (I2 o' Ho'). lia.
  - intros o' Ho'. apply in_app_or in Ho' as [Ho'|[<-|[]]]; [specialize (I2 o' Ho'); lia|cbn [lo_hdr]; lia].
  - apply NoDup_snoc; [exact I3|]. intros Hi. apply in_map_iff in Hi as (h' & E & Hh'). specialize (I4 h' Hh'). lia.
  - intros h' Hh'. apply in_app_or in Hh' as [Hh'|[<-|[]]]; [specialize (I4 h' Hh'); lia|cbn [ho_fmt]; lia].
Qed.

Theorem dstep_sep : forall ap w op, sep w -> sep (fst (dstep ap w op)).
Proof.
  intros ap w op H. destruct op as [i sel|i|i e|i|f0 vl evl d recs]; cbn [dstep fst];
    [apply derive_sep|apply derive_sep|apply edit_sep| |apply create_sep]; exact H.
Qed.
Print Assumptions dstep_sep.

Lemma drun_cons ap w op r :
  drun ap w (op :: r) = (fst (drun ap (fst (dstep ap w op)) r),
                         match snd (dstep ap w op) with Some x => x :: snd (drun ap (fst (dstep ap w op)) r)
                                                      | None => snd (drun ap (fst (dstep ap w op)) r) end).
Proof.
  cbn [drun]. destruct (dstep ap w op) as [w' o]. cbn [fst snd]. now destruct (drun ap w' r).
Qed.

Theorem drun_sep : forall ap ops w, sep w -> sep (fst (drun ap w ops)).
Proof.
  intros ap ops. induction ops as [|op r IH]; intros w H; [exact H|].
  rewrite drun_cons. cbn [fst]. apply IH. now apply dstep_sep.
Qed.
Print Assumptions drun_sep.

Theorem world_of_sep : forall f vl evl d recs, sep (world_of f vl evl d recs).
Proof.
  intros. unfold sep, world_of. cbn [dw_objs dw_hdrs dw_fmts map lo_hdr ho_fmt length]. repeat split.
  - constructor; [intros []|constructor].
  - intros o [<-|[]]. cbn [lo_hdr]. lia.
  - constructor; [intros []|constructor].
  - intros h [<-|[]]. cbn [ho_fmt]. lia.
Qed.
Print Assumptions world_of_sep.

(* every world reachable from one LasData by any history is separated *)
Theorem reachable_sep : forall ap ops f vl evl d recs, sep (fst (drun ap (world_of f vl evl d recs) ops)).
Proof. intros. apply drun_sep, world_of_sep. Qed.
Print Assumptions reachable_sep.

(* ------------------------------------------------------------------------------------ *)
(* the frame: an operation on one LasData leaves every other one alone                   *)
(* ------------------------------------------------------------------------------------ *)
Lemma view_parts w j v : view w j = Some v ->
  exists o h, nth_error (dw_objs w) j = Some o /\ nth_error (dw_hdrs w) (lo_hdr o) = Some h
              /\ nth_error (dw_fmts w) (ho_fmt h) = Some (dv_fmt v)
              /\ v = mkDV (ho_fields h) (ho_vlrs h) (ho_evlrs h) (dv_fmt v) (lo_recs o).
Proof.
  unfold view. destruct (nth_error (dw_objs w) j) as [o|] eqn:Eo; [|discriminate].
  destruct (nth_error (dw_hdrs w) (lo_hdr o)) as [h|] eqn:Eh; [|discriminate].
  destruct (nth_error (dw_fmts w) (ho_fmt h)) as [d|] eqn:Ed; [|discriminate].
  intros H. injection H as <-. exists o, h. cbn [dv_fmt]. repeat split; assumption.
Qed.

Lemma nth_error_app_Some {A} (l l' : list A) k x : nth_error l k = Some x -> nth_error (l ++ l') k = Some x.
Proof. intros H. rewrite nth_error_app1; [exact H|]. apply nth_error_Some. congruence. Qed.

Lemma derive_frame w i f j v : view w j = Some v -> view (derive w i f) j = Some v.
Proof.
  intros Hv. destruct (view_parts w j v Hv) as (oj & hj & Eo & Eh & Ed & Ev).
  unfold derive. destruct (nth_error (dw_objs w) i) as [o|]; [|exact Hv].
  unfold alloc_copy.
  destruct (nth_error (dw_hdrs w) (lo_hdr o)) as [h|]; [|exact Hv].
  destruct (nth_error (dw_fmts w) (ho_fmt h)) as [d|]; [|exact Hv].
  unfold view. cbn [dw_fmts dw_hdrs dw_objs].
  rewrite (nth_error_app_Some _ _ _ _ Eo), (nth_error_app_Some _ _ _ _ Eh), (nth_error_app_Some _ _ _ _ Ed).
  now rewrite Ev.
Qed.

Lemma edit_frame w i e j v : sep w -> i <> j -> view w j = Some v -> view (edit_obj w i e) j = Some v.
Proof.
  intros (I1 & I2 & I3 & I4) Hij Hv. destruct (view_parts w j v Hv) as (oj & hj & Eoj & Ehj & Edj & Ev).
  unfold edit_obj. destruct (nth_error (dw_objs w) i) as [o|] eqn:Eo; [|exact Hv].
  destruct (nth_error (dw_hdrs w) (lo_hdr o)) as [h|] eqn:Eh; [|exact Hv].
  assert (lo_hdr o <> lo_hdr oj) as Hh.
  { intros E. apply Hij. apply (NoDup_nth_inj (map lo_hdr (dw_objs w)) i j (lo_hdr o) I1).
    - now apply map_nth_error.
    - rewrite E. now apply map_nth_error. }
  assert (ho_fmt h <> ho_fmt hj) as Hf.
  { intros E. apply Hh. apply (NoDup_nth_inj (map ho_fmt (dw_hdrs w)) _ _ (ho_fmt h) I3).
    - now apply map_nth_error.
    - rewrite E. now apply map_nth_error. }
  unfold view. cbn [dw_fmts dw_hdrs dw_objs].
  assert (nth_error (match de_recs e with Some r => set_nth i (mkLO (lo_hdr o) r) (dw_objs w) | None => dw_objs w end) j = Some oj) as ->.
  { destruct (de_recs e); [rewrite nth_error_set_nth_other by exact Hij|]; exact Eoj. }
  rewrite nth_error_set_nth_other by exact Hh. rewrite Ehj.
  assert (nth_error (match de_fmt e with Some d => set_nth (ho_fmt h) d (dw_fmts w) | None => dw_fmts w end) (ho_fmt hj) = Some (dv_fmt v)) as ->.
  { destruct (de_fmt e); [rewrite nth_error_set_nth_other by exact Hf|]; exact Edj. }
  now rewrite Ev.
Qed.

Lemma create_frame w f vl evl d recs j v : view w j = Some v -> view (create w f vl evl d recs) j = Some v.
Proof.
  intros Hv. destruct (view_parts w j v Hv) as (oj & hj & Eo & Eh & Ed & Ev).
  unfold create, view. cbn [dw_fmts dw_hdrs dw_objs].
  rewrite (nth_error_app_Some _ _ _ _ Eo), (nth_error_app_Some _ _ _ _ Eh), (nth_error_app_Some _ _ _ _ Ed).
  now rewrite Ev.
Qed.

(* C01-r4-1's statement: whatever is done to a selection (or to any other LasData), the object it was taken from is
   what it was *)
Theorem dstep_frame : forall ap w op j v, sep w -> target op <> Some j ->
  view w j = Some v -> view (fst (dstep ap w op)) j = Some v.
Proof.
  intros ap w op j v Hs Ht Hv. destruct op as [i sel|i|i e|i|f0 vl evl d recs]; cbn [dstep fst].
  - now apply derive_frame.
  - now apply derive_frame.
  - apply edit_frame; [exact Hs| |exact Hv]. intros ->. now apply Ht.
  - exact Hv.
  - now apply create_frame.
Qed.
Print Assumptions dstep_frame.

Theorem drun_frame : forall ap ops w j v, sep w -> (forall op, In op ops -> target op <> Some j) ->
  view w j = Some v -> view (fst (drun ap w ops)) j = Some v.
Proof.
  intros ap ops. induction ops as [|op r IH]; intros w j v Hs Ht Hv; [exact Hv|].
  rewrite drun_cons. cbn [fst]. apply IH.
  - now apply dstep_sep.
  - intros op' Hop. apply Ht. now right.
  - apply dstep_frame; [exact Hs| |exact Hv]. apply Ht. now left.
Qed.
Print Assumptions drun_frame.

(* ... and so is the file it writes: after any history that does not operate on las_j itself - selections taken from it,
   objects derived from those, any edit of any of them - las_j.write() gives the bytes it gave before *)
Theorem write_unaffected_by_other_objects : forall ap ops w j v, sep w ->
  (forall op, In op ops -> target op <> Some j) -> view w j = Some v ->
  write_obj ap (fst (drun ap w ops)) j = write_obj ap w j.
Proof.
  intros ap ops w j v Hs Ht Hv. unfold write_obj. now rewrite (drun_frame ap ops w j v Hs Ht Hv), Hv.
Qed.
Print Assumptions write_unaffected_by_other_objects.

(* a derived object starts out with the header VALUES of the one it was derived from, in objects of its own *)
Theorem derived_object_is_a_copy : forall w i f v, view w i = Some v ->
  view (derive w i f) (length (dw_objs w)) = Some (mkDV (dv_fields v) (dv_vlrs v) (dv_evlrs v) (dv_fmt v) (f (dv_recs v))).
Proof.
  intros w i f v Hv. destruct (view_parts w i v Hv) as (o & h & Eo & Eh & Ed & Ev).
  unfold derive, alloc_copy. rewrite Eo, Eh, Ed. unfold view. cbn [dw_fmts dw_hdrs dw_objs].
  rewrite nth_error_app2, Nat.sub_diag by lia. cbn [nth_error lo_hdr lo_recs].
  rewrite nth_error_app2, Nat.sub_diag by lia. cbn [nth_error ho_fmt ho_fields ho_vlrs ho_evlrs].
  rewrite nth_error_app2, Nat.sub_diag by lia. cbn [nth_error].
  rewrite Ev. reflexivity.
Qed.
Print Assumptions derived_object_is_a_copy.

(* round 7: a LasData made while others are live (laspy.create(), LasData(LasHeader()), laspy.read) holds exactly what it was made with ... *)
Theorem created_object_is_as_given : forall w f vl evl d recs,
  view (create w f vl evl d recs) (length (dw_objs w)) = Some (mkDV f vl evl d recs).
Proof.
  intros. unfold create, view. cbn [dw_fmts dw_hdrs dw_objs].
  rewrite nth_error_app2, Nat.sub_diag by lia. cbn [nth_error lo_hdr lo_recs].
  rewrite nth_error_app2, Nat.sub_diag by lia. cbn [nth_error ho_fmt ho_fields ho_vlrs ho_evlrs].
  rewrite nth_error_app2, Nat.sub_diag by lia. cbn [nth_error]. reflexivity.
Qed.
Print Assumptions created_object_is_as_given.

Theorem world_of_is_create : forall f vl evl d recs, world_of f vl evl d recs = create (mkDW [] [] []) f vl evl d recs.
Proof. reflexivity. Qed.
Print Assumptions world_of_is_create.

(* ... and keeps writing the file of exactly that, whatever is made and done afterwards that is not an operation on itself: a second
   cloud made the same way (same defaults), that cloud's header edited through any setter, further clouds made and derived *)
Theorem created_cloud_keeps_its_file : forall ap w f vl evl d recs ops, sep w ->
  (forall op, In op ops -> target op <> Some (length (dw_objs w))) ->
  write_obj ap (fst (drun ap (create w f vl evl d recs) ops)) (length (dw_objs w)) = write_view ap (mkDV f vl evl d recs).
Proof.
  intros ap w f vl evl d recs ops Hs Ht.
  rewrite (write_unaffected_by_other_objects ap ops (create w f vl evl d recs) (length (dw_objs w)) (mkDV f vl evl d recs)).
  - unfold write_obj. now rewrite created_object_is_as_given.
  - now apply create_sep.
  - exact Ht.
  - apply created_object_is_as_given.
Qed.
Print Assumptions created_cloud_keeps_its_file.

(* the file a LasData writes is the one-shot file of what it refers to (so the round trip theorems of C01 apply to it) *)
Theorem write_is_file_of : forall ap w j v, view w j = Some v ->
  write_obj ap w j = file_of ap (hdr_of (dv_fields v) (dv_fmt v)) (dv_vlrs v) (fd_id (dv_fmt v)) (dv_recs v)
                             (if aint (dv_fields v) "version.minor" >=? 4 then dv_evlrs v else []).
Proof. intros ap w j v Hv. unfold write_obj. now rewrite Hv. Qed.
Print Assumptions write_is_file_of.
