(* Known record types: stability of the parsed content, byte identity of well-formed payloads,
   fallback to the raw record, and the dispatch table. *)
From Coq Require Import String.
From Coq Require Import ZArith List Bool Lia ZifyBool.
From LasV Require Import Lib.Base Lib.BaseFacts Lib.Layout Proofs.LayoutProofs Gen.GenKnown Model.Las Model.LasSpec
  Proofs.VlrProofs Model.Known.
Import ListNotations.
Open Scope list_scope.
Open Scope Z_scope.

(* ------------------------------------------------------------------------------------ *)
(* generic list facts                                                                    *)
(* ------------------------------------------------------------------------------------ *)
Lemma Some_inj {A} (a b : A) : Some a = Some b -> a = b.
Proof. intros H. now injection H. Qed.

Lemma firstn_add {A} a b (l : list A) : firstn (a + b) l = firstn a l ++ firstn b (skipn a l).
Proof.
  revert l; induction a as [|a IH]; intros l; [reflexivity|].
  destruct l as [|x l]; [cbn; now rewrite firstn_nil|].
  cbn [Nat.add firstn skipn app]. now rewrite IH.
Qed.

Lemma list_eqb_eq a : forall b, list_eqb a b = true <-> a = b.
Proof.
  induction a as [|x a IH]; intros [|y b]; cbn [list_eqb]; split; intros H; try reflexivity; try discriminate.
  - apply andb_true_iff in H as [Hx Hr]. apply Z.eqb_eq in Hx. apply IH in Hr. now subst.
  - injection H as -> ->. rewrite Z.eqb_refl. apply IH. reflexivity.
Qed.

Lemma list_eqb_refl a : list_eqb a a = true.
Proof. now apply list_eqb_eq. Qed.

Lemma In_firstn {A} n (l : list A) x : In x (firstn n l) -> In x l.
Proof.
  revert l; induction n as [|n IH]; intros l Hx; [destruct Hx|].
  destruct l as [|y l]; [destruct Hx|]. destruct Hx as [->|Hx]; [now left|right; now apply IH].
Qed.

Lemma bytes_ok_firstn n l : bytes_ok l = true -> bytes_ok (firstn n l) = true.
Proof.
  unfold bytes_ok. rewrite !forallb_forall. intros H x Hx. apply H. eapply In_firstn. exact Hx.
Qed.

Lemma In_skipn {A} n (l : list A) x : In x (skipn n l) -> In x l.
Proof.
  revert l; induction n as [|n IH]; intros l Hx; [exact Hx|].
  destruct l as [|y l]; [destruct Hx|]. right. apply IH. exact Hx.
Qed.

Lemma bytes_ok_skipn n l : bytes_ok l = true -> bytes_ok (skipn n l) = true.
Proof.
  unfold bytes_ok. rewrite !forallb_forall. intros H x Hx. apply H. eapply In_skipn. exact Hx.
Qed.

Lemma bytes_ok_concat cs : Forall (fun c => bytes_ok c = true) cs -> bytes_ok (concat cs) = true.
Proof.
  induction cs as [|c cs IH]; intros H; [reflexivity|].
  inversion H as [|? ? Hc Hr]; subst. cbn [concat]. rewrite bytes_ok_app, Hc, (IH Hr). reflexivity.
Qed.

Lemma ascii_ok_app a b : ascii_ok (a ++ b) = ascii_ok a && ascii_ok b.
Proof. unfold ascii_ok. apply forallb_app. Qed.

Lemma ascii_ok_zeros n : ascii_ok (zeros n) = true.
Proof. induction n as [|n IH]; [reflexivity|]. cbn. exact IH. Qed.

Lemma no_nul_cut_nul f : no_nul (cut_nul f) = true.
Proof.
  induction f as [|b f IH]; [reflexivity|]. cbn [cut_nul].
  destruct (b =? 0) eqn:E; [reflexivity|]. cbn [no_nul forallb]. rewrite E. exact IH.
Qed.

Lemma cut_nul_length f : (length (cut_nul f) <= length f)%nat.
Proof.
  induction f as [|b f IH]; [apply le_n|]. cbn [cut_nul].
  destruct (b =? 0); cbn [length]; lia.
Qed.

Lemma bytes_ok_cut_nul f : bytes_ok f = true -> bytes_ok (cut_nul f) = true.
Proof.
  induction f as [|b f IH]; intros H; [reflexivity|]. cbn [cut_nul].
  cbn [bytes_ok forallb] in H. apply andb_true_iff in H as [Hb Hf].
  destruct (b =? 0); [reflexivity|]. cbn [bytes_ok forallb]. rewrite Hb. apply IH. exact Hf.
Qed.

(* ------------------------------------------------------------------------------------ *)
(* split_chunks                                                                          *)
(* ------------------------------------------------------------------------------------ *)
Lemma concat_split_chunks n w bs : concat (split_chunks n w bs) = firstn (n * w) bs.
Proof.
  revert bs; induction n as [|n IH]; intros bs; [reflexivity|].
  cbn [split_chunks concat Nat.mul]. rewrite IH. symmetry. apply firstn_add.
Qed.

Lemma concat_split_exact w bs : w <> O -> (length bs mod w = 0)%nat ->
  concat (split_chunks (length bs / w) w bs) = bs.
Proof.
  intros Hw Hm. rewrite concat_split_chunks.
  apply (Nat.div_exact _ _ Hw) in Hm. rewrite Nat.mul_comm, <- Hm. apply firstn_all.
Qed.

Lemma split_chunks_concat w (cs : list (list Z)) rest : Forall (fun c => length c = w) cs ->
  split_chunks (length cs) w (concat cs ++ rest) = cs.
Proof.
  induction cs as [|c cs IH]; intros H; [reflexivity|].
  inversion H as [|? ? Hc Hr]; subst. cbn [length split_chunks concat].
  rewrite <- app_assoc. rewrite firstn_app_exact by reflexivity. rewrite skipn_app_exact by reflexivity.
  now rewrite (IH Hr).
Qed.

Lemma split_chunks_shape n w bs : (n * w <= length bs)%nat ->
  Forall (fun c => length c = w) (split_chunks n w bs) /\ length (split_chunks n w bs) = n.
Proof.
  revert bs; induction n as [|n IH]; intros bs H; [split; [constructor|reflexivity]|].
  cbn [split_chunks]. cbn [Nat.mul] in H.
  destruct (IH (skipn w bs)) as [Hf Hl]; [rewrite skipn_length; lia|].
  split; [constructor; [rewrite firstn_length; lia|exact Hf]|cbn [length]; now rewrite Hl].
Qed.

Lemma split_chunks_bytes_ok n w bs : bytes_ok bs = true -> Forall (fun c => bytes_ok c = true) (split_chunks n w bs).
Proof.
  revert bs; induction n as [|n IH]; intros bs H; [constructor|].
  cbn [split_chunks]. constructor; [now apply bytes_ok_firstn|]. apply IH. now apply bytes_ok_skipn.
Qed.

Lemma concat_length_uniform w (cs : list (list Z)) : Forall (fun c => length c = w) cs -> length (concat cs) = (length cs * w)%nat.
Proof.
  induction cs as [|c cs IH]; intros H; [reflexivity|].
  inversion H as [|? ? Hc Hr]; subst. cbn [concat length Nat.mul]. rewrite app_length, (IH Hr). reflexivity.
Qed.

Lemma div_mul_le a w : (a / w * w <= a)%nat.
Proof.
  destruct w as [|w]; [lia|]. rewrite Nat.mul_comm. apply Nat.mul_div_le. discriminate.
Qed.

(* ------------------------------------------------------------------------------------ *)
(* fixed-size entries copied verbatim: extra bytes structs, doubles                      *)
(* ------------------------------------------------------------------------------------ *)
Lemma parse_fixed_identity w p c : w <> O -> parse_fixed w p = Some c -> concat c = p.
Proof.
  intros Hw. unfold parse_fixed. destruct (Nat.eqb (length p mod w) 0) eqn:E; [|discriminate].
  intros [= <-]. apply Nat.eqb_eq in E. now apply concat_split_exact.
Qed.

Lemma parse_fixed_stable w p c : w <> O -> parse_fixed w p = Some c -> parse_fixed w (concat c) = Some c.
Proof. intros Hw H. now rewrite (parse_fixed_identity _ _ _ Hw H). Qed.

Lemma parse_fixed_none w p : w <> O -> (length p mod w <> 0)%nat -> parse_fixed w p = None.
Proof.
  intros Hw H. unfold parse_fixed. destruct (Nat.eqb (length p mod w) 0) eqn:E; [|reflexivity].
  apply Nat.eqb_eq in E. contradiction.
Qed.

Lemma parse_fixed_some w p : (length p mod w = 0)%nat -> exists c, parse_fixed w p = Some c.
Proof. intros H. unfold parse_fixed. rewrite H. cbn. eexists. reflexivity. Qed.

Lemma extra_identity p c : parse_extra p = Some c -> ser_extra c = p.
Proof. apply parse_fixed_identity. discriminate. Qed.
Lemma extra_stable p c : parse_extra p = Some c -> parse_extra (ser_extra c) = Some c.
Proof. apply parse_fixed_stable. discriminate. Qed.
Lemma doubles_identity p c : parse_doubles p = Some c -> ser_doubles c = p.
Proof. apply parse_fixed_identity. discriminate. Qed.
Lemma doubles_stable p c : parse_doubles p = Some c -> parse_doubles (ser_doubles c) = Some c.
Proof. apply parse_fixed_stable. discriminate. Qed.

(* ------------------------------------------------------------------------------------ *)
(* waveform packet descriptors                                                           *)
(* ------------------------------------------------------------------------------------ *)
Lemma wave_stable p c : parse_wave p = Some c -> parse_wave (ser_wave c) = Some c.
Proof.
  unfold parse_wave, ser_wave. destruct (Nat.leb wf_struct_size (length p)) eqn:E; [|discriminate].
  intros H. apply Some_inj in H. subst c. apply Nat.leb_le in E. rewrite firstn_length, Nat.min_l by exact E.
  rewrite Nat.leb_refl. now rewrite firstn_firstn, Nat.min_id.
Qed.

Lemma wave_identity p c : length p = wf_struct_size -> parse_wave p = Some c -> ser_wave c = p.
Proof.
  intros Hl. unfold parse_wave, ser_wave. rewrite Hl, Nat.leb_refl. intros H. apply Some_inj in H. subst c.
  rewrite <- Hl. apply firstn_all.
Qed.

Lemma wave_short p : (length p < wf_struct_size)%nat -> parse_wave p = None.
Proof.
  intros H. unfold parse_wave. destruct (Nat.leb wf_struct_size (length p)) eqn:E; [|reflexivity].
  apply Nat.leb_le in E. lia.
Qed.

(* ------------------------------------------------------------------------------------ *)
(* GeoAsciiParams                                                                        *)
(* ------------------------------------------------------------------------------------ *)
Lemma split_nul_nonempty p : split_nul p <> [].
Proof.
  induction p as [|b p IH]; cbn [split_nul]; [discriminate|].
  destruct (b =? 0); [discriminate|]. destruct (split_nul p); discriminate.
Qed.

Lemma join_split_nul p : join_nul (split_nul p) = p.
Proof.
  induction p as [|b p IH]; [reflexivity|]. cbn [split_nul].
  destruct (b =? 0) eqn:E.
  - apply Z.eqb_eq in E. subst b. cbn [join_nul].
    destruct (split_nul p) as [|s t] eqn:Es; [now apply split_nul_nonempty in Es|].
    cbn [app]. now rewrite IH.
  - destruct (split_nul p) as [|s t] eqn:Es; [now apply split_nul_nonempty in Es|].
    cbn [join_nul] in *. destruct t as [|s' t']; [now rewrite IH|].
    cbn [app]. now rewrite IH.
Qed.

Lemma ascii_identity p c : parse_ascii p = Some c -> ser_ascii c = p.
Proof. unfold parse_ascii, ser_ascii. destruct (ascii_ok p); [|discriminate]. intros [= <-]. apply join_split_nul. Qed.
Lemma ascii_stable p c : parse_ascii p = Some c -> parse_ascii (ser_ascii c) = Some c.
Proof. intros H. now rewrite (ascii_identity _ _ H). Qed.
Lemma ascii_undecodable p : ascii_ok p = false -> parse_ascii p = None.
Proof. intros H. unfold parse_ascii. now rewrite H. Qed.

(* ------------------------------------------------------------------------------------ *)
(* WKT                                                                                   *)
(* ------------------------------------------------------------------------------------ *)
Lemma drop_zeros_idem l : drop_zeros (drop_zeros l) = drop_zeros l.
Proof.
  induction l as [|b l IH]; [reflexivity|]. cbn [drop_zeros].
  destruct (b =? 0) eqn:E; [exact IH|]. cbn [drop_zeros]. now rewrite E.
Qed.

Lemma drop_zeros_hd l : hd 1 (drop_zeros l) <> 0.
Proof.
  induction l as [|b l IH]; [cbn; lia|]. cbn [drop_zeros].
  destruct (b =? 0) eqn:E; [exact IH|]. cbn [hd]. lia.
Qed.

Lemma drop_zeros_In l x : In x (drop_zeros l) -> In x l.
Proof.
  induction l as [|b l IH]; [intros []|]. cbn [drop_zeros].
  destruct (b =? 0); [intros H; right; now apply IH|intros H; exact H].
Qed.

Lemma last_rev {A} (l : list A) d : last (rev l) d = hd d l.
Proof. destruct l as [|a l]; [reflexivity|]. cbn [rev hd]. apply last_last. Qed.

Lemma strip_nul_rev p : strip_nul p = rev (drop_zeros (rev p)).
Proof. unfold strip_nul. now rewrite <- !rev_alt. Qed.

Lemma strip_nul_idem p : strip_nul (strip_nul p) = strip_nul p.
Proof. rewrite !strip_nul_rev. now rewrite rev_involutive, drop_zeros_idem. Qed.

Lemma strip_nul_last p : last (strip_nul p) 1 <> 0.
Proof. rewrite strip_nul_rev. rewrite last_rev. apply drop_zeros_hd. Qed.

Lemma strip_nul_app_zero s : strip_nul (s ++ [0]) = strip_nul s.
Proof. rewrite !strip_nul_rev. rewrite rev_app_distr. reflexivity. Qed.

Lemma ascii_ok_strip p : ascii_ok p = true -> ascii_ok (strip_nul p) = true.
Proof.
  rewrite strip_nul_rev. unfold ascii_ok. rewrite !forallb_forall. intros H x Hx. apply H.
  apply in_rev in Hx. apply drop_zeros_In in Hx. now apply in_rev.
Qed.

Lemma bytes_ok_strip p : bytes_ok p = true -> bytes_ok (strip_nul p) = true.
Proof.
  rewrite strip_nul_rev. unfold bytes_ok. rewrite !forallb_forall. intros H x Hx. apply H.
  apply in_rev in Hx. apply drop_zeros_In in Hx. now apply in_rev.
Qed.

Lemma ser_wkt_stripped p : ser_wkt (strip_nul p) = strip_nul p ++ [0].
Proof.
  unfold ser_wkt. destruct (last (strip_nul p) 1 =? 0) eqn:E; [|reflexivity].
  apply Z.eqb_eq in E. now apply strip_nul_last in E.
Qed.

(* the payload written for a parsed WKT is the text with exactly one trailing NUL *)
Lemma wkt_normal_form p s : parse_wkt p = Some s -> ser_wkt s = strip_nul p ++ [0] /\ last s 1 <> 0.
Proof.
  unfold parse_wkt. destruct (ascii_ok p); [|discriminate]. intros [= <-].
  split; [apply ser_wkt_stripped|apply strip_nul_last].
Qed.

Lemma wkt_stable p s : parse_wkt p = Some s -> parse_wkt (ser_wkt s) = Some s.
Proof.
  unfold parse_wkt. destruct (ascii_ok p) eqn:E; [|discriminate]. intros [= <-].
  rewrite ser_wkt_stripped, ascii_ok_app, (ascii_ok_strip _ E). cbn [ascii_ok forallb andb].
  change (0 <? 128) with true. cbn [andb]. now rewrite strip_nul_app_zero, strip_nul_idem.
Qed.

(* a payload that already ends with exactly one NUL (text ++ [0], text not ending with NUL) is re-emitted as it is *)
Lemma wkt_identity p s : p = strip_nul p ++ [0] -> parse_wkt p = Some s -> ser_wkt s = p.
Proof. intros Hp H. destruct (wkt_normal_form _ _ H) as [-> _]. now symmetry. Qed.

Lemma wkt_undecodable p : ascii_ok p = false -> parse_wkt p = None.
Proof. intros H. unfold parse_wkt. now rewrite H. Qed.

(* ------------------------------------------------------------------------------------ *)
(* classification lookup                                                                 *)
(* ------------------------------------------------------------------------------------ *)
Definition good_entry (e : Z * list Z) : Prop :=
  byte_ok (fst e) = true /\ no_nul (snd e) = true /\ ascii_ok (snd e) = true
  /\ bytes_ok (snd e) = true /\ (length (snd e) <= lookup_name_size)%nat.

Definition enc_entry (e : Z * list Z) : list Z := fst e :: snd e ++ zeros (lookup_name_size - length (snd e)).

Lemma lookup_entry_good c e : length c = lookup_entry_size -> bytes_ok c = true -> lookup_entry c = Some e -> good_entry e.
Proof.
  destruct c as [|k f]; [discriminate|]. intros Hl Hb. cbn [lookup_entry].
  destruct (ascii_ok (cut_nul f)) eqn:Ea; [|discriminate]. intros H. apply Some_inj in H. subst e.
  cbn [bytes_ok forallb] in Hb. apply andb_true_iff in Hb as [Hk Hf].
  unfold good_entry. cbn [fst snd]. repeat split.
  - exact Hk.
  - apply no_nul_cut_nul.
  - exact Ea.
  - now apply bytes_ok_cut_nul.
  - pose proof (cut_nul_length f). cbn [length] in Hl. unfold lookup_entry_size in Hl. unfold lookup_name_size. lia.
Qed.

Lemma lookup_entries_good cs : forall es, Forall (fun c => length c = lookup_entry_size) cs ->
  Forall (fun c => bytes_ok c = true) cs -> lookup_entries cs = Some es -> Forall good_entry es.
Proof.
  induction cs as [|c cs IH]; intros es Hl Hb H.
  - cbn in H. apply Some_inj in H. subst es. constructor.
  - cbn [lookup_entries] in H. inversion Hl as [|? ? Hl1 Hl2]; subst. inversion Hb as [|? ? Hb1 Hb2]; subst.
    destruct (lookup_entry c) as [e|] eqn:Ee; [|discriminate].
    destruct (lookup_entries cs) as [es'|] eqn:Es; [|discriminate].
    apply Some_inj in H. subst es. constructor; [now apply (lookup_entry_good c)|now apply IH].
Qed.

Lemma dict_set_keys d k v x : In x (map fst (dict_set d k v)) <-> In x (map fst d) \/ x = k.
Proof.
  induction d as [|[k' v'] r IH]; cbn [dict_set map fst In].
  - split; [intros [ <- | [] ]; now right|intros [ [] | -> ]; now left].
  - destruct (k' =? k) eqn:E; cbn [map fst In].
    + apply Z.eqb_eq in E. subst k'. split; [intros H; now left|intros [H| -> ]; [exact H|now left]].
    + rewrite IH. tauto.
Qed.

Lemma dict_set_NoDup d k v : NoDup (map fst d) -> NoDup (map fst (dict_set d k v)).
Proof.
  induction d as [|[k' v'] r IH]; cbn [dict_set map fst]; intros H.
  - constructor; [intros []|constructor].
  - inversion H as [|? ? Hn Hr]; subst. destruct (k' =? k) eqn:E; cbn [map fst].
    + constructor; assumption.
    + constructor; [|now apply IH]. rewrite dict_set_keys. intros [Hi|He]; [contradiction|]. subst k'. rewrite Z.eqb_refl in E. discriminate.
Qed.

Lemma dict_set_In d k v e : In e (dict_set d k v) -> In e d \/ e = (k, v).
Proof.
  induction d as [|[k' v'] r IH]; cbn [dict_set In].
  - intros [ <- | [] ]. now right.
  - destruct (k' =? k) eqn:E; cbn [In].
    + apply Z.eqb_eq in E. subst k'. intros [ <- |H]; [now right|left; now right].
    + intros [ <- |H]; [left; now left|]. destruct (IH H) as [Hi|He]; [left; now right|now right].
Qed.

Lemma dict_set_fresh d k v : ~ In k (map fst d) -> dict_set d k v = d ++ [(k, v)].
Proof.
  induction d as [|[k' v'] r IH]; cbn [dict_set map fst In app]; intros H; [reflexivity|].
  destruct (k' =? k) eqn:E; [apply Z.eqb_eq in E; subst k'; exfalso; apply H; now left|].
  rewrite IH; [reflexivity|]. intros Hi. apply H. now right.
Qed.

Lemma dict_fold_inv es : forall acc, NoDup (map fst acc) -> Forall good_entry acc -> Forall good_entry es ->
  let d := fold_left (fun d e => dict_set d (fst e) (snd e)) es acc in NoDup (map fst d) /\ Forall good_entry d.
Proof.
  induction es as [|e es IH]; intros acc Hn Hg He; [split; assumption|].
  inversion He as [|? ? He1 He2]; subst. cbn [fold_left]. apply IH; [now apply dict_set_NoDup| |exact He2].
  apply Forall_forall. intros x Hx. apply dict_set_In in Hx as [Hx| -> ].
  - rewrite Forall_forall in Hg. now apply Hg.
  - destruct e; exact He1.
Qed.

Lemma dict_fold_fresh es : forall acc, NoDup (map fst (acc ++ es)) ->
  fold_left (fun d e => dict_set d (fst e) (snd e)) es acc = acc ++ es.
Proof.
  induction es as [|e es IH]; intros acc H; [now rewrite app_nil_r|].
  cbn [fold_left]. rewrite dict_set_fresh.
  - destruct e as [k v]. cbn [fst snd]. rewrite IH; rewrite <- app_assoc; [reflexivity|exact H].
  - rewrite map_app in H. cbn [map] in H. apply NoDup_remove_2 in H. intros Hi. apply H. apply in_or_app. now left.
Qed.

Lemma ser_lookup_good l : Forall good_entry l -> ser_lookup l = Ok (concat (map enc_entry l)).
Proof.
  induction l as [|e l IH]; intros H; [reflexivity|].
  inversion H as [|? ? He Hl]; subst. cbn [ser_lookup map concat]. rewrite (IH Hl).
  destruct He as (Hk & _ & _ & _ & Hlen). unfold ser_lookup_entry.
  destruct (Nat.ltb lookup_name_size (length (snd e))) eqn:E; [apply Nat.ltb_lt in E; lia|].
  rewrite Hk. reflexivity.
Qed.

Lemma enc_entry_length e : good_entry e -> length (enc_entry e) = lookup_entry_size.
Proof.
  intros (_ & _ & _ & _ & Hlen). unfold enc_entry. cbn [length]. rewrite app_length, zeros_length.
  unfold lookup_name_size, lookup_entry_size in *. lia.
Qed.

Lemma enc_entry_bytes_ok e : good_entry e -> bytes_ok (enc_entry e) = true.
Proof.
  intros (Hk & _ & _ & Hb & _). unfold enc_entry. cbn [bytes_ok forallb]. rewrite Hk.
  change (forallb byte_ok (snd e ++ zeros (lookup_name_size - length (snd e)))) with (bytes_ok (snd e ++ zeros (lookup_name_size - length (snd e)))).
  now rewrite bytes_ok_app, Hb, bytes_ok_zeros.
Qed.

Lemma lookup_entry_enc e : good_entry e -> lookup_entry (enc_entry e) = Some e.
Proof.
  intros (_ & Hn & Ha & _ & _). unfold enc_entry. cbn [lookup_entry].
  destruct (cut_nul_app_zeros (snd e) (lookup_name_size - length (snd e)) [] Hn) as [_ ->].
  rewrite Ha. now destruct e.
Qed.

Lemma lookup_entries_enc l : Forall good_entry l -> lookup_entries (map enc_entry l) = Some l.
Proof.
  induction l as [|e l IH]; intros H; [reflexivity|].
  inversion H as [|? ? He Hl]; subst. cbn [map lookup_entries]. now rewrite (lookup_entry_enc _ He), (IH Hl).
Qed.

Lemma split_chunks_concat0 w (cs : list (list Z)) : Forall (fun c => length c = w) cs ->
  split_chunks (length cs) w (concat cs) = cs.
Proof. intros H. rewrite <- (app_nil_r (concat cs)). now apply split_chunks_concat. Qed.

Lemma parse_lookup_enc l : Forall good_entry l -> NoDup (map fst l) ->
  parse_lookup (concat (map enc_entry l)) = Some l.
Proof.
  intros Hg Hn.
  assert (Forall (fun c => length c = lookup_entry_size) (map enc_entry l)) as Hu.
  { apply Forall_forall. intros c Hc. apply in_map_iff in Hc as (e & <- & He).
    apply enc_entry_length. rewrite Forall_forall in Hg. now apply Hg. }
  unfold parse_lookup. rewrite (concat_length_uniform _ _ Hu), map_length.
  rewrite Nat.mod_mul by discriminate. rewrite Nat.div_mul by discriminate. cbn [Nat.eqb].
  rewrite <- (map_length enc_entry l) at 1. rewrite (split_chunks_concat0 _ _ Hu).
  rewrite (lookup_entries_enc _ Hg). cbn [option_map]. f_equal.
  unfold dict_of. now rewrite (dict_fold_fresh l []).
Qed.

(* the parsed dict always re-serialises, to bytes that parse to the same dict *)
Lemma lookup_stable p l : bytes_ok p = true -> parse_lookup p = Some l ->
  exists q, ser_lookup l = Ok q /\ parse_lookup q = Some l /\ bytes_ok q = true.
Proof.
  intros Hb. unfold parse_lookup.
  destruct (Nat.eqb (length p mod lookup_entry_size) 0) eqn:Em; [|discriminate].
  set (cs := split_chunks (length p / lookup_entry_size) lookup_entry_size p).
  destruct (lookup_entries cs) as [es|] eqn:Ee; [|discriminate]. cbn [option_map]. intros H. apply Some_inj in H.
  destruct (split_chunks_shape (length p / lookup_entry_size) lookup_entry_size p (div_mul_le _ _)) as [Hshape _].
  pose proof (lookup_entries_good cs es Hshape (split_chunks_bytes_ok _ _ _ Hb) Ee) as Hg.
  destruct (dict_fold_inv es [] (NoDup_nil _) (Forall_nil _) Hg) as [Hn Hgl].
  fold (dict_of es) in Hn, Hgl. rewrite H in Hn, Hgl.
  exists (concat (map enc_entry l)). split; [now apply ser_lookup_good|]. split; [now apply parse_lookup_enc|].
  apply bytes_ok_concat. apply Forall_forall. intros c Hc. apply in_map_iff in Hc as (e & <- & He).
  apply enc_entry_bytes_ok. rewrite Forall_forall in Hgl. now apply Hgl.
Qed.

Lemma distinct_NoDup ks : distinct ks = true -> NoDup ks.
Proof.
  induction ks as [|k r IH]; intros H; [constructor|].
  cbn [distinct] in H. apply andb_true_iff in H as [Hk Hr]. constructor; [|now apply IH].
  intros Hi. apply negb_true_iff in Hk. assert (existsb (Z.eqb k) r = true) as Hx; [|congruence].
  apply existsb_exists. exists k. split; [exact Hi|apply Z.eqb_refl].
Qed.

Lemma lookup_entries_clean cs : forall es, lookup_entries cs = Some es ->
  Forall (fun c => length c = lookup_entry_size) cs -> forallb clean_entry cs = true ->
  map enc_entry es = cs /\ map fst es = map (fun c => hd 0 c) cs.
Proof.
  induction cs as [|c cs IH]; intros es H Hl Hc.
  - cbn in H. apply Some_inj in H. subst es. split; reflexivity.
  - cbn [lookup_entries] in H. cbn [forallb] in Hc. apply andb_true_iff in Hc as [Hc1 Hc2].
    inversion Hl as [|? ? Hl1 Hl2]; subst.
    destruct (lookup_entry c) as [e|] eqn:Ee; [|discriminate].
    destruct (lookup_entries cs) as [es'|] eqn:Es; [|discriminate].
    apply Some_inj in H. subst es. destruct (IH es' eq_refl Hl2 Hc2) as [H1 H2].
    cbn [map]. rewrite H1, H2. destruct c as [|k f]; [discriminate|].
    cbn [lookup_entry] in Ee. destruct (ascii_ok (cut_nul f)); [|discriminate]. apply Some_inj in Ee. subst e.
    cbn [clean_entry] in Hc1. apply andb_true_iff in Hc1 as [_ Hf]. apply list_eqb_eq in Hf.
    unfold enc_entry. cbn [fst snd hd]. rewrite <- Hf. split; reflexivity.
Qed.

(* whole entries, distinct class ids, NUL-clean name fields: the payload is re-emitted byte for byte *)
Lemma lookup_identity p l : bytes_ok p = true -> wf_lookup_payload p = true -> parse_lookup p = Some l -> ser_lookup l = Ok p.
Proof.
  intros Hb Hw. unfold wf_lookup_payload in Hw. unfold parse_lookup.
  set (cs := split_chunks (length p / lookup_entry_size) lookup_entry_size p) in *.
  apply andb_true_iff in Hw as [Hw Hd]. apply andb_true_iff in Hw as [Hm Hc]. rewrite Hm.
  destruct (lookup_entries cs) as [es|] eqn:Ee; [|discriminate]. cbn [option_map]. intros H. apply Some_inj in H.
  destruct (split_chunks_shape (length p / lookup_entry_size) lookup_entry_size p (div_mul_le _ _)) as [Hshape _].
  pose proof (lookup_entries_good cs es Hshape (split_chunks_bytes_ok _ _ _ Hb) Ee) as Hg.
  destruct (lookup_entries_clean cs es Ee Hshape Hc) as [Henc Hkeys].
  apply distinct_NoDup in Hd. rewrite <- Hkeys in Hd.
  unfold dict_of in H. rewrite (dict_fold_fresh es [] Hd) in H. cbn [app] in H. subst l.
  rewrite (ser_lookup_good _ Hg), Henc. f_equal. unfold cs. apply concat_split_exact; [discriminate|].
  now apply Nat.eqb_eq.
Qed.

Lemma lookup_bad_length p : (length p mod lookup_entry_size <> 0)%nat -> parse_lookup p = None.
Proof.
  intros H. unfold parse_lookup. destruct (Nat.eqb (length p mod lookup_entry_size) 0) eqn:E; [|reflexivity].
  apply Nat.eqb_eq in E. contradiction.
Qed.

(* ------------------------------------------------------------------------------------ *)
(* GeoKeyDirectory                                                                       *)
(* ------------------------------------------------------------------------------------ *)
Lemma geokeys_shape p g : parse_geokeys p = Some g ->
  length (gk_head g) = (gk_header_size - 2)%nat /\ 0 <= gk_count g < 65536
  /\ Forall (fun c => length c = gk_entry_size) (gk_keys g) /\ length (gk_keys g) = Z.to_nat (gk_count g).
Proof.
  unfold parse_geokeys. destruct (Nat.ltb (length p) gk_header_size) eqn:E; [discriminate|].
  apply Nat.ltb_ge in E. intros H. apply Some_inj in H. subst g. cbn [gk_head gk_count gk_keys].
  set (kd := skipn gk_header_size p).
  pose proof (Z.mod_pos_bound (Z.of_nat (length kd / gk_entry_size)) 65536 eq_refl) as Hm.
  split; [rewrite firstn_length; unfold gk_header_size in *; lia|]. split; [exact Hm|].
  apply split_chunks_shape.
  assert (Z.of_nat (length kd / gk_entry_size) mod 65536 <= Z.of_nat (length kd / gk_entry_size)) as Hle
    by (apply Z.mod_le; lia).
  pose proof (div_mul_le (length kd) gk_entry_size). nia.
Qed.

Lemma geokeys_stable p g : parse_geokeys p = Some g -> parse_geokeys (ser_geokeys g) = Some g.
Proof.
  intros H. destruct (geokeys_shape _ _ H) as (Hh & Hc & Hk & Hn). clear H.
  destruct g as [h c ks]. cbn [gk_head gk_count gk_keys] in *. unfold ser_geokeys, parse_geokeys. cbn [gk_head gk_count gk_keys].
  assert (length (h ++ le_enc 2 c) = gk_header_size) as Hl8
    by (rewrite app_length, le_enc_length, Hh; reflexivity).
  rewrite app_assoc. rewrite app_length, Hl8.
  destruct (Nat.ltb (gk_header_size + length (concat ks)) gk_header_size) eqn:E; [apply Nat.ltb_lt in E; lia|].
  rewrite skipn_app_exact by exact Hl8.
  rewrite <- app_assoc. rewrite firstn_app_exact by exact Hh.
  rewrite (concat_length_uniform _ _ Hk), Nat.div_mul by discriminate. rewrite Hn, Z2Nat.id by lia.
  rewrite Z.mod_small by lia. rewrite <- Hn. now rewrite (split_chunks_concat0 _ _ Hk).
Qed.

(* exactly 8 + 8k bytes whose count field says k: re-emitted byte for byte *)
Lemma geokeys_identity p g : wf_geokeys_payload p = true -> parse_geokeys p = Some g -> ser_geokeys g = p.
Proof.
  unfold wf_geokeys_payload. intros Hw.
  apply andb_true_iff in Hw as [Hw Hb]. apply andb_true_iff in Hw as [Hw Hcnt]. apply andb_true_iff in Hw as [Hlen Hmod].
  apply Nat.leb_le in Hlen. apply Nat.eqb_eq in Hmod. apply Z.eqb_eq in Hcnt.
  unfold parse_geokeys. destruct (Nat.ltb (length p) gk_header_size) eqn:E; [apply Nat.ltb_lt in E; lia|].
  intros H. apply Some_inj in H. subst g. unfold ser_geokeys. cbn [gk_head gk_count gk_keys].
  set (cf := firstn 2 (skipn (gk_header_size - 2) p)) in *.
  assert (length cf = 2%nat) as Hcl.
  { unfold cf. rewrite firstn_length, skipn_length. unfold gk_header_size in *. lia. }
  assert (bytes_ok cf = true) as Hcb by (unfold cf; apply bytes_ok_firstn, bytes_ok_skipn, Hb).
  pose proof (le_dec_bounds cf Hcb) as Hbound. rewrite Hcl in Hbound. change (256 ^ Z.of_nat 2) with 65536 in Hbound.
  rewrite skipn_length. rewrite <- Hcnt. rewrite Z.mod_small by lia.
  assert (le_enc 2 (le_dec cf) = cf) as -> by (rewrite <- Hcl; apply le_enc_dec; exact Hcb).
  rewrite Hcnt, Nat2Z.id. rewrite <- (skipn_length gk_header_size p).
  rewrite concat_split_exact; [|discriminate|now rewrite skipn_length].
  unfold cf. rewrite app_assoc, <- firstn_add.
  replace (gk_header_size - 2 + 2)%nat with gk_header_size by reflexivity. apply firstn_skipn.
Qed.

Lemma geokeys_short p : (length p < gk_header_size)%nat -> parse_geokeys p = None.
Proof.
  intros H. unfold parse_geokeys. destruct (Nat.ltb (length p) gk_header_size) eqn:E; [reflexivity|].
  apply Nat.ltb_ge in E. lia.
Qed.

Lemma bytes_ok_ser_geokeys p g : bytes_ok p = true -> parse_geokeys p = Some g -> bytes_ok (ser_geokeys g) = true.
Proof.
  intros Hb. unfold parse_geokeys. destruct (Nat.ltb (length p) gk_header_size); [discriminate|].
  intros H. apply Some_inj in H. subst g. unfold ser_geokeys. cbn [gk_head gk_count gk_keys].
  rewrite !bytes_ok_app, le_enc_bytes_ok, (bytes_ok_firstn _ _ Hb). cbn [andb].
  apply bytes_ok_concat, split_chunks_bytes_ok, bytes_ok_skipn, Hb.
Qed.

(* ------------------------------------------------------------------------------------ *)
(* dispatch                                                                              *)
(* ------------------------------------------------------------------------------------ *)
Lemma find_class_sound tbl uid rid cls lo : find_class tbl uid rid = Some (cls, lo) ->
  exists hi, In (cls, uid, lo, hi) tbl /\ lo <= rid <= hi.
Proof.
  induction tbl as [|[[[c u] l] h] r IH]; [discriminate|]. cbn [find_class].
  destruct (list_eqb u uid && (l <=? rid) && (rid <=? h)) eqn:E.
  - intros H. apply Some_inj in H. injection H as -> ->.
    apply andb_true_iff in E as [E E3]. apply andb_true_iff in E as [E1 E2]. apply list_eqb_eq in E1. subst u.
    exists h. split; [now left|lia].
  - intros H. destruct (IH H) as (hi & Hi & Hr). exists hi. split; [now right|exact Hr].
Qed.

Lemma find_class_no_uid tbl uid rid :
  (forall cls u lo hi, In (cls, u, lo, hi) tbl -> list_eqb u uid = false) -> find_class tbl uid rid = None.
Proof.
  induction tbl as [|[[[c u] l] h] r IH]; intros H; [reflexivity|]. cbn [find_class].
  rewrite (H c u l h (or_introl eq_refl)). cbn [andb]. apply IH. intros cls u' lo hi Hi. apply (H cls u' lo hi). now right.
Qed.

Lemma class_eqb_eq a b : class_eqb a b = true -> a = b.
Proof.
  destruct a as [[c1 l1]|], b as [[c2 l2]|]; cbn [class_eqb]; intros H; try discriminate; [|reflexivity].
  apply andb_true_iff in H as [Hc Hl]. apply String.eqb_eq in Hc. apply Z.eqb_eq in Hl. now subst.
Qed.

Lemma sweep_uid u : forall_below 65536 (fun rid => class_eqb (find_class known_table u rid) (class_spec u rid)) = true ->
  forall rid, 0 <= rid < 65536 -> find_class known_table u rid = class_spec u rid.
Proof. intros H rid Hr. apply class_eqb_eq. exact (forall_below_spec _ _ H rid Hr). Qed.

Lemma sweep_spec : forall_below 65536 (fun rid => class_eqb (find_class known_table UID_LASF_Spec rid) (class_spec UID_LASF_Spec rid)) = true.
Proof. vm_compute. reflexivity. Qed.
Lemma sweep_proj : forall_below 65536 (fun rid => class_eqb (find_class known_table UID_LASF_Projection rid) (class_spec UID_LASF_Projection rid)) = true.
Proof. vm_compute. reflexivity. Qed.
Lemma sweep_laszip : forall_below 65536 (fun rid => class_eqb (find_class known_table UID_laszip rid) (class_spec UID_laszip rid)) = true.
Proof. vm_compute. reflexivity. Qed.
Lemma sweep_copc : forall_below 65536 (fun rid => class_eqb (find_class known_table UID_copc rid) (class_spec UID_copc rid)) = true.
Proof. vm_compute. reflexivity. Qed.

Lemma table_uids : forallb (fun row : string * list Z * Z * Z => let '(_, u, _, _) := row in
    existsb (list_eqb u) [UID_LASF_Spec; UID_LASF_Projection; UID_laszip; UID_copc]) known_table = true.
Proof. vm_compute. reflexivity. Qed.

(* the table generated from the running module dispatches exactly as the specification says, for every user id
   and every 16-bit record id *)
Theorem dispatch_spec uid rid : 0 <= rid < 65536 -> find_class known_table uid rid = class_spec uid rid.
Proof.
  intros Hr.
  destruct (list_eqb UID_LASF_Spec uid) eqn:E1; [apply list_eqb_eq in E1; subst uid; exact (sweep_uid _ sweep_spec rid Hr)|].
  destruct (list_eqb UID_LASF_Projection uid) eqn:E2; [apply list_eqb_eq in E2; subst uid; exact (sweep_uid _ sweep_proj rid Hr)|].
  destruct (list_eqb UID_laszip uid) eqn:E3; [apply list_eqb_eq in E3; subst uid; exact (sweep_uid _ sweep_laszip rid Hr)|].
  destruct (list_eqb UID_copc uid) eqn:E4; [apply list_eqb_eq in E4; subst uid; exact (sweep_uid _ sweep_copc rid Hr)|].
  unfold class_spec. rewrite E1, E2, E3, E4. apply find_class_no_uid.
  intros cls u lo hi Hi. pose proof table_uids as Ht. rewrite forallb_forall in Ht. specialize (Ht _ Hi). cbn beta iota in Ht.
  cbn [existsb] in Ht. rewrite orb_false_r in Ht.
  repeat (apply orb_true_iff in Ht as [Ht|Ht]); apply list_eqb_eq in Ht; subst u; assumption.
Qed.

Lemma table_single : forallb single_id_or_wave known_table = true.
Proof. vm_compute. reflexivity. Qed.

(* a parsed record is written under the record id it was read with *)
Lemma find_class_rid uid rid cls lo : find_class known_table uid rid = Some (cls, lo) ->
  (if String.eqb cls "WaveformPacketVlr" then rid else lo) = rid.
Proof.
  intros H. destruct (find_class_sound _ _ _ _ _ H) as (hi & Hi & Hr).
  pose proof table_single as Ht. rewrite forallb_forall in Ht. specialize (Ht _ Hi). unfold single_id_or_wave in Ht.
  destruct (String.eqb cls "WaveformPacketVlr"); [reflexivity|]. cbn [orb] in Ht. apply Z.eqb_eq in Ht. lia.
Qed.

(* ------------------------------------------------------------------------------------ *)
(* vlr_factory                                                                           *)
(* ------------------------------------------------------------------------------------ *)
Lemma parse_class_stable cls p c : bytes_ok p = true -> parse_class cls p = Some (Some c) ->
  exists q, ser_content c = Ok q /\ parse_class cls q = Some (Some c) /\ bytes_ok q = true.
Proof.
  intros Hb. unfold parse_class.
  destruct (String.eqb cls "ClassificationLookupVlr") eqn:E1.
  { destruct (parse_lookup p) as [l|] eqn:Ep; cbn [option_map]; intros H; [|discriminate].
    apply Some_inj in H. apply Some_inj in H. subst c.
    destruct (lookup_stable _ _ Hb Ep) as (q & Hs & Hp & Hq). exists q. cbn [ser_content]. now rewrite Hp. }
  destruct (String.eqb cls "LasZipVlr") eqn:E2.
  { cbn [option_map parse_laszip]. intros H. apply Some_inj in H. apply Some_inj in H. subst c.
    exists p. cbn [ser_content ser_laszip]. now repeat split. }
  destruct (String.eqb cls "ExtraBytesVlr") eqn:E3.
  { destruct (parse_extra p) as [l|] eqn:Ep; cbn [option_map]; intros H; [|discriminate].
    apply Some_inj in H. apply Some_inj in H. subst c.
    exists p. cbn [ser_content]. rewrite (extra_identity _ _ Ep), Ep. now repeat split. }
  destruct (String.eqb cls "WaveformPacketVlr") eqn:E4.
  { destruct (parse_wave p) as [l|] eqn:Ep; cbn [option_map]; intros H; [|discriminate].
    apply Some_inj in H. apply Some_inj in H. subst c.
    exists (ser_wave l). cbn [ser_content]. rewrite (wave_stable _ _ Ep). repeat split.
    unfold parse_wave in Ep. destruct (Nat.leb wf_struct_size (length p)); [|discriminate].
    apply Some_inj in Ep. subst l. unfold ser_wave. now apply bytes_ok_firstn. }
  destruct (String.eqb cls "GeoKeyDirectoryVlr") eqn:E5.
  { destruct (parse_geokeys p) as [l|] eqn:Ep; cbn [option_map]; intros H; [|discriminate].
    apply Some_inj in H. apply Some_inj in H. subst c.
    exists (ser_geokeys l). cbn [ser_content]. rewrite (geokeys_stable _ _ Ep). repeat split.
    now apply (bytes_ok_ser_geokeys p). }
  destruct (String.eqb cls "GeoDoubleParamsVlr") eqn:E6.
  { destruct (parse_doubles p) as [l|] eqn:Ep; cbn [option_map]; intros H; [|discriminate].
    apply Some_inj in H. apply Some_inj in H. subst c.
    exists p. cbn [ser_content]. rewrite (doubles_identity _ _ Ep), Ep. now repeat split. }
  destruct (String.eqb cls "GeoAsciiParamsVlr") eqn:E7.
  { destruct (parse_ascii p) as [l|] eqn:Ep; cbn [option_map]; intros H; [|discriminate].
    apply Some_inj in H. apply Some_inj in H. subst c.
    exists p. cbn [ser_content]. rewrite (ascii_identity _ _ Ep), Ep. now repeat split. }
  assert (forall s, parse_wkt p = Some s -> exists q, Ok (ser_wkt s) = Ok q /\ parse_wkt q = Some s /\ bytes_ok q = true) as Hwkt.
  { intros s Ep. exists (ser_wkt s). split; [reflexivity|]. split; [now apply (wkt_stable p)|].
    destruct (wkt_normal_form _ _ Ep) as [-> _]. rewrite bytes_ok_app, (bytes_ok_strip _ Hb). reflexivity. }
  destruct (String.eqb cls "WktMathTransformVlr") eqn:E8.
  { destruct (parse_wkt p) as [l|] eqn:Ep; cbn [option_map]; intros H; [|discriminate].
    apply Some_inj in H. apply Some_inj in H. subst c.
    destruct (Hwkt l eq_refl) as (q & Hs & Hp & Hq). exists q. cbn [ser_content]. now rewrite Hp. }
  destruct (String.eqb cls "WktCoordinateSystemVlr") eqn:E9; [|discriminate].
  { destruct (parse_wkt p) as [l|] eqn:Ep; cbn [option_map]; intros H; [|discriminate].
    apply Some_inj in H. apply Some_inj in H. subst c.
    destruct (Hwkt l eq_refl) as (q & Hs & Hp & Hq). exists q. cbn [ser_content]. now rewrite Hp. }
Qed.

(* What the reader hands out is stable: the record written for it is dispatched to the same class and parses to the
   same content, under the same user id, record id and description. *)
Theorem factory_stable v v' : bytes_ok (v_data v) = true -> kv_record (vlr_factory v) = Ok v' ->
  vlr_factory v' = vlr_factory v /\ v_uid v' = v_uid v /\ v_rid v' = v_rid v /\ v_desc v' = v_desc v
  /\ bytes_ok (v_data v') = true.
Proof.
  intros Hb. unfold vlr_factory at 1 3.
  destruct (find_class known_table (v_uid v) (v_rid v)) as [[cls lo]|] eqn:Ef.
  - destruct (parse_class cls (v_data v)) as [[c|]|] eqn:Ep.
    + cbn [kv_record]. destruct (parse_class_stable _ _ _ Hb Ep) as (q & Hs & Hp & Hq). rewrite Hs. cbn [bind].
      intros H. injection H as <-. cbn [v_uid v_rid v_desc v_data]. rewrite (find_class_rid _ _ _ _ Ef).
      repeat split; try assumption. unfold vlr_factory. cbn [v_uid v_rid v_desc v_data].
      rewrite Ef, Hp. now rewrite (find_class_rid _ _ _ _ Ef).
    + cbn [kv_record]. intros H. injection H as <-. unfold vlr_factory. rewrite Ef, Ep. now repeat split.
    + discriminate.
  - cbn [kv_record]. intros H. injection H as <-. unfold vlr_factory. rewrite Ef. now repeat split.
Qed.

(* no class for the ids, or a class whose parser fails: the raw record is kept, unchanged *)
Theorem factory_fallback v :
  (find_class known_table (v_uid v) (v_rid v) = None
   \/ exists cls lo, find_class known_table (v_uid v) (v_rid v) = Some (cls, lo) /\ parse_class cls (v_data v) = Some None) ->
  vlr_factory v = KRaw v /\ normalise v = Ok v.
Proof.
  unfold normalise, vlr_factory. intros [H|(cls & lo & H & Hp)]; rewrite H; [|rewrite Hp]; split; reflexivity.
Qed.

(* records of no known class are never touched *)
Theorem factory_unknown v : 0 <= v_rid v < 65536 -> class_spec (v_uid v) (v_rid v) = None -> vlr_factory v = KRaw v.
Proof. intros Hr H. apply factory_fallback. left. now rewrite dispatch_spec. Qed.

(* ------------------------------------------------------------------------------------ *)
(* lists: read, write what was read, read again                                          *)
(* ------------------------------------------------------------------------------------ *)
Lemma wf_vlr_bytes ext v : wf_vlr ext v = true -> bytes_ok (v_data v) = true.
Proof.
  unfold wf_vlr. intros H. apply andb_true_iff in H as [H _]. apply andb_true_iff in H as [_ H]. exact H.
Qed.

Theorem read_after_write ext vl bs rest : forallb (wf_vlr ext) vl = true -> enc_vlrs ext vl = Ok bs ->
  read_known ext (length vl) (bs ++ rest) = Ok (map vlr_factory vl, rest).
Proof. intros Hwf He. unfold read_known. now rewrite (dec_enc_vlrs ext vl bs rest Hwf He). Qed.

Lemma kv_records_stable vl : forall vl', Forall (fun v => bytes_ok (v_data v) = true) vl ->
  kv_records (map vlr_factory vl) = Ok vl' ->
  map vlr_factory vl' = map vlr_factory vl /\ map v_uid vl' = map v_uid vl /\ map v_rid vl' = map v_rid vl
  /\ map v_desc vl' = map v_desc vl /\ Forall (fun v => bytes_ok (v_data v) = true) vl'.
Proof.
  induction vl as [|v vl IH]; intros vl' Hb H.
  - cbn in H. injection H as <-. repeat split; constructor.
  - inversion Hb as [|? ? Hb1 Hb2]; subst. cbn [map kv_records] in H.
    destruct (kv_record (vlr_factory v)) as [w|e] eqn:Ew; [|discriminate]. cbn [bind] in H.
    destruct (kv_records (map vlr_factory vl)) as [ws|e] eqn:Ews; [|discriminate]. cbn [bind] in H. injection H as <-.
    destruct (factory_stable v w Hb1 Ew) as (H1 & H2 & H3 & H4 & H5).
    destruct (IH ws Hb2 eq_refl) as (I1 & I2 & I3 & I4 & I5).
    cbn [map]. rewrite H1, H2, H3, H4, I1, I2, I3, I4. repeat split. now constructor.
Qed.

(* second generation: the list a user got from a file, written again and read again, is the list he had:
   same length, order, classes, contents, ids and descriptions *)
Theorem next_generation ext vl vl' bs' rest : forallb (wf_vlr ext) vl = true ->
  kv_records (map vlr_factory vl) = Ok vl' -> forallb (wf_vlr ext) vl' = true -> enc_vlrs ext vl' = Ok bs' ->
  read_known ext (length vl) (bs' ++ rest) = Ok (map vlr_factory vl, rest)
  /\ map v_uid vl' = map v_uid vl /\ map v_rid vl' = map v_rid vl /\ map v_desc vl' = map v_desc vl.
Proof.
  intros Hwf Hk Hwf' He.
  assert (Forall (fun v => bytes_ok (v_data v) = true) vl) as Hb.
  { apply Forall_forall. intros v Hv. rewrite forallb_forall in Hwf. apply (wf_vlr_bytes ext). now apply Hwf. }
  destruct (kv_records_stable vl vl' Hb Hk) as (H1 & H2 & H3 & H4 & _).
  assert (length vl' = length vl) as Hl by (rewrite <- (map_length v_uid vl'), H2; apply map_length).
  rewrite <- Hl, (read_after_write ext vl' bs' rest Hwf' He), H1. now repeat split.
Qed.

(* the record written for what was read is again a well-formed record, provided its payload still fits the length
   field (only a WKT payload can grow: by the one NUL that is ensured at its end) *)
Theorem normalise_wf ext v v' : wf_vlr ext v = true -> normalise v = Ok v' ->
  (if ext then len (v_data v') <? 2 ^ 64 else len (v_data v') <=? 65535) = true -> wf_vlr ext v' = true.
Proof.
  intros Hwf Hn Hsz. unfold normalise in Hn.
  destruct (factory_stable v v' (wf_vlr_bytes _ _ Hwf) Hn) as (_ & Hu & Hr & Hd & Hb).
  unfold wf_vlr in *. rewrite Hu, Hr, Hd, Hb, Hsz.
  apply andb_true_iff in Hwf as [Hwf _]. apply andb_true_iff in Hwf as [Hwf _]. now rewrite Hwf.
Qed.

(* ------------------------------------------------------------------------------------ *)
(* the entry sizes of the running module are the specification's                          *)
(* ------------------------------------------------------------------------------------ *)
Lemma struct_sizes : lookup_entry_size = 16%nat /\ lookup_name_size = 15%nat /\ eb_struct_size = 192%nat
  /\ wf_struct_size = 26%nat /\ gk_header_size = 8%nat /\ gk_entry_size = 8%nat /\ double_size = 8%nat
  /\ factory_first_match_with_fallback = true.
Proof. repeat split; reflexivity. Qed.

Lemma extra_bad_length p : (length p mod eb_struct_size <> 0)%nat -> parse_extra p = None.
Proof. apply parse_fixed_none. discriminate. Qed.
Lemma extra_parses p : (length p mod eb_struct_size = 0)%nat -> exists c, parse_extra p = Some c.
Proof. apply parse_fixed_some. Qed.
Lemma doubles_bad_length p : (length p mod double_size <> 0)%nat -> parse_doubles p = None.
Proof. apply parse_fixed_none. discriminate. Qed.
Lemma doubles_parses p : (length p mod double_size = 0)%nat -> exists c, parse_doubles p = Some c.
Proof. apply parse_fixed_some. Qed.

(* ------------------------------------------------------------------------------------ *)
(* the file around the lists                                                             *)
(* ------------------------------------------------------------------------------------ *)
Lemma reset_nevlr x : reset_field "number_of_evlrs" x = 0.
Proof.
  unfold reset_field.
  assert (existsb (String.eqb "number_of_evlrs") partial_reset_zeroes = true) as -> by (vm_compute; reflexivity).
  reflexivity.
Qed.

Lemma reset_estart x : reset_field "start_of_first_evlr" x = 0.
Proof.
  unfold reset_field.
  assert (existsb (String.eqb "start_of_first_evlr") partial_reset_zeroes = true) as -> by (vm_compute; reflexivity).
  reflexivity.
Qed.

(* the writer does to its header what the model says, nothing else *)
Theorem writer_ops_modelled : writer_header_ops = modelled_writer_header_ops
  /\ write_evlrs_version_guard = "self.header.version.minor < 4"%string
  /\ write_evlrs_guard = "len(evlrs) > 0"%string
  /\ write_evlrs_ops = modelled_write_evlrs_ops.
Proof. vm_compute. repeat split; reflexivity. Qed.

(* whatever header the writer is given (read from another file, used for an earlier write, ...): the file written
   depends on the lists only *)
Theorem file_ignores_stale hs v14 s1 s2 vl pts evl :
  write_file hs v14 s1 vl pts evl = write_file hs v14 s2 vl pts evl.
Proof. unfold write_file, partial_reset. cbn [l_nevlr l_estart]. now rewrite !reset_nevlr, !reset_estart. Qed.

Lemma skipn_app_length {A} (a b : list A) : skipn (length a) (a ++ b) = b.
Proof. induction a as [|x a IH]; [reflexivity|exact IH]. Qed.

Lemma read_known_all ext vl bs : forallb (wf_vlr ext) vl = true -> enc_vlrs ext vl = Ok bs ->
  read_known ext (length vl) bs = Ok (map vlr_factory vl, []).
Proof. intros Hwf He. rewrite <- (app_nil_r bs) at 1. now apply read_after_write. Qed.

Theorem file_roundtrip hs v14 stale vl pts evl loc body :
  forallb (wf_vlr false) vl = true -> forallb (wf_vlr true) (opt_list evl) = true ->
  write_file hs v14 stale vl pts evl = Ok (loc, body) ->
  read_file hs v14 loc body
  = Ok (map vlr_factory vl, if v14 then Some (map vlr_factory (opt_list evl)) else None).
Proof.
  intros Hv He Hw. unfold write_file, partial_reset in Hw. cbn [l_nevlr l_estart] in Hw.
  rewrite reset_nevlr, reset_estart in Hw.
  destruct (enc_vlrs false vl) as [vb|e] eqn:Evb; [|discriminate]. cbn [bind] in Hw.
  assert (forall tail, read_known false (Z.to_nat (len vl)) (vb ++ tail) = Ok (map vlr_factory vl, tail)) as Hrv.
  { intros tail. unfold len. rewrite Nat2Z.id. now apply read_after_write. }
  destruct evl as [el|].
  - destruct v14; cbn [negb] in Hw; [|discriminate].
    destruct el as [|e0 el].
    + cbn [bind fst snd] in Hw. injection Hw as <- <-. unfold read_file. cbn [l_nvlr l_nevlr].
      rewrite Hrv. reflexivity.
    + cbn [opt_list] in He. destruct (enc_vlrs true (e0 :: el)) as [eb|e] eqn:Eeb; [|discriminate].
      cbn [bind fst snd] in Hw. injection Hw as <- <-. unfold read_file. cbn [l_nvlr l_nevlr l_estart l_offset].
      rewrite Hrv. cbn [bind fst].
      assert ((0 <? len (e0 :: el)) = true) as -> by (unfold len; cbn [length]; lia).
      replace (Z.to_nat (hs + len vb + len pts - hs)) with (length (vb ++ pts)) by (unfold len; rewrite app_length; lia).
      rewrite app_assoc, skipn_app_length. unfold len. rewrite Nat2Z.id.
      rewrite (read_known_all true (e0 :: el) eb He Eeb). reflexivity.
  - cbn [bind fst snd] in Hw. unfold read_file.
    destruct v14; injection Hw as <- <-; cbn [l_nvlr l_nevlr]; rewrite Hrv; reflexivity.
Qed.

(* where the records are: the VLR bytes right after the header, then the points, then the EVLR bytes up to the end
   of the file; the header says how many and where; no EVLRs: count and start are 0 *)
Theorem file_layout hs v14 stale vl pts evl loc body : write_file hs v14 stale vl pts evl = Ok (loc, body) ->
  exists vb eb, enc_vlrs false vl = Ok vb /\ enc_vlrs true (opt_list evl) = Ok eb
    /\ body = vb ++ pts ++ eb /\ l_nvlr loc = len vl /\ l_offset loc = hs + len vb
    /\ (opt_list evl = [] \/ v14 = false -> l_nevlr loc = 0 /\ l_estart loc = 0)
    /\ (opt_list evl <> [] -> v14 = true /\ l_nevlr loc = len (opt_list evl) /\ l_estart loc = hs + len vb + len pts).
Proof.
  intros Hw. unfold write_file, partial_reset in Hw. cbn [l_nevlr l_estart] in Hw.
  rewrite reset_nevlr, reset_estart in Hw.
  destruct (enc_vlrs false vl) as [vb|e] eqn:Evb; [|discriminate]. cbn [bind] in Hw. exists vb.
  destruct evl as [el|].
  - destruct v14; cbn [negb] in Hw; [|discriminate]. destruct el as [|e0 el].
    + cbn [bind fst snd] in Hw. injection Hw as <- <-. exists []. cbn [opt_list enc_vlrs l_nvlr l_offset l_nevlr l_estart].
      rewrite !app_nil_r. repeat split; try reflexivity;
        match goal with H : ?x <> ?x |- _ => now contradiction H end.
    + destruct (enc_vlrs true (e0 :: el)) as [eb|e] eqn:Eeb; [|discriminate].
      cbn [bind fst snd] in Hw. injection Hw as <- <-. exists eb. cbn [opt_list l_nvlr l_offset l_nevlr l_estart].
      repeat split; try reflexivity; try assumption;
        match goal with H : _ \/ _ |- _ => destruct H; discriminate end.
  - cbn [bind fst snd] in Hw. exists []. cbn [opt_list enc_vlrs]. rewrite !app_nil_r.
    destruct v14; injection Hw as <- <-; cbn [l_nvlr l_offset l_nevlr l_estart]; repeat split; try reflexivity;
      match goal with H : ?x <> ?x |- _ => now contradiction H end.
Qed.

(* the lists a user got from a 1.4 file, written again through a header of any origin and read again: the same
   records, in order (classes, contents, ids, descriptions) *)
Theorem file_next_generation hs stale vl el vl' el' pts loc body :
  forallb (wf_vlr false) vl = true -> forallb (wf_vlr true) el = true ->
  kv_records (map vlr_factory vl) = Ok vl' -> kv_records (map vlr_factory el) = Ok el' ->
  forallb (wf_vlr false) vl' = true -> forallb (wf_vlr true) el' = true ->
  write_file_known hs true stale (map vlr_factory vl) pts (Some (map vlr_factory el)) = Ok (loc, body) ->
  read_file hs true loc body = Ok (map vlr_factory vl, Some (map vlr_factory el)).
Proof.
  intros Hv He Kv Ke Hv' He' Hw. unfold write_file_known in Hw. rewrite Kv in Hw. cbn [bind negb] in Hw.
  rewrite Ke in Hw. cbn [bind] in Hw.
  assert (forall ext l, forallb (wf_vlr ext) l = true -> Forall (fun v => bytes_ok (v_data v) = true) l) as Hb.
  { intros ext l H. apply Forall_forall. intros v Hin. rewrite forallb_forall in H. apply (wf_vlr_bytes ext). now apply H. }
  destruct (kv_records_stable vl vl' (Hb _ _ Hv) Kv) as (H1 & _).
  destruct (kv_records_stable el el' (Hb _ _ He) Ke) as (H2 & _).
  rewrite (file_roundtrip hs true stale vl' pts (Some el') loc body Hv' He' Hw). cbn [opt_list]. now rewrite H1, H2.
Qed.
