(* Known record types: stability of the parsed content, byte identity of well-formed payloads,
   fallback to the raw record, and the dispatch table. *)
From Coq Require Import String.
From Coq Require Import ZArith List Bool Lia ZifyBool.
From LasV Require Import Lib.Base Lib.BaseFacts Lib.Layout Proofs.LayoutProofs Gen.GenKnown Model.Las Model.LasSpec
  Proofs.VlrProofs Model.Known.
Import ListNotations.
Open Scope list_scope.
Open Scope Z_scope.

(* ------------------------------------------------------------------------------------ *)
(* generic list facts                                                                    *)
(* ------------------------------------------------------------------------------------ *)
Lemma Some_inj {A} (a b : A) : Some a = Some b -> a = b.
Proof. intros H. now injection H. Qed.

Lemma firstn_add {A} a b (l : list A) : firstn (a + b) l = firstn a l ++ firstn b (skipn a l).
Proof.
  revert l; induction a as [|a IH]; intros l; [reflexivity|].
  destruct l as [|x l]; [cbn; now rewrite firstn_nil|].
  cbn [Nat.add firstn skipn app]. now rewrite IH.
Qed.

Lemma list_eqb_eq a : forall b, list_eqb a b = true <-> a = b.
Proof.
  induction a as [|x a IH]; intros [|y b]; cbn [list_eqb]; split; intros H; try reflexivity; try discriminate.
  - apply andb_true_iff in H as [Hx Hr]. apply Z.eqb_eq in Hx. apply IH in Hr. now subst.
  - injection H as -> ->. rewrite Z.eqb_refl. apply IH. reflexivity.
Qed.

Lemma list_eqb_refl a : list_eqb a a = true.
Proof. now apply list_eqb_eq. Qed.

Lemma In_firstn {A} n (l : list A) x : In x (firstn n l) -> In x l.
Proof.
  revert l; induction n as [|n IH]; intros l Hx; [destruct Hx|].
  destruct l as [|y l]; [destruct Hx|]. destruct Hx as [->|Hx]; [now left|right; now apply IH].
Qed.

Lemma bytes_ok_firstn n l : bytes_ok l = true -> bytes_ok (firstn n l) = true.
Proof.
  unfold bytes_ok. rewrite !forallb_forall. intros H x Hx. apply H. eapply In_firstn. exact Hx.
Qed.

Lemma In_skipn {A} n (l : list A) x : In x (skipn n l) -> In x l.
Proof.
  revert l; induction n as [|n IH]; intros l Hx; [exact Hx|].
  destruct l as [|y l]; [destruct Hx|]. right. apply IH. exact Hx.
Qed.

Lemma bytes_ok_skipn n l : bytes_ok l = true -> bytes_ok (skipn n l) = true.
Proof.
  unfold bytes_ok. rewrite !forallb_forall. intros H x Hx. apply H. eapply In_skipn. exact Hx.
Qed.

Lemma bytes_ok_concat cs : Forall (fun c => bytes_ok c = true) cs -> bytes_ok (concat cs) = true.
Proof.
  induction cs as [|c cs IH]; intros H; [reflexivity|].
  inversion H as [|? ? Hc Hr]; subst. cbn [concat]. rewrite bytes_ok_app, Hc, (IH Hr). reflexivity.
Qed.

Lemma ascii_ok_app a b : ascii_ok (a ++ b) = ascii_ok a && ascii_ok b.
Proof. unfold ascii_ok. apply forallb_app. Qed.

Lemma ascii_ok_zeros n : ascii_ok (zeros n) = true.
Proof. induction n as [|n IH]; [reflexivity|]. cbn. exact IH. Qed.

Lemma no_nul_cut_nul f : no_nul (cut_nul f) = true.
Proof.
  induction f as [|b f IH]; [reflexivity|]. cbn [cut_nul].
  destruct (b =? 0) eqn:E; [reflexivity|]. cbn [no_nul forallb]. rewrite E. exact IH.
Qed.

Lemma cut_nul_length f : (length (cut_nul f) <= length f)%nat.
Proof.
  induction f as [|b f IH]; [apply le_n|]. cbn [cut_nul].
  destruct (b =? 0); cbn [length]; lia.
Qed.

Lemma bytes_ok_cut_nul f : bytes_ok f = true -> bytes_ok (cut_nul f) = true.
Proof.
  induction f as [|b f IH]; intros H; [reflexivity|]. cbn [cut_nul].
  cbn [bytes_ok forallb] in H. apply andb_true_iff in H as [Hb Hf].
  destruct (b =? 0); [reflexivity|]. cbn [bytes_ok forallb]. rewrite Hb. apply IH. exact Hf.
Qed.

(* ------------------------------------------------------------------------------------ *)
(* split_chunks                                                                          *)
(* ------------------------------------------------------------------------------------ *)
Lemma concat_split_chunks n w bs : concat (split_chunks n w bs) = firstn (n * w) bs.
Proof.
  revert bs; induction n as [|n IH]; intros bs; [reflexivity|].
  cbn [split_chunks concat Nat.mul]. rewrite IH. symmetry. apply firstn_add.
Qed.

Lemma concat_split_exact w bs : w <> O -> (length bs mod w = 0)%nat ->
  concat (split_chunks (length bs / w) w bs) = bs.
Proof.
  intros Hw Hm. rewrite concat_split_chunks.
  apply (Nat.div_exact _ _ Hw) in Hm. rewrite Nat.mul_comm, <- Hm. apply firstn_all.
Qed.

Lemma split_chunks_concat w (cs : list (list Z)) rest : Forall (fun c => length c = w) cs ->
  split_chunks (length cs) w (concat cs ++ rest) = cs.
Proof.
  induction cs as [|c cs IH]; intros H; [reflexivity|].
  inversion H as [|? ? Hc Hr]; subst. cbn [length split_chunks concat].
  rewrite <- app_assoc. rewrite firstn_app_exact by reflexivity. rewrite skipn_app_exact by reflexivity.
  now rewrite (IH Hr).
Qed.

Lemma split_chunks_shape n w bs : (n * w <= length bs)%nat ->
  Forall (fun c => length c = w) (split_chunks n w bs) /\ length (split_chunks n w bs) = n.
Proof.
  revert bs; induction n as [|n IH]; intros bs H; [split; [constructor|reflexivity]|].
  cbn [split_chunks]. cbn [Nat.mul] in H.
  destruct (IH (skipn w bs)) as [Hf Hl]; [rewrite skipn_length; lia|].
  split; [constructor; [rewrite firstn_length; lia|exact Hf]|cbn [length]; now rewrite Hl].
Qed.

Lemma split_chunks_bytes_ok n w bs : bytes_ok bs = true -> Forall (fun c => bytes_ok c = true) (split_chunks n w bs).
Proof.
  revert bs; induction n as [|n IH]; intros bs H; [constructor|].
  cbn [split_chunks]. constructor; [now apply bytes_ok_firstn|]. apply IH. now apply bytes_ok_skipn.
Qed.

Lemma concat_length_uniform w (cs : list (list Z)) : Forall (fun c => length c = w) cs -> length (concat cs) = (length cs * w)%nat.
Proof.
  induction cs as [|c cs IH]; intros H; [reflexivity|].
  inversion H as [|? ? Hc Hr]; subst. cbn [concat length Nat.mul]. rewrite app_length, (IH Hr). reflexivity.
Qed.

Lemma div_mul_le a w : (a / w * w <= a)%nat.
Proof.
  destruct w as [|w]; [lia|]. rewrite Nat.mul_comm. apply Nat.mul_div_le. discriminate.
Qed.

(* ------------------------------------------------------------------------------------ *)
(* fixed-size entries copied verbatim: extra bytes structs, doubles                      *)
(* ------------------------------------------------------------------------------------ *)
Lemma parse_fixed_identity w p c : w <> O -> parse_fixed w p = Some c -> concat c = p.
Proof.
  intros Hw. unfold parse_fixed. destruct (Nat.eqb (length p mod w) 0) eqn:E; [|discriminate].
  intros [= <-]. apply Nat.eqb_eq in E. now apply concat_split_exact.
Qed.

Lemma parse_fixed_stable w p c : w <> O -> parse_fixed w p = Some c -> parse_fixed w (concat c) = Some c.
Proof. intros Hw H. now rewrite (parse_fixed_identity _ _ _ Hw H). Qed.

Lemma parse_fixed_none w p : w <> O -> (length p mod w <> 0)%nat -> parse_fixed w p = None.
Proof.
  intros Hw H. unfold parse_fixed. destruct (Nat.eqb (length p mod w) 0) eqn:E; [|reflexivity].
  apply Nat.eqb_eq in E. contradiction.
Qed.

Lemma parse_fixed_some w p : (length p mod w = 0)%nat -> exists c, parse_fixed w p = Some c.
Proof. intros H. unfold parse_fixed. rewrite H. cbn. eexists. reflexivity. Qed.

Lemma extra_identity p c : parse_extra p = Some c -> ser_extra c = p.
Proof. apply parse_fixed_identity. discriminate. Qed.
Lemma extra_stable p c : parse_extra p = Some c -> parse_extra (ser_extra c) = Some c.
Proof. apply parse_fixed_stable. discriminate. Qed.
Lemma doubles_identity p c : parse_doubles p = Some c -> ser_doubles c = p.
Proof. apply parse_fixed_identity. discriminate. Qed.
Lemma doubles_stable p c : parse_doubles p = Some c -> parse_doubles (ser_doubles c) = Some c.
Proof. apply parse_fixed_stable. discriminate. Qed.

(* ------------------------------------------------------------------------------------ *)
(* waveform packet descriptors                                                           *)
(* ------------------------------------------------------------------------------------ *)
Lemma wave_stable p c : parse_wave p = Some c -> parse_wave (ser_wave c) = Some c.
Proof.
  unfold parse_wave, ser_wave. destruct (Nat.leb wf_struct_size (length p)) eqn:E; [|discriminate].
  intros H. apply Some_inj in H. subst c. apply Nat.leb_le in E. rewrite firstn_length, Nat.min_l by exact E.
  rewrite Nat.leb_refl. now rewrite firstn_firstn, Nat.min_id.
Qed.

Lemma wave_identity p c : length p = wf_struct_size -> parse_wave p = Some c -> ser_wave c = p.
Proof.
  intros Hl. unfold parse_wave, ser_wave. rewrite Hl, Nat.leb_refl. intros H. apply Some_inj in H. subst c.
  rewrite <- Hl. apply firstn_all.
Qed.

Lemma wave_short p : (length p < wf_struct_size)%nat -> parse_wave p = None.
Proof.
  intros H. unfold parse_wave. destruct (Nat.leb wf_struct_size (length p)) eqn:E; [|reflexivity].
  apply Nat.leb_le in E. lia.
Qed.

(* ------------------------------------------------------------------------------------ *)
(* GeoAsciiParams                                                                        *)
(* ------------------------------------------------------------------------------------ *)
Lemma split_nul_nonempty p : split_nul p <> [].
Proof.
  induction p as [|b p IH]; cbn [split_nul]; [discriminate|].
  destruct (b =? 0); [discriminate|]. destruct (split_nul p); discriminate.
Qed.

Lemma join_split_nul p : join_nul (split_nul p) = p.
Proof.
  induction p as [|b p IH]; [reflexivity|]. cbn [split_nul].
  destruct (b =? 0) eqn:E.
  - apply Z.eqb_eq in E. subst b. cbn [join_nul].
    destruct (split_nul p) as [|s t] eqn:Es; [now apply split_nul_nonempty in Es|].
    cbn [app]. now rewrite IH.
  - destruct (split_nul p) as [|s t] eqn:Es; [now apply split_nul_nonempty in Es|].
    cbn [join_nul] in *. destruct t as [|s' t']; [now rewrite IH|].
    cbn [app]. now rewrite IH.
Qed.

Lemma ascii_identity p c : parse_ascii p = Some c -> ser_ascii c = p.
Proof. unfold parse_ascii, ser_ascii. destruct (ascii_ok p); [|discriminate]. intros [= <-]. apply join_split_nul. Qed.
Lemma ascii_stable p c : parse_ascii p = Some c -> parse_ascii (ser_ascii c) = Some c.
Proof. intros H. now rewrite (ascii_identity _ _ H). Qed.
Lemma ascii_undecodable p : ascii_ok p = false -> parse_ascii p = None.
Proof. intros H. unfold parse_ascii. now rewrite H. Qed.

(* ------------------------------------------------------------------------------------ *)
(* WKT                                                                                   *)
(* ------------------------------------------------------------------------------------ *)
Lemma drop_zeros_idem l : drop_zeros (drop_zeros l) = drop_zeros l.
Proof.
  induction l as [|b l IH]; [reflexivity|]. cbn [drop_zeros].
  destruct (b =? 0) eqn:E; [exact IH|]. cbn [drop_zeros]. now rewrite E.
Qed.

Lemma drop_zeros_hd l : hd 1 (drop_zeros l) <> 0.
Proof.
  induction l as [|b l IH]; [cbn; lia|]. cbn [drop_zeros].
  destruct (b =? 0) eqn:E; [exact IH|]. cbn [hd]. lia.
Qed.

Lemma drop_zeros_In l x : In x (drop_zeros l) -> In x l.
Proof.
  induction l as [|b l IH]; [intros []|]. cbn [drop_zeros].
  destruct (b =? 0); [intros H; right; now apply IH|intros H; exact H].
Qed.

Lemma last_rev {A} (l : list A) d : last (rev l) d = hd d l.
Proof. destruct l as [|a l]; [reflexivity|]. cbn [rev hd]. apply last_last. Qed.

Lemma strip_nul_idem p : strip_nul (strip_nul p) = strip_nul p.
Proof. unfold strip_nul. now rewrite rev_involutive, drop_zeros_idem. Qed.

Lemma strip_nul_last p : last (strip_nul p) 1 <> 0.
Proof. unfold strip_nul. rewrite last_rev. apply drop_zeros_hd. Qed.

Lemma strip_nul_app_zero s : strip_nul (s ++ [0]) = strip_nul s.
Proof. unfold strip_nul. rewrite rev_app_distr. reflexivity. Qed.

Lemma ascii_ok_strip p : ascii_ok p = true -> ascii_ok (strip_nul p) = true.
Proof.
  unfold ascii_ok, strip_nul. rewrite !forallb_forall. intros H x Hx. apply H.
  apply in_rev in Hx. apply drop_zeros_In in Hx. now apply in_rev.
Qed.

Lemma bytes_ok_strip p : bytes_ok p = true -> bytes_ok (strip_nul p) = true.
Proof.
  unfold bytes_ok, strip_nul. rewrite !forallb_forall. intros H x Hx. apply H.
  apply in_rev in Hx. apply drop_zeros_In in Hx. now apply in_rev.
Qed.

Lemma ser_wkt_stripped p : ser_wkt (strip_nul p) = strip_nul p ++ [0].
Proof.
  unfold ser_wkt. destruct (last (strip_nul p) 1 =? 0) eqn:E; [|reflexivity].
  apply Z.eqb_eq in E. now apply strip_nul_last in E.
Qed.

(* the payload written for a parsed WKT is the text with exactly one trailing NUL *)
Lemma wkt_normal_form p s : parse_wkt p = Some s -> ser_wkt s = strip_nul p ++ [0] /\ last s 1 <> 0.
Proof.
  unfold parse_wkt. destruct (ascii_ok p); [|discriminate]. intros [= <-].
  split; [apply ser_wkt_stripped|apply strip_nul_last].
Qed.

Lemma wkt_stable p s : parse_wkt p = Some s -> parse_wkt (ser_wkt s) = Some s.
Proof.
  unfold parse_wkt. destruct (ascii_ok p) eqn:E; [|discriminate]. intros [= <-].
  rewrite ser_wkt_stripped, ascii_ok_app, (ascii_ok_strip _ E). cbn [ascii_ok forallb andb].
  change (0 <? 128) with true. cbn [andb]. now rewrite strip_nul_app_zero, strip_nul_idem.
Qed.

(* a payload that already ends with exactly one NUL (text ++ [0], text not ending with NUL) is re-emitted as it is *)
Lemma wkt_identity p s : p = strip_nul p ++ [0] -> parse_wkt p = Some s -> ser_wkt s = p.
Proof. intros Hp H. destruct (wkt_normal_form _ _ H) as [-> _]. now symmetry. Qed.

Lemma wkt_undecodable p : ascii_ok p = false -> parse_wkt p = None.
Proof. intros H. unfold parse_wkt. now rewrite H. Qed.
