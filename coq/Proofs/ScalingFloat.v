(* C11: the binary64 rounding of Model/Scaling.v (rnd64) is a faithful rounding: the result is within half a unit
   in the last place of the exact value, i.e. relative error 2^-53 (plus half the smallest subnormal). *)
From Coq Require Import ZArith QArith Qabs Qpower List Bool Lia Lqa.
From LasV Require Import Lib.Base Model.Scaling Proofs.ScalingProofs.
Open Scope Z_scope.

Local Notation P e := (Qpower (inject_Z 2) e).

Lemma two_ne0 : ~ (inject_Z 2 == 0)%Q.
Proof. intro H. discriminate. Qed.

Lemma P_pos : forall e, (0 < P e)%Q.
Proof. intros e. apply Qpower_0_lt. reflexivity. Qed.

Lemma P_ne0 : forall e, ~ (P e == 0)%Q.
Proof. intros e H. pose proof (P_pos e) as L. rewrite H in L. discriminate. Qed.

Lemma P_plus : forall a b, (P (a + b) == P a * P b)%Q.
Proof. intros a b. apply Qpower_plus. exact two_ne0. Qed.

Lemma P_Z : forall e, 0 <= e -> (inject_Z (2 ^ e) == P e)%Q.
Proof. intros e H. apply Zpower_Qpower. exact H. Qed.

Lemma inv_inject_pos : forall z, 0 < z -> (/ inject_Z z == 1 # Z.to_pos z)%Q.
Proof. intros [|p|p] H; try lia. reflexivity. Qed.

Lemma P_neg : forall e, e < 0 -> ((1 # Z.to_pos (2 ^ (- e))) == P e)%Q.
Proof.
  intros e H. replace e with (- (- e)) at 2 by lia. rewrite Qpower_opp, <- P_Z by lia.
  symmetry. apply inv_inject_pos. apply Z.pow_pos_nonneg; lia.
Qed.

Lemma Qmake_inject : forall m p, (m # p == inject_Z m * (1 # p))%Q.
Proof. intros m p. unfold Qeq, Qmult, inject_Z. cbn [Qnum Qden]. lia. Qed.

Lemma dyadic_eq : forall m e, (dyadic m e == inject_Z m * P e)%Q.
Proof.
  intros m e. unfold dyadic. destruct (0 <=? e) eqn:E.
  - apply Z.leb_le in E. rewrite inject_Z_mult, P_Z by exact E. reflexivity.
  - apply Z.leb_gt in E. rewrite Qmake_inject, P_neg by exact E. reflexivity.
Qed.

Lemma rhe_frac_half : forall N D, 0 < D -> (Qabs (inject_Z (rhe_frac N D) - (N # Z.to_pos D)) <= 1 # 2)%Q.
Proof.
  intros N [|p|p] H; try lia. cbn [Z.to_pos]. exact (rhe_half (N # p)).
Qed.

(* floor(log2 (n/d)) from below *)
Lemma flog2_lower : forall n d, 0 < n -> 0 < d -> (P (flog2 n d) <= inject_Z n / inject_Z d)%Q.
Proof.
  intros n d Hn Hd. unfold flog2.
  pose proof (Z.log2_spec n Hn) as [Ln _]. pose proof (Z.log2_spec d Hd) as [_ Ld].
  pose proof (Z.log2_nonneg n) as Nn. pose proof (Z.log2_nonneg d) as Nd.
  set (a := Z.log2 n) in *. set (b := Z.log2 d) in *. set (k := a - b).
  assert (Dq : (0 < inject_Z d)%Q) by (unfold Qlt, inject_Z; cbn [Qnum Qden]; lia).
  assert (Generic : (P (k - 1) <= inject_Z n / inject_Z d)%Q).
  { apply Qle_shift_div_l; [exact Dq|].
    apply Qle_trans with (P (k - 1) * P (b + 1))%Q.
    - apply Qmult_le_l; [apply P_pos|]. rewrite <- P_Z by lia. rewrite <- Zle_Qle. lia.
    - rewrite <- P_plus. replace (k - 1 + (b + 1)) with a by (subst k; lia).
      rewrite <- P_Z by lia. rewrite <- Zle_Qle. exact Ln. }
  destruct (0 <=? k) eqn:K.
  - apply Z.leb_le in K. destruct (d * 2 ^ k <=? n) eqn:C; [|exact Generic].
    apply Z.leb_le in C. apply Qle_shift_div_l; [exact Dq|].
    rewrite <- P_Z by exact K. rewrite <- inject_Z_mult, <- Zle_Qle. lia.
  - apply Z.leb_gt in K. destruct (d <=? n * 2 ^ (- k)) eqn:C; [|exact Generic].
    apply Z.leb_le in C. apply Qle_shift_div_l; [exact Dq|].
    (* P k * d <= n  <=  d <= n * P (-k) *)
    assert (C' : (inject_Z d <= inject_Z n * P (- k))%Q).
    { rewrite <- P_Z by lia. rewrite <- inject_Z_mult, <- Zle_Qle. exact C. }
    apply Qle_trans with (P k * (inject_Z n * P (- k)))%Q.
    + apply Qmult_le_l; [apply P_pos|exact C'].
    + setoid_replace (P k * (inject_Z n * P (- k)))%Q with (inject_Z n * (P k * P (- k)))%Q by ring.
      rewrite <- P_plus. replace (k + - k) with 0 by lia. cbn [Qpower]. rewrite Qmult_1_r. apply Qle_refl.
Qed.

Lemma frac_inject : forall n d, 0 < d -> ((n # Z.to_pos d) == inject_Z n / inject_Z d)%Q.
Proof.
  intros n d H. unfold Qdiv. rewrite inv_inject_pos by exact H. apply Qmake_inject.
Qed.

Lemma rnd64_pos_error : forall n d r, 0 < n -> 0 < d -> rnd64_pos n d = Some r ->
  let q := (inject_Z n / inject_Z d)%Q in
  (Qabs (r - q) <= q * (1 # 2 ^ 53) + (1 # 2 ^ 1075))%Q.
Proof.
  intros n d r Hn Hd H q. unfold rnd64_pos in H.
  set (fl := flog2 n d) in *. set (e := Z.max (fl - 52) (-1074)) in *.
  set (m := if 0 <=? e then rhe_frac n (d * 2 ^ e) else rhe_frac (n * 2 ^ (- e)) d) in *.
  destruct ((0 <=? e) && (2 ^ 1024 <=? m * 2 ^ e)); [discriminate|]. inversion H as [Hr]. clear H Hr.
  assert (Dq : (0 < inject_Z d)%Q) by (unfold Qlt, inject_Z; cbn [Qnum Qden]; lia).
  assert (Nq : (0 < inject_Z n)%Q) by (unfold Qlt, inject_Z; cbn [Qnum Qden]; lia).
  assert (Qpos : (0 < q)%Q) by (subst q; apply Qlt_shift_div_l; [exact Dq|rewrite Qmult_0_l; exact Nq]).
  (* the integer significand is within one half of the scaled value *)
  assert (A : (Qabs (inject_Z m - q / P e) <= 1 # 2)%Q).
  { subst m. destruct (0 <=? e) eqn:E.
    - apply Z.leb_le in E.
      assert (Dp : 0 < d * 2 ^ e) by (apply Z.mul_pos_pos; [exact Hd|apply Z.pow_pos_nonneg; lia]).
      pose proof (rhe_frac_half n (d * 2 ^ e) Dp) as R.
      rewrite (frac_inject n (d * 2 ^ e) Dp), inject_Z_mult, (P_Z e E) in R.
      setoid_replace (q / P e)%Q with (inject_Z n / (inject_Z d * P e))%Q; [exact R|].
      subst q. field. repeat split; try apply P_ne0; intro Z0; rewrite Z0 in Dq; discriminate.
    - apply Z.leb_gt in E.
      pose proof (rhe_frac_half (n * 2 ^ (- e)) d Hd) as R.
      rewrite (frac_inject _ d Hd), inject_Z_mult, (P_Z (- e)) in R by lia.
      setoid_replace (q / P e)%Q with (inject_Z n * P (- e) / inject_Z d)%Q; [exact R|].
      subst q. rewrite Qpower_opp. field. repeat split; try apply P_ne0; intro Z0; rewrite Z0 in Dq; discriminate. }
  (* so the result is within 2^e / 2 *)
  assert (B : (Qabs (dyadic m e - q) <= P e * (1 # 2))%Q).
  { rewrite dyadic_eq.
    setoid_replace (inject_Z m * P e - q)%Q with (P e * (inject_Z m - q / P e))%Q by (field; apply P_ne0).
    rewrite Qabs_Qmult, (Qabs_pos (P e)) by (apply Qlt_le_weak, P_pos).
    apply Qmult_le_l; [apply P_pos|exact A]. }
  eapply Qle_trans; [exact B|].
  pose proof (flog2_lower n d Hn Hd) as C. fold fl in C. fold q in C.
  destruct (Z.max_spec (fl - 52) (-1074)) as [[M1 M2]|[M1 M2]]; fold e in M2; rewrite M2.
  - (* subnormal grid *)
    setoid_replace (P (-1074) * (1 # 2))%Q with (1 # 2 ^ 1075)%Q by (vm_compute; reflexivity).
    assert (0 <= q * (1 # 2 ^ 53))%Q by (apply Qmult_le_0_compat; [apply Qlt_le_weak; exact Qpos|discriminate]).
    lra.
  - replace (fl - 52) with (fl + -52) by lia. rewrite P_plus.
    setoid_replace (P fl * P (-52) * (1 # 2))%Q with (P fl * (1 # 2 ^ 53))%Q
      by (setoid_replace (P (-52))%Q with (1 # 2 ^ 52)%Q by (vm_compute; reflexivity); unfold Qeq; cbn; lia).
    assert (P fl * (1 # 2 ^ 53) <= q * (1 # 2 ^ 53))%Q by (apply Qmult_le_compat_r; [exact C|discriminate]).
    assert (0 <= 1 # 2 ^ 1075)%Q by discriminate.
    lra.
Qed.

Lemma Q_as_frac : forall q, (q == inject_Z (Qnum q) / inject_Z (Zpos (Qden q)))%Q.
Proof. intros [n d]. cbn [Qnum Qden]. rewrite <- (frac_inject n (Zpos d)) by lia. reflexivity. Qed.

Lemma rnd64_error : forall q r, rnd64 q = Some r ->
  (Qabs (r - q) <= Qabs q * (1 # 2 ^ 53) + (1 # 2 ^ 1075))%Q.
Proof.
  intros q r H. unfold rnd64 in H. pose proof (Q_as_frac q) as E.
  destruct (Qnum q) as [|n|n] eqn:N.
  - inversion H. subst r.
    assert (Z0 : (q == 0)%Q) by (eapply Qeq_trans; [exact E|]; unfold Qdiv; ring).
    rewrite Z0. vm_compute. discriminate.
  - pose proof (rnd64_pos_error (Zpos n) (Zpos (Qden q)) r ltac:(lia) ltac:(lia) H) as B. cbv zeta in B.
    rewrite <- E in B.
    assert (Qp : (0 <= q)%Q) by (destruct q as [qn qd]; cbn in N; subst qn; unfold Qle; cbn; lia).
    rewrite (Qabs_pos q Qp). exact B.
  - destruct (rnd64_pos (Zpos n) (Zpos (Qden q))) as [r'|] eqn:R; [|discriminate]. inversion H. subst r.
    pose proof (rnd64_pos_error (Zpos n) (Zpos (Qden q)) r' ltac:(lia) ltac:(lia) R) as B. cbv zeta in B.
    assert (En : (q == - (inject_Z (Zpos n) / inject_Z (Zpos (Qden q))))%Q).
    { eapply Qeq_trans; [exact E|]. change (Zneg n) with (- Zpos n). rewrite inject_Z_opp. unfold Qdiv. ring. }
    set (q' := (inject_Z (Zpos n) / inject_Z (Zpos (Qden q)))%Q) in *.
    assert (Qp : (0 <= q')%Q).
    { subst q'. rewrite <- (frac_inject (Zpos n) (Zpos (Qden q))) by lia. unfold Qle. cbn. lia. }
    rewrite En, Qabs_opp, (Qabs_pos q' Qp).
    setoid_replace (- r' - - q')%Q with (- (r' - q'))%Q by ring. rewrite Qabs_opp. exact B.
Qed.
