From Coq Require Import ZArith List Bool Lia ZifyBool.
From LasV Require Import Lib.Base Gen.GenCursor Model.Cursor Proofs.CursorProofs Model.CursorBytes.
Import ListNotations.
Open Scope Z_scope.

(* the byte-level reader with stride L and the record-level reader of Model/Cursor.v move in lock step *)
Definition brel (off L : Z) (s : cstate) (b : bstate) : Prop :=
  c_n s = b_n b /\ c_read s = b_read b /\ b_pos b = off + c_src s * L.

Lemma bread_sim off L s b k : brel off L s b ->
  let '(s', x, y) := do_read s k in let '(b', (bx, by_, c)) := bdo_read L b k in
  brel off L s' b' /\ bx = off + x * L /\ by_ = off + y * L /\ ((x =? y) = (c =? 0)).
Proof.
  intros (Hn & Hr & Hp). unfold do_read, bdo_read. rewrite <- Hn, <- Hr.
  destruct (gen_read_points (c_n s) (c_read s) k) as [pr kk].
  destruct (kk <? 0) eqn:E; unfold brel; cbn [c_n c_read c_src b_n b_read b_pos].
  - split; [auto|]. split; [assumption|]. split; [assumption|]. rewrite Z.eqb_refl. reflexivity.
  - split; [repeat split; lia|]. split; [lia|]. split; [lia|].
    destruct (c_src s =? c_src s + kk) eqn:A, (kk =? 0) eqn:B; try reflexivity; lia.
Qed.

Lemma bstep_sim off L s b op : brel off L s b ->
  brel off L (fst (cstep s op)) (fst (bstep off L b op))
  /\ snd (bstep off L b op) = out_bytes off L (snd (cstep s op)).
Proof.
  intros H. destruct op as [n|pos whence|k|].
  - pose proof (bread_sim off L s b n H) as R. cbn [cstep bstep].
    destruct (do_read s n) as [[s' x] y], (bdo_read L b n) as [b' [[bx by_] c]].
    destruct R as (R1 & -> & -> & _). cbn [fst snd out_bytes]. auto.
  - destruct H as (Hn & Hr & Hp). cbn [cstep bstep]. rewrite <- Hn, <- Hr.
    destruct (gen_seek (c_n s) (c_read s) pos whence) as [[pr idx]|e]; cbn [fst snd out_bytes].
    + unfold brel; cbn [c_n c_read c_src b_n b_read b_pos]. auto.
    + unfold brel. auto.
  - pose proof (bread_sim off L s b k H) as R. cbn [cstep bstep].
    destruct (do_read s k) as [[s' x] y], (bdo_read L b k) as [b' [[bx by_] c]].
    destruct R as (R1 & -> & -> & Hc). rewrite Hc. destruct (c =? 0); cbn [fst snd out_bytes]; auto.
  - pose proof (bread_sim off L s b (-1) H) as R. cbn [cstep bstep].
    destruct (do_read s (-1)) as [[s' x] y], (bdo_read L b (-1)) as [b' [[bx by_] c]].
    destruct R as (R1 & -> & -> & _). cbn [fst snd out_bytes]. auto.
Qed.

Lemma brun_sim off L ops : forall s b o1 o2, brel off L s b -> o2 = map (out_bytes off L) o1 ->
  let r1 := fold_left (fun acc op => let '(s', o) := cstep (fst acc) op in (s', snd acc ++ [o])) ops (s, o1) in
  let r2 := fold_left (fun acc op => let '(s', o) := bstep off L (fst acc) op in (s', snd acc ++ [o])) ops (b, o2) in
  brel off L (fst r1) (fst r2) /\ snd r2 = map (out_bytes off L) (snd r1).
Proof.
  induction ops as [|op ops IH]; intros s b o1 o2 Hrel Ho; [cbn; auto|].
  cbn [fold_left fst snd].
  destruct (bstep_sim off L s b op Hrel) as (R1 & R2).
  destruct (cstep s op) as [s' o] eqn:E1, (bstep off L b op) as [b' o'] eqn:E2. cbn [fst snd] in *.
  apply IH; [exact R1|]. rewrite map_app. cbn [map]. now rewrite Ho, R2.
Qed.

(* with the header's record length as stride, every call returns exactly the bytes of the records the cursor model names *)
Theorem cursor_bytes off L n ops :
  snd (brun off L (mkB n 0 off) ops) = map (out_bytes off L) (snd (crun (mkC n 0 0) ops)).
Proof.
  unfold brun, crun.
  assert (brel off L (mkC n 0 0) (mkB n 0 off)) as R by (unfold brel; cbn; lia).
  exact (proj2 (brun_sim off L ops (mkC n 0 0) (mkB n 0 off) [] [] R eq_refl)).
Qed.

(* ... they lie inside the point data [off, off + n * L) announced by the header, and the stream always stands at the
   first byte of the record the cursor points to *)
Theorem cursor_bytes_bounds off L n ops : 0 <= n -> 0 <= L ->
  Forall (bytes_in_bounds off (off + n * L)) (snd (brun off L (mkB n 0 off) ops))
  /\ b_pos (fst (brun off L (mkB n 0 off) ops)) = off + b_read (fst (brun off L (mkB n 0 off) ops)) * L.
Proof.
  intros Hn HL. split.
  - rewrite cursor_bytes. destruct (cursor_refines n ops Hn) as (_ & Hb & _).
    rewrite Forall_forall in *. intros o Ho. apply in_map_iff in Ho as (c & <- & Hc).
    specialize (Hb c Hc). destruct c as [a b| |]; cbn [out_bytes bytes_in_bounds slice_in_bounds] in *; [|exact I|exact I].
    destruct Hb as ((Ha & Hab) & Hbn).
    pose proof (Z.mul_le_mono_nonneg_r 0 a L HL Ha). pose proof (Z.mul_le_mono_nonneg_r a b L HL Hab).
    pose proof (Z.mul_le_mono_nonneg_r b n L HL Hbn). lia.
  - unfold brun, crun.
    assert (brel off L (mkC n 0 0) (mkB n 0 off)) as R by (unfold brel; cbn; lia).
    destruct (brun_sim off L ops (mkC n 0 0) (mkB n 0 off) [] [] R eq_refl) as ((_ & Hr & Hp) & _).
    destruct (cursor_refines n ops Hn) as (_ & _ & Hs). unfold crun in Hs. rewrite Hp, <- Hr, Hs. reflexivity.
Qed.

(* the hypothesis "stride = the header's record length" is necessary: with any other stride already the first read of two
   records returns other bytes than records 0 and 1 of the file *)
Theorem stride_necessary off L st n : 2 <= n -> st <> L ->
  snd (brun off st (mkB n 0 off) [CRead 2]) <> map (out_bytes off L) (snd (crun (mkC n 0 0) [CRead 2])).
Proof.
  intros Hn Hst. unfold brun, crun. cbn [fold_left fst snd bstep cstep app map].
  unfold bdo_read, do_read, gen_read_points. cbn [b_n b_read b_pos c_n c_read c_src].
  destruct (n - 0 <=? 0) eqn:E0; [lia|]. cbn [Z.ltb Z.compare].
  replace (Z.min 2 (n - 0)) with 2 by lia. cbn [Z.ltb Z.compare fst snd app map out_bytes].
  intros H. assert (off + 2 * st = off + (0 + 2) * L) as H2 by congruence. lia.
Qed.
