From Coq Require Import ZArith List Bool Lia ZifyBool.
From LasV Require Import Lib.Base Gen.GenCursor Model.Cursor.
Import ListNotations.
Open Scope Z_scope.

Definition rel (s : cstate) (t : sstate) : Prop :=
  c_n s = sp_n t /\ c_read s = sp_c t /\ c_src s = sp_c t /\ 0 <= sp_c t <= sp_n t.

Lemma read_sim s t k : rel s t ->
  let '(s', a, b) := do_read s k in let '(t', a', b') := spec_read t k in
  rel s' t' /\ (a = a' /\ b = b') /\ 0 <= a <= b /\ b <= sp_n t.
Proof.
  intros (Hn & Hr & Hs & Hc). unfold do_read, spec_read, gen_read_points.
  destruct s as [n r src], t as [n' c]; cbn [c_n c_read c_src sp_n sp_c] in *. subst n' r src.
  destruct (n - c <=? 0) eqn:E0.
  - cbn [Z.ltb]. replace (-1 <? 0) with true by reflexivity. unfold rel; cbn [c_n c_read c_src sp_n sp_c].
    destruct (k <? 0) eqn:Ek; lia.
  - destruct (k <? 0) eqn:Ek.
    + destruct (n - c <? 0) eqn:E1; [lia|]. unfold rel; cbn [c_n c_read c_src sp_n sp_c]. lia.
    + destruct (Z.min k (n - c) <? 0) eqn:E1; [lia|]. unfold rel; cbn [c_n c_read c_src sp_n sp_c]. lia.
Qed.

Lemma step_sim s t op : rel s t ->
  rel (fst (cstep s op)) (fst (spec_step t op))
  /\ norm_out (snd (cstep s op)) = norm_out (snd (spec_step t op))
  /\ slice_in_bounds (sp_n t) (snd (cstep s op)).
Proof.
  intros H. destruct op as [n|pos whence|k|].
  - pose proof (read_sim s t n H) as R. cbn [cstep spec_step].
    destruct (do_read s n) as [[s' a] b], (spec_read t n) as [[t' a'] b'].
    destruct R as (R1 & (-> & ->) & R3). cbn [fst snd norm_out slice_in_bounds]. auto.
  - destruct H as (Hn & Hr & Hs & Hc). cbn [cstep spec_step]. unfold gen_seek.
    destruct s as [n r src], t as [n' c]; cbn [c_n c_read c_src sp_n sp_c] in *. subst n' r src.
    destruct (whence =? 0) eqn:W0; cbn [orb].
    + destruct (negb ((0 <=? pos) && (pos <? n))) eqn:E; destruct ((0 <=? pos) && (pos <? n)) eqn:E'; try discriminate;
        cbn [fst snd norm_out slice_in_bounds]; unfold rel; cbn [c_n c_read c_src sp_n sp_c]; (split; [lia|split; [reflexivity|exact I]]).
    + destruct (whence =? 1) eqn:W1; cbn [orb].
      * destruct (negb ((- c <=? pos) && (pos <? n - c))) eqn:E; destruct ((0 <=? c + pos) && (c + pos <? n)) eqn:E'; try lia;
          cbn [fst snd norm_out slice_in_bounds]; unfold rel; cbn [c_n c_read c_src sp_n sp_c]; (split; [lia|split; [reflexivity|exact I]]).
      * destruct (whence =? 2) eqn:W2.
        -- destruct (negb ((- n <=? pos) && (pos <? 0))) eqn:E; destruct ((0 <=? n + pos) && (n + pos <? n)) eqn:E'; try lia;
             cbn [fst snd norm_out slice_in_bounds]; unfold rel; cbn [c_n c_read c_src sp_n sp_c]; (split; [lia|split; [reflexivity|exact I]]).
        -- cbn [fst snd norm_out slice_in_bounds]. unfold rel; cbn [c_n c_read c_src sp_n sp_c]. (split; [lia|split; [reflexivity|exact I]]).
  - pose proof (read_sim s t k H) as R. cbn [cstep spec_step].
    destruct (do_read s k) as [[s' a] b], (spec_read t k) as [[t' a'] b'].
    destruct R as (R1 & (-> & ->) & R3). destruct (a' =? b'); cbn [fst snd norm_out slice_in_bounds]; auto.
  - pose proof (read_sim s t (-1) H) as R. cbn [cstep spec_step].
    destruct (do_read s (-1)) as [[s' a] b], (spec_read t (-1)) as [[t' a'] b'].
    destruct R as (R1 & (-> & ->) & R3). cbn [fst snd norm_out slice_in_bounds]. auto.
Qed.

Lemma spec_step_n t op : sp_n (fst (spec_step t op)) = sp_n t.
Proof.
  destruct op as [n|pos whence|k|]; cbn [spec_step]; unfold spec_read.
  - reflexivity.
  - destruct ((whence =? 0) || (whence =? 1) || (whence =? 2)); [|reflexivity].
    match goal with |- context [if ?c then _ else _] => destruct c end; reflexivity.
  - match goal with |- context [if ?c then _ else _] => destruct c end; reflexivity.
  - reflexivity.
Qed.

Lemma run_sim ops : forall s t o1 o2, rel s t -> map norm_out o1 = map norm_out o2 -> Forall (slice_in_bounds (sp_n t)) o1 ->
  let r1 := fold_left (fun acc op => let '(s', o) := cstep (fst acc) op in (s', snd acc ++ [o])) ops (s, o1) in
  let r2 := fold_left (fun acc op => let '(s', o) := spec_step (fst acc) op in (s', snd acc ++ [o])) ops (t, o2) in
  rel (fst r1) (fst r2) /\ map norm_out (snd r1) = map norm_out (snd r2) /\ Forall (slice_in_bounds (sp_n t)) (snd r1).
Proof.
  induction ops as [|op ops IH]; intros s t o1 o2 Hrel Ho Hb; [cbn; auto|].
  cbn [fold_left fst snd].
  destruct (step_sim s t op Hrel) as (R1 & R2 & R3).
  destruct (cstep s op) as [s' o] eqn:E1, (spec_step t op) as [t' o'] eqn:E2. cbn [fst snd] in *.
  assert (sp_n t' = sp_n t) as Hn by (pose proof (spec_step_n t op) as X; rewrite E2 in X; exact X).
  specialize (IH s' t' (o1 ++ [o]) (o2 ++ [o']) R1).
  rewrite Hn in IH. apply IH.
  - rewrite !map_app. cbn [map]. now rewrite Ho, R2.
  - apply Forall_app. split; [exact Hb|]. constructor; [exact R3|constructor].
Qed.

Theorem cursor_refines n ops : 0 <= n ->
  map norm_out (snd (crun (mkC n 0 0) ops)) = map norm_out (snd (srun (mkSp n 0) ops))
  /\ Forall (slice_in_bounds n) (snd (crun (mkC n 0 0) ops))
  /\ c_src (fst (crun (mkC n 0 0) ops)) = c_read (fst (crun (mkC n 0 0) ops)).
Proof.
  intros Hn. unfold crun, srun.
  assert (rel (mkC n 0 0) (mkSp n 0)) as R by (unfold rel; cbn; lia).
  destruct (run_sim ops (mkC n 0 0) (mkSp n 0) [] [] R eq_refl (Forall_nil _)) as (R1 & R2 & R3).
  split; [exact R2|]. split; [exact R3|].
  destruct R1 as (_ & Hr & Hs & _). now rewrite Hr, Hs.
Qed.

(* an empty file: every read returns an empty slice, never an error; seeks are refused *)
Theorem cursor_empty ops : Forall (fun o => match o with OSlice a b => a = b | OErr EStop => True | OErr EIndex => True | OErr EValue => True | _ => False end)
  (snd (crun (mkC 0 0 0) ops)).
Proof.
  destruct (cursor_refines 0 ops (Z.le_refl 0)) as (_ & Hb & _).
  assert (forall ops s o, c_n s = 0 -> 0 <= c_read s -> Forall (fun o => match o with OSlice _ _ => True | OErr EStop => True | OErr EIndex => True | OErr EValue => True | _ => False end) o ->
     Forall (fun o => match o with OSlice _ _ => True | OErr EStop => True | OErr EIndex => True | OErr EValue => True | _ => False end)
       (snd (fold_left (fun acc op => let '(s', o) := cstep (fst acc) op in (s', snd acc ++ [o])) ops (s, o)))) as G.
  { clear. induction ops as [|op ops IH]; intros s o Hn Hr Ho; [exact Ho|].
    cbn [fold_left fst snd]. destruct (cstep s op) as [s' o'] eqn:E.
    assert (c_n s' = 0 /\ 0 <= c_read s' /\ match o' with OSlice _ _ => True | OErr EStop => True | OErr EIndex => True | OErr EValue => True | _ => False end) as (A & B & C).
    { destruct s as [n r src]; cbn [c_n c_read] in *; subst n.
      destruct op as [k|pos whence|k|]; cbn [cstep] in E; unfold do_read, gen_read_points, gen_seek in E; cbn [c_n c_read c_src] in E.
      - destruct (0 - r <=? 0) eqn:E0; [|lia]. cbn in E. injection E as <- <-. cbn. lia.
      - destruct (whence =? 0).
        + destruct (negb ((0 <=? pos) && (pos <? 0))) eqn:X; [injection E as <- <-; cbn; lia|lia].
        + destruct (whence =? 1).
          * destruct (negb ((- r <=? pos) && (pos <? 0 - r))) eqn:X; [injection E as <- <-; cbn; lia|lia].
          * destruct (whence =? 2).
            -- destruct (negb ((- 0 <=? pos) && (pos <? 0))) eqn:X; [injection E as <- <-; cbn; lia|lia].
            -- injection E as <- <-. cbn. lia.
      - destruct (0 - r <=? 0) eqn:E0; [|lia]. cbn in E. rewrite Z.eqb_refl in E. injection E as <- <-. cbn. lia.
      - destruct (0 - r <=? 0) eqn:E0; [|lia]. cbn in E. injection E as <- <-. cbn. lia. }
    apply IH; [exact A|exact B|]. apply Forall_app. split; [exact Ho|]. constructor; [exact C|constructor]. }
  specialize (G ops (mkC 0 0 0) [] eq_refl (Z.le_refl 0) (Forall_nil _)).
  fold (crun (mkC 0 0 0) ops) in G.
  rewrite Forall_forall in *. intros o Ho. specialize (G o Ho). specialize (Hb o Ho).
  destruct o as [a b| |e]; [cbn in Hb; lia|contradiction|exact G].
Qed.
