(* The streaming writer refines the one-shot file (task W). *)
From Coq Require Import String.
From Coq Require Import ZArith List Bool Lia ZifyBool.
From LasV Require Import Lib.Base Lib.BaseFacts Lib.Layout Proofs.LayoutProofs Gen.GenHeaderLayout Gen.GenDims
  Model.Las Model.LasSpec Proofs.HeaderLen.
Import ListNotations.
Open Scope list_scope.
Open Scope Z_scope.

(* ------------------------------------------------------------------------------------ *)
(* folds of Z.max / Z.min                                                                *)
(* ------------------------------------------------------------------------------------ *)
Lemma fold_max_shift l : forall d e, fold_left Z.max l (Z.max d e) = Z.max d (fold_left Z.max l e).
Proof.
  induction l as [|x l IH]; intros d e; cbn [fold_left]; [reflexivity|].
  rewrite <- Z.max_assoc. apply IH.
Qed.

Lemma fold_min_shift l : forall d e, fold_left Z.min l (Z.min d e) = Z.min d (fold_left Z.min l e).
Proof.
  induction l as [|x l IH]; intros d e; cbn [fold_left]; [reflexivity|].
  rewrite <- Z.min_assoc. apply IH.
Qed.

Lemma zmax_list_app d a e b :
  zmax_list d (a ++ e :: b) = Z.max (zmax_list d a) (zmax_list e (e :: b)).
Proof.
  unfold zmax_list. rewrite fold_left_app. cbn [fold_left]. rewrite Z.max_id. apply fold_max_shift.
Qed.

Lemma zmin_list_app d a e b :
  zmin_list d (a ++ e :: b) = Z.min (zmin_list d a) (zmin_list e (e :: b)).
Proof.
  unfold zmin_list. rewrite fold_left_app. cbn [fold_left]. rewrite Z.min_id. apply fold_min_shift.
Qed.

Lemma zmax_recs (c : list Z -> Z) a0 a' b0 b' :
  zmax_list (c a0) (map c (a0 :: a' ++ b0 :: b'))
  = Z.max (zmax_list (c a0) (map c (a0 :: a'))) (zmax_list (c b0) (map c (b0 :: b'))).
Proof.
  change (a0 :: a' ++ b0 :: b') with ((a0 :: a') ++ b0 :: b'). rewrite map_app.
  change (map c (b0 :: b')) with (c b0 :: map c b'). apply zmax_list_app.
Qed.

Lemma zmin_recs (c : list Z -> Z) a0 a' b0 b' :
  zmin_list (c a0) (map c (a0 :: a' ++ b0 :: b'))
  = Z.min (zmin_list (c a0) (map c (a0 :: a'))) (zmin_list (c b0) (map c (b0 :: b'))).
Proof.
  change (a0 :: a' ++ b0 :: b') with ((a0 :: a') ++ b0 :: b'). rewrite map_app.
  change (map c (b0 :: b')) with (c b0 :: map c b'). apply zmin_list_app.
Qed.

Lemma fold_max_spec l : forall d,
  d <= fold_left Z.max l d /\ (forall x, In x l -> x <= fold_left Z.max l d)
  /\ (fold_left Z.max l d = d \/ In (fold_left Z.max l d) l).
Proof.
  induction l as [|x l IH]; intros d; cbn [fold_left].
  - split; [lia|]. split; [intros x []|now left].
  - destruct (IH (Z.max d x)) as (H1 & H2 & H3). split; [lia|]. split.
    + intros y [<-|Hy]; [lia|now apply H2].
    + destruct H3 as [E|Hin]; [|right; now right].
      rewrite E. destruct (Z.max_spec d x) as [[_ E']|[_ E']]; rewrite E'.
      * right; left. reflexivity.
      * now left.
Qed.

Lemma fold_min_spec l : forall d,
  fold_left Z.min l d <= d /\ (forall x, In x l -> fold_left Z.min l d <= x)
  /\ (fold_left Z.min l d = d \/ In (fold_left Z.min l d) l).
Proof.
  induction l as [|x l IH]; intros d; cbn [fold_left].
  - split; [lia|]. split; [intros x []|now left].
  - destruct (IH (Z.min d x)) as (H1 & H2 & H3). split; [lia|]. split.
    + intros y [<-|Hy]; [lia|now apply H2].
    + destruct H3 as [E|Hin]; [|right; now right].
      rewrite E. destruct (Z.min_spec d x) as [[_ E']|[_ E']]; rewrite E'.
      * now left.
      * right; left. reflexivity.
Qed.

Lemma zmax_list_head d tl :
  (forall x, In x (d :: tl) -> x <= zmax_list d (d :: tl)) /\ In (zmax_list d (d :: tl)) (d :: tl).
Proof.
  unfold zmax_list. cbn [fold_left]. rewrite Z.max_id.
  destruct (fold_max_spec tl d) as (H1 & H2 & H3). split.
  - intros x [<-|Hx]; [exact H1|now apply H2].
  - destruct H3 as [->|Hin]; [now left|now right].
Qed.

Lemma zmin_list_head d tl :
  (forall x, In x (d :: tl) -> zmin_list d (d :: tl) <= x) /\ In (zmin_list d (d :: tl)) (d :: tl).
Proof.
  unfold zmin_list. cbn [fold_left]. rewrite Z.min_id.
  destruct (fold_min_spec tl d) as (H1 & H2 & H3). split.
  - intros x [<-|Hx]; [exact H1|now apply H2].
  - destruct H3 as [->|Hin]; [now left|now right].
Qed.

(* ------------------------------------------------------------------------------------ *)
(* fmax / fmin against a monotone ap                                                     *)
(* ------------------------------------------------------------------------------------ *)
Ltac split_ifs :=
  repeat match goal with
  | |- context [if ?c then _ else _] =>
      lazymatch c with context [if _ then _ else _] => fail | _ => destruct c eqn:? end
  end.

Lemma fmax_ap ap : ap_ok ap -> forall s o m A B,
  fmax (fmax m (ap s o A)) (ap s o B) = fmax m (ap s o (Z.max A B)).
Proof.
  intros (Hmono & Hinj & _) s o m A B.
  destruct (Z.le_ge_cases A B) as [HAB|HAB].
  - rewrite Z.max_r by exact HAB.
    pose proof (Hmono s o A B HAB) as H1. pose proof (Hinj s o A B) as H2.
    unfold fmax, f64_lt. split_ifs; try reflexivity; try lia; apply H2; lia.
  - rewrite Z.max_l by exact HAB.
    pose proof (Hmono s o B A HAB) as H1. pose proof (Hinj s o A B) as H2.
    unfold fmax, f64_lt. split_ifs; try reflexivity; try lia; symmetry; apply H2; lia.
Qed.

Lemma fmin_ap ap : ap_ok ap -> forall s o m A B,
  fmin (fmin m (ap s o A)) (ap s o B) = fmin m (ap s o (Z.min A B)).
Proof.
  intros (Hmono & Hinj & _) s o m A B.
  destruct (Z.le_ge_cases A B) as [HAB|HAB].
  - rewrite Z.min_l by exact HAB.
    pose proof (Hmono s o A B HAB) as H1. pose proof (Hinj s o A B) as H2.
    unfold fmin, f64_lt. split_ifs; try reflexivity; try lia; symmetry; apply H2; lia.
  - rewrite Z.min_r by exact HAB.
    pose proof (Hmono s o B A HAB) as H1. pose proof (Hinj s o A B) as H2.
    unfold fmin, f64_lt. split_ifs; try reflexivity; try lia; apply H2; lia.
Qed.

(* ------------------------------------------------------------------------------------ *)
(* grow                                                                                  *)
(* ------------------------------------------------------------------------------------ *)
Lemma map_seq3 {A} (f : nat -> A) : map f (seq 0 3) = [f 0%nat; f 1%nat; f 2%nat].
Proof. reflexivity. Qed.

Lemma count_ret_app fmt a b k : count_ret fmt (a ++ b) k = count_ret fmt a k + count_ret fmt b k.
Proof. unfold count_ret. now rewrite filter_app, len_app. Qed.

Lemma ret_app fmt a b : forall (idx : list nat) (r : list Z),
  map (fun p => snd p + count_ret fmt b (Z.of_nat (fst p) + 1))
      (combine idx (map (fun p => snd p + count_ret fmt a (Z.of_nat (fst p) + 1)) (combine idx r)))
  = map (fun p => snd p + count_ret fmt (a ++ b) (Z.of_nat (fst p) + 1)) (combine idx r).
Proof.
  induction idx as [|i idx IH]; intros r; [reflexivity|].
  destruct r as [|x r]; [reflexivity|]. cbn [combine map fst snd]. f_equal; [|apply IH].
  rewrite count_ret_app. lia.
Qed.

Lemma grow_nil ap fmt h st : grow ap fmt h st [] = st.
Proof. reflexivity. Qed.

Theorem grow_app : forall ap, ap_ok ap -> forall fmt h st a b,
  a <> [] -> b <> [] -> length (s_max st) = 3%nat -> length (s_min st) = 3%nat ->
  grow ap fmt h (grow ap fmt h st a) b = grow ap fmt h st (a ++ b).
Proof.
  intros ap Hap fmt h st a b Ha Hb _ _.
  destruct a as [|a0 a']; [contradiction|]. destruct b as [|b0 b']; [contradiction|].
  change ((a0 :: a') ++ b0 :: b') with (a0 :: (a' ++ b0 :: b')).
  unfold grow. cbv beta zeta. cbn [s_count s_max s_min s_ret s_evlr_start s_nevlr].
  rewrite !map_seq3. cbv beta. cbn [nth].
  rewrite !zmax_recs, !zmin_recs, !(fmax_ap ap Hap), !(fmin_ap ap Hap).
  change (a0 :: a' ++ b0 :: b') with ((a0 :: a') ++ b0 :: b').
  rewrite ret_app. rewrite len_app. f_equal. lia.
Qed.
Print Assumptions grow_app.

Lemma grow_len3 ap fmt h st recs : length (s_max st) = 3%nat -> length (s_min st) = 3%nat ->
  length (s_max (grow ap fmt h st recs)) = 3%nat /\ length (s_min (grow ap fmt h st recs)) = 3%nat.
Proof. intros H1 H2. destruct recs as [|r recs]; [now split|split; reflexivity]. Qed.

Lemma fold_grow ap : ap_ok ap -> forall fmt h chunks st,
  length (s_max st) = 3%nat -> length (s_min st) = 3%nat ->
  fold_left (grow ap fmt h) chunks st = grow ap fmt h st (concat chunks).
Proof.
  intros Hap fmt h. induction chunks as [|c cs IH]; intros st H1 H2; [reflexivity|].
  cbn [fold_left concat]. destruct (grow_len3 ap fmt h st c H1 H2) as [G1 G2].
  rewrite (IH _ G1 G2).
  destruct c as [|r c]; [reflexivity|].
  destruct (concat cs) as [|r' rs] eqn:E.
  - rewrite grow_nil, app_nil_r. reflexivity.
  - apply grow_app; try assumption; discriminate.
Qed.

Lemma grow_ext ap fmt h h' st recs :
  (forall i, aint h (axis_name "scales" i) = aint h' (axis_name "scales" i)) ->
  (forall i, aint h (axis_name "offsets" i) = aint h' (axis_name "offsets" i)) ->
  grow ap fmt h st recs = grow ap fmt h' st recs.
Proof.
  intros Hs Ho. destruct recs as [|r0 recs]; [reflexivity|]. unfold grow. cbv beta zeta.
  f_equal; apply map_ext; intros i; now rewrite Hs, Ho.
Qed.

(* ------------------------------------------------------------------------------------ *)
(* write_at                                                                              *)
(* ------------------------------------------------------------------------------------ *)
Lemma write_at_end : forall f bs, write_at f (len f) bs = f ++ bs.
Proof.
  intros f bs. unfold write_at, len. rewrite Nat2Z.id. rewrite firstn_all, Nat.sub_diag.
  rewrite skipn_all2 by lia. cbn [zeros repeat app]. now rewrite app_nil_r.
Qed.
Print Assumptions write_at_end.

Lemma write_at_prefix : forall a a' rest, length a = length a' -> write_at (a ++ rest) 0 a' = a' ++ rest.
Proof.
  intros a a' rest H. unfold write_at. change (Z.to_nat 0) with 0%nat.
  cbn [firstn Nat.sub Nat.add zeros repeat app]. rewrite <- H. now rewrite skipn_app_exact.
Qed.
Print Assumptions write_at_prefix.

(* ------------------------------------------------------------------------------------ *)
(* header fields untouched by with_stats / enc_header                                    *)
(* ------------------------------------------------------------------------------------ *)
Lemma aint_fold_aset_other (pre : nat -> string) n : (forall i, String.eqb (pre i) n = false) ->
  forall (ps : list (nat * Z)) h,
  aint (fold_left (fun h p => aset h (pre (fst p)) (VInt (snd p))) ps h) n = aint h n.
Proof.
  intros Hn. induction ps as [|p ps IH]; intros h; cbn [fold_left]; [reflexivity|].
  rewrite IH. apply aint_aset_other, Hn.
Qed.

Lemma aint_with_stats_other h st n :
  (forall i, String.eqb (axis_name "maxs" i) n = false) ->
  (forall i, String.eqb (axis_name "mins" i) n = false) ->
  (forall i, String.eqb (by_return_name i) n = false) ->
  String.eqb "point_count" n = false -> String.eqb "start_of_first_evlr" n = false ->
  String.eqb "number_of_evlrs" n = false ->
  aint (with_stats h st) n = aint h n.
Proof.
  intros H1 H2 H3 H4 H5 H6. unfold with_stats. cbv zeta.
  rewrite !aint_aset_other by assumption. unfold set_list.
  rewrite (aint_fold_aset_other _ _ H3), (aint_fold_aset_other _ _ H2), (aint_fold_aset_other _ _ H1).
  reflexivity.
Qed.

Ltac axis_ne := let i := fresh "i" in intros i; destruct i as [|[|i]]; reflexivity.
Ltac ret_ne := let i := fresh "i" in intros i; do 14 (destruct i as [|i]; [reflexivity|]); reflexivity.

Lemma with_stats_offset h st : aint (with_stats h st) "offset_to_point_data" = aint h "offset_to_point_data".
Proof. apply aint_with_stats_other; try reflexivity; try axis_ne; ret_ne. Qed.

Lemma with_stats_axis h st pre : (pre = "scales" \/ pre = "offsets")%string -> forall i,
  aint (with_stats h st) (axis_name pre i) = aint h (axis_name pre i).
Proof.
  intros [-> | ->] i; destruct i as [|[|i]];
    (apply aint_with_stats_other; try reflexivity; try axis_ne; ret_ne).
Qed.

Lemma enc_header_keeps h vl es h' bs n : enc_header h vl es = Ok (h', bs) ->
  String.eqb "offset_to_point_data" n = false -> String.eqb "header_size" n = false ->
  String.eqb "number_of_vlrs" n = false -> aint h' n = aint h n.
Proof.
  intros H H1 H2 H3.
  destruct (enc_header_inv _ _ _ _ _ H) as (vb & hs0 & fb & _ & _ & _ & _ & -> & _ & _).
  rewrite !aint_aset_other by assumption. reflexivity.
Qed.

Lemma open_header_axis h st vl h0 b0 pre : (pre = "scales" \/ pre = "offsets")%string ->
  enc_header (with_stats h st) vl false = Ok (h0, b0) ->
  forall i, aint h0 (axis_name pre i) = aint h (axis_name pre i).
Proof.
  intros Hp H i. rewrite <- (with_stats_axis h st pre Hp i).
  destruct Hp as [-> | ->]; destruct i as [|[|i]];
    (apply (enc_header_keeps _ _ _ _ _ _ H); reflexivity).
Qed.

(* ------------------------------------------------------------------------------------ *)
(* wrun                                                                                  *)
(* ------------------------------------------------------------------------------------ *)
Lemma wrun_gen ap : forall ops s acc,
  fold_left (fun acc op => let '(s', o) := wstep ap (fst acc) op in (s', snd acc ++ [o])) ops (s, acc)
  = (fst (wrun ap s ops), acc ++ snd (wrun ap s ops)).
Proof.
  induction ops as [|op ops IH]; intros s acc.
  - cbn [fold_left wrun fst snd]. unfold wrun. cbn [fold_left fst snd]. now rewrite app_nil_r.
  - unfold wrun. cbn [fold_left fst snd]. destruct (wstep ap s op) as [s' o].
    rewrite (IH s' (acc ++ [o])), (IH s' ([] ++ [o])). cbn [fst snd app].
    now rewrite <- app_assoc.
Qed.

Lemma wrun_nil ap s : wrun ap s [] = (s, []).
Proof. reflexivity. Qed.

Lemma wrun_cons ap s op ops :
  wrun ap s (op :: ops)
  = (fst (wrun ap (fst (wstep ap s op)) ops), snd (wstep ap s op) :: snd (wrun ap (fst (wstep ap s op)) ops)).
Proof.
  unfold wrun at 1. cbn [fold_left fst snd]. destruct (wstep ap s op) as [s' o].
  rewrite wrun_gen. reflexivity.
Qed.

Lemma wrun_app ap s l1 l2 :
  wrun ap s (l1 ++ l2)
  = (fst (wrun ap (fst (wrun ap s l1)) l2), snd (wrun ap s l1) ++ snd (wrun ap (fst (wrun ap s l1)) l2)).
Proof.
  unfold wrun at 1. rewrite fold_left_app. fold (wrun ap s l1).
  destruct (wrun ap s l1) as [s1 o1]. apply wrun_gen.
Qed.

Lemma all_ok_app a b : all_ok (a ++ b) -> all_ok a /\ all_ok b.
Proof. unfold all_ok. apply Forall_app. Qed.

Lemma all_ok_cons o os : all_ok (o :: os) -> o = Ok tt /\ all_ok os.
Proof. unfold all_ok. intros H. inversion H; subst. now split. Qed.

(* one accepted chunk *)
Lemma wstep_points ap s c : w_done s = false -> w_pos s = len (w_file s) ->
  snd (wstep ap s (WPoints c true)) = Ok tt ->
  let s' := fst (wstep ap s (WPoints c true)) in
  w_h s' = w_h s /\ w_vlrs s' = w_vlrs s /\ w_fmt s' = w_fmt s /\ w_done s' = false
  /\ w_file s' = w_file s ++ concat c /\ w_pos s' = len (w_file s')
  /\ w_st s' = grow ap (w_fmt s) (w_h s) (w_st s) c.
Proof.
  intros Hd Hp. unfold wstep. destruct c as [|r c].
  - cbn [fst snd concat]. intros _. rewrite app_nil_r. repeat split; auto.
  - rewrite Hd. cbn [negb].
    match goal with |- context [if ?c then _ else _] => destruct c eqn:E end.
    + cbn [snd]. discriminate.
    + cbn [fst snd w_h w_st w_vlrs w_fmt w_file w_pos w_done]. intros _.
      rewrite Hp, write_at_end. repeat split; try reflexivity.
      rewrite len_app. reflexivity.
Qed.

Lemma wrun_points ap : forall chunks s,
  w_done s = false -> w_pos s = len (w_file s) ->
  all_ok (snd (wrun ap s (map (fun c => WPoints c true) chunks))) ->
  let s' := fst (wrun ap s (map (fun c => WPoints c true) chunks)) in
  w_h s' = w_h s /\ w_vlrs s' = w_vlrs s /\ w_fmt s' = w_fmt s /\ w_done s' = false
  /\ w_file s' = w_file s ++ concat (concat chunks) /\ w_pos s' = len (w_file s')
  /\ w_st s' = fold_left (grow ap (w_fmt s) (w_h s)) chunks (w_st s).
Proof.
  induction chunks as [|c cs IH]; intros s Hd Hp Hok.
  - cbn [map]. rewrite wrun_nil. cbn [fst concat fold_left]. rewrite app_nil_r. repeat split; auto.
  - cbn [map] in *. rewrite wrun_cons in *. cbn [fst snd] in *.
    apply all_ok_cons in Hok as [Ho Hok].
    destruct (wstep_points ap s c Hd Hp Ho) as (A1 & A2 & A3 & A4 & A5 & A6 & A7).
    destruct (IH _ A4 A6 Hok) as (B1 & B2 & B3 & B4 & B5 & B6 & B7).
    cbv zeta. rewrite B1, B2, B3, B4, B6, B7, B5, A1, A2, A3, A5, A7.
    cbn [concat fold_left]. rewrite concat_app, app_assoc. repeat split; reflexivity.
Qed.

Lemma wstep_evlrs ap s ev evl : snd (wstep ap s (WEvlrs (ev :: evl))) = Ok tt ->
  exists eb, enc_vlrs true (ev :: evl) = Ok eb
  /\ fst (wstep ap s (WEvlrs (ev :: evl)))
     = mkW (w_h s) (mkS (s_count (w_st s)) (s_max (w_st s)) (s_min (w_st s)) (s_ret (w_st s)) (w_pos s) (len (ev :: evl)))
           (w_vlrs s) (w_fmt s) (write_at (w_file s) (w_pos s) eb) (w_pos s + len eb) true.
Proof.
  unfold wstep. destruct (aint (w_h s) "version.minor" <? 4); [discriminate|].
  destruct (enc_vlrs true (ev :: evl)) as [eb|e]; [|discriminate].
  intros _. exists eb. split; reflexivity.
Qed.

(* ------------------------------------------------------------------------------------ *)
(* THE REFINEMENT                                                                        *)
(* ------------------------------------------------------------------------------------ *)
Theorem writer_refines : forall ap, ap_ok ap -> forall h vl fmt chunks evl s0 s outs,
  wopen h vl fmt = Ok s0 ->
  wrun ap s0 (chunk_ops chunks evl) = (s, outs) ->
  all_ok outs ->
  file_of ap h vl fmt (concat chunks) evl = Ok (w_file s).
Proof.
  intros ap Hap h vl fmt chunks evl s0 s outs Hopen Hrun Hok.
  (* open *)
  unfold wopen in Hopen.
  destruct (negb (compat _ _ fmt)); [discriminate|].
  destruct (enc_header (with_stats h stats0) vl false) as [[h0 b0]|e] eqn:Eh0; [|discriminate].
  cbn [bind fst snd] in Hopen. injection Hopen as <-.
  (* split the session *)
  unfold chunk_ops in Hrun. rewrite wrun_app in Hrun.
  set (s0 := mkW h0 stats0 vl fmt b0 (len b0) false) in *.
  set (pops := map (fun c => WPoints c true) chunks) in *.
  injection Hrun as Hs Ho. subst outs.
  apply all_ok_app in Hok as [Hok1 Hok23].
  destruct (wrun_points ap chunks s0 eq_refl eq_refl Hok1) as (P1 & P2 & P3 & P4 & P5 & P6 & P7).
  fold pops in P1, P2, P3, P4, P5, P6, P7.
  set (s1 := fst (wrun ap s0 pops)) in *.
  cbn [w_h w_vlrs w_fmt w_file w_st s0] in P1, P2, P3, P5, P7.
  (* the statistics after the points *)
  assert (w_st s1 = grow ap fmt h stats0 (concat chunks)) as P7'.
  { rewrite P7. rewrite (fold_grow ap Hap) by reflexivity.
    apply grow_ext; intros i; [apply (open_header_axis h stats0 vl h0 b0 "scales")
                              |apply (open_header_axis h stats0 vl h0 b0 "offsets")]; auto. }
  set (pts := concat (concat chunks)) in *.
  assert (len b0 = aint h0 "offset_to_point_data") as Hlen0 by exact (enc_header_len _ _ _ _ _ Eh0).
  (* unfold the specification *)
  unfold file_of. rewrite Eh0. cbn [bind fst snd]. fold pts.
  (* a generic statement about the closing step *)
  assert (forall s2 eb st2, w_h s2 = h0 -> w_vlrs s2 = vl -> w_file s2 = b0 ++ pts ++ eb ->
            w_st s2 = st2 ->
            all_ok (snd (wrun ap s2 [WClose])) ->
            let st := if s_count st2 =? 0 then zero_extrema st2 else st2 in
            (do hb <- enc_header (with_stats h0 st) vl true; Ok (snd hb ++ pts ++ eb))
            = Ok (w_file (fst (wrun ap s2 [WClose])))) as Hclose.
  { intros s2 eb st2 C1 C2 C3 C4 Hc. rewrite wrun_cons, wrun_nil in *. cbn [fst snd] in *.
    apply all_ok_cons in Hc as [Hc _]. unfold wstep in *. rewrite C1, C2, C4 in *. cbv zeta.
    destruct (enc_header (with_stats h0 (if s_count st2 =? 0 then zero_extrema st2 else st2)) vl true)
      as [[h3 b3]|e] eqn:E3; [|discriminate Hc].
    cbn [bind fst snd w_file]. rewrite C3. f_equal. symmetry. apply write_at_prefix.
    destruct (enc_header_same_size _ _ _ _ E3) as [_ L3]. rewrite with_stats_offset in L3.
    unfold len in *. lia. }
  (* EVLRs or not *)
  destruct evl as [|ev evl].
  - cbn [app] in Hok23, Hs. cbn [fst snd] in Hok23, Hs.
    cbn [enc_vlrs bind].
    specialize (Hclose s1 [] (w_st s1) P1 P2).
    rewrite app_nil_r in Hclose. specialize (Hclose P5 eq_refl Hok23). cbv zeta in Hclose.
    rewrite Hs in Hclose. rewrite <- Hclose. rewrite app_nil_r.
    rewrite P7'. unfold stats_of.
    destruct (concat chunks) as [|r rs] eqn:Ec; [reflexivity|].
    replace (s_count (grow ap fmt h stats0 (r :: rs)) =? 0) with false; [reflexivity|].
    unfold grow. cbn [s_count stats0]. pose proof (len_nonneg rs). unfold len in *. cbn [length]. lia.
  - cbn [app] in Hs, Hok23. rewrite wrun_cons in Hs, Hok23. cbn [fst snd] in Hs, Hok23.
    apply all_ok_cons in Hok23 as [Hoe Hok3].
    destruct (wstep_evlrs ap s1 ev evl Hoe) as (eb & Eeb & Es2).
    rewrite Es2 in Hs, Hok3. rewrite Eeb. cbn [bind].
    match type of Hs with fst (wrun ap ?t _) = _ => set (s2 := t) in * end.
    assert (w_file s2 = b0 ++ pts ++ eb) as F2.
    { unfold s2. cbn [w_file]. rewrite P6, write_at_end, P5, <- app_assoc. reflexivity. }
    specialize (Hclose s2 eb (w_st s2) P1 P2 F2 eq_refl Hok3). cbv zeta in Hclose.
    rewrite Hs in Hclose. rewrite <- Hclose.
    unfold s2. cbn [w_st]. rewrite P6, P5, len_app. fold pts. rewrite P7'. unfold stats_of.
    destruct (concat chunks) as [|r rs] eqn:Ec; [reflexivity|].
    cbn [s_count].
    replace (s_count (grow ap fmt h stats0 (r :: rs)) =? 0) with false; [reflexivity|].
    unfold grow. cbn [s_count stats0]. pose proof (len_nonneg rs). unfold len in *. cbn [length]. lia.
Qed.
Print Assumptions writer_refines.

Corollary chunking_irrelevant : forall ap, ap_ok ap -> forall h vl fmt chunks1 chunks2 evl s0 s1 o1 s2 o2,
  concat chunks1 = concat chunks2 ->
  wopen h vl fmt = Ok s0 ->
  wrun ap s0 (chunk_ops chunks1 evl) = (s1, o1) -> all_ok o1 ->
  wrun ap s0 (chunk_ops chunks2 evl) = (s2, o2) -> all_ok o2 ->
  w_file s1 = w_file s2.
Proof.
  intros ap Hap h vl fmt chunks1 chunks2 evl s0 s1 o1 s2 o2 Hc Hopen R1 K1 R2 K2.
  pose proof (writer_refines ap Hap _ _ _ _ _ _ _ _ Hopen R1 K1) as F1.
  pose proof (writer_refines ap Hap _ _ _ _ _ _ _ _ Hopen R2 K2) as F2.
  rewrite Hc, F2 in F1. now injection F1.
Qed.
Print Assumptions chunking_irrelevant.

(* ------------------------------------------------------------------------------------ *)
(* refusals                                                                              *)
(* ------------------------------------------------------------------------------------ *)
Theorem write_after_done : forall ap s recs b, w_done s = true -> recs <> [] ->
  wstep ap s (WPoints recs b) = (s, Err ELaspy).
Proof.
  intros ap s recs b Hd Hr. destruct recs as [|r recs]; [contradiction|].
  unfold wstep. now rewrite Hd.
Qed.
Print Assumptions write_after_done.

Theorem write_wrong_format : forall ap s recs, recs <> [] ->
  wstep ap s (WPoints recs false) = (s, Err ELaspy).
Proof.
  intros ap s recs Hr. destruct recs as [|r recs]; [contradiction|].
  unfold wstep. destruct (w_done s); reflexivity.
Qed.
Print Assumptions write_wrong_format.

Theorem write_empty_chunk : forall ap s b, wstep ap s (WPoints [] b) = (s, Ok tt).
Proof. reflexivity. Qed.
Print Assumptions write_empty_chunk.

(* ------------------------------------------------------------------------------------ *)
(* final statistics                                                                      *)
(* ------------------------------------------------------------------------------------ *)
Theorem stats_of_count : forall ap fmt h recs, s_count (stats_of ap fmt h recs) = len recs.
Proof. intros ap fmt h [|r recs]; reflexivity. Qed.
Print Assumptions stats_of_count.

Theorem stats_of_returns : forall ap fmt h recs i, (i < 15)%nat ->
  nth i (s_ret (stats_of ap fmt h recs)) 0 = count_ret fmt recs (Z.of_nat i + 1).
Proof.
  intros ap fmt h recs i Hi. destruct recs as [|r recs].
  - unfold stats_of, zero_extrema, stats0. cbn [s_ret]. unfold count_ret. cbn [filter].
    change (len (@nil (list Z))) with 0.
    do 15 (destruct i as [|i]; [reflexivity|]). lia.
  - unfold stats_of, grow, stats0. cbv beta zeta. cbn [s_ret repeat seq combine map fst snd].
    do 15 (destruct i as [|i]; [cbn [nth]; apply Z.add_0_l|]). lia.
Qed.
Print Assumptions stats_of_returns.

Theorem stats_of_empty : forall ap fmt h, stats_of ap fmt h [] = mkS 0 [0;0;0] [0;0;0] (repeat 0 15) 0 0.
Proof. reflexivity. Qed.
Print Assumptions stats_of_empty.

(* ------------------------------------------------------------------------------------ *)
(* extrema.  The statement of [stats_of_extrema] given in the task is FALSE of the model:  *)
(* [ap_ok] does not force [ap] to return a binary64 bit pattern (a Z in [0, 2^64)), and    *)
(* the negative integer - F64_MAX has the same [f64_key] as F64_MIN, so [fmax F64_MIN] of  *)
(* it keeps F64_MIN.  Counterexample below, then the statement under the extra hypothesis  *)
(* that [ap] never returns a negative integer.                                             *)
(* ------------------------------------------------------------------------------------ *)
Definition bad_ap (s o x : Z) : Z := - F64_MAX.

Lemma bad_ap_ok : ap_ok bad_ap.
Proof.
  unfold ap_ok, bad_ap. split; [intros; lia|]. split; [reflexivity|].
  intros _ _ _. split; apply Z.leb_le; vm_compute; reflexivity.
Qed.

Theorem stats_of_extrema_counterexample :
  ~ (forall ap, ap_ok ap -> forall fmt h r0 recs i, (i < 3)%nat ->
     let s := aint h (axis_name "scales" i) in let o := aint h (axis_name "offsets" i) in
     let xs := map (rec_coord i) (r0 :: recs) in
     nth i (s_max (stats_of ap fmt h (r0 :: recs))) 0 = ap s o (zmax_list (rec_coord i r0) xs)
     /\ nth i (s_min (stats_of ap fmt h (r0 :: recs))) 0 = ap s o (zmin_list (rec_coord i r0) xs)
     /\ (forall x, In x xs -> x <= zmax_list (rec_coord i r0) xs) /\ In (zmax_list (rec_coord i r0) xs) xs
     /\ (forall x, In x xs -> zmin_list (rec_coord i r0) xs <= x) /\ In (zmin_list (rec_coord i r0) xs) xs).
Proof.
  intros H. specialize (H bad_ap bad_ap_ok 0 [] [] [] 0%nat ltac:(lia)). cbv zeta in H.
  destruct H as [H _]. vm_compute in H. discriminate H.
Qed.
Print Assumptions stats_of_extrema_counterexample.

Lemma key_MAX : f64_key F64_MAX = 9218868437227405311.
Proof. vm_compute. reflexivity. Qed.
Lemma key_MIN : f64_key F64_MIN = -9218868437227405311.
Proof. vm_compute. reflexivity. Qed.

Lemma fmax_MIN x : f64_key F64_MIN <= f64_key x -> (f64_key x = f64_key F64_MIN -> x = F64_MIN) ->
  fmax F64_MIN x = x.
Proof.
  intros H1 H2. unfold fmax, f64_lt. destruct (f64_key F64_MIN <? f64_key x) eqn:E; [reflexivity|].
  symmetry. apply H2. lia.
Qed.

Lemma fmin_MAX x : f64_key x <= f64_key F64_MAX -> fmin F64_MAX x = x.
Proof.
  intros H1. unfold fmin, f64_lt. destruct (f64_key x <? f64_key F64_MAX) eqn:E; [reflexivity|].
  assert (f64_key x = f64_key F64_MAX) as K by lia. clear H1 E.
  rewrite key_MAX in K. unfold f64_key in K. unfold F64_MAX.
  change (2 ^ 63) with 9223372036854775808 in K.
  destruct (x <? 9223372036854775808) eqn:Ex; lia.
Qed.

Lemma nonneg_key_MIN x : 0 <= x -> f64_key x = f64_key F64_MIN -> x = F64_MIN.
Proof.
  intros Hx K. rewrite key_MIN in K. unfold f64_key in K. unfold F64_MIN.
  change (2 ^ 63) with 9223372036854775808 in K.
  destruct (x <? 9223372036854775808) eqn:Ex; lia.
Qed.

(* the most general form: ap never returns a different integer of the same rank as F64_MIN *)
Lemma stats_of_extrema_gen : forall ap, ap_ok ap ->
  (forall s o x, f64_key (ap s o x) = f64_key F64_MIN -> ap s o x = F64_MIN) ->
  forall fmt h r0 recs i, (i < 3)%nat ->
  let s := aint h (axis_name "scales" i) in let o := aint h (axis_name "offsets" i) in
  let xs := map (rec_coord i) (r0 :: recs) in
  nth i (s_max (stats_of ap fmt h (r0 :: recs))) 0 = ap s o (zmax_list (rec_coord i r0) xs)
  /\ nth i (s_min (stats_of ap fmt h (r0 :: recs))) 0 = ap s o (zmin_list (rec_coord i r0) xs)
  /\ (forall x, In x xs -> x <= zmax_list (rec_coord i r0) xs) /\ In (zmax_list (rec_coord i r0) xs) xs
  /\ (forall x, In x xs -> zmin_list (rec_coord i r0) xs <= x) /\ In (zmin_list (rec_coord i r0) xs) xs.
Proof.
  intros ap (Hmono & Hinj & Hrng) Hmin fmt h r0 recs i Hi s o xs.
  assert (nth i (s_max (stats_of ap fmt h (r0 :: recs))) 0
          = fmax F64_MIN (ap s o (zmax_list (rec_coord i r0) xs))
       /\ nth i (s_min (stats_of ap fmt h (r0 :: recs))) 0
          = fmin F64_MAX (ap s o (zmin_list (rec_coord i r0) xs))) as [E1 E2].
  { unfold stats_of, grow, stats0. cbv beta zeta. cbn [s_max s_min]. rewrite !map_seq3.
    destruct i as [|[|[|i]]]; [split; reflexivity ..|lia]. }
  rewrite E1, E2.
  split; [apply fmax_MIN; [apply Hrng|apply Hmin]|].
  split; [apply fmin_MAX; apply Hrng|].
  destruct (zmax_list_head (rec_coord i r0) (map (rec_coord i) recs)) as [M1 M2].
  destruct (zmin_list_head (rec_coord i r0) (map (rec_coord i) recs)) as [N1 N2].
  repeat split; assumption.
Qed.
Print Assumptions stats_of_extrema_gen.

(* closest true statement: one more hypothesis, [ap] returns a non-negative integer (as every
   bit pattern is); everything else as in the task *)
Theorem stats_of_extrema_partial : forall ap, ap_ok ap -> (forall s o x, 0 <= ap s o x) ->
  forall fmt h r0 recs i, (i < 3)%nat ->
  let s := aint h (axis_name "scales" i) in let o := aint h (axis_name "offsets" i) in
  let xs := map (rec_coord i) (r0 :: recs) in
  nth i (s_max (stats_of ap fmt h (r0 :: recs))) 0 = ap s o (zmax_list (rec_coord i r0) xs)
  /\ nth i (s_min (stats_of ap fmt h (r0 :: recs))) 0 = ap s o (zmin_list (rec_coord i r0) xs)
  /\ (forall x, In x xs -> x <= zmax_list (rec_coord i r0) xs) /\ In (zmax_list (rec_coord i r0) xs) xs
  /\ (forall x, In x xs -> zmin_list (rec_coord i r0) xs <= x) /\ In (zmin_list (rec_coord i r0) xs) xs.
Proof.
  intros ap Hap Hnn. apply (stats_of_extrema_gen ap Hap).
  intros s o x. apply nonneg_key_MIN, Hnn.
Qed.
Print Assumptions stats_of_extrema_partial.
