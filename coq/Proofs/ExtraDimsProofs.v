(* C13 — proofs about Model/ExtraDims.v: descriptor codec, VLR synchronisation, reallocation by name, conversion,
   un-registered trailing bytes (truncated re-reads), construction from a format with extra dimensions,
   the invariant over histories, the frame property (other dimensions keep their values), the round trip,
   bad removals. *)
From Coq Require Import String Ascii.
From Coq Require Import ZArith List Bool Lia ZifyBool.
From LasV Require Import Lib.Base Lib.BaseFacts Lib.Layout Proofs.LayoutProofs Gen.GenDims Gen.GenExtraBytes Model.Las Model.ExtraDims.
Import ListNotations.
Open Scope list_scope.
Open Scope Z_scope.

Ltac split_andb := repeat match goal with Hx : _ && _ = true |- _ => apply andb_true_iff in Hx as [? ?] end.

(* ------------------------------------------------------------------------------------ *)
(* names                                                                                 *)
(* ------------------------------------------------------------------------------------ *)
Lemma name_eqb_eq a : forall b, name_eqb a b = true <-> a = b.
Proof.
  induction a as [|x a IH]; intros [|y b]; cbn [name_eqb]; split; intros H; try reflexivity; try discriminate.
  - apply andb_true_iff in H as [Hx Hr]. apply Z.eqb_eq in Hx. apply IH in Hr. now subst.
  - injection H as -> ->. rewrite Z.eqb_refl. cbn [andb]. now apply IH.
Qed.

Lemma name_eqb_refl a : name_eqb a a = true.
Proof. now apply name_eqb_eq. Qed.

Lemma name_eqb_neq a b : a <> b -> name_eqb a b = false.
Proof. intros H. destruct (name_eqb a b) eqn:E; [|reflexivity]. apply name_eqb_eq in E. contradiction. Qed.

Lemma mem_name_In n l : mem_name n l = true <-> In n l.
Proof.
  unfold mem_name. rewrite existsb_exists. split.
  - intros (x & Hx & He). apply name_eqb_eq in He. now subst.
  - intros H. exists n. split; [exact H|apply name_eqb_refl].
Qed.

Lemma mem_name_false n l : mem_name n l = false <-> ~ In n l.
Proof.
  split; intros H.
  - intros Hi. apply mem_name_In in Hi. congruence.
  - destruct (mem_name n l) eqn:E; [|reflexivity]. apply mem_name_In in E. contradiction.
Qed.

Lemma nodupb_NoDup l : nodupb l = true <-> NoDup l.
Proof.
  induction l as [|a l IH]; cbn [nodupb].
  - split; [constructor|reflexivity].
  - rewrite andb_true_iff, negb_true_iff, mem_name_false, IH. split.
    + intros [H1 H2]. now constructor.
    + intros H. inversion H; subst. now split.
Qed.

Lemma NoDup_map_filter {A B} (g : A -> B) (f : A -> bool) l : NoDup (map g l) -> NoDup (map g (filter f l)).
Proof.
  induction l as [|a l IH]; cbn [map filter]; intros H; [constructor|].
  inversion H as [|? ? Hn Hd]; subst. destruct (f a); cbn [map]; [|now apply IH].
  constructor; [|now apply IH]. intros Hi. apply Hn. apply in_map_iff in Hi as (x & Hx & Hf).
  apply filter_In in Hf as [Hf _]. apply in_map_iff. now exists x.
Qed.

Lemma map_snd_combine {A B} (a : list A) : forall b : list B, length a = length b -> map snd (combine a b) = b.
Proof.
  induction a as [|x a IH]; intros [|y b] H; cbn in *; try reflexivity; try discriminate.
  f_equal. apply IH. lia.
Qed.

(* ------------------------------------------------------------------------------------ *)
(* facts about the generated tables (complete sweeps)                                    *)
(* ------------------------------------------------------------------------------------ *)
Definition SO : Z := Z.lor eb_scale_mask eb_offset_mask.

Definition row_okb (row : Z * string * Z * Z) : bool :=
  let '(i, _, sz, n) := row in
  (1 <=? i) && (i <=? 255) && (1 <=? sz) && (1 <=? n) && (n <=? 3)
  && eb_has_scale i SO && eb_has_offset i SO && negb (eb_has_scale i 0) && negb (eb_has_offset i 0).

Lemma table_rows_ok : forallb row_okb extra_dim_types = true.
Proof. vm_compute. reflexivity. Qed.

Lemma table_num_elements : Forall (fun row => let '(i, _, _, n) := row in forall opt, eb_num_elements i opt = n) extra_dim_types.
Proof. unfold extra_dim_types. repeat (constructor; [intros opt; vm_compute; reflexivity|]). constructor. Qed.

Lemma type_row_some id i k sz n : type_row id = Some (i, k, sz, n) ->
  i = id /\ 1 <= id <= 255 /\ 1 <= sz /\ 1 <= n <= 3
  /\ (forall opt, eb_num_elements id opt = n)
  /\ eb_has_scale id SO = true /\ eb_has_offset id SO = true
  /\ eb_has_scale id 0 = false /\ eb_has_offset id 0 = false.
Proof.
  unfold type_row. intros H. apply find_some in H as [Hin He]. cbn beta iota in He. apply Z.eqb_eq in He. subst i.
  pose proof (proj1 (forallb_forall _ _) table_rows_ok _ Hin) as Hr. unfold row_okb in Hr.
  pose proof (proj1 (Forall_forall _ _) table_num_elements _ Hin) as Hn. cbn beta iota in Hn.
  split_andb.
  repeat split; try lia; try assumption; try (now apply negb_true_iff).
Qed.

Lemma has_scale_opaque n : eb_has_scale 0 n = false /\ eb_has_offset 0 n = false.
Proof. split; reflexivity. Qed.

(* the guards of the scale / offset getters test exactly the bit the specification gives them (ASPRS LAS 1.4 R15, table 25:
   options bit 3 = scale is relevant, bit 4 = offset is relevant), each its own, for every documented type and every options
   byte: a complete sweep over 30 x 256 *)
Definition option_bits_okb (id opt : Z) : bool :=
  Bool.eqb (eb_has_scale id opt) (Z.testbit opt 3) && Bool.eqb (eb_has_offset id opt) (Z.testbit opt 4).
Lemma option_bits_sweep : forall_below 30 (fun i => forall_below 256 (fun opt => option_bits_okb (i + 1) opt)) = true.
Proof. vm_compute. reflexivity. Qed.
Theorem option_bits id opt : 1 <= id <= 30 -> 0 <= opt < 256 ->
  eb_has_scale id opt = Z.testbit opt 3 /\ eb_has_offset id opt = Z.testbit opt 4.
Proof.
  intros Hid Hopt. pose proof (forall_below_spec _ _ option_bits_sweep (id - 1) ltac:(lia)) as H. cbn beta in H.
  pose proof (forall_below_spec _ _ H opt Hopt) as H2. cbn beta in H2. replace (id - 1 + 1) with id in H2 by lia.
  unfold option_bits_okb in H2. apply andb_true_iff in H2 as [H3 H4]. apply Bool.eqb_prop in H3, H4. now split.
Qed.

Lemma opaque_type_big n : 4 <= n -> opaque_type n = TOpaque n.
Proof.
  intros Hn. unfold opaque_type.
  destruct (find _ extra_dim_types) as [[[[i k] sz] c]|] eqn:E; [|reflexivity].
  apply find_some in E as [Hin He]. cbn beta iota in He.
  pose proof (proj1 (forallb_forall _ _) table_rows_ok _ Hin) as Hr. unfold row_okb in Hr.
  split_andb. lia.
Qed.

Lemma SO_val : SO = 24.
Proof. reflexivity. Qed.

(* ------------------------------------------------------------------------------------ *)
(* the descriptor codec                                                                  *)
(* ------------------------------------------------------------------------------------ *)
Lemma et_size_pos t : et_ok t = true -> 1 <= et_size t.
Proof.
  destruct t as [id|n]; cbn [et_ok et_size]; [|lia].
  destruct (type_row id) as [[[[i k] sz] n]|] eqn:E; [|discriminate]. intros _.
  destruct (type_row_some _ _ _ _ _ E) as (_ & _ & Hsz & Hn & _). nia.
Qed.

Lemma edim_ok_size d : edim_okb d = true -> 1 <= et_size (ed_type d).
Proof. unfold edim_okb. intros H. split_andb. now apply et_size_pos. Qed.

Lemma nth_f64_ok (l : list Z) i : forallb f64_ok l = true -> 0 <= nth i l 0 < 2 ^ 64.
Proof.
  revert i; induction l as [|x l IH]; intros i H; [destruct i; cbn; lia|].
  cbn [forallb] in H. apply andb_true_iff in H as [Hx Hl]. destruct i as [|i]; cbn [nth].
  - unfold f64_ok in Hx. lia.
  - now apply IH.
Qed.

Lemma forallb_firstn {A} (f : A -> bool) n l : forallb f l = true -> forallb f (firstn n l) = true.
Proof.
  revert l; induction n as [|n IH]; intros [|x l] H; cbn; try reflexivity.
  cbn in H. apply andb_true_iff in H as [-> Hl]. cbn. now apply IH.
Qed.

Lemma scale_at_range_fst d i : edim_okb d = true -> 0 <= ed_scale_at fst d i < 256 ^ Z.of_nat 8.
Proof.
  intros H. change (256 ^ Z.of_nat 8) with (2 ^ 64). unfold ed_scale_at.
  destruct (ed_type d) as [id|n] eqn:Et; [|lia]. destruct (ed_scale d) as [[s o]|] eqn:Es; [|lia].
  unfold edim_okb in H. rewrite Et, Es in H. split_andb.
  apply nth_f64_ok. cbn [fst snd]. now apply forallb_firstn.
Qed.

Lemma scale_at_range_snd d i : edim_okb d = true -> 0 <= ed_scale_at snd d i < 256 ^ Z.of_nat 8.
Proof.
  intros H. change (256 ^ Z.of_nat 8) with (2 ^ 64). unfold ed_scale_at.
  destruct (ed_type d) as [id|n] eqn:Et; [|lia]. destruct (ed_scale d) as [[s o]|] eqn:Es; [|lia].
  unfold edim_okb in H. rewrite Et, Es in H. split_andb.
  apply nth_f64_ok. cbn [fst snd]. now apply forallb_firstn.
Qed.

Lemma type_id_range d : edim_okb d = true -> 0 <= type_id (ed_type d) < 256.
Proof.
  unfold edim_okb. intros H. split_andb.
  destruct (ed_type d) as [id|n]; cbn [type_id]; [|lia].
  cbn [et_ok] in *. destruct (type_row id) as [[[[i k] sz] n]|] eqn:E; [|discriminate].
  destruct (type_row_some _ _ _ _ _ E) as (_ & Hid & _). lia.
Qed.

Lemma options_range d : edim_okb d = true -> 0 <= ed_options d < 256.
Proof.
  unfold edim_okb, ed_options. intros H. split_andb.
  destruct (ed_type d) as [id|n]; cbn [et_ok] in *.
  - destruct (ed_scale d); [change (Z.lor eb_scale_mask eb_offset_mask) with 24|]; lia.
  - lia.
Qed.

Lemma text_ok_wf s : text_ok s = true -> (Nat.leb (length s) 32 && no_nul s && bytes_ok s) = true.
Proof.
  unfold text_ok, len. intros H. split_andb.
  repeat (apply andb_true_iff; split); try assumption. apply Nat.leb_le. lia.
Qed.

(* the values written for a legal dimension are well-formed for the generated layout *)
Lemma eb_vals_wf d : edim_okb d = true -> wf_fields eb_layout (eb_vals d) = true.
Proof.
  intros H.
  pose proof (type_id_range d H) as Ht. pose proof (options_range d H) as Ho.
  pose proof (scale_at_range_fst d 0 H) as Hs0. pose proof (scale_at_range_fst d 1 H) as Hs1.
  pose proof (scale_at_range_fst d 2 H) as Hs2. pose proof (scale_at_range_snd d 0 H) as Ho0.
  pose proof (scale_at_range_snd d 1 H) as Ho1. pose proof (scale_at_range_snd d 2 H) as Ho2.
  assert (text_ok (ed_name d) = true /\ text_ok (ed_desc d) = true) as [Hn Hd].
  { unfold edim_okb in H. split_andb. now split. }
  apply text_ok_wf in Hn. apply text_ok_wf in Hd.
  unfold eb_vals, eb_layout. cbn [map eb_field_value String.eqb Ascii.eqb Bool.eqb].
  cbn [wf_fields wf_field].
  rewrite Hn, Hd.
  change (256 ^ Z.of_nat 1) with 256.
  repeat (apply andb_true_iff; split); try reflexivity; try lia.
Qed.

Lemma firstn3_nth (s : list Z) n : Z.of_nat (length s) = n -> 1 <= n <= 3 ->
  firstn (Z.to_nat n) [nth 0 (firstn (Z.to_nat n) s) 0; nth 1 (firstn (Z.to_nat n) s) 0; nth 2 (firstn (Z.to_nat n) s) 0] = s.
Proof.
  intros Hl Hn. destruct s as [|a [|b [|c [|e s]]]]; cbn [length] in Hl; try lia.
  - replace n with 1 by lia. reflexivity.
  - replace n with 2 by lia. reflexivity.
  - replace n with 3 by lia. reflexivity.
Qed.

(* what type_of_extra_dims rebuilds from the values written by _sync_extra_bytes_vlr *)
Lemma undescribe_describe d : edim_okb d = true ->
  undescribe (combine (layout_names eb_layout) (eb_vals d)) = Ok d.
Proof.
  intros H. unfold undescribe.
  assert (aint (combine (layout_names eb_layout) (eb_vals d)) "data_type" = type_id (ed_type d)) as -> by reflexivity.
  assert (aint (combine (layout_names eb_layout) (eb_vals d)) "options" = ed_options d) as -> by reflexivity.
  assert (abytes (combine (layout_names eb_layout) (eb_vals d)) "name" = ed_name d) as -> by reflexivity.
  assert (abytes (combine (layout_names eb_layout) (eb_vals d)) "description" = ed_desc d) as -> by reflexivity.
  assert (aint (combine (layout_names eb_layout) (eb_vals d)) "_scale[0]" = ed_scale_at fst d 0) as -> by reflexivity.
  assert (aint (combine (layout_names eb_layout) (eb_vals d)) "_scale[1]" = ed_scale_at fst d 1) as -> by reflexivity.
  assert (aint (combine (layout_names eb_layout) (eb_vals d)) "_scale[2]" = ed_scale_at fst d 2) as -> by reflexivity.
  assert (aint (combine (layout_names eb_layout) (eb_vals d)) "_offset[0]" = ed_scale_at snd d 0) as -> by reflexivity.
  assert (aint (combine (layout_names eb_layout) (eb_vals d)) "_offset[1]" = ed_scale_at snd d 1) as -> by reflexivity.
  assert (aint (combine (layout_names eb_layout) (eb_vals d)) "_offset[2]" = ed_scale_at snd d 2) as -> by reflexivity.
  destruct d as [name ty sc desc]. unfold edim_okb in H. cbn [ed_name ed_type ed_scale ed_desc] in *.
  split_andb.
  destruct ty as [id|n].
  - (* one of the documented types *)
    cbn [et_ok] in *. destruct (type_row id) as [[[[i k] sz] c]|] eqn:E; [|discriminate].
    destruct (type_row_some _ _ _ _ _ E) as (_ & Hid & _ & Hc & Hne & Hs1 & Ho1 & Hs0 & Ho0).
    cbn [type_id]. replace (id =? 0) with false by lia. rewrite E. cbn [bind].
    unfold ed_options, ed_scale_at. cbn [ed_type ed_scale].
    destruct sc as [[s o]|].
    + fold SO. rewrite Hs1, Ho1. cbn [orb]. rewrite !Hne.
      cbn [et_elems] in *. rewrite E in *.
      cbn [fst snd]. rewrite (firstn3_nth s c) by (unfold len in *; lia).
      rewrite (firstn3_nth o c) by (unfold len in *; lia). reflexivity.
    + rewrite Hs0, Ho0. reflexivity.
  - (* opaque bytes *)
    cbn [et_ok type_id] in *. cbn [Z.eqb]. unfold ed_options. cbn [ed_type].
    rewrite opaque_type_big by lia. cbn [bind].
    destruct (has_scale_opaque n) as [-> ->]. cbn [orb].
    destruct sc as [[s o]|]; [discriminate|reflexivity].
Qed.

Lemma eb_layout_width : layout_width eb_layout = eb_struct_size.
Proof. reflexivity. Qed.

Theorem descriptor_roundtrip d : edim_okb d = true ->
  exists bs, enc_eb d = Ok bs /\ len bs = eb_struct_size /\ forall rest, dec_eb (bs ++ rest) = Ok d.
Proof.
  intros H. pose proof (eb_vals_wf d H) as Hwf.
  destruct (enc_fields_wf _ _ Hwf) as [bs Hbs]. exists bs. split; [exact Hbs|].
  destruct (dec_enc_fields _ _ _ [] Hwf Hbs) as [_ Hl]. split; [now rewrite Hl, eb_layout_width|].
  intros rest. destruct (dec_enc_fields _ _ _ rest Hwf Hbs) as [Hd _].
  unfold dec_eb. rewrite Hd. cbn [fst]. now apply undescribe_describe.
Qed.

(* ------------------------------------------------------------------------------------ *)
(* the payload of the extra-bytes VLR                                                    *)
(* ------------------------------------------------------------------------------------ *)
Lemma EB_val : EB = 192%nat.
Proof. reflexivity. Qed.

Lemma len_length_eq {A} (l : list A) n : len l = Z.of_nat n -> length l = n.
Proof. unfold len. lia. Qed.

Theorem payload_roundtrip ex : forallb edim_okb ex = true ->
  exists p, eb_payload ex = Ok p /\ length p = (EB * length ex)%nat
            /\ forall fuel, (length ex <= fuel)%nat -> dec_ebs fuel p = Ok ex.
Proof.
  induction ex as [|d ex IH]; intros H.
  - exists []. repeat split; try reflexivity. intros [|k] _; reflexivity.
  - cbn [forallb] in H. apply andb_true_iff in H as [Hd Hex].
    destruct (descriptor_roundtrip d Hd) as (bs & Hbs & Hl & Hdec).
    destruct (IH Hex) as (p & Hp & Hlp & Hdp).
    assert (length bs = EB) as Hlb by (apply len_length_eq; rewrite Hl; reflexivity).
    exists (bs ++ p). cbn [eb_payload]. rewrite Hbs, Hp. cbn [bind]. split; [reflexivity|].
    split; [rewrite app_length, Hlb, Hlp; cbn [length]; lia|].
    intros [|k] Hk; [cbn [length] in Hk; lia|]. cbn [dec_ebs].
    destruct (bs ++ p) as [|z zs] eqn:Ez.
    { apply (f_equal (@length Z)) in Ez. rewrite app_length, Hlb, EB_val in Ez. cbn in Ez. lia. }
    rewrite <- Ez. rewrite (firstn_app_exact bs p EB Hlb), (skipn_app_exact bs p EB Hlb).
    specialize (Hdec []). rewrite app_nil_r in Hdec. rewrite Hdec. cbn [bind].
    rewrite Hdp by (cbn [length] in Hk; lia). reflexivity.
Qed.

Lemma payload_mod ex p : forallb edim_okb ex = true -> eb_payload ex = Ok p -> len p mod 192 = 0.
Proof.
  intros H Hp. destruct (payload_roundtrip ex H) as (p' & Hp' & Hl & _). rewrite Hp in Hp'. injection Hp' as <-.
  unfold len. rewrite Hl, EB_val. rewrite Nat2Z.inj_mul. change (Z.of_nat 192) with 192.
  rewrite Z.mul_comm. apply Z.mod_mul. lia.
Qed.

Lemma is_eb_eb_vlr p : len p mod 192 = 0 -> is_eb_vlr (eb_vlr p) = true.
Proof.
  intros H. unfold is_eb_vlr, eb_vlr. cbn [v_uid v_rid v_data].
  change (list_eqb eb_vlr_user_id LASF_Spec) with true. change (eb_vlr_record_id =? 4) with true.
  cbn [andb]. now apply Z.eqb_eq.
Qed.

Lemma filter_eb_kept vl : filter is_eb_vlr (filter not_eb vl) = [].
Proof.
  induction vl as [|v vl IH]; [reflexivity|]. cbn [filter]. unfold not_eb at 1.
  destruct (is_eb_vlr v) eqn:E; cbn [negb]; [exact IH|]. cbn [filter]. now rewrite E.
Qed.

Lemma filter_not_eb_id vl : filter is_eb_vlr vl = [] -> filter not_eb vl = vl.
Proof.
  induction vl as [|v vl IH]; [reflexivity|]. cbn [filter]. unfold not_eb at 1.
  destruct (is_eb_vlr v) eqn:E; [discriminate|]. cbn [negb]. intros H. now rewrite IH.
Qed.

(* _sync_extra_bytes_vlr succeeds on legal dimensions and establishes (I3) *)
Lemma sync_inv ex vl : forallb edim_okb ex = true ->
  exists vl', sync_vlrs ex vl = Ok vl' /\ vlr_inv ex vl' /\ filter not_eb vl' = filter not_eb vl.
Proof.
  intros H. unfold sync_vlrs. destruct ex as [|d ex].
  - exists (filter not_eb vl). split; [reflexivity|]. split; [apply filter_eb_kept|].
    apply filter_not_eb_id, filter_eb_kept.
  - destruct (payload_roundtrip _ H) as (p & Hp & Hl & Hd). rewrite Hp. cbn [bind].
    exists (filter not_eb vl ++ [eb_vlr p]). split; [reflexivity|].
    pose proof (is_eb_eb_vlr p (payload_mod _ _ H Hp)) as Heb. split.
    + unfold vlr_inv. exists p. split; [exact Hp|]. split.
      * rewrite filter_app, filter_eb_kept.
        change (filter is_eb_vlr [eb_vlr p]) with (if is_eb_vlr (eb_vlr p) then [eb_vlr p] else []).
        now rewrite Heb.
      * apply Hd. rewrite Hl, EB_val. lia.
    + rewrite filter_app.
      change (filter not_eb [eb_vlr p]) with (if negb (is_eb_vlr (eb_vlr p)) then [eb_vlr p] else []).
      rewrite Heb. cbn [negb]. rewrite app_nil_r. apply filter_not_eb_id, filter_eb_kept.
Qed.

(* ------------------------------------------------------------------------------------ *)
(* records: lookup by name, reallocation, lengths                                        *)
(* ------------------------------------------------------------------------------------ *)
Definition sizes (ex : list edim) : list Z := map (fun d => et_size (ed_type d)) ex.
Definition entries_wf (ex : list edim) (m : list (list Z * list Z)) : Prop :=
  map fst m = extra_names ex /\ map (fun kv => len (snd kv)) m = sizes ex.

Lemma entries_wf_cons d ex kv m : entries_wf (d :: ex) (kv :: m) <->
  fst kv = ed_name d /\ len (snd kv) = et_size (ed_type d) /\ entries_wf ex m.
Proof.
  unfold entries_wf, extra_names, sizes. cbn [map]. split.
  - intros [H1 H2]. injection H1 as Hn Hm. injection H2 as Hs Hz. repeat split; assumption.
  - intros (Hn & Hs & Hm & Hz). now rewrite Hn, Hs, Hm, Hz.
Qed.

Lemma entries_wf_nil_l m : entries_wf [] m -> m = [].
Proof. intros [H _]. destruct m; [reflexivity|discriminate]. Qed.

Lemma entries_wf_cons_inv d ex m : entries_wf (d :: ex) m -> exists kv m', m = kv :: m'.
Proof. intros [H _]. destruct m as [|kv m']; [discriminate|eauto]. Qed.

Lemma lookup_absent ex : forall m n, entries_wf ex m -> ~ In n (extra_names ex) -> lookup n m = None.
Proof.
  induction ex as [|d ex IH]; intros m n Hwf Hn.
  - now rewrite (entries_wf_nil_l _ Hwf).
  - destruct (entries_wf_cons_inv _ _ _ Hwf) as (kv & m' & ->). apply entries_wf_cons in Hwf as (Hk & _ & Hm).
    destruct kv as [k v]. cbn [fst snd] in *. cbn [lookup]. cbn [extra_names map] in Hn.
    rewrite name_eqb_neq by (intros ->; apply Hn; now left).
    apply IH; [exact Hm|]. intros Hi. apply Hn. now right.
Qed.

Lemma lookup_present ex : forall m d, entries_wf ex m -> NoDup (extra_names ex) -> In d ex ->
  exists b, lookup (ed_name d) m = Some b /\ len b = et_size (ed_type d).
Proof.
  induction ex as [|d0 ex IH]; intros m d Hwf Hnd Hin; [contradiction|].
  destruct (entries_wf_cons_inv _ _ _ Hwf) as (kv & m' & ->). apply entries_wf_cons in Hwf as (Hk & Hs & Hm).
  destruct kv as [k v]. cbn [fst snd] in *. cbn [lookup]. cbn [extra_names map] in Hnd. inversion Hnd as [|? ? Hni Hnd']; subst.
  destruct Hin as [->|Hin].
  - rewrite name_eqb_refl. eauto.
  - rewrite name_eqb_neq; [now apply IH|]. intros He. apply Hni. rewrite He. now apply in_map.
Qed.

Lemma lookup_present_name ex m n : entries_wf ex m -> NoDup (extra_names ex) -> In n (extra_names ex) ->
  exists b, lookup n m = Some b.
Proof.
  intros Hwf Hnd Hin. apply in_map_iff in Hin as (d & <- & Hd).
  destruct (lookup_present ex m d Hwf Hnd Hd) as (b & Hb & _). eauto.
Qed.

Definition realloc_entries (ex : list edim) (m : list (list Z * list Z)) : list (list Z * list Z) :=
  map (fun d => (ed_name d, match lookup (ed_name d) m with
                            | Some b => b
                            | None => zeros (Z.to_nat (et_size (ed_type d)))
                            end)) ex.

Lemma realloc_snd ex r : snd (realloc ex r) = realloc_entries ex (snd r).
Proof. reflexivity. Qed.

Lemma len_zeros n : 0 <= n -> len (zeros (Z.to_nat n)) = n.
Proof. intros H. unfold len. rewrite zeros_length. lia. Qed.

(* every dimension of the new format either is a dimension of the old one or has a name the old one lacks *)
Lemma realloc_wf ex ex' m : entries_wf ex m -> NoDup (extra_names ex) ->
  (forall d, In d ex' -> 0 <= et_size (ed_type d) /\ (In d ex \/ ~ In (ed_name d) (extra_names ex))) ->
  entries_wf ex' (realloc_entries ex' m).
Proof.
  intros Hwf Hnd. induction ex' as [|d ex' IH]; intros H; [split; reflexivity|].
  unfold realloc_entries. cbn [map]. apply entries_wf_cons. cbn [fst snd]. split; [reflexivity|].
  split; [|apply IH; intros d' Hd'; apply H; now right].
  destruct (H d (or_introl eq_refl)) as [Hpos [Hin|Hnin]].
  - destruct (lookup_present ex m d Hwf Hnd Hin) as (b & -> & Hb). exact Hb.
  - rewrite (lookup_absent ex m _ Hwf Hnin). now apply len_zeros.
Qed.

(* a dimension present before and after keeps its bytes *)
Lemma lookup_realloc ex' m n b : In n (extra_names ex') -> lookup n m = Some b ->
  lookup n (realloc_entries ex' m) = Some b.
Proof.
  intros Hin Hb. induction ex' as [|d ex' IH]; [contradiction|].
  unfold realloc_entries. cbn [map lookup]. destruct (name_eqb (ed_name d) n) eqn:E.
  - apply name_eqb_eq in E. rewrite E, Hb. reflexivity.
  - apply IH. destruct Hin as [Hin|Hin]; [|exact Hin]. cbn in Hin. rewrite Hin, name_eqb_refl in E. discriminate.
Qed.

Lemma len_concat_entries (m : list (list Z * list Z)) : len (concat (map snd m)) = fold_right Z.add 0 (map (fun kv => len (snd kv)) m).
Proof.
  induction m as [|kv m IH]; [reflexivity|]. cbn [map concat fold_right]. now rewrite len_app, IH.
Qed.

Lemma extras_size_sizes ex : extras_size ex = fold_right Z.add 0 (sizes ex).
Proof. unfold extras_size, sizes. induction ex as [|d ex IH]; [reflexivity|]. cbn [map fold_right]. now rewrite IH. Qed.

(* (I2) *)
Lemma rec_wf_len std ex r : rec_wf std ex r -> len (rec_bytes r) = std + extras_size ex.
Proof.
  intros (Hs & Hn & Hz). unfold rec_bytes. rewrite len_app, Hs, len_concat_entries, Hz. fold (sizes ex).
  now rewrite extras_size_sizes.
Qed.

Lemma rec_wf_entries std ex r : rec_wf std ex r <-> len (fst r) = std /\ entries_wf ex (snd r).
Proof. unfold rec_wf, entries_wf, sizes. tauto. Qed.

(* cutting the bytes of a record by the format gives the record back *)
Lemma split_fields_concat ex : forall m, entries_wf ex m -> split_fields ex (concat (map snd m)) = m.
Proof.
  induction ex as [|d ex IH]; intros m Hwf.
  - now rewrite (entries_wf_nil_l _ Hwf).
  - destruct (entries_wf_cons_inv _ _ _ Hwf) as (kv & m' & ->). apply entries_wf_cons in Hwf as (Hk & Hs & Hm).
    destruct kv as [k v]. cbn [fst snd] in *. cbn [map concat split_fields].
    assert (length v = Z.to_nat (et_size (ed_type d))) as Hl by (unfold len in Hs; lia).
    rewrite (firstn_app_exact v _ _ Hl), (skipn_app_exact v _ _ Hl), (IH _ Hm). now rewrite Hk.
Qed.

Lemma split_rec_bytes std ex r : rec_wf std ex r -> split_rec std ex (rec_bytes r) = r.
Proof.
  intros Hwf. apply rec_wf_entries in Hwf as [Hs Hm]. unfold split_rec, rec_bytes. rewrite <- Hs.
  rewrite take_app_exact, drop_app_exact, (split_fields_concat _ _ Hm). now destruct r.
Qed.

(* ------------------------------------------------------------------------------------ *)
(* every operation preserves the invariant                                               *)
(* ------------------------------------------------------------------------------------ *)
Lemma NoDup_app_intro {A} (a b : list A) : NoDup a -> NoDup b -> (forall x, In x a -> ~ In x b) -> NoDup (a ++ b).
Proof.
  induction a as [|x a IH]; intros Ha Hb Hd; [exact Hb|]. inversion Ha as [|? ? Hn Ha']; subst. cbn [app].
  constructor.
  - intros Hi. apply in_app_or in Hi as [Hi|Hi]; [contradiction|]. apply (Hd x); [now left|exact Hi].
  - apply IH; [exact Ha'|exact Hb|]. intros y Hy. apply Hd. now right.
Qed.

Lemma NoDup_map_inj_in {A B} (g : A -> B) l : NoDup (map g l) -> forall a b, In a l -> In b l -> g a = g b -> a = b.
Proof.
  induction l as [|x l IH]; intros Hnd a b Ha Hb He; [contradiction|]. cbn [map] in Hnd.
  inversion Hnd as [|? ? Hn Hnd']; subst. destruct Ha as [<-|Ha], Hb as [<-|Hb].
  - reflexivity.
  - exfalso. apply Hn. rewrite He. now apply in_map.
  - exfalso. apply Hn. rewrite <- He. now apply in_map.
  - now apply IH.
Qed.

Lemma forallb_filter {A} (f g : A -> bool) l : forallb f l = true -> forallb f (filter g l) = true.
Proof.
  intros H. apply forallb_forall. intros x Hx. apply filter_In in Hx as [Hx _].
  exact (proj1 (forallb_forall _ _) H x Hx).
Qed.

Lemma edims_size_nonneg ex : forallb edim_okb ex = true -> forall d, In d ex -> 0 <= et_size (ed_type d).
Proof. intros H d Hd. pose proof (edim_ok_size d (proj1 (forallb_forall _ _) H d Hd)). lia. Qed.

Lemma realloc_rec_wf std ex ex' r : rec_wf std ex r -> NoDup (extra_names ex) ->
  (forall d, In d ex' -> 0 <= et_size (ed_type d) /\ (In d ex \/ ~ In (ed_name d) (extra_names ex))) ->
  rec_wf std ex' (realloc ex' r).
Proof.
  intros Hwf Hnd H. apply rec_wf_entries in Hwf as [Hs Hm]. apply rec_wf_entries. split; [exact Hs|].
  rewrite realloc_snd. now apply (realloc_wf ex).
Qed.

Lemma Inv_B s : Inv s -> InvB s.
Proof. now intros [H _]. Qed.
Lemma Inv_2 s : Inv s -> Inv2 s.
Proof. intros [H V]. split; [exact H|now left]. Qed.
Lemma Inv2_B s : Inv2 s -> InvB s.
Proof. now intros [H _]. Qed.

Lemma std_sizes_nonneg : forallb (fun row : Z * Z * list (string * Z * Z * string) => 0 <=? snd (fst row)) point_formats = true.
Proof. vm_compute. reflexivity. Qed.

Lemma std_size_nonneg f std : std_size f = Some std -> 0 <= std.
Proof.
  unfold std_size. destruct (find _ point_formats) as [row|] eqn:E; [|discriminate]. intros [= <-].
  apply find_some in E as [Hin _]. pose proof (proj1 (forallb_forall _ _) std_sizes_nonneg row Hin). lia.
Qed.

Definition recs_wf (s : state) (recs' : list xrec) : Prop :=
  forall std, std_size (st_fmt s) = Some std -> forall r, In r recs' -> rec_wf std (st_extras s) r.

(* an operation that only replaces the records by records of the same layout keeps the base invariant *)
Lemma InvB_recs s recs' : InvB s ->
  (recs_wf s recs') ->
  InvB (mkSt (st_fmt s) (st_extras s) recs' (st_vlrs s)).
Proof.
  intros [(std & Hstd & Hpos & Hrecs) Hdims Hnames] H. constructor; cbn [st_fmt st_extras st_recs st_vlrs]; try assumption.
  exists std. split; [exact Hstd|]. split; [exact Hpos|]. now apply H.
Qed.

Lemma Inv2_recs s recs' : Inv2 s ->
  (recs_wf s recs') ->
  Inv2 (mkSt (st_fmt s) (st_extras s) recs' (st_vlrs s)).
Proof. intros [HB HV] H. split; [now apply InvB_recs|exact HV]. Qed.

Lemma Inv_recs s recs' : Inv s ->
  (recs_wf s recs') ->
  Inv (mkSt (st_fmt s) (st_extras s) recs' (st_vlrs s)).
Proof. intros [HB HV] H. split; [now apply InvB_recs|exact HV]. Qed.

(* ---- add ---- *)
Lemma add_refused s ps : forallb edim_okb ps = false -> do_add s ps = (s, Err EValue).
Proof. intros H. unfold do_add. now rewrite H. Qed.

Lemma add_inv s ps : InvB s -> op_okb s (Add ps) = true -> forallb edim_okb ps = true ->
  Inv (fst (do_add s ps)) /\ snd (do_add s ps) = Ok tt /\ st_extras (fst (do_add s ps)) = st_extras s ++ ps
  /\ st_recs (fst (do_add s ps)) = map (realloc (st_extras s ++ ps)) (st_recs s) /\ st_fmt (fst (do_add s ps)) = st_fmt s
  /\ filter not_eb (st_vlrs (fst (do_add s ps))) = filter not_eb (st_vlrs s).
Proof.
  intros [(std & Hstd & Hpos & Hrecs) Hdims [Hnd Hns]] Hok Eps. unfold do_add. rewrite Eps. cbn [negb].
  assert (forallb edim_okb (st_extras s ++ ps) = true) as Hall by (rewrite forallb_app, Hdims, Eps; reflexivity).
  destruct (sync_inv _ (st_vlrs s) Hall) as (vl' & -> & Hinv' & Hkept). cbn [fst snd st_extras st_recs st_fmt st_vlrs].
  split; [|now repeat split].
  cbn [op_okb] in Hok. apply andb_true_iff in Hok as [Hpd Hpf].
  apply nodupb_NoDup in Hnd. apply nodupb_NoDup in Hpd.
  assert (forall n, In n (extra_names ps) -> ~ In n (extra_names (st_extras s)) /\ mem_name n (rec_names (st_fmt s)) = false) as Hfresh.
  { intros n Hn. pose proof (proj1 (forallb_forall _ _) Hpf n Hn) as Hf. apply andb_true_iff in Hf as [H1 H2].
    apply negb_true_iff in H1, H2. split; [now apply mem_name_false|exact H2]. }
  split; [|exact Hinv']. constructor; cbn [st_fmt st_extras st_recs st_vlrs].
  - exists std. split; [exact Hstd|]. split; [exact Hpos|]. intros r' Hr'. apply in_map_iff in Hr' as (r & <- & Hr).
    apply (realloc_rec_wf std (st_extras s)); [now apply Hrecs|exact Hnd|].
    intros d Hd. split; [now apply (edims_size_nonneg _ Hall)|].
    apply in_app_or in Hd as [Hd|Hd]; [now left|right]. apply Hfresh. now apply in_map.
  - exact Hall.
  - unfold extra_names. rewrite map_app. fold (extra_names (st_extras s)). fold (extra_names ps). split.
    + apply nodupb_NoDup. apply NoDup_app_intro; [exact Hnd|exact Hpd|]. intros n Hn Hp. now apply (Hfresh n Hp).
    + rewrite forallb_app, Hns. cbn [andb]. apply forallb_forall. intros n Hn. apply negb_true_iff. now apply Hfresh.
Qed.

(* ---- remove ---- *)
Definition remove_okb (s : state) (names : list (list Z)) : bool :=
  forallb (fun n => mem_name n (extra_names (st_extras s))) names && nodupb names.
Definition removed (s : state) (names : list (list Z)) : list edim :=
  filter (fun d => negb (mem_name (ed_name d) names)) (st_extras s).

Lemma remove_refused s names : remove_okb s names = false -> do_remove s names = (s, Err ELaspy).
Proof. intros H. unfold do_remove. fold (remove_okb s names). now rewrite H. Qed.

Lemma remove_inv s names : InvB s -> remove_okb s names = true ->
  Inv (fst (do_remove s names)) /\ snd (do_remove s names) = Ok tt /\ st_extras (fst (do_remove s names)) = removed s names
  /\ st_recs (fst (do_remove s names)) = map (realloc (removed s names)) (st_recs s) /\ st_fmt (fst (do_remove s names)) = st_fmt s
  /\ filter not_eb (st_vlrs (fst (do_remove s names))) = filter not_eb (st_vlrs s).
Proof.
  intros [(std & Hstd & Hpos & Hrecs) Hdims [Hnd Hns]] Hok. unfold do_remove. fold (remove_okb s names). rewrite Hok. cbn [negb].
  fold (removed s names). set (ex' := removed s names).
  assert (forallb edim_okb ex' = true) as Hall by (now apply forallb_filter).
  destruct (sync_inv _ (st_vlrs s) Hall) as (vl' & -> & Hinv' & Hkept). cbn [fst snd st_extras st_recs st_fmt st_vlrs].
  split; [|now repeat split]. apply nodupb_NoDup in Hnd.
  split; [|exact Hinv']. constructor; cbn [st_fmt st_extras st_recs st_vlrs].
  - exists std. split; [exact Hstd|]. split; [exact Hpos|]. intros r' Hr'. apply in_map_iff in Hr' as (r & <- & Hr).
    apply (realloc_rec_wf std (st_extras s)); [now apply Hrecs|exact Hnd|].
    intros d Hd. split; [now apply (edims_size_nonneg _ Hall)|]. left. now apply filter_In in Hd as [Hd _].
  - exact Hall.
  - split.
    + apply nodupb_NoDup. now apply NoDup_map_filter.
    + apply forallb_forall. intros n Hn. apply in_map_iff in Hn as (d & <- & Hd). apply filter_In in Hd as [Hd _].
      apply (proj1 (forallb_forall _ _) Hns). now apply in_map.
Qed.

(* ---- assignments ---- *)
Lemma entries_set ex n v : forall m, entries_wf ex m ->
  (forall d', In d' ex -> ed_name d' = n -> et_size (ed_type d') = len v) ->
  entries_wf ex (map (fun kv => if name_eqb (fst kv) n then (fst kv, v) else kv) m).
Proof.
  induction ex as [|d ex IH]; intros m Hwf H.
  - now rewrite (entries_wf_nil_l _ Hwf).
  - destruct (entries_wf_cons_inv _ _ _ Hwf) as (kv & m' & ->). apply entries_wf_cons in Hwf as (Hk & Hs & Hm).
    cbn [map]. apply entries_wf_cons. destruct (name_eqb (fst kv) n) eqn:E; cbn [fst snd].
    + split; [exact Hk|]. split; [|apply IH; [exact Hm|intros d' Hd'; apply H; now right]].
      apply name_eqb_eq in E. symmetry. apply H; [now left|congruence].
    + split; [exact Hk|]. split; [exact Hs|]. apply IH; [exact Hm|intros d' Hd'; apply H; now right].
Qed.

Lemma find_dim_some n ex d : find_dim n ex = Some d -> In d ex /\ ed_name d = n.
Proof. unfold find_dim. intros H. apply find_some in H as [Hi He]. now apply name_eqb_eq in He. Qed.

(* every operation that is not an add / remove / conversion / re-read leaves format id, extra dimensions and VLRs alone *)
Lemma assign_shape s n vals : InvB s ->
  exists recs', fst (do_assign s n vals) = mkSt (st_fmt s) (st_extras s) recs' (st_vlrs s)
    /\ recs_wf s recs'.
Proof.
  intros [(std & Hstd & Hpos & Hrecs) Hdims [Hnd Hns]].
  assert (exists recs', s = mkSt (st_fmt s) (st_extras s) recs' (st_vlrs s)
            /\ recs_wf s recs') as Hsame.
  { exists (st_recs s). split; [now destruct s|]. intros std' Hstd' r Hr. rewrite Hstd in Hstd'. injection Hstd' as <-. now apply Hrecs. }
  unfold do_assign.
  destruct (find_dim n (st_extras s)) as [d|] eqn:Ef; [|exact Hsame].
  destruct (_ && _) eqn:Ec; [|exact Hsame]. cbn [fst]. apply andb_true_iff in Ec as [Hlen Hvals].
  destruct (find_dim_some _ _ _ Ef) as [Hd Hdn]. apply nodupb_NoDup in Hnd.
  eexists. split; [reflexivity|]. intros std' Hstd' r' Hr'. rewrite Hstd in Hstd'. injection Hstd' as <-.
  apply in_map_iff in Hr' as ([v r] & <- & Hvr). cbn [fst snd].
  pose proof (in_combine_l _ _ _ _ Hvr) as Hv. pose proof (in_combine_r _ _ _ _ Hvr) as Hr.
  pose proof (proj1 (forallb_forall _ _) Hvals v Hv) as Hvok. apply andb_true_iff in Hvok as [Hvl _].
  apply rec_wf_entries. destruct (proj1 (rec_wf_entries _ _ _) (Hrecs r Hr)) as [Hs Hm].
  unfold set_field. cbn [fst snd]. split; [exact Hs|]. apply entries_set; [exact Hm|].
  intros d' Hd' Hn'. rewrite (NoDup_map_inj_in ed_name _ Hnd d' d Hd' Hd) by congruence. lia.
Qed.

Lemma assign_std_shape s vals : InvB s ->
  exists recs', fst (do_assign_std s vals) = mkSt (st_fmt s) (st_extras s) recs' (st_vlrs s)
    /\ recs_wf s recs'.
Proof.
  intros [(std & Hstd & Hpos & Hrecs) Hdims Hnames].
  assert (exists recs', s = mkSt (st_fmt s) (st_extras s) recs' (st_vlrs s)
            /\ recs_wf s recs') as Hsame.
  { exists (st_recs s). split; [now destruct s|]. intros std' Hstd' r Hr. rewrite Hstd in Hstd'. injection Hstd' as <-. now apply Hrecs. }
  unfold do_assign_std. rewrite Hstd. destruct (_ && _) eqn:Ec; [|exact Hsame]. cbn [fst]. apply andb_true_iff in Ec as [Hlen Hvals].
  eexists. split; [reflexivity|]. intros std' Hstd' r' Hr'. rewrite Hstd in Hstd'. injection Hstd' as <-.
  apply in_map_iff in Hr' as ([v r] & <- & Hvr). cbn [fst snd].
  pose proof (in_combine_l _ _ _ _ Hvr) as Hv. pose proof (in_combine_r _ _ _ _ Hvr) as Hr.
  pose proof (proj1 (forallb_forall _ _) Hvals v Hv) as Hvok. apply andb_true_iff in Hvok as [Hvl _].
  apply rec_wf_entries. destruct (proj1 (rec_wf_entries _ _ _) (Hrecs r Hr)) as [Hs Hm]. cbn [fst snd]. split; [lia|exact Hm].
Qed.
(* ------------------------------------------------------------------------------------ *)
(* whole-record assignment (the LasData.points setter)                                   *)
(* ------------------------------------------------------------------------------------ *)
Lemma edim_eqv_facts a b : edim_eqv a b = true -> ed_name a = ed_name b /\ et_size (ed_type a) = et_size (ed_type b).
Proof. unfold edim_eqv. intros H. split_andb. split; [now apply name_eqb_eq|lia]. Qed.

Lemma fmt_eqv_names a : forall b, fmt_eqv a b = true -> extra_names a = extra_names b.
Proof.
  induction a as [|x a IH]; intros [|y b] H; cbn [fmt_eqv] in H; try discriminate; [reflexivity|].
  apply andb_true_iff in H as [Hx Hr]. cbn [extra_names map]. destruct (edim_eqv_facts _ _ Hx) as [-> _].
  f_equal. now apply IH.
Qed.

Lemma fmt_eqv_size a : forall b, fmt_eqv a b = true -> extras_size a = extras_size b.
Proof.
  induction a as [|x a IH]; intros [|y b] H; cbn [fmt_eqv] in H; try discriminate; [reflexivity|].
  apply andb_true_iff in H as [Hx Hr]. cbn [extras_size fold_right]. destruct (edim_eqv_facts _ _ Hx) as [_ ->].
  f_equal. now apply IH.
Qed.

Lemma extras_size_nonneg ex : (forall d, In d ex -> 0 <= et_size (ed_type d)) -> 0 <= extras_size ex.
Proof.
  induction ex as [|d ex IH]; intros H; [cbn; lia|]. cbn [extras_size fold_right].
  pose proof (H d (or_introl eq_refl)). assert (0 <= extras_size ex) by (apply IH; intros d' Hd'; apply H; now right).
  unfold extras_size in *. lia.
Qed.

(* cutting exactly extras_size bytes by the format gives well-formed entries, and gluing them gives the bytes back *)
Lemma split_fields_wf ex : (forall d, In d ex -> 0 <= et_size (ed_type d)) ->
  forall bs, len bs = extras_size ex -> entries_wf ex (split_fields ex bs) /\ concat (map snd (split_fields ex bs)) = bs.
Proof.
  induction ex as [|d ex IH]; intros Hpos bs Hl.
  - cbn [split_fields]. split; [split; reflexivity|]. destruct bs; [reflexivity|]. unfold len in Hl. cbn in Hl. lia.
  - cbn [split_fields]. cbn [extras_size fold_right] in Hl. fold (extras_size ex) in Hl.
    pose proof (Hpos d (or_introl eq_refl)) as Hd.
    assert (forall d', In d' ex -> 0 <= et_size (ed_type d')) as Hpos' by (intros d' Hd'; apply Hpos; now right).
    pose proof (extras_size_nonneg ex Hpos') as Hex.
    set (n := Z.to_nat (et_size (ed_type d))).
    assert (length (firstn n bs) = n) as Hf by (apply firstn_length_le; unfold len in Hl; lia).
    assert (len (skipn n bs) = extras_size ex) as Hs by (unfold len in *; rewrite skipn_length; lia).
    destruct (IH Hpos' (skipn n bs) Hs) as [Hwf Hcat]. split.
    + apply entries_wf_cons. cbn [fst snd]. split; [reflexivity|]. split; [unfold len; rewrite Hf; lia|exact Hwf].
    + cbn [map concat snd]. rewrite Hcat. apply firstn_skipn.
Qed.

Lemma split_rec_wf std ex b : 0 <= std -> (forall d, In d ex -> 0 <= et_size (ed_type d)) ->
  len b = std + extras_size ex -> rec_wf std ex (split_rec std ex b) /\ rec_bytes (split_rec std ex b) = b.
Proof.
  intros Hstd Hpos Hl. pose proof (extras_size_nonneg ex Hpos) as Hex.
  assert (len (drop std b) = extras_size ex) as Hd by (unfold drop, len in *; rewrite skipn_length; lia).
  destruct (split_fields_wf ex Hpos (drop std b) Hd) as [Hwf Hcat]. split.
  - apply rec_wf_entries. unfold split_rec. cbn [fst snd]. split; [|exact Hwf].
    unfold take, len in *. rewrite firstn_length_le; lia.
  - unfold rec_bytes, split_rec. cbn [fst snd]. rewrite Hcat. apply firstn_skipn.
Qed.

Lemma recs_okb_len std ex recs b : recs_okb std ex recs = true -> In b recs -> len b = std + extras_size ex.
Proof.
  intros H Hb. pose proof (proj1 (forallb_forall _ _) H b Hb) as Hx. apply andb_true_iff in Hx as [Hx _]. lia.
Qed.

Lemma set_points_shape s ex recs : InvB s ->
  exists recs', fst (do_set_points s ex recs) = mkSt (st_fmt s) (st_extras s) recs' (st_vlrs s)
    /\ recs_wf s recs'.
Proof.
  intros [(std & Hstd & Hpos & Hrecs) Hdims Hnames].
  assert (exists recs', s = mkSt (st_fmt s) (st_extras s) recs' (st_vlrs s)
            /\ recs_wf s recs') as Hsame.
  { exists (st_recs s). split; [now destruct s|]. intros std' Hstd' r Hr. rewrite Hstd in Hstd'. injection Hstd' as <-. now apply Hrecs. }
  unfold do_set_points. rewrite Hstd.
  destruct (recs_okb std ex recs) eqn:Eok; cbn [negb]; [|exact Hsame].
  destruct (fmt_eqv ex (st_extras s)) eqn:Eeq; cbn [negb]; [|exact Hsame]. cbn [fst].
  eexists. split; [reflexivity|]. intros std' Hstd' r Hr. rewrite Hstd in Hstd'. injection Hstd' as <-.
  apply in_map_iff in Hr as (b & <- & Hb).
  apply split_rec_wf; [exact Hpos|now apply edims_size_nonneg|].
  rewrite <- (fmt_eqv_size _ _ Eeq). now apply (recs_okb_len std ex recs).
Qed.

(* an accepted whole-record assignment: the format and the VLRs stay, the record reads back byte for byte *)
Theorem set_points_ok s ex recs std : Inv2 s -> std_size (st_fmt s) = Some std -> recs_okb std ex recs = true ->
  fmt_eqv ex (st_extras s) = true ->
  snd (step s (SetPoints ex recs)) = Ok tt
  /\ st_extras (fst (step s (SetPoints ex recs))) = st_extras s
  /\ st_vlrs (fst (step s (SetPoints ex recs))) = st_vlrs s
  /\ map rec_bytes (st_recs (fst (step s (SetPoints ex recs)))) = recs.
Proof.
  intros [[(std' & Hstd' & Hpos & _) Hdims _] _] Hstd Hok Heq. rewrite Hstd in Hstd'. injection Hstd' as <-.
  cbn [step]. unfold do_set_points. rewrite Hstd, Hok, Heq. cbn [negb fst snd st_extras st_vlrs st_recs].
  repeat split. rewrite map_map. rewrite <- (map_id recs) at 2. apply map_ext_in. intros b Hb.
  apply split_rec_wf; [exact Hpos|now apply edims_size_nonneg|].
  rewrite <- (fmt_eqv_size _ _ Heq). now apply (recs_okb_len std ex recs).
Qed.
(* a record whose format differs is refused with a LaspyException (IncompatibleDataFormat), nothing changes *)
Theorem set_points_mismatch s ex recs std : std_size (st_fmt s) = Some std -> recs_okb std ex recs = true ->
  fmt_eqv ex (st_extras s) = false -> step s (SetPoints ex recs) = (s, Err ELaspy).
Proof. intros Hstd Hok Hne. cbn [step]. unfold do_set_points. now rewrite Hstd, Hok, Hne. Qed.

Lemma f64s_eqv_refl l : forallb (fun z => negb (f64_is_nan z)) l = true -> f64s_eqv l l = true.
Proof.
  induction l as [|x l IH]; [reflexivity|]. cbn [forallb f64s_eqv]. intros H. apply andb_true_iff in H as [Hx Hl].
  unfold f64_eqv. rewrite Hx, Z.eqb_refl, (IH Hl). reflexivity.
Qed.

(* a format equals itself unless a scale or an offset is a NaN: the copy of the record, the record of a re-read
   file, the record of another LasData with the same extra dimensions are all accepted *)
Definition no_nan_scales (d : edim) : bool :=
  match ed_scale d with
  | None => true
  | Some (sc, off) => forallb (fun z => negb (f64_is_nan z)) sc && forallb (fun z => negb (f64_is_nan z)) off
  end.

Lemma fmt_eqv_refl ex : forallb no_nan_scales ex = true -> fmt_eqv ex ex = true.
Proof.
  induction ex as [|d ex IH]; [reflexivity|]. cbn [forallb fmt_eqv]. intros H. apply andb_true_iff in H as [Hd Hex].
  rewrite (IH Hex), andb_true_r. unfold edim_eqv. rewrite !name_eqb_refl, String.eqb_refl, Z.eqb_refl. cbn [andb].
  unfold no_nan_scales in Hd. unfold scale_eqv. destruct (ed_scale d) as [[sc off]|]; [|reflexivity].
  apply andb_true_iff in Hd as [H1 H2]. now rewrite (f64s_eqv_refl _ H1), (f64s_eqv_refl _ H2).
Qed.

Theorem set_points_same_format s recs std : Inv2 s -> std_size (st_fmt s) = Some std ->
  forallb no_nan_scales (st_extras s) = true -> recs_okb std (st_extras s) recs = true ->
  snd (step s (SetPoints (st_extras s) recs)) = Ok tt
  /\ st_extras (fst (step s (SetPoints (st_extras s) recs))) = st_extras s
  /\ st_vlrs (fst (step s (SetPoints (st_extras s) recs))) = st_vlrs s
  /\ map rec_bytes (st_recs (fst (step s (SetPoints (st_extras s) recs)))) = recs.
Proof. intros Hinv Hstd Hnn Hok. apply (set_points_ok s _ recs std); try assumption. now apply fmt_eqv_refl. Qed.

(* ------------------------------------------------------------------------------------ *)
(* conversion to another point format                                                    *)
(* ------------------------------------------------------------------------------------ *)
Definition convert_okb (s : state) (g : Z) (stds : list (list Z)) : bool :=
  match std_size g with
  | None => false
  | Some gstd => (length stds =? length (st_recs s))%nat && forallb (fun v => (len v =? gstd) && bytes_ok v) stds
  end.

Lemma convert_refused s g stds : convert_okb s g stds = false -> fst (do_convert s g stds) = s /\ snd (do_convert s g stds) <> Ok tt.
Proof.
  unfold convert_okb, do_convert. destruct (std_size g); [|now split]. intros ->. now split.
Qed.

Lemma convert_inv s g stds : InvB s -> op_okb s (Convert g stds) = true -> convert_okb s g stds = true ->
  Inv (fst (do_convert s g stds)) /\ snd (do_convert s g stds) = Ok tt
  /\ st_extras (fst (do_convert s g stds)) = st_extras s /\ st_fmt (fst (do_convert s g stds)) = g
  /\ st_recs (fst (do_convert s g stds)) = map (fun p => (fst p, snd (snd p))) (combine stds (st_recs s))
  /\ filter not_eb (st_vlrs (fst (do_convert s g stds))) = filter not_eb (st_vlrs s).
Proof.
  intros [(std & Hstd & Hpos & Hrecs) Hdims [Hnd Hns]] Hok Hc. unfold convert_okb in Hc. unfold do_convert.
  destruct (std_size g) as [gstd|] eqn:Eg; [|discriminate]. rewrite Hc.
  destruct (sync_inv _ (st_vlrs s) Hdims) as (vl' & -> & Hinv' & Hkept). cbn [fst snd st_extras st_recs st_fmt st_vlrs].
  split; [|now repeat split]. apply andb_true_iff in Hc as [Hlen Hvals].
  split; [|exact Hinv']. constructor; cbn [st_fmt st_extras st_recs st_vlrs].
  - exists gstd. split; [exact Eg|]. split; [now apply (std_size_nonneg g)|]. intros r' Hr'.
    apply in_map_iff in Hr' as ([v r] & <- & Hvr). cbn [fst snd].
    pose proof (in_combine_l _ _ _ _ Hvr) as Hv. pose proof (in_combine_r _ _ _ _ Hvr) as Hr.
    pose proof (proj1 (forallb_forall _ _) Hvals v Hv) as Hvok. apply andb_true_iff in Hvok as [Hvl _].
    apply rec_wf_entries. destruct (proj1 (rec_wf_entries _ _ _) (Hrecs r Hr)) as [Hs Hm]. cbn [fst snd]. split; [lia|exact Hm].
  - exact Hdims.
  - split; [exact Hnd|]. exact Hok.
Qed.

(* ------------------------------------------------------------------------------------ *)
(* un-registered trailing bytes                                                          *)
(* ------------------------------------------------------------------------------------ *)
Lemma et_size_unreg n : 1 <= n -> et_size (ed_type (unreg n)) = n.
Proof.
  intros Hn. unfold unreg. cbn [ed_type]. destruct (Z_lt_le_dec n 4) as [Hlt|Hge].
  - assert (n = 1 \/ n = 2 \/ n = 3) as [->|[->| ->]] by lia; reflexivity.
  - now rewrite opaque_type_big.
Qed.

Lemma unreg_text_ok : (1 <=? len UNREG_NAME) && text_ok UNREG_NAME && text_ok UNREG_DESC = true.
Proof. vm_compute. reflexivity. Qed.

Lemma edim_ok_unreg n : 1 <= n <= 255 -> edim_okb (unreg n) = true.
Proof.
  intros Hn. pose proof unreg_text_ok as Ht. apply andb_true_iff in Ht as [Ht Hd]. apply andb_true_iff in Ht as [Hl Ht].
  destruct (Z_lt_le_dec n 4) as [Hlt|Hge].
  - assert (n = 1 \/ n = 2 \/ n = 3) as [->|[->| ->]] by lia; vm_compute; reflexivity.
  - unfold edim_okb, unreg. cbn [ed_name ed_type ed_scale ed_desc]. rewrite opaque_type_big by lia. rewrite Hl, Ht, Hd.
    cbn [et_ok andb]. rewrite andb_true_r. apply andb_true_iff. split; lia.
Qed.

Lemma edim_ok_unreg_inv n : 1 <= n -> edim_okb (unreg n) = true -> n <= 255.
Proof.
  intros Hn H. destruct (Z_lt_le_dec n 4) as [Hlt|Hge]; [lia|].
  unfold edim_okb, unreg in H. cbn [ed_name ed_type ed_scale ed_desc] in H. rewrite opaque_type_big in H by lia.
  split_andb. cbn [et_ok] in *. lia.
Qed.

Lemma extras_size_app a b : extras_size (a ++ b) = extras_size a + extras_size b.
Proof. induction a as [|d a IH]; [reflexivity|]. cbn [app extras_size fold_right]. fold (extras_size (a ++ b)). fold (extras_size a). lia. Qed.

Lemma extras_size_unreg n : 1 <= n -> extras_size [unreg n] = n.
Proof. intros Hn. cbn [extras_size fold_right]. rewrite et_size_unreg by exact Hn. lia. Qed.

Lemma extras_size_pos ex : forallb edim_okb ex = true -> ex <> [] -> 0 < extras_size ex.
Proof.
  destruct ex as [|d ex]; [congruence|]. intros H _. cbn [forallb] in H. apply andb_true_iff in H as [Hd Hex].
  cbn [extras_size fold_right]. pose proof (edim_ok_size d Hd).
  assert (0 <= extras_size ex); [|unfold extras_size in *; lia].
  clear -Hex. induction ex as [|e ex IH]; [cbn; lia|]. cbn [forallb] in Hex. apply andb_true_iff in Hex as [He Hex].
  cbn [extras_size fold_right]. pose proof (edim_ok_size e He). specialize (IH Hex). unfold extras_size in *. lia.
Qed.

Lemma extras_size_zero ex : forallb edim_okb ex = true -> extras_size ex = 0 -> ex = [].
Proof. intros H Hz. destruct ex as [|d ex]; [reflexivity|]. pose proof (extras_size_pos (d :: ex) H). assert (d :: ex <> []) by discriminate. lia. Qed.

(* the payload of a prefix of the dimensions is the prefix of the payload *)
Lemma payload_firstn ex : forall p k, forallb edim_okb ex = true -> eb_payload ex = Ok p ->
  eb_payload (firstn k ex) = Ok (firstn (k * EB) p).
Proof.
  induction ex as [|d ex IH]; intros p k H Hp.
  - injection Hp as <-. rewrite !firstn_nil. reflexivity.
  - destruct k as [|k]; [reflexivity|]. cbn [forallb] in H. apply andb_true_iff in H as [Hd Hex]. cbn [eb_payload] in Hp.
    destruct (descriptor_roundtrip d Hd) as (bs & Hbs & Hl & _). rewrite Hbs in Hp. cbn [bind] in Hp.
    destruct (eb_payload ex) as [p'|] eqn:Ep; [|discriminate]. cbn [bind] in Hp. injection Hp as <-.
    assert (length bs = EB) as Hlb by (apply len_length_eq; rewrite Hl; reflexivity).
    cbn [firstn eb_payload]. rewrite Hbs. cbn [bind]. rewrite (IH p' k Hex eq_refl). cbn [bind].
    replace (S k * EB)%nat with (length bs + k * EB)%nat by (rewrite Hlb; lia). now rewrite firstn_app_2.
Qed.

Lemma forallb_firstn_l {A} (f : A -> bool) n l : forallb f l = true -> forallb f (firstn n l) = true.
Proof. apply forallb_firstn. Qed.

(* ---- the VLR list of the shortened file ---- *)
Lemma is_eb_cut k v : is_eb_vlr (cut_vlr k v) = is_eb_vlr v.
Proof.
  unfold cut_vlr. destruct (is_eb_vlr v) eqn:E; [|exact E]. unfold is_eb_vlr in *. cbn [v_uid v_rid v_data].
  apply andb_true_iff in E as [E Hm]. rewrite E. cbn [andb]. apply Z.eqb_eq in Hm. apply Z.eqb_eq.
  unfold len in *. rewrite firstn_length. destruct (Nat.min_spec (Z.to_nat k * EB) (length (v_data v))) as [[_ ->]|[_ ->]]; [|exact Hm].
  rewrite EB_val, Nat2Z.inj_mul. change (Z.of_nat 192) with 192. apply Z.mod_mul. lia.
Qed.

Lemma filter_eb_cut k vl : filter is_eb_vlr (map (cut_vlr k) vl) = map (cut_vlr k) (filter is_eb_vlr vl).
Proof.
  induction vl as [|v vl IH]; [reflexivity|]. cbn [map filter]. rewrite is_eb_cut.
  destruct (is_eb_vlr v); cbn [map]; now rewrite IH.
Qed.

Lemma filter_not_eb_cut k vl : filter not_eb (map (cut_vlr k) vl) = filter not_eb vl.
Proof.
  induction vl as [|v vl IH]; [reflexivity|]. cbn [map filter].
  assert (not_eb (cut_vlr k v) = not_eb v) as -> by (unfold not_eb; now rewrite is_eb_cut).
  destruct (not_eb v) eqn:E; rewrite IH; [|reflexivity]. f_equal. unfold not_eb in E. apply negb_true_iff in E.
  unfold cut_vlr. now rewrite E.
Qed.

Lemma filter_not_eb_idem vl : filter not_eb (filter not_eb vl) = filter not_eb vl.
Proof. apply filter_not_eb_id, filter_eb_kept. Qed.

Theorem other_vlrs_trunc keep vl : filter not_eb (trunc_vlrs keep vl) = filter not_eb vl.
Proof. destruct keep as [k|]; cbn [trunc_vlrs]; [apply filter_not_eb_cut|apply filter_not_eb_idem]. Qed.

Lemma cut_eb_vlr k p : len p mod 192 = 0 -> cut_vlr k (eb_vlr p) = eb_vlr (firstn (Z.to_nat k * EB) p).
Proof. intros H. unfold cut_vlr. now rewrite (is_eb_eb_vlr p H). Qed.

Lemma vlr_desc_trunc reg vl keep : forallb edim_okb reg = true -> vlr_desc reg vl ->
  vlr_desc (reread_kept keep reg) (trunc_vlrs keep vl).
Proof.
  intros Hok Hd. unfold vlr_desc in *. destruct keep as [k|]; cbn [trunc_vlrs reread_kept].
  - rewrite filter_eb_cut. destruct (filter is_eb_vlr vl) as [|v [|v2 l]]; cbn [map].
    + subst reg. now rewrite firstn_nil.
    + destruct Hd as (p & Hp & -> & Hdec). pose proof (payload_mod _ _ Hok Hp) as Hm. rewrite (cut_eb_vlr k p Hm).
      exists (firstn (Z.to_nat k * EB) p). split; [now apply payload_firstn|]. split; [reflexivity|].
      pose proof (forallb_firstn edim_okb (Z.to_nat k) reg Hok) as Hokf.
      destruct (payload_roundtrip _ Hokf) as (p' & Hp' & Hl & Hdp). rewrite (payload_firstn reg p (Z.to_nat k) Hok Hp) in Hp'.
      injection Hp' as <-. apply Hdp. rewrite Hl, EB_val. lia.
    + contradiction.
  - now rewrite filter_eb_kept.
Qed.

Lemma vlr_inv_desc ex vl : vlr_inv ex vl -> vlr_desc ex vl /\ (ex = [] -> filter is_eb_vlr vl = []).
Proof.
  unfold vlr_inv, vlr_desc. destruct ex as [|d ex].
  - intros ->. now split.
  - intros (p & Hp & -> & Hd). split; [|discriminate]. exists p. now repeat split.
Qed.

Lemma vlr_desc_inv ex vl : vlr_desc ex vl -> (ex = [] -> filter is_eb_vlr vl = []) -> vlr_inv ex vl.
Proof.
  unfold vlr_inv, vlr_desc. intros Hd He. destruct ex as [|d ex]; [now apply He|].
  destruct (filter is_eb_vlr vl) as [|v [|v2 l]]; [discriminate| |contradiction].
  destruct Hd as (p & Hp & -> & Hdec). exists p. now repeat split.
Qed.

(* ------------------------------------------------------------------------------------ *)
(* reading a file whose extra-bytes VLR registers a prefix of the extra dimensions        *)
(* ------------------------------------------------------------------------------------ *)
Definition reread_extras (kept rest : list edim) : list edim :=
  match rest with [] => kept | _ => kept ++ [unreg (extras_size rest)] end.

Lemma read_prefix s std reg rest vl' :
  InvB s -> std_size (st_fmt s) = Some std -> st_extras s = reg ++ rest ->
  vlr_desc reg vl' -> (reg = [] -> rest = [] -> filter is_eb_vlr vl' = []) ->
  read_state (mkWire (st_fmt s) (std + extras_size (st_extras s)) vl' (map rec_bytes (st_recs s)))
  = Ok (mkSt (st_fmt s) (reread_extras reg rest) (map (split_rec std (reread_extras reg rest)) (map rec_bytes (st_recs s))) vl').
Proof.
  intros [(std' & Hstd' & Hpos & Hrecs) Hdims _] Hstd Hex Hd Hnone. rewrite Hstd in Hstd'. injection Hstd' as <-.
  unfold read_state. cbn [w_fmt w_psize w_vlrs w_recs]. rewrite Hstd.
  assert (forallb (fun b => len b =? std + extras_size (st_extras s)) (map rec_bytes (st_recs s)) = true) as Hlens.
  { apply forallb_forall. intros b Hb. apply in_map_iff in Hb as (r & <- & Hr). apply Z.eqb_eq. now apply rec_wf_len, Hrecs. }
  rewrite Hex in *. rewrite forallb_app in Hdims. apply andb_true_iff in Hdims as [Hdreg Hdrest].
  rewrite extras_size_app in *.
  assert (0 <= extras_size reg) as Hnr by (apply extras_size_nonneg; now apply edims_size_nonneg).
  assert (rest <> [] -> 0 < extras_size rest) as Hprest by (now apply extras_size_pos).
  pose proof (eq_refl : extras_size (@nil edim) = 0) as H0.
  unfold vlr_desc in Hd. destruct (filter is_eb_vlr vl') as [|v [|v2 l]] eqn:Ef; [| |contradiction].
  - subst reg. cbn [bind]. unfold reread_extras. rewrite Z.gtb_ltb. destruct rest as [|d rest].
    + rewrite (proj2 (Z.ltb_ge _ _)) by lia. rewrite (proj2 (Z.ltb_ge _ _)) by lia. now rewrite Hlens.
    + specialize (Hprest ltac:(discriminate)).
      rewrite (proj2 (Z.ltb_ge _ _)) by lia. rewrite (proj2 (Z.ltb_lt _ _)) by lia. rewrite Hlens.
      match goal with |- context [unreg ?x] => replace x with (extras_size (d :: rest)) by lia end. reflexivity.
  - destruct Hd as (p & Hp & -> & Hdec).
    assert (std + (extras_size reg + extras_size rest) =? std = false) as ->.
    { apply Z.eqb_neq. intros He. assert (extras_size reg = 0) as Hz.
      { destruct rest as [|d rest]; [lia|]. specialize (Hprest ltac:(discriminate)). lia. }
      pose proof (extras_size_zero reg Hdreg Hz) as ->.
      assert (rest = []) as -> by (destruct rest as [|d rest]; [reflexivity|specialize (Hprest ltac:(discriminate)); lia]).
      specialize (Hnone eq_refl eq_refl). discriminate. }
    cbn [eb_vlr v_data]. rewrite Hdec. cbn [bind]. unfold reread_extras. rewrite Z.gtb_ltb. destruct rest as [|d rest].
    + rewrite (proj2 (Z.ltb_ge _ _)) by lia. rewrite (proj2 (Z.ltb_ge _ _)) by lia. now rewrite Hlens.
    + specialize (Hprest ltac:(discriminate)).
      rewrite (proj2 (Z.ltb_ge _ _)) by lia. rewrite (proj2 (Z.ltb_lt _ _)) by lia. rewrite Hlens.
      match goal with |- context [unreg ?x] => replace x with (extras_size (d :: rest)) by lia end. reflexivity.
Qed.

Lemma resplit_id s std : InvB s -> std_size (st_fmt s) = Some std ->
  map (split_rec std (st_extras s)) (map rec_bytes (st_recs s)) = st_recs s.
Proof.
  intros [(std' & Hstd' & Hpos & Hrecs) _ _] Hstd. rewrite Hstd in Hstd'. injection Hstd' as <-.
  rewrite map_map. rewrite <- (map_id (st_recs s)) at 2. apply map_ext_in. intros r Hr. now apply split_rec_bytes, Hrecs.
Qed.

Lemma write_state_eq s std : std_size (st_fmt s) = Some std ->
  write_state s = Ok (mkWire (st_fmt s) (std + extras_size (st_extras s)) (st_vlrs s) (map rec_bytes (st_recs s))).
Proof. intros H. unfold write_state. now rewrite H. Qed.

(* write then read gives back the very state — also for a state read from a file with un-registered trailing bytes *)
Theorem roundtrip_id s : Inv2 s -> exists w, write_state s = Ok w /\ read_state w = Ok s.
Proof.
  intros [HB HV]. pose proof HB as [(std & Hstd & Hpos & Hrecs) Hdims _].
  eexists. split; [exact (write_state_eq s std Hstd)|]. destruct HV as [HV|(reg & n & Hex & Hn & Hd)].
  - destruct (vlr_inv_desc _ _ HV) as [Hd Hnone].
    rewrite (read_prefix s std (st_extras s) [] (st_vlrs s) HB Hstd (eq_sym (app_nil_r _)) Hd (fun H _ => Hnone H)).
    unfold reread_extras. rewrite (resplit_id s std HB Hstd). now destruct s.
  - rewrite (read_prefix s std reg [unreg n] (st_vlrs s) HB Hstd Hex Hd) by (intros _ H; discriminate H).
    unfold reread_extras. rewrite extras_size_unreg by exact Hn. rewrite <- Hex, (resplit_id s std HB Hstd). now destruct s.
Qed.

Lemma do_roundtrip_id s : Inv2 s -> do_roundtrip s = (s, Ok tt).
Proof. intros H. destruct (roundtrip_id s H) as (w & Hw & Hr). unfold do_roundtrip. now rewrite Hw, Hr. Qed.

(* ---- the truncated re-read ---- *)
Lemma firstn_skipn_len {A} k (l : list A) : firstn k l ++ skipn (length (firstn k l)) l = l.
Proof.
  rewrite firstn_length. destruct (Nat.min_spec k (length l)) as [[_ ->]|[Hle ->]]; [apply firstn_skipn|].
  rewrite firstn_all2 by exact Hle. rewrite skipn_all. apply app_nil_r.
Qed.

Lemma kept_skipn keep (reg : list edim) : reread_kept keep reg ++ skipn (length (reread_kept keep reg)) reg = reg.
Proof. destruct keep as [k|]; cbn [reread_kept]; [apply firstn_skipn_len|reflexivity]. Qed.

Lemma in_firstn_in {A} k : forall (l : list A) x, In x (firstn k l) -> In x l.
Proof.
  induction k as [|k IH]; intros [|a l] x H; cbn [firstn] in H; try contradiction.
  destruct H as [->|H]; [now left|right; now apply IH].
Qed.

Lemma kept_incl keep (reg : list edim) d : In d (reread_kept keep reg) -> In d reg.
Proof. destruct keep as [k|]; cbn [reread_kept]; [apply in_firstn_in|contradiction]. Qed.

Lemma filter_eb_trunc_nil keep vl : filter is_eb_vlr vl = [] -> filter is_eb_vlr (trunc_vlrs keep vl) = [].
Proof.
  intros H. destruct keep as [k|]; cbn [trunc_vlrs]; [|apply filter_eb_kept]. now rewrite filter_eb_cut, H.
Qed.

Definition reread_result (s : state) (std : Z) (keep : option Z) (reg rest : list edim) : state :=
  let kept := reread_kept keep reg in
  let ex' := reread_extras kept (skipn (length kept) reg ++ rest) in
  mkSt (st_fmt s) ex' (map (split_rec std ex') (map rec_bytes (st_recs s))) (trunc_vlrs keep (st_vlrs s)).

Lemma reread_general s std reg rest keep :
  InvB s -> std_size (st_fmt s) = Some std -> st_extras s = reg ++ rest -> vlr_desc reg (st_vlrs s) ->
  (reg = [] -> rest = [] -> filter is_eb_vlr (st_vlrs s) = []) ->
  do_reread s keep = (reread_result s std keep reg rest, Ok tt).
Proof.
  intros HB Hstd Hex Hd Hnone. unfold do_reread. rewrite (write_state_eq s std Hstd). cbn [w_fmt w_psize w_vlrs w_recs].
  assert (forallb edim_okb reg = true) as Hreg.
  { pose proof HB as [_ Hdims _]. rewrite Hex, forallb_app in Hdims. now apply andb_true_iff in Hdims as [H _]. }
  set (kept := reread_kept keep reg).
  assert (st_extras s = kept ++ (skipn (length kept) reg ++ rest)) as Hex'.
  { rewrite app_assoc. unfold kept. now rewrite kept_skipn. }
  rewrite (read_prefix s std kept (skipn (length kept) reg ++ rest) (trunc_vlrs keep (st_vlrs s)) HB Hstd Hex').
  - reflexivity.
  - now apply vlr_desc_trunc.
  - intros Hk Hr. apply app_eq_nil in Hr as [Hs Hr]. apply filter_eb_trunc_nil. apply Hnone; [|exact Hr].
    rewrite <- (kept_skipn keep reg). fold kept. now rewrite Hs, Hk.
Qed.

Lemma NoDup_app_l {A} (a b : list A) : NoDup (a ++ b) -> NoDup a.
Proof. induction a as [|x a IH]; intros H; [constructor|]. inversion H; subst. constructor; [|now apply IH]. intros Hi. apply H2. apply in_or_app. now left. Qed.

(* the state a truncated read produces satisfies the base invariant, and its VLR describes all but the last dimension *)
Lemma reread_part_inv s std kept rest' vl' :
  InvB s -> std_size (st_fmt s) = Some std -> st_extras s = kept ++ rest' -> rest' <> [] ->
  ~ In UNREG_NAME (extra_names kept) -> mem_name UNREG_NAME (rec_names (st_fmt s)) = false -> extras_size rest' <= 255 ->
  vlr_desc kept vl' ->
  let ex' := kept ++ [unreg (extras_size rest')] in
  Inv2 (mkSt (st_fmt s) ex' (map (split_rec std ex') (map rec_bytes (st_recs s))) vl').
Proof.
  intros [(std' & Hstd' & Hpos & Hrecs) Hdims [Hnd Hns]] Hstd Hex Hne Hfresh Hnstd H255 Hd ex'.
  rewrite Hstd in Hstd'. injection Hstd' as <-.
  rewrite Hex in Hdims, Hnd, Hns. rewrite forallb_app in Hdims. apply andb_true_iff in Hdims as [Hdk Hdr].
  pose proof (extras_size_pos rest' Hdr Hne) as Hpr.
  assert (edim_okb (unreg (extras_size rest')) = true) as Hu by (apply edim_ok_unreg; lia).
  assert (forallb edim_okb ex' = true) as Hall by (unfold ex'; rewrite forallb_app, Hdk; cbn [forallb]; now rewrite Hu).
  split.
  - constructor; cbn [st_fmt st_extras st_recs st_vlrs].
    + exists std. split; [exact Hstd|]. split; [exact Hpos|]. intros r' Hr'. rewrite map_map in Hr'.
      apply in_map_iff in Hr' as (r & <- & Hr). apply split_rec_wf; [exact Hpos|now apply edims_size_nonneg|].
      rewrite (rec_wf_len std _ r (Hrecs r Hr)), Hex. unfold ex'. rewrite !extras_size_app, extras_size_unreg by lia. reflexivity.
    + exact Hall.
    + unfold ex', extra_names in *. rewrite map_app in *. cbn [map unreg ed_name]. apply nodupb_NoDup in Hnd. split.
      * apply nodupb_NoDup. apply NoDup_app_intro; [now apply NoDup_app_l in Hnd|repeat constructor; intros []|].
        intros x Hx [<-|[]]. contradiction.
      * rewrite forallb_app in *. apply andb_true_iff in Hns as [Hnk _]. rewrite Hnk. cbn [forallb andb]. now rewrite Hnstd.
  - right. cbn [st_extras st_vlrs]. exists kept, (extras_size rest'). split; [reflexivity|]. split; [lia|exact Hd].
Qed.

Lemma reread_full_inv s std vl' :
  InvB s -> std_size (st_fmt s) = Some std -> vlr_desc (st_extras s) vl' -> (st_extras s = [] -> filter is_eb_vlr vl' = []) ->
  Inv (mkSt (st_fmt s) (st_extras s) (map (split_rec std (st_extras s)) (map rec_bytes (st_recs s))) vl').
Proof.
  intros HB Hstd Hd Hnone. rewrite (resplit_id s std HB Hstd). split; [|now apply vlr_desc_inv].
  destruct HB as [Hf Hdims Hn]. now constructor.
Qed.

(* a truncated re-read on any reachable state: outcome ok, the result satisfies Inv2, the other VLRs and the format id stay *)
Lemma skipn_app_le {A} k (a b : list A) : (k <= length a)%nat -> skipn k (a ++ b) = skipn k a ++ b.
Proof. intros H. rewrite skipn_app. replace (k - length a)%nat with 0%nat by lia. reflexivity. Qed.

Lemma firstn_app_le {A} k (a b : list A) : (k <= length a)%nat -> firstn k (a ++ b) = firstn k a.
Proof. intros H. rewrite firstn_app. replace (k - length a)%nat with 0%nat by lia. cbn [firstn]. apply app_nil_r. Qed.

Theorem reread_inv2 s keep : Inv2 s -> op_okb s (Reread keep) = true ->
  Inv2 (fst (do_reread s keep)) /\ snd (do_reread s keep) = Ok tt
  /\ st_fmt (fst (do_reread s keep)) = st_fmt s
  /\ st_vlrs (fst (do_reread s keep)) = trunc_vlrs keep (st_vlrs s)
  /\ map rec_bytes (st_recs (fst (do_reread s keep))) = map rec_bytes (st_recs s)
  /\ exists std kept tail, std_size (st_fmt s) = Some std /\ st_extras (fst (do_reread s keep)) = kept ++ tail
       /\ (exists rest', st_extras s = kept ++ rest')
       /\ (tail = [] \/ exists n, tail = [unreg n])
       /\ st_recs (fst (do_reread s keep)) = map (split_rec std (kept ++ tail)) (map rec_bytes (st_recs s)).
Proof.
  intros [HB HV] Hok. pose proof HB as [(std & Hstd & Hpos & Hrecs) Hdims [Hnd Hns]].
  assert (forall ex', (forall d, In d ex' -> 0 <= et_size (ed_type d)) -> extras_size ex' = extras_size (st_extras s) ->
            map rec_bytes (map (split_rec std ex') (map rec_bytes (st_recs s))) = map rec_bytes (st_recs s)) as Hbytes.
  { intros ex' Hp Hs. rewrite !map_map. apply map_ext_in. intros r Hr.
    apply split_rec_wf; [exact Hpos|exact Hp|]. rewrite (rec_wf_len std _ r (Hrecs r Hr)). now rewrite Hs. }
  cbn [op_okb] in Hok. cbn zeta in Hok.
  destruct HV as [HV|(reg & n & Hex & Hn & Hd)].
  - (* every dimension was registered *)
    destruct (vlr_inv_desc _ _ HV) as [Hd Hnone].
    rewrite (reread_general s std (st_extras s) [] keep HB Hstd (eq_sym (app_nil_r _)) Hd (fun H _ => Hnone H)).
    unfold reread_result. cbn [fst snd]. rewrite app_nil_r. set (kept := reread_kept keep (st_extras s)) in *.
    pose proof (kept_skipn keep (st_extras s)) as Hks. fold kept in Hks.
    destruct (skipn (length kept) (st_extras s)) as [|d rest'] eqn:Esk; unfold reread_extras; cbn [st_fmt st_extras st_recs st_vlrs].
    + rewrite app_nil_r in Hks. rewrite Hks.
      assert (vlr_desc (st_extras s) (trunc_vlrs keep (st_vlrs s))) as Hd' by (rewrite <- Hks; now apply vlr_desc_trunc).
      assert (st_extras s = [] -> filter is_eb_vlr (trunc_vlrs keep (st_vlrs s)) = []) as Hn' by (intros H; now apply filter_eb_trunc_nil, Hnone).
      split; [apply Inv_2; now apply (reread_full_inv s std)|]. repeat split.
      * apply Hbytes; [now apply edims_size_nonneg|reflexivity].
      * exists std, (st_extras s), []. rewrite app_nil_r. repeat split; [exact Hstd|exists []; now rewrite app_nil_r|now left].
    + assert ((length kept =? length (st_extras s))%nat = false) as Hlen.
      { apply Nat.eqb_neq. intros He. rewrite He, skipn_all in Esk. discriminate. }
      rewrite Hlen in Hok. cbn [orb] in Hok. split_andb.
      match goal with H : negb (mem_name _ (extra_names kept)) = true |- _ => apply negb_true_iff, mem_name_false in H; rename H into Hfresh end.
      match goal with H : negb (mem_name _ (rec_names _)) = true |- _ => apply negb_true_iff in H; rename H into Hnstd end.
      assert (extras_size (d :: rest') <= 255) as H255 by lia.
      assert (vlr_desc kept (trunc_vlrs keep (st_vlrs s))) as Hd' by (now apply vlr_desc_trunc).
      pose proof (reread_part_inv s std kept (d :: rest') _ HB Hstd (eq_sym Hks) ltac:(discriminate) Hfresh Hnstd H255 Hd') as Hres.
      cbn zeta in Hres. split; [exact Hres|]. destruct Hres as [HB' _]. repeat split.
      * apply Hbytes; [apply edims_size_nonneg; now destruct HB'|].
        rewrite <- Hks. rewrite !extras_size_app, extras_size_unreg; [reflexivity|].
        assert (forallb edim_okb (d :: rest') = true) as Hdr by (rewrite <- Hks, forallb_app in Hdims; now apply andb_true_iff in Hdims as [_ H]).
        pose proof (extras_size_pos _ Hdr ltac:(discriminate)). lia.
      * exists std, kept, [unreg (extras_size (d :: rest'))]. repeat split; [exact Hstd|now exists (d :: rest')|right; eauto].
  - (* the state already has un-registered trailing bytes *)
    rewrite (reread_general s std reg [unreg n] keep HB Hstd Hex Hd) by (intros _ H; discriminate H).
    unfold reread_result. cbn [fst snd]. set (kept := reread_kept keep reg) in *.
    pose proof (kept_skipn keep reg) as Hks. fold kept in Hks.
    set (rest' := skipn (length kept) reg ++ [unreg n]).
    assert (st_extras s = kept ++ rest') as Hex' by (unfold rest'; rewrite app_assoc, Hks; exact Hex).
    assert (rest' <> []) as Hne by (unfold rest'; intros H; apply app_eq_nil in H as [_ H]; discriminate).
    unfold reread_extras. destruct rest' as [|d0 r0] eqn:Er; [congruence|]. rewrite <- Er in *. clear d0 r0 Er.
    cbn [st_fmt st_extras st_recs st_vlrs].
    assert (forallb edim_okb reg = true /\ edim_okb (unreg n) = true) as [Hdreg Hdu].
    { rewrite Hex, forallb_app in Hdims. apply andb_true_iff in Hdims as [H1 H2]. cbn [forallb] in H2. now rewrite andb_true_r in H2. }
    assert (In UNREG_NAME (extra_names (st_extras s))) as Huin.
    { rewrite Hex. unfold extra_names. rewrite map_app. apply in_or_app. right. now left. }
    assert (mem_name UNREG_NAME (rec_names (st_fmt s)) = false) as Hnstd.
    { pose proof (proj1 (forallb_forall _ _) Hns _ Huin) as H. now apply negb_true_iff in H. }
    assert (~ In UNREG_NAME (extra_names reg)) as Hnreg.
    { apply nodupb_NoDup in Hnd. rewrite Hex in Hnd. unfold extra_names in Hnd. rewrite map_app in Hnd. cbn [map unreg ed_name] in Hnd.
      apply NoDup_remove_2 in Hnd. rewrite app_nil_r in Hnd. exact Hnd. }
    assert (~ In UNREG_NAME (extra_names kept)) as Hfresh.
    { intros Hi. apply Hnreg. apply in_map_iff in Hi as (d & Hdn & Hdi). apply in_map_iff. exists d. split; [exact Hdn|]. now apply (kept_incl keep). }
    assert (extras_size rest' <= 255) as H255.
    { pose proof (edim_ok_unreg_inv n Hn Hdu) as Hn255.
      destruct keep as [k|]; cbn [reread_kept] in *.
      - destruct (Nat.le_gt_cases (Z.to_nat k) (length reg)) as [Hle|Hgt].
        + rewrite Hex in Hok. rewrite (firstn_app_le _ reg [unreg n] Hle) in Hok. fold kept in Hok.
          assert ((length kept =? length (reg ++ [unreg n]))%nat = false) as Hlen.
          { apply Nat.eqb_neq. unfold kept. rewrite firstn_length, app_length. cbn [length]. lia. }
          rewrite Hlen in Hok. cbn [orb] in Hok. split_andb.
          rewrite skipn_app_le in * by (unfold kept; rewrite firstn_length; lia). unfold rest'. lia.
        + unfold rest', kept. rewrite firstn_all2 by lia. rewrite skipn_all. cbn [app]. rewrite extras_size_unreg by exact Hn. exact Hn255.
      - rewrite Hex in Hok. cbn [length] in Hok. rewrite app_length in Hok. cbn [length] in Hok.
        replace (0 =? length reg + 1)%nat with false in Hok by (symmetry; apply Nat.eqb_neq; lia). cbn [orb skipn] in Hok. split_andb.
        unfold rest', kept. cbn [length skipn]. lia. }
    assert (vlr_desc kept (trunc_vlrs keep (st_vlrs s))) as Hd' by (now apply vlr_desc_trunc).
    pose proof (reread_part_inv s std kept rest' _ HB Hstd Hex' Hne Hfresh Hnstd H255 Hd') as Hres.
    cbn zeta in Hres. split; [exact Hres|]. destruct Hres as [HB' _]. repeat split.
    * apply Hbytes; [apply edims_size_nonneg; now destruct HB'|].
      rewrite Hex'. rewrite !extras_size_app, extras_size_unreg; [reflexivity|].
      assert (forallb edim_okb rest' = true) as Hdr by (rewrite Hex', forallb_app in Hdims; now apply andb_true_iff in Hdims as [_ H]).
      pose proof (extras_size_pos _ Hdr Hne). lia.
    * exists std, kept, [unreg (extras_size rest')]. repeat split; [exact Hstd|now exists rest'|right; eauto].
Qed.

(* ------------------------------------------------------------------------------------ *)
(* every operation preserves the invariants                                              *)
(* ------------------------------------------------------------------------------------ *)
Theorem step_inv2 s o : Inv2 s -> op_okb s o = true -> Inv2 (fst (step s o)).
Proof.
  intros Hinv Hok. pose proof (Inv2_B s Hinv) as HB.
  destruct o as [ps|names|n vals|vals|ex0 recs0| |g stds|keep]; cbn [step].
  - destruct (forallb edim_okb ps) eqn:E; [|now rewrite add_refused]. apply Inv_2. now apply add_inv.
  - destruct (remove_okb s names) eqn:E; [|now rewrite remove_refused]. apply Inv_2. now apply remove_inv.
  - destruct (assign_shape s n vals HB) as (recs' & -> & Hwf). now apply Inv2_recs.
  - destruct (assign_std_shape s vals HB) as (recs' & -> & Hwf). now apply Inv2_recs.
  - destruct (set_points_shape s ex0 recs0 HB) as (recs' & -> & Hwf). now apply Inv2_recs.
  - now rewrite do_roundtrip_id.
  - destruct (convert_okb s g stds) eqn:E; [apply Inv_2; now apply convert_inv|].
    destruct (convert_refused s g stds E) as [-> _]. exact Hinv.
  - now apply reread_inv2.
Qed.

(* an add, a remove or a conversion that succeeds re-establishes the full invariant, whatever the VLR was before *)
Theorem step_sync_inv s o : Inv2 s -> op_okb s o = true -> op_syncs o = true -> snd (step s o) = Ok tt -> Inv (fst (step s o)).
Proof.
  intros Hinv Hok Hs Hr. pose proof (Inv2_B s Hinv) as HB.
  destruct o as [ps|names|n vals|vals|ex0 recs0| |g stds|keep]; cbn [step op_syncs] in *; try discriminate.
  - destruct (forallb edim_okb ps) eqn:E; [now apply add_inv|]. rewrite add_refused in Hr by exact E. discriminate.
  - destruct (remove_okb s names) eqn:E; [now apply remove_inv|]. rewrite remove_refused in Hr by exact E. discriminate.
  - destruct (convert_okb s g stds) eqn:E; [now apply convert_inv|]. destruct (convert_refused s g stds E) as [_ H]. contradiction.
Qed.

(* without truncated re-reads the full invariant is kept by every step *)
Theorem step_inv s o : Inv s -> op_okb s o = true -> op_rereads o = false -> Inv (fst (step s o)).
Proof.
  intros Hinv Hok Hnr. pose proof (Inv_B s Hinv) as HB.
  destruct o as [ps|names|n vals|vals|ex0 recs0| |g stds|keep]; cbn [step op_rereads] in *; try discriminate.
  - destruct (forallb edim_okb ps) eqn:E; [|now rewrite add_refused]. now apply add_inv.
  - destruct (remove_okb s names) eqn:E; [|now rewrite remove_refused]. now apply remove_inv.
  - destruct (assign_shape s n vals HB) as (recs' & -> & Hwf). now apply Inv_recs.
  - destruct (assign_std_shape s vals HB) as (recs' & -> & Hwf). now apply Inv_recs.
  - destruct (set_points_shape s ex0 recs0 HB) as (recs' & -> & Hwf). now apply Inv_recs.
  - rewrite do_roundtrip_id; [exact Hinv|now apply Inv_2].
  - destruct (convert_okb s g stds) eqn:E; [now apply convert_inv|].
    destruct (convert_refused s g stds E) as [-> _]. exact Hinv.
Qed.

Lemma run_cons s o ops : run s (o :: ops) = run (fst (step s o)) ops.
Proof. reflexivity. Qed.

Lemma run_app s a b : run s (a ++ b) = run (run s a) b.
Proof. unfold run. apply fold_left_app. Qed.

Lemma ops_okb_app a : forall s b, ops_okb s (a ++ b) = ops_okb s a && ops_okb (run s a) b.
Proof.
  induction a as [|o a IH]; intros s b; [reflexivity|]. cbn [app ops_okb]. rewrite IH, run_cons. now rewrite andb_assoc.
Qed.

Theorem run_inv2 ops : forall s, Inv2 s -> ops_okb s ops = true -> Inv2 (run s ops).
Proof.
  induction ops as [|o ops IH]; intros s Hinv Hok; [exact Hinv|].
  cbn [ops_okb] in Hok. apply andb_true_iff in Hok as [Ho Hr]. rewrite run_cons.
  apply IH; [now apply step_inv2|exact Hr].
Qed.

Theorem run_inv ops : forall s, Inv s -> ops_okb s ops = true -> (forall o, In o ops -> op_rereads o = false) -> Inv (run s ops).
Proof.
  induction ops as [|o ops IH]; intros s Hinv Hok Hnr; [exact Hinv|].
  cbn [ops_okb] in Hok. apply andb_true_iff in Hok as [Ho Hr]. rewrite run_cons.
  apply IH; [apply step_inv; [exact Hinv|exact Ho|apply Hnr; now left]|exact Hr|intros o' Ho'; apply Hnr; now right].
Qed.

(* whatever came before — truncated re-reads included —, after a successful add / remove / conversion (I3) holds again *)
Theorem run_sync_inv s ops o : Inv2 s -> ops_okb s (ops ++ [o]) = true -> op_syncs o = true ->
  snd (step (run s ops) o) = Ok tt -> Inv (run s (ops ++ [o])).
Proof.
  intros Hinv Hok Hs Hr. rewrite ops_okb_app in Hok. apply andb_true_iff in Hok as [Ha Ho].
  cbn [ops_okb] in Ho. rewrite andb_true_r in Ho. rewrite run_app. cbn [run fold_left].
  apply step_sync_inv; [now apply run_inv2|exact Ho|exact Hs|exact Hr].
Qed.

Theorem init_inv fmt stds vl std : std_size fmt = Some std -> 0 <= std ->
  (forall b, In b stds -> len b = std) -> filter is_eb_vlr vl = [] -> Inv (init fmt stds vl).
Proof.
  intros Hstd Hpos Hb Hv. split; [constructor|]; cbn [init st_fmt st_extras st_recs st_vlrs].
  - exists std. split; [exact Hstd|]. split; [exact Hpos|]. intros r Hr. apply in_map_iff in Hr as (b & <- & Hin).
    repeat split. cbn [fst]. now apply Hb.
  - reflexivity.
  - split; reflexivity.
  - exact Hv.
Qed.

(* a LasData made from a PointFormat that already carries extra dimensions starts with the invariant: the VLR is there *)
Theorem init_ex_inv fmt ex recs vl eb_last std : std_size fmt = Some std ->
  forallb edim_okb ex = true -> nodupb (extra_names ex) = true ->
  forallb (fun n => negb (mem_name n (rec_names fmt))) (extra_names ex) = true ->
  (forall b, In b recs -> len b = std + extras_size ex) -> filter is_eb_vlr vl = [] ->
  exists s, init_ex fmt ex recs vl eb_last = Ok s /\ Inv s /\ st_fmt s = fmt /\ st_extras s = ex
            /\ map rec_bytes (st_recs s) = recs /\ filter not_eb (st_vlrs s) = vl.
Proof.
  intros Hstd Hdims Hnd Hns Hlen Hv. unfold init_ex. rewrite Hstd. pose proof (std_size_nonneg _ _ Hstd) as Hpos.
  destruct (payload_roundtrip ex Hdims) as (p & Hp & Hl & Hdec). rewrite Hp. cbn [bind]. eexists. split; [reflexivity|].
  pose proof (is_eb_eb_vlr p (payload_mod _ _ Hdims Hp)) as Heb.
  assert (forall b, In b recs -> rec_wf std ex (split_rec std ex b) /\ rec_bytes (split_rec std ex b) = b) as Hsp.
  { intros b Hb. apply split_rec_wf; [exact Hpos|now apply edims_size_nonneg|now apply Hlen]. }
  cbn [st_fmt st_extras st_recs st_vlrs]. split; [split; [constructor|]|]; cbn [st_fmt st_extras st_recs st_vlrs].
  - exists std. split; [exact Hstd|]. split; [exact Hpos|]. intros r Hr. apply in_map_iff in Hr as (b & <- & Hb). now apply Hsp.
  - exact Hdims.
  - now split.
  - unfold vlr_inv. destruct ex as [|d ex].
    + destruct eb_last; [now rewrite app_nil_r|exact Hv].
    + exists p. split; [exact Hp|]. split; [|apply Hdec; rewrite Hl, EB_val; lia].
      destruct eb_last; rewrite filter_app, Hv; cbn [filter app]; rewrite Heb; [reflexivity|now rewrite app_nil_r].
  - repeat split.
    + rewrite map_map. rewrite <- (map_id recs) at 2. apply map_ext_in. intros b Hb. now apply Hsp.
    + pose proof (filter_not_eb_id vl Hv) as Hk. destruct ex as [|d ex]; destruct eb_last; rewrite ?app_nil_r; cbn [app]; try exact Hk.
      * rewrite filter_app, Hk. cbn [filter]. unfold not_eb at 1. rewrite Heb. cbn [negb]. apply app_nil_r.
      * cbn [filter]. unfold not_eb at 1. rewrite Heb. cbn [negb]. exact Hk.
Qed.

(* ------------------------------------------------------------------------------------ *)
(* (I1) dimensions an operation does not name keep their raw bytes in every record        *)
(* ------------------------------------------------------------------------------------ *)
Lemma failed_step_unchanged s o : snd (step s o) <> Ok tt -> fst (step s o) = s.
Proof.
  destruct o as [ps|names|n vals|vals|ex0 recs0| |g stds|keep]; cbn [step].
  - unfold do_add. destruct (negb _); [reflexivity|]. destruct (sync_vlrs _ _); cbn [fst snd]; [congruence|reflexivity].
  - unfold do_remove. destruct (negb _); [reflexivity|]. destruct (sync_vlrs _ _); cbn [fst snd]; [congruence|reflexivity].
  - unfold do_assign. destruct (find_dim _ _); [|reflexivity]. destruct (_ && _); cbn [fst snd]; [congruence|reflexivity].
  - unfold do_assign_std. destruct (std_size _); [|reflexivity]. destruct (_ && _); cbn [fst snd]; [congruence|reflexivity].
  - unfold do_set_points. destruct (std_size _); [|reflexivity]. destruct (negb _); [reflexivity|].
    destruct (negb _); cbn [fst snd]; [reflexivity|congruence].
  - unfold do_roundtrip. destruct (write_state s); [|reflexivity]. destruct (read_state _); cbn [fst snd]; [congruence|reflexivity].
  - unfold do_convert. destruct (std_size _); [|reflexivity]. destruct (_ && _); [|reflexivity].
    destruct (sync_vlrs _ _); cbn [fst snd]; [congruence|reflexivity].
  - unfold do_reread. destruct (write_state s); [|reflexivity]. destruct (read_state _); cbn [fst snd]; [congruence|reflexivity].
Qed.

Lemma fst_split_rec std ex r : len (fst r) = std -> fst (split_rec std ex (rec_bytes r)) = fst r.
Proof. intros <-. unfold split_rec, rec_bytes. cbn [fst]. apply take_app_exact. Qed.

Lemma std_bytes_step s o : Inv2 s -> op_okb s o = true -> op_touches_std o = false ->
  map fst (st_recs (fst (step s o))) = map fst (st_recs s).
Proof.
  intros Hinv Hok Ht. pose proof (Inv2_B s Hinv) as HB.
  destruct o as [ps|names|n vals|vals|ex0 recs0| |g stds|keep]; cbn [step]; try discriminate.
  - unfold do_add. destruct (negb _); [reflexivity|]. destruct (sync_vlrs _ _); [|reflexivity].
    cbn [fst st_recs]. rewrite map_map. reflexivity.
  - unfold do_remove. destruct (negb _); [reflexivity|]. destruct (sync_vlrs _ _); [|reflexivity].
    cbn [fst st_recs]. rewrite map_map. reflexivity.
  - unfold do_assign. destruct (find_dim _ _); [|reflexivity]. destruct (_ && _) eqn:Ec; [|reflexivity].
    apply andb_true_iff in Ec as [Hl _]. apply Nat.eqb_eq in Hl. cbn [fst st_recs]. rewrite map_map.
    rewrite <- (map_snd_combine vals (st_recs s) Hl) at 2. rewrite map_map. apply map_ext. now intros [v r].
  - now rewrite do_roundtrip_id.
  - destruct (reread_inv2 s keep Hinv Hok) as (_ & _ & _ & _ & _ & std & kept & tail & Hstd & _ & _ & _ & ->).
    rewrite !map_map. apply map_ext_in. intros r Hr. apply fst_split_rec.
    destruct HB as [(std' & Hstd' & _ & Hrecs) _ _]. rewrite Hstd in Hstd'. injection Hstd' as <-. now apply Hrecs.
Qed.

Lemma lookup_set_other n n0 v m : n <> n0 ->
  lookup n (map (fun kv : list Z * list Z => if name_eqb (fst kv) n0 then (fst kv, v) else kv) m) = lookup n m.
Proof.
  intros Hne. induction m as [|[k b] m IH]; [reflexivity|]. cbn [map fst].
  destruct (name_eqb k n0) eqn:E; cbn [lookup].
  - apply name_eqb_eq in E. subst k. rewrite name_eqb_neq by congruence. exact IH.
  - destruct (name_eqb k n); [reflexivity|exact IH].
Qed.

Lemma frame_realloc std ex ex' recs n : (forall r, In r recs -> rec_wf std ex r) -> NoDup (extra_names ex) ->
  In n (extra_names ex) -> In n (extra_names ex') ->
  map (field_of n) (map (realloc ex') recs) = map (field_of n) recs.
Proof.
  intros Hwf Hnd Hin Hin'. rewrite map_map. apply map_ext_in. intros r Hr. unfold field_of. rewrite realloc_snd.
  destruct (proj1 (rec_wf_entries _ _ _) (Hwf r Hr)) as [_ Hm].
  destruct (lookup_present_name ex (snd r) n Hm Hnd Hin) as (b & Hb). rewrite Hb. now apply lookup_realloc.
Qed.

(* cutting the bytes of a record by a format that starts with the same dimensions gives these dimensions the same bytes *)
Lemma split_fields_prefix_lookup kept : forall tail rest' m n, entries_wf (kept ++ rest') m -> In n (extra_names kept) ->
  lookup n (split_fields (kept ++ tail) (concat (map snd m))) = lookup n m.
Proof.
  induction kept as [|d kept IH]; intros tail rest' m n Hwf Hin; [contradiction|].
  cbn [app] in Hwf. destruct (entries_wf_cons_inv _ _ _ Hwf) as ([k v] & m' & ->).
  apply entries_wf_cons in Hwf as (Hk & Hs & Hm). cbn [fst snd] in *. subst k.
  cbn [app map concat split_fields].
  assert (length v = Z.to_nat (et_size (ed_type d))) as Hl by (unfold len in Hs; lia).
  rewrite (firstn_app_exact v _ _ Hl), (skipn_app_exact v _ _ Hl). cbn [lookup].
  destruct (name_eqb (ed_name d) n) eqn:E; [reflexivity|].
  apply (IH tail rest'); [exact Hm|]. destruct Hin as [Hin|Hin]; [|exact Hin]. cbn in Hin. rewrite Hin, name_eqb_refl in E. discriminate.
Qed.

Lemma split_rec_prefix_field std kept tail rest' r n : rec_wf std (kept ++ rest') r -> In n (extra_names kept) ->
  field_of n (split_rec std (kept ++ tail) (rec_bytes r)) = field_of n r.
Proof.
  intros Hwf Hin. apply rec_wf_entries in Hwf as [Hs Hm]. unfold field_of, split_rec, rec_bytes. cbn [snd]. rewrite <- Hs.
  rewrite drop_app_exact. now apply (split_fields_prefix_lookup kept tail rest').
Qed.

Theorem step_frame s o n : Inv2 s -> op_okb s o = true -> In n (extra_names (st_extras s)) -> ~ In n (op_names o) ->
  (In n (extra_names (st_extras (fst (step s o)))) ->
   map (field_of n) (st_recs (fst (step s o))) = map (field_of n) (st_recs s))
  /\ (op_rereads o = false -> In n (extra_names (st_extras (fst (step s o))))).
Proof.
  intros Hinv Hok Hin Hnot. pose proof (Inv2_B s Hinv) as HB. pose proof HB as [(std & Hstd & Hpos & Hrecs) Hdims [Hnd Hns]].
  apply nodupb_NoDup in Hnd.
  destruct o as [ps|names|n0 vals|vals|ex0 recs0| |g stds|keep]; cbn [step op_names op_rereads] in *.
  - unfold do_add. destruct (negb _); [now split|]. destruct (sync_vlrs _ _); [|now split]. cbn [fst st_extras st_recs].
    assert (In n (extra_names (st_extras s ++ ps))) as Hin' by (unfold extra_names; rewrite map_app; apply in_or_app; now left).
    split; [intros _|now intros _]. now apply (frame_realloc std (st_extras s)).
  - unfold do_remove. destruct (negb _); [now split|]. destruct (sync_vlrs _ _); [|now split]. cbn [fst st_extras st_recs].
    assert (In n (extra_names (filter (fun d => negb (mem_name (ed_name d) names)) (st_extras s)))) as Hin'.
    { apply in_map_iff in Hin as (d & <- & Hd). apply in_map. apply filter_In. split; [exact Hd|].
      apply negb_true_iff. now apply mem_name_false. }
    split; [intros _|now intros _]. now apply (frame_realloc std (st_extras s)).
  - unfold do_assign. destruct (find_dim _ _); [|now split]. destruct (_ && _) eqn:Ec; [|now split].
    apply andb_true_iff in Ec as [Hl _]. apply Nat.eqb_eq in Hl. cbn [fst st_extras st_recs]. split; [intros _|now intros _].
    rewrite map_map. rewrite <- (map_snd_combine vals (st_recs s) Hl) at 2. rewrite map_map. apply map_ext. intros [v r].
    unfold field_of, set_field. cbn [fst snd]. apply lookup_set_other. intros ->. apply Hnot. now left.
  - unfold do_assign_std. destruct (std_size _); [|now split]. destruct (_ && _) eqn:Ec; [|now split].
    apply andb_true_iff in Ec as [Hl _]. apply Nat.eqb_eq in Hl. cbn [fst st_extras st_recs]. split; [intros _|now intros _].
    rewrite map_map. rewrite <- (map_snd_combine vals (st_recs s) Hl) at 2. rewrite map_map. apply map_ext. now intros [v r].
  - unfold do_set_points. destruct (std_size _); [|now split]. destruct (negb _); [now split|].
    destruct (fmt_eqv ex0 (st_extras s)) eqn:Eeq; cbn [negb]; [|now split].
    exfalso. apply Hnot. now rewrite (fmt_eqv_names _ _ Eeq).
  - rewrite do_roundtrip_id by exact Hinv. now split.
  - unfold do_convert. destruct (std_size g); [|now split]. destruct (_ && _) eqn:Ec; [|now split].
    destruct (sync_vlrs _ _); [|now split].
    apply andb_true_iff in Ec as [Hl _]. apply Nat.eqb_eq in Hl. cbn [fst st_extras st_recs]. split; [intros _|now intros _].
    rewrite map_map. rewrite <- (map_snd_combine stds (st_recs s) Hl) at 2. rewrite map_map. apply map_ext. now intros [v r].
  - split; [|discriminate]. intros Hin'.
    destruct (reread_inv2 s keep Hinv Hok) as (_ & _ & _ & _ & _ & std' & kept & tail & Hstd' & Hex' & (rest' & Hex) & Htail & ->).
    rewrite Hstd in Hstd'. injection Hstd' as <-. rewrite Hex' in Hin'.
    assert (In n (extra_names kept)) as Hk.
    { unfold extra_names in Hin'. rewrite map_app in Hin'. apply in_app_or in Hin' as [H|H]; [exact H|].
      destruct Htail as [->|(m & ->)]; [contradiction|]. cbn in H. destruct H as [H|[]]. exfalso. apply Hnot. now left. }
    rewrite !map_map. apply map_ext_in. intros r Hr. apply (split_rec_prefix_field std kept tail rest'); [|exact Hk].
    rewrite <- Hex. now apply Hrecs.
Qed.

(* a name that is not an extra dimension does not become one unless an operation names it *)
Lemma step_no_new s o n : Inv2 s -> op_okb s o = true -> ~ In n (extra_names (st_extras s)) -> ~ In n (op_names o) ->
  ~ In n (extra_names (st_extras (fst (step s o)))).
Proof.
  intros Hinv Hok Hnin Hnot. pose proof (Inv2_B s Hinv) as HB.
  destruct o as [ps|names|n0 vals|vals|ex0 recs0| |g stds|keep]; cbn [step op_names] in *.
  - unfold do_add. destruct (negb _); [exact Hnin|]. destruct (sync_vlrs _ _); [|exact Hnin]. cbn [fst st_extras].
    unfold extra_names. rewrite map_app. intros H. apply in_app_or in H as [H|H]; contradiction.
  - unfold do_remove. destruct (negb _); [exact Hnin|]. destruct (sync_vlrs _ _); [|exact Hnin]. cbn [fst st_extras].
    intros H. apply Hnin. apply in_map_iff in H as (d & <- & Hd). apply filter_In in Hd as [Hd _]. now apply in_map.
  - destruct (assign_shape s n0 vals HB) as (recs' & -> & _). exact Hnin.
  - destruct (assign_std_shape s vals HB) as (recs' & -> & _). exact Hnin.
  - destruct (set_points_shape s ex0 recs0 HB) as (recs' & -> & _). exact Hnin.
  - now rewrite do_roundtrip_id.
  - unfold do_convert. destruct (std_size g); [|exact Hnin]. destruct (_ && _); [|exact Hnin]. now destruct (sync_vlrs _ _).
  - destruct (reread_inv2 s keep Hinv Hok) as (_ & _ & _ & _ & _ & std' & kept & tail & _ & -> & (rest' & Hex) & Htail & _).
    unfold extra_names. rewrite map_app. intros H. apply in_app_or in H as [H|H].
    + apply Hnin. rewrite Hex. unfold extra_names. rewrite map_app. apply in_or_app. now left.
    + destruct Htail as [->|(m & ->)]; [contradiction|]. cbn in H. destruct H as [H|[]]. apply Hnot. now left.
Qed.

Lemma run_no_new ops : forall s n, Inv2 s -> ops_okb s ops = true -> ~ In n (extra_names (st_extras s)) ->
  (forall o, In o ops -> ~ In n (op_names o)) -> ~ In n (extra_names (st_extras (run s ops))).
Proof.
  induction ops as [|o ops IH]; intros s n Hinv Hok Hnin Hnot; [exact Hnin|].
  cbn [ops_okb] in Hok. apply andb_true_iff in Hok as [Ho Hr]. rewrite run_cons.
  apply IH; [now apply step_inv2|exact Hr| |intros o' Ho'; apply Hnot; now right].
  apply step_no_new; [exact Hinv|exact Ho|exact Hnin|apply Hnot; now left].
Qed.

Theorem run_frame ops : forall s n, Inv2 s -> ops_okb s ops = true -> In n (extra_names (st_extras s)) ->
  (forall o, In o ops -> ~ In n (op_names o)) ->
  (In n (extra_names (st_extras (run s ops))) -> map (field_of n) (st_recs (run s ops)) = map (field_of n) (st_recs s))
  /\ ((forall o, In o ops -> op_rereads o = false) -> In n (extra_names (st_extras (run s ops)))).
Proof.
  induction ops as [|o ops IH]; intros s n Hinv Hok Hin Hnot; [now split|].
  cbn [ops_okb] in Hok. apply andb_true_iff in Hok as [Ho Hr]. rewrite run_cons.
  destruct (step_frame s o n Hinv Ho Hin (Hnot o (or_introl eq_refl))) as [Hval Hstay].
  pose proof (step_inv2 _ _ Hinv Ho) as Hinv'.
  destruct (mem_name n (extra_names (st_extras (fst (step s o))))) eqn:Em.
  - apply mem_name_In in Em.
    destruct (IH (fst (step s o)) n Hinv' Hr Em (fun o' Ho' => Hnot o' (or_intror Ho'))) as [Hval' Hstay'].
    split; [intros Hf; rewrite (Hval' Hf); now apply Hval|]. intros Hnr. apply Hstay'. intros o' Ho'. apply Hnr. now right.
  - apply mem_name_false in Em. split.
    + intros Hf. exfalso. revert Hf. apply run_no_new; [exact Hinv'|exact Hr|exact Em|intros o' Ho'; apply Hnot; now right].
    + intros Hnr. exfalso. apply Em. apply Hstay. apply Hnr. now left.
Qed.

Theorem run_std_bytes ops : forall s, Inv2 s -> ops_okb s ops = true ->
  (forall o, In o ops -> op_touches_std o = false) ->
  map fst (st_recs (run s ops)) = map fst (st_recs s).
Proof.
  induction ops as [|o ops IH]; intros s Hinv Hok Hnot; [reflexivity|].
  cbn [ops_okb] in Hok. apply andb_true_iff in Hok as [Ho Hr]. rewrite run_cons.
  rewrite IH; [|now apply step_inv2|exact Hr|intros o' Ho'; apply Hnot; now right].
  apply std_bytes_step; [exact Hinv|exact Ho|apply Hnot; now left].
Qed.
(* an accepted assignment is what is read back *)
Lemma lookup_set_same n v : forall m, (exists b, lookup n m = Some b) ->
  lookup n (map (fun kv : list Z * list Z => if name_eqb (fst kv) n then (fst kv, v) else kv) m) = Some v.
Proof.
  induction m as [|[k b] m IH]; intros [b0 Hb]; [discriminate|]. cbn [map fst lookup] in *.
  destruct (name_eqb k n) eqn:E; cbn [lookup]; rewrite E; [reflexivity|]. apply IH. eauto.
Qed.

Theorem assign_reads_back s n vals : Inv2 s -> snd (step s (Assign n vals)) = Ok tt ->
  map (field_of n) (st_recs (fst (step s (Assign n vals)))) = map Some vals.
Proof.
  intros [[(std & Hstd & Hpos & Hrecs) Hdims [Hnd Hns]] _]. apply nodupb_NoDup in Hnd.
  cbn [step]. unfold do_assign. destruct (find_dim _ _) as [d|] eqn:Ef; [|discriminate].
  destruct (_ && _) eqn:Ec; [|discriminate]. intros _. cbn [fst st_recs].
  apply andb_true_iff in Ec as [Hl _]. apply Nat.eqb_eq in Hl. destruct (find_dim_some _ _ _ Ef) as [Hd Hdn].
  rewrite map_map. revert Hl Hrecs. generalize (st_recs s). induction vals as [|v vals IH]; intros [|r recs] Hl Hrecs; try discriminate; [reflexivity|].
  cbn [combine map]. f_equal.
  - unfold field_of, set_field. cbn [fst snd]. apply lookup_set_same.
    destruct (proj1 (rec_wf_entries _ _ _) (Hrecs r (or_introl eq_refl))) as [_ Hm].
    apply (lookup_present_name (st_extras s)); [exact Hm|exact Hnd|]. rewrite <- Hdn. now apply in_map.
  - apply IH; [cbn in Hl; lia|]. intros r' Hr'. apply Hrecs. now right.
Qed.

(* ------------------------------------------------------------------------------------ *)
(* bad removals                                                                          *)
(* ------------------------------------------------------------------------------------ *)
Theorem remove_bad s names :
  (exists n, In n names /\ ~ In n (extra_names (st_extras s))) \/ ~ NoDup names ->
  step s (Remove names) = (s, Err ELaspy).
Proof.
  intros H. cbn [step]. apply remove_refused. unfold remove_okb.
  apply andb_false_iff. destruct H as [(n & Hn & Hnot)|Hd].
  - left. destruct (forallb _ names) eqn:E; [|reflexivity].
    pose proof (proj1 (forallb_forall _ _) E n Hn) as Hm. apply mem_name_In in Hm. contradiction.
  - right. destruct (nodupb names) eqn:E; [|reflexivity]. apply nodupb_NoDup in E. contradiction.
Qed.

(* a standard dimension cannot be removed.  A field of the record (X, intensity, bit_fields, gps_time ...) is never the name of
   an extra dimension (invariant), so naming it is refused outright; a sub field (return_number, synthetic, overlap ...) is
   refused unless an extra dimension carries that very name — then it is that extra dimension that goes (remove_ok), and the
   standard sub field stays: the standard dimensions are a function of the format id (dim_names), which no removal changes *)
Theorem remove_record_field s names n : Inv2 s -> In n (rec_names (st_fmt s)) -> In n names ->
  step s (Remove names) = (s, Err ELaspy).
Proof.
  intros [[_ _ [_ Hns]] _] Hstd Hin. apply remove_bad. left. exists n. split; [exact Hin|]. intros Hex.
  pose proof (proj1 (forallb_forall _ _) Hns n Hex) as Hf. apply negb_true_iff in Hf. apply mem_name_false in Hf. contradiction.
Qed.

Theorem remove_standard s names n : Inv2 s -> In n (std_names (st_fmt s)) -> ~ In n (extra_names (st_extras s)) -> In n names ->
  step s (Remove names) = (s, Err ELaspy).
Proof. intros _ _ Hne Hin. apply remove_bad. left. exists n. now split. Qed.

(* an accepted removal removes exactly the named dimensions, in order *)
Theorem remove_ok s names : Inv2 s -> (forall n, In n names -> In n (extra_names (st_extras s))) -> NoDup names ->
  snd (step s (Remove names)) = Ok tt
  /\ st_extras (fst (step s (Remove names))) = filter (fun d => negb (mem_name (ed_name d) names)) (st_extras s)
  /\ Inv (fst (step s (Remove names))).
Proof.
  intros Hinv Hall Hnd. cbn [step].
  assert (remove_okb s names = true) as Hok.
  { unfold remove_okb. apply andb_true_iff. split; [|now apply nodupb_NoDup].
    apply forallb_forall. intros n Hn. apply mem_name_In. now apply Hall. }
  destruct (remove_inv s names (Inv2_B s Hinv) Hok) as (Hi & Hr & He & _). split; [exact Hr|]. split; [exact He|exact Hi].
Qed.

(* an accepted addition appends the new dimensions, zero-filled *)
Theorem add_ok s ps : Inv2 s -> forallb edim_okb ps = true ->
  snd (step s (Add ps)) = Ok tt /\ st_extras (fst (step s (Add ps))) = st_extras s ++ ps.
Proof.
  intros [[_ Hdims _] _] Hps. cbn [step]. unfold do_add. rewrite Hps. cbn [negb].
  assert (forallb edim_okb (st_extras s ++ ps) = true) as Hall by (rewrite forallb_app, Hdims, Hps; reflexivity).
  destruct (sync_inv _ (st_vlrs s) Hall) as (vl' & -> & _). now split.
Qed.

Theorem add_ok_inv s ps : Inv2 s -> op_okb s (Add ps) = true -> forallb edim_okb ps = true -> Inv (fst (step s (Add ps))).
Proof. intros Hinv Hok Hps. now apply add_inv; [apply Inv2_B| |]. Qed.

(* conversion to another point format: the extra dimensions stay what they are (names, types, scales, offsets,
   descriptions, order), the extra-bytes VLR is rebuilt from them, the other VLRs stay, and (I1)-(I3) hold for the result *)
Theorem convert_ok s g stds gstd : Inv2 s -> op_okb s (Convert g stds) = true -> std_size g = Some gstd ->
  length stds = length (st_recs s) -> (forall v, In v stds -> len v = gstd /\ bytes_ok v = true) ->
  Inv (fst (step s (Convert g stds))) /\ snd (step s (Convert g stds)) = Ok tt
  /\ st_extras (fst (step s (Convert g stds))) = st_extras s /\ st_fmt (fst (step s (Convert g stds))) = g
  /\ map fst (st_recs (fst (step s (Convert g stds)))) = stds
  /\ (forall n, map (field_of n) (st_recs (fst (step s (Convert g stds)))) = map (field_of n) (st_recs s))
  /\ filter not_eb (st_vlrs (fst (step s (Convert g stds)))) = filter not_eb (st_vlrs s).
Proof.
  intros Hinv Hok Hg Hlen Hvals. cbn [step].
  assert (convert_okb s g stds = true) as Hc.
  { unfold convert_okb. rewrite Hg. apply andb_true_iff. split; [now apply Nat.eqb_eq|].
    apply forallb_forall. intros v Hv. destruct (Hvals v Hv) as [H1 H2]. rewrite H2, andb_true_r. now apply Z.eqb_eq. }
  destruct (convert_inv s g stds (Inv2_B s Hinv) Hok Hc) as (Hi & Hr & He & Hf & Hrecs & Hv).
  split; [exact Hi|]. split; [exact Hr|]. split; [exact He|]. split; [exact Hf|]. split; [|split; [|exact Hv]].
  - rewrite Hrecs, map_map. cbn [fst]. clear -Hlen. revert Hlen. generalize (st_recs s).
    induction stds as [|v stds IH]; intros [|r recs] Hl; try discriminate; [reflexivity|]. cbn [combine map fst]. f_equal. apply IH. cbn in Hl. lia.
  - intros n. rewrite Hrecs, map_map. rewrite <- (map_snd_combine stds (st_recs s) Hlen) at 2. rewrite map_map.
    apply map_ext. now intros [v r].
Qed.

(* the dimensions a (possibly truncated) re-read yields from a state whose VLR registers every dimension *)
Theorem reread_extras_spec s keep : Inv s -> op_okb s (Reread keep) = true ->
  let kept := reread_kept keep (st_extras s) in
  snd (step s (Reread keep)) = Ok tt
  /\ st_extras (fst (step s (Reread keep))) = reread_extras kept (skipn (length kept) (st_extras s))
  /\ st_vlrs (fst (step s (Reread keep))) = trunc_vlrs keep (st_vlrs s)
  /\ map rec_bytes (st_recs (fst (step s (Reread keep)))) = map rec_bytes (st_recs s).
Proof.
  intros Hinv Hok kept. destruct (reread_inv2 s keep (Inv_2 s Hinv) Hok) as (_ & Hr & _ & Hv & Hb & _).
  cbn [step]. split; [exact Hr|]. split; [|now split].
  destruct Hinv as [HB HV]. pose proof HB as [(std & Hstd & _) _ _]. destruct (vlr_inv_desc _ _ HV) as [Hd Hnone].
  rewrite (reread_general s std (st_extras s) [] keep HB Hstd (eq_sym (app_nil_r _)) Hd (fun H _ => Hnone H)).
  unfold reread_result. cbn [fst st_extras]. now rewrite app_nil_r.
Qed.

(* what a reader makes of any VLR list: the VLRs that are not the extra-bytes record are never touched *)
Lemma read_state_facts w s' : read_state w = Ok s' ->
  st_fmt s' = w_fmt w /\ filter not_eb (st_vlrs s') = filter not_eb (w_vlrs w).
Proof.
  unfold read_state. destruct (std_size (w_fmt w)) as [std|]; [|discriminate].
  destruct (filter is_eb_vlr (w_vlrs w)) as [|eb l].
  - cbn [bind]. destruct (_ <? _); [discriminate|]. destruct (forallb _ _); [|discriminate]. intros [= <-]. now split.
  - destruct (w_psize w =? std).
    + cbn [bind]. destruct (_ <? _); [discriminate|]. destruct (forallb _ _); [|discriminate]. intros [= <-].
      cbn [st_fmt st_vlrs]. split; [reflexivity|apply filter_not_eb_idem].
    + destruct (dec_ebs _ _) as [ex|]; [|discriminate]. cbn [bind]. destruct (_ <? _); [discriminate|].
      destruct (forallb _ _); [|discriminate]. intros [= <-]. now split.
Qed.

Lemma write_state_facts s w : write_state s = Ok w -> w_fmt w = st_fmt s /\ w_vlrs w = st_vlrs s.
Proof. unfold write_state. destruct (std_size _); [|discriminate]. intros [= <-]. now split. Qed.

(* the VLRs that are not the extra-bytes record are never touched, and keep their order *)
Theorem other_vlrs_step s o : Inv2 s -> filter not_eb (st_vlrs (fst (step s o))) = filter not_eb (st_vlrs s).
Proof.
  intros Hinv. pose proof (Inv2_B s Hinv) as HB. pose proof HB as [_ Hdims _].
  destruct o as [ps|names|n vals|vals|ex0 recs0| |g stds|keep]; cbn [step].
  - unfold do_add. destruct (forallb edim_okb ps) eqn:Eps; cbn [negb]; [|reflexivity].
    assert (forallb edim_okb (st_extras s ++ ps) = true) as Hall by (rewrite forallb_app, Hdims, Eps; reflexivity).
    now destruct (sync_inv _ (st_vlrs s) Hall) as (vl' & -> & _ & Hk).
  - unfold do_remove. destruct (negb _); [reflexivity|].
    now destruct (sync_inv _ (st_vlrs s) (forallb_filter _ (fun d => negb (mem_name (ed_name d) names)) _ Hdims)) as (vl' & -> & _ & Hk).
  - now destruct (assign_shape s n vals HB) as (recs' & -> & _).
  - now destruct (assign_std_shape s vals HB) as (recs' & -> & _).
  - now destruct (set_points_shape s ex0 recs0 HB) as (recs' & -> & _).
  - now rewrite do_roundtrip_id.
  - unfold do_convert. destruct (std_size g); [|reflexivity]. destruct (_ && _); [|reflexivity].
    now destruct (sync_inv _ (st_vlrs s) Hdims) as (vl' & -> & _ & Hk).
  - unfold do_reread. destruct (write_state s) as [w|] eqn:Ew; [|reflexivity]. destruct (read_state _) as [s'|] eqn:Er; [|reflexivity].
    cbn [fst]. destruct (read_state_facts _ _ Er) as [_ ->]. cbn [w_vlrs]. destruct (write_state_facts _ _ Ew) as [_ ->].
    apply other_vlrs_trunc.
Qed.

(* only a conversion changes the point format id *)
Theorem step_fmt s o : Inv2 s -> (forall g stds, o <> Convert g stds) -> st_fmt (fst (step s o)) = st_fmt s.
Proof.
  intros Hinv Hnc. pose proof (Inv2_B s Hinv) as HB.
  destruct o as [ps|names|n vals|vals|ex0 recs0| |g stds|keep]; cbn [step].
  - unfold do_add. destruct (negb _); [reflexivity|]. now destruct (sync_vlrs _ _).
  - unfold do_remove. destruct (negb _); [reflexivity|]. now destruct (sync_vlrs _ _).
  - now destruct (assign_shape s n vals HB) as (recs' & -> & _).
  - now destruct (assign_std_shape s vals HB) as (recs' & -> & _).
  - now destruct (set_points_shape s ex0 recs0 HB) as (recs' & -> & _).
  - now rewrite do_roundtrip_id.
  - now destruct (Hnc g stds).
  - unfold do_reread. destruct (write_state s) as [w|] eqn:Ew; [|reflexivity]. destruct (read_state _) as [s'|] eqn:Er; [|reflexivity].
    cbn [fst]. destruct (read_state_facts _ _ Er) as [-> _]. cbn [w_fmt]. now destruct (write_state_facts _ _ Ew) as [-> _].
Qed.
(* ------------------------------------------------------------------------------------ *)
(* tie to the header reader of Model/Las.v (dec_header): the size it derives from the     *)
(* extra-bytes VLR written by this model is the size of the extra dimensions              *)
(* ------------------------------------------------------------------------------------ *)
Lemma to_bytes_1 v : 0 <= v < 256 -> to_bytes 1 v = Ok [v].
Proof.
  intros H. unfold to_bytes. change (256 ^ Z.of_nat 1) with 256.
  replace ((0 <=? v) && (v <? 256)) with true by lia. cbn [le_enc]. now rewrite Z.mod_small.
Qed.

Lemma bind_ok_app (r : result (list Z)) a bs : bind r (fun x => Ok (a ++ x)) = Ok bs -> exists x, r = Ok x /\ bs = a ++ x.
Proof. destruct r as [x|e]; cbn [bind]; [|discriminate]. intros [= <-]. eauto. Qed.

Lemma enc_eb_head d bs : edim_okb d = true -> enc_eb d = Ok bs ->
  nth 2 bs 0 = type_id (ed_type d) /\ nth 3 bs 0 = ed_options d.
Proof.
  intros H. pose proof (type_id_range d H) as Ht. pose proof (options_range d H) as Ho.
  unfold enc_eb, eb_vals, eb_layout. cbn [map eb_field_value String.eqb Ascii.eqb Bool.eqb].
  cbn [enc_fields]. cbn [enc_field zeros repeat length Nat.eqb]. rewrite (to_bytes_1 _ Ht), (to_bytes_1 _ Ho).
  cbn [bind]. intros Hb.
  apply bind_ok_app in Hb as (r1 & Hb & ->). apply bind_ok_app in Hb as (r2 & Hb & ->).
  apply bind_ok_app in Hb as (r3 & _ & ->). split; reflexivity.
Qed.

Lemma eb_type_size_describe d : edim_okb d = true ->
  eb_type_size (type_id (ed_type d)) (ed_options d) = Some (et_size (ed_type d)).
Proof.
  intros H. pose proof (type_id_range d H) as Ht. unfold edim_okb in H. split_andb.
  unfold eb_type_size, ed_options. destruct (ed_type d) as [id|n]; cbn [type_id et_size et_ok] in *.
  - unfold type_row in *. destruct (find _ extra_dim_types) as [[[[i k] sz] c]|] eqn:E; [|discriminate].
    assert (1 <= id).
    { apply find_some in E as [Hin He]. cbn beta iota in He. apply Z.eqb_eq in He. subst i.
      pose proof (proj1 (forallb_forall _ _) table_rows_ok _ Hin) as Hr. unfold row_okb in Hr. split_andb. lia. }
    replace (id =? 0) with false by lia. reflexivity.
  - reflexivity.
Qed.

Theorem eb_total_payload ex : forallb edim_okb ex = true -> forall p, eb_payload ex = Ok p ->
  forall fuel, (length ex <= fuel)%nat -> eb_total fuel p = Some (extras_size ex).
Proof.
  induction ex as [|d ex IH]; intros H p Hp fuel Hf.
  - injection Hp as <-. destruct fuel; reflexivity.
  - cbn [forallb] in H. apply andb_true_iff in H as [Hd Hex]. cbn [eb_payload] in Hp.
    destruct (enc_eb d) as [bs|] eqn:Eb; [|discriminate]. cbn [bind] in Hp.
    destruct (eb_payload ex) as [p'|] eqn:Ep; [|discriminate]. cbn [bind] in Hp. injection Hp as <-.
    destruct (descriptor_roundtrip d Hd) as (bs' & Hbs' & Hl & _). rewrite Eb in Hbs'. injection Hbs' as <-.
    assert (length bs = 192%nat) as Hlb by (apply len_length_eq; rewrite Hl; reflexivity).
    destruct fuel as [|k]; [cbn [length] in Hf; lia|]. cbn [eb_total].
    destruct (bs ++ p') as [|z zs] eqn:Ez.
    { apply (f_equal (@length Z)) in Ez. rewrite app_length, Hlb in Ez. cbn in Ez. lia. }
    rewrite <- Ez. rewrite (skipn_app_exact bs p' 192 Hlb).
    destruct (enc_eb_head d bs Hd Eb) as [H2 H3].
    rewrite !app_nth1 by lia. rewrite H2, H3, (eb_type_size_describe d Hd).
    rewrite (IH Hex p' eq_refl k) by (cbn [length] in Hf; lia). reflexivity.
Qed.

(* ------------------------------------------------------------------------------------ *)
(* the invariant, spelled out along a history                                            *)
(* ------------------------------------------------------------------------------------ *)
Theorem run_record_length s ops : Inv2 s -> ops_okb s ops = true ->
  exists std, std_size (st_fmt (run s ops)) = Some std
              /\ forall r, In r (st_recs (run s ops)) -> len (rec_bytes r) = std + extras_size (st_extras (run s ops)).
Proof.
  intros Hinv Hok. destruct (run_inv2 ops s Hinv Hok) as [[(std & Hstd & _ & Hrecs) _ _] _].
  exists std. split; [exact Hstd|]. intros r Hr. now apply rec_wf_len, Hrecs.
Qed.

Theorem inv_vlr_spelled s : Inv s ->
  match st_extras s with
  | [] => filter is_eb_vlr (st_vlrs s) = []
  | ex => exists p, filter is_eb_vlr (st_vlrs s) = [eb_vlr p]
                    /\ eb_payload ex = Ok p /\ len p = eb_struct_size * len ex
                    /\ dec_ebs (length p) p = Ok ex
  end.
Proof.
  intros [[_ Hdims _] Hvlr]. unfold vlr_inv in Hvlr.
  destruct (st_extras s) as [|d ex]; [exact Hvlr|]. destruct Hvlr as (p & Hp & Hf & Hd).
  exists p. repeat split; try assumption.
  destruct (payload_roundtrip _ Hdims) as (p' & Hp' & Hl & _). rewrite Hp in Hp'. injection Hp' as <-.
  unfold len. rewrite Hl, EB_val. change eb_struct_size with 192. lia.
Qed.

(* right after a file with un-registered trailing bytes was read, and until the next add / remove / conversion: the
   VLR (if there is one) describes exactly the dimensions before the last one, which is the opaque "ExtraBytes" *)
Theorem inv2_vlr_spelled s : Inv2 s -> ~ Inv s ->
  exists reg n, st_extras s = reg ++ [unreg n] /\ 1 <= n <= 255
    /\ match filter is_eb_vlr (st_vlrs s) with
       | [] => reg = []
       | [v] => exists p, v = eb_vlr p /\ eb_payload reg = Ok p /\ dec_ebs (length p) p = Ok reg
       | _ => False
       end.
Proof.
  intros [HB [HV|(reg & n & Hex & Hn & Hd)]] Hnot; [exfalso; apply Hnot; now split|].
  exists reg, n. split; [exact Hex|]. split.
  - split; [exact Hn|]. apply edim_ok_unreg_inv; [exact Hn|]. destruct HB as [_ Hdims _]. rewrite Hex, forallb_app in Hdims.
    apply andb_true_iff in Hdims as [_ H]. cbn [forallb] in H. now rewrite andb_true_r in H.
  - unfold vlr_desc in Hd. destruct (filter is_eb_vlr (st_vlrs s)) as [|v [|v2 l]]; [exact Hd| |exact Hd].
    destruct Hd as (p & Hp & Hv & Hdec). exists p. now repeat split.
Qed.

Theorem run_names s ops : Inv2 s -> ops_okb s ops = true ->
  NoDup (extra_names (st_extras (run s ops)))
  /\ (forall n, In n (extra_names (st_extras (run s ops))) -> ~ In n (rec_names (st_fmt (run s ops))))
  /\ forallb edim_okb (st_extras (run s ops)) = true.
Proof.
  intros Hinv Hok. destruct (run_inv2 ops s Hinv Hok) as [[_ Hdims [Hnd Hns]] _].
  split; [now apply nodupb_NoDup|]. split; [|exact Hdims].
  intros n Hn. pose proof (proj1 (forallb_forall _ _) Hns n Hn) as Hf. apply negb_true_iff in Hf. now apply mem_name_false.
Qed.

(* ------------------------------------------------------------------------------------ *)
(* round 6: the hypothesis on names is "the fields of the record are pairwise different"  *)
(* ------------------------------------------------------------------------------------ *)
(* it is weaker than the one of the earlier rounds (no standard dimension name at all) *)
Lemma rec_names_weaker fmt n : mem_name n (std_names fmt) = false -> mem_name n (rec_names fmt) = false.
Proof. unfold std_names, mem_name. rewrite existsb_app. intros H. now apply orb_false_iff in H as [H _]. Qed.

(* PointFormat.dimensions after a step: the standard dimensions of the format the state had — whatever the names of the extra
   dimensions that were added or removed — then the extra dimensions *)
Theorem step_dim_names s o : Inv2 s -> (forall g stds, o <> Convert g stds) ->
  dim_names (fst (step s o)) = std_dim_names (st_fmt s) ++ extra_names (st_extras (fst (step s o))).
Proof. intros Hinv Hnc. unfold dim_names. now rewrite (step_fmt s o Hinv Hnc). Qed.

Lemma filter_all_true {A} (f : A -> bool) l : (forall x, In x l -> f x = true) -> filter f l = l.
Proof. induction l as [|x l IH]; intros H; [reflexivity|]. cbn [filter]. rewrite (H x (or_introl eq_refl)). f_equal. apply IH. intros y Hy. apply H. now right. Qed.

Lemma filter_names_single n (ex : list edim) : NoDup (extra_names ex) -> In n (extra_names ex) ->
  exists a d b, ex = a ++ d :: b /\ ed_name d = n /\ filter (fun d => negb (mem_name (ed_name d) [n])) ex = a ++ b.
Proof.
  induction ex as [|d ex IH]; intros Hnd Hin; [destruct Hin|]. cbn [extra_names map] in Hnd, Hin. inversion Hnd as [|? ? Hni Hnd']; subst.
  cbn [filter mem_name existsb]. rewrite orb_false_r.
  destruct Hin as [He|Hin].
  - exists [], d, ex. split; [reflexivity|]. split; [exact He|]. subst n. rewrite name_eqb_refl. cbn [negb app].
    apply filter_all_true. intros d' Hd'. cbn [mem_name existsb]. rewrite orb_false_r. apply negb_true_iff.
    apply name_eqb_neq. intros He. apply Hni. rewrite <- He. now apply in_map.
  - destruct (IH Hnd' Hin) as (a & d0 & b & -> & Hn0 & Hf). exists (d :: a), d0, b. split; [reflexivity|]. split; [exact Hn0|].
    rewrite name_eqb_neq.
    + cbn [negb app]. f_equal. cbn [mem_name existsb] in Hf. exact Hf.
    + intros He. apply Hni. rewrite He. exact Hin.
Qed.

(* the class of the sixth batch: an extra dimension that is called like a standard dimension of the format (a sub field).
   Removing it by that name is accepted; exactly that one extra dimension goes; the dimension list still has the name — as the
   standard dimension it always was —; the standard bytes of every record and every other extra dimension are as before *)
Theorem remove_named_like_standard s n : Inv2 s -> In n (std_dim_names (st_fmt s)) -> In n (extra_names (st_extras s)) ->
  let s' := fst (step s (Remove [n])) in
  snd (step s (Remove [n])) = Ok tt /\ Inv s'
  /\ (exists a d b, st_extras s = a ++ d :: b /\ ed_name d = n /\ st_extras s' = a ++ b)
  /\ ~ In n (extra_names (st_extras s'))
  /\ dim_names s' = std_dim_names (st_fmt s) ++ extra_names (st_extras s') /\ In n (dim_names s')
  /\ map fst (st_recs s') = map fst (st_recs s)
  /\ (forall m, In m (extra_names (st_extras s)) -> m <> n ->
        In m (extra_names (st_extras s')) /\ map (field_of m) (st_recs s') = map (field_of m) (st_recs s)).
Proof.
  intros Hinv Hstd Hex s'.
  assert (forall m, In m [n] -> In m (extra_names (st_extras s))) as Hall by (intros m [<-|[]]; exact Hex).
  assert (NoDup [n]) as Hnd1 by (constructor; [intros []|constructor]).
  destruct (remove_ok s [n] Hinv Hall Hnd1) as (Hr & He & Hi). fold s' in He, Hi.
  pose proof (Inv2_B s Hinv) as HB. destruct HB as [_ _ [Hnd _]]. apply nodupb_NoDup in Hnd.
  destruct (filter_names_single n (st_extras s) Hnd Hex) as (a & d & b & Hsplit & Hdn & Hf).
  assert (forall g stds, Remove [n] <> Convert g stds) as Hnc by (intros; discriminate).
  pose proof (step_dim_names s (Remove [n]) Hinv Hnc) as Hdims. fold s' in Hdims.
  assert (~ In n (extra_names (st_extras s'))) as Hgone.
  { rewrite He. intros Hi'. apply in_map_iff in Hi' as (d' & Hn' & Hd'). apply filter_In in Hd' as [_ Hd'].
    rewrite Hn' in Hd'. cbn [mem_name existsb] in Hd'. now rewrite name_eqb_refl in Hd'. }
  split; [exact Hr|]. split; [exact Hi|]. split; [exists a, d, b; rewrite He, Hf; now repeat split|]. split; [exact Hgone|].
  split; [exact Hdims|]. split; [rewrite Hdims; apply in_or_app; now left|].
  split; [now apply std_bytes_step|].
  intros m Hm Hne.
  assert (~ In m (op_names (Remove [n]))) as Hnot by (cbn [op_names]; intros [H|[]]; now apply Hne).
  destruct (step_frame s (Remove [n]) m Hinv eq_refl Hm Hnot) as [Hkeep _]. fold s' in Hkeep.
  assert (In m (extra_names (st_extras s'))) as Hin'.
  { rewrite He. apply in_map_iff in Hm as (d' & <- & Hd'). apply in_map. apply filter_In. split; [exact Hd'|].
    cbn [mem_name existsb]. rewrite orb_false_r. apply negb_true_iff. apply name_eqb_neq. intros H. now apply Hne. }
  split; [exact Hin'|]. now apply Hkeep.
Qed.

(* ------------------------------------------------------------------------------------ *)
(* several live objects: selections, copies, the objects a history leaves behind         *)
(* ------------------------------------------------------------------------------------ *)
Lemma pick_recs_in recs : forall idx rs, pick_recs recs idx = Some rs -> forall r, In r rs -> In r recs.
Proof.
  induction idx as [|i idx IH]; intros rs H r Hr; cbn [pick_recs] in H.
  - injection H as <-. destruct Hr.
  - destruct (norm_index (len recs) i) as [j|]; [|discriminate].
    destruct (nth_error recs (Z.to_nat j)) as [x|] eqn:Ex; [|discriminate].
    destruct (pick_recs recs idx) as [xs|]; [|discriminate]. injection H as <-.
    destruct Hr as [<-|Hr]; [now apply nth_error_In in Ex|now apply (IH xs)].
Qed.

Lemma norm_index_range n i j : norm_index n i = Some j -> 0 <= j < n /\ (j = i \/ j = i + n).
Proof.
  unfold norm_index. destruct ((0 <=? i) && (i <? n)) eqn:A.
  - intros [= <-]. lia.
  - destruct ((- n <=? i) && (i <? 0)) eqn:B; [|discriminate]. intros [= <-]. lia.
Qed.

Lemma norm_index_some n i : - n <= i < n -> exists j, norm_index n i = Some j.
Proof.
  intros H. unfold norm_index. destruct ((0 <=? i) && (i <? n)) eqn:A; [now eexists|].
  destruct ((- n <=? i) && (i <? 0)) eqn:B; [now eexists|]. lia.
Qed.

Lemma norm_index_none n i : ~ (- n <= i < n) -> norm_index n i = None.
Proof.
  intros H. unfold norm_index. destruct ((0 <=? i) && (i <? n)) eqn:A; [lia|].
  destruct ((- n <=? i) && (i <? 0)) eqn:B; [lia|reflexivity].
Qed.

(* the selection holds, entry by entry, the record the index designates *)
Lemma pick_recs_spec recs : forall idx rs, pick_recs recs idx = Some rs ->
  Forall2 (fun i r => exists j, norm_index (len recs) i = Some j /\ nth_error recs (Z.to_nat j) = Some r) idx rs.
Proof.
  induction idx as [|i idx IH]; intros rs H; cbn [pick_recs] in H.
  - injection H as <-. constructor.
  - destruct (norm_index (len recs) i) as [j|] eqn:Ej; [|discriminate].
    destruct (nth_error recs (Z.to_nat j)) as [x|] eqn:Ex; [|discriminate].
    destruct (pick_recs recs idx) as [xs|]; [|discriminate]. injection H as <-.
    constructor; [now exists j|now apply IH].
Qed.

Lemma pick_recs_ok recs : forall idx, (forall i, In i idx -> - len recs <= i < len recs) -> exists rs, pick_recs recs idx = Some rs.
Proof.
  induction idx as [|i idx IH]; intros H; [now eexists|]. cbn [pick_recs].
  destruct (norm_index_some (len recs) i (H i (or_introl eq_refl))) as [j Ej]. rewrite Ej.
  destruct (norm_index_range _ _ _ Ej) as [Hj _].
  destruct (nth_error recs (Z.to_nat j)) as [x|] eqn:Ex.
  - destruct IH as [rs ->]; [intros k Hk; apply H; now right|]. now eexists.
  - apply nth_error_None in Ex. unfold len in Hj. lia.
Qed.

Lemma pick_recs_bad recs : forall idx, (exists i, In i idx /\ ~ (- len recs <= i < len recs)) -> pick_recs recs idx = None.
Proof.
  induction idx as [|i idx IH]; intros (k & Hk & Hbad); [destruct Hk|]. cbn [pick_recs].
  destruct Hk as [->|Hk].
  - now rewrite norm_index_none.
  - destruct (norm_index (len recs) i) as [j|]; [|reflexivity].
    destruct (nth_error recs (Z.to_nat j)); [|reflexivity]. rewrite IH; [reflexivity|now exists k].
Qed.

Lemma select_recs_wf s rs : InvB s -> (forall r, In r rs -> In r (st_recs s)) -> recs_wf s rs.
Proof.
  intros [(std & Hstd & _ & Hrecs) _ _] Hin std' Hstd' r Hr. rewrite Hstd in Hstd'. injection Hstd' as <-. apply Hrecs. now apply Hin.
Qed.

(* a selection is a LasData like any other: same point format, same extra dimensions, same VLRs, the selected records;
   it satisfies the invariants its parent satisfies, so every theorem about histories applies to the histories that start
   from it *)
Theorem select_ok s idx s' : select s idx = Ok s' ->
  st_fmt s' = st_fmt s /\ st_extras s' = st_extras s /\ st_vlrs s' = st_vlrs s
  /\ Forall2 (fun i r => exists j, norm_index (len (st_recs s)) i = Some j /\ nth_error (st_recs s) (Z.to_nat j) = Some r) idx (st_recs s')
  /\ (Inv2 s -> Inv2 s') /\ (Inv s -> Inv s').
Proof.
  unfold select. destruct (pick_recs (st_recs s) idx) as [rs|] eqn:E; [|discriminate]. intros [= <-].
  cbn [st_fmt st_extras st_vlrs st_recs]. split; [reflexivity|]. split; [reflexivity|]. split; [reflexivity|].
  split; [now apply pick_recs_spec|]. split.
  - intros Hi. apply Inv2_recs; [exact Hi|]. apply select_recs_wf; [now apply Inv2_B|]. now apply (pick_recs_in _ _ _ E).
  - intros Hi. apply Inv_recs; [exact Hi|]. apply select_recs_wf; [now apply Inv_B|]. now apply (pick_recs_in _ _ _ E).
Qed.

Theorem select_in_range s idx : (forall i, In i idx -> - len (st_recs s) <= i < len (st_recs s)) -> exists s', select s idx = Ok s'.
Proof. intros H. unfold select. destruct (pick_recs_ok (st_recs s) idx H) as [rs ->]. now eexists. Qed.

Theorem select_out_of_range s idx : (exists i, In i idx /\ ~ (- len (st_recs s) <= i < len (st_recs s))) -> select s idx = Err EIndex.
Proof. intros H. unfold select. now rewrite pick_recs_bad. Qed.

(* ---- the world ---- *)
Lemma Forall_snoc {A} (P : A -> Prop) l x : Forall P l -> P x -> Forall P (l ++ [x]).
Proof. intros H Hx. apply Forall_app. split; [exact H|now constructor]. Qed.

Theorem wstep_inv w o : WInv w -> wop_okb w o = true -> WInv (fst (wstep w o)).
Proof.
  intros [Hc Ho] Hok. destruct o as [o|o|b idx|]; cbn [wstep wop_okb] in *.
  - split; cbn [fst w_cur w_others]; [now apply step_inv2|exact Ho].
  - destruct (snd (step (w_cur w) o)); cbn [fst]; [|now split].
    split; cbn [w_cur w_others]; [now apply step_inv2|now apply Forall_snoc].
  - destruct (select (w_cur w) idx) as [s'|e] eqn:E; cbn [fst]; [|now split].
    destruct (select_ok _ _ _ E) as (_ & _ & _ & _ & H2 & _).
    destruct b; split; cbn [w_cur w_others]; auto using Forall_snoc.
  - split; cbn [fst w_cur w_others]; [exact Hc|now apply Forall_snoc].
Qed.

Lemma wrun_cons w o ops : wrun w (o :: ops) = wrun (fst (wstep w o)) ops.
Proof. reflexivity. Qed.

(* after any history, with any number of selections, copies and returned objects in it, EVERY live LasData satisfies the
   invariant: its own record length, its own VLR *)
Theorem wrun_inv ops : forall w, WInv w -> wops_okb w ops = true -> WInv (wrun w ops).
Proof.
  induction ops as [|o ops IH]; intros w Hinv Hok; [exact Hinv|].
  cbn [wops_okb] in Hok. apply andb_true_iff in Hok as [Ho Hr]. rewrite wrun_cons. apply IH; [now apply wstep_inv|exact Hr].
Qed.

(* no step touches a LasData other than the current one: the others stay exactly what they were, in place; a step only
   ever appends the object it leaves behind *)
Theorem wstep_others_kept w o : exists new, w_others (fst (wstep w o)) = w_others w ++ new.
Proof.
  destruct o as [o|o|b idx|]; cbn [wstep].
  - exists []. cbn. now rewrite app_nil_r.
  - destruct (snd (step (w_cur w) o)); cbn [fst w_others]; [now eexists|exists []; now rewrite app_nil_r].
  - destruct (select (w_cur w) idx) as [s'|e]; cbn [fst]; [destruct b; cbn [w_others]; now eexists|exists []; now rewrite app_nil_r].
  - cbn [fst w_others]. now eexists.
Qed.

Theorem wrun_others_kept ops : forall w, exists new, w_others (wrun w ops) = w_others w ++ new.
Proof.
  induction ops as [|o ops IH]; intros w; [exists []; cbn; now rewrite app_nil_r|].
  rewrite wrun_cons. destruct (IH (fst (wstep w o))) as [n2 H2]. destruct (wstep_others_kept w o) as [n1 H1].
  exists (n1 ++ n2). now rewrite H2, H1, app_assoc.
Qed.

(* in particular the k-th live object is the same after any further history *)
Corollary wrun_other_unchanged ops w k s : nth_error (w_others w) k = Some s -> nth_error (w_others (wrun w ops)) k = Some s.
Proof.
  intros H. destruct (wrun_others_kept ops w) as [new ->]. rewrite nth_error_app1; [exact H|].
  apply nth_error_Some. now rewrite H.
Qed.

(* a history without such steps is a history of the single-object model: all theorems about `run` speak about the
   current object of the world *)
Theorem wrun_plain ops : forall w, wrun w (map WOp ops) = mkW (run (w_cur w) ops) (w_others w).
Proof.
  induction ops as [|o ops IH]; intros w; [now destruct w|].
  cbn [map]. rewrite wrun_cons, IH. cbn [wstep fst w_cur w_others]. now rewrite run_cons.
Qed.

Theorem wops_okb_plain ops : forall w, wops_okb w (map WOp ops) = ops_okb (w_cur w) ops.
Proof.
  induction ops as [|o ops IH]; intros w; [reflexivity|]. cbn [map wops_okb ops_okb wop_okb]. now rewrite IH.
Qed.

(* what each kind of step leaves behind / goes on with *)
Theorem wstep_new_ok w o : snd (step (w_cur w) o) = Ok tt ->
  wstep w (WNew o) = (mkW (fst (step (w_cur w) o)) (w_others w ++ [w_cur w]), Ok tt).
Proof. intros H. cbn [wstep]. now rewrite H. Qed.

Theorem wstep_failed w o : snd (wstep w o) <> Ok tt -> (forall o', o <> WOp o') -> fst (wstep w o) = w.
Proof.
  intros H Hn. destruct o as [o|o|b idx|]; cbn [wstep] in *.
  - now destruct (Hn o).
  - destruct (snd (step (w_cur w) o)) as [[]|e]; [now destruct H|reflexivity].
  - destruct (select (w_cur w) idx); [now destruct H|reflexivity].
  - now destruct H.
Qed.

(* ------------------------------------------------------------------------------------ *)
(* what belongs to the caller (round 5): params objects, the header's point count, the VLR list *)
(* ------------------------------------------------------------------------------------ *)
Lemma set_vlrs_InvB s vl : InvB s -> InvB (set_vlrs s vl).
Proof. intros [H1 H2 H3]. constructor; cbn [set_vlrs st_fmt st_extras st_recs]; assumption. Qed.

(* the vlrs setter: whatever list is assigned — foreign extra-bytes VLRs, several, adjacent, duplicates, any order —,
   (I3) holds at once, the other records of the assigned list stay in their order, nothing else changes *)
Theorem assign_vlrs_inv s vl : InvB s ->
  snd (assign_vlrs s vl) = Ok tt /\ Inv (fst (assign_vlrs s vl))
  /\ st_fmt (fst (assign_vlrs s vl)) = st_fmt s /\ st_extras (fst (assign_vlrs s vl)) = st_extras s
  /\ st_recs (fst (assign_vlrs s vl)) = st_recs s
  /\ filter not_eb (st_vlrs (fst (assign_vlrs s vl))) = filter not_eb vl.
Proof.
  intros HB. unfold assign_vlrs. destruct (sync_inv (st_extras s) vl (inv_dims s HB)) as (vl' & -> & Hv & Hk).
  cbn [fst snd]. split; [reflexivity|]. split; [split; [now apply set_vlrs_InvB|exact Hv]|].
  cbn [set_vlrs st_fmt st_extras st_recs st_vlrs]. now repeat split.
Qed.

(* a list edited in place, then the next successful add / remove / conversion: (I3) holds again, the other records of
   the caller's list are all there, in the caller's order *)
Theorem edit_then_sync s vl o : InvB s -> op_okb (set_vlrs s vl) o = true -> op_syncs o = true ->
  snd (step (set_vlrs s vl) o) = Ok tt ->
  Inv (fst (step (set_vlrs s vl) o)) /\ filter not_eb (st_vlrs (fst (step (set_vlrs s vl) o))) = filter not_eb vl.
Proof.
  intros HB Hok Hs Hr. pose proof (set_vlrs_InvB s vl HB) as HB'.
  destruct o as [ps|names|n vals|vals|ex0 recs0| |g stds|keep]; cbn [step op_syncs] in *; try discriminate.
  - destruct (forallb edim_okb ps) eqn:E; [|rewrite add_refused in Hr by exact E; discriminate].
    destruct (add_inv _ ps HB' Hok E) as (H1 & _ & _ & _ & _ & H6). now split.
  - destruct (remove_okb (set_vlrs s vl) names) eqn:E; [|rewrite remove_refused in Hr by exact E; discriminate].
    destruct (remove_inv _ names HB' E) as (H1 & _ & _ & _ & _ & H6). now split.
  - destruct (convert_okb (set_vlrs s vl) g stds) eqn:E; [|destruct (convert_refused _ g stds E) as [_ H]; contradiction].
    destruct (convert_inv _ g stds HB' Hok E) as (H1 & _ & _ & _ & _ & H6). now split.
Qed.

(* the base invariant alone is enough for the operations that synchronise or do not look at the VLR list *)
Lemma step_invB s o : InvB s -> op_okb s o = true -> op_local o || op_syncs o = true ->
  InvB (fst (step s o)) /\ (op_syncs o = true -> snd (step s o) = Ok tt -> Inv (fst (step s o))).
Proof.
  intros HB Hok Hk.
  destruct o as [ps|names|n vals|vals|ex0 recs0| |g stds|keep]; cbn [step op_syncs op_local orb] in *; try discriminate.
  - destruct (forallb edim_okb ps) eqn:E.
    + destruct (add_inv s ps HB Hok E) as (H1 & _). split; [now apply Inv_B|now intros].
    + rewrite add_refused by exact E. split; [exact HB|cbn; discriminate].
  - destruct (remove_okb s names) eqn:E.
    + destruct (remove_inv s names HB E) as (H1 & _). split; [now apply Inv_B|now intros].
    + rewrite remove_refused by exact E. split; [exact HB|cbn; discriminate].
  - destruct (assign_shape s n vals HB) as (recs' & -> & Hwf). split; [now apply InvB_recs|discriminate].
  - destruct (assign_std_shape s vals HB) as (recs' & -> & Hwf). split; [now apply InvB_recs|discriminate].
  - destruct (set_points_shape s ex0 recs0 HB) as (recs' & -> & Hwf). split; [now apply InvB_recs|discriminate].
  - destruct (convert_okb s g stds) eqn:E.
    + destruct (convert_inv s g stds HB Hok E) as (H1 & _). split; [now apply Inv_B|now intros].
    + destruct (convert_refused s g stds E) as [-> H]. split; [exact HB|intros _ H'; contradiction].
Qed.

Lemma cworld_op_inv c o : CInv c -> cop_okb c (CW o) = true -> CInv (fst (cworld_op c o)).
Proof.
  destruct c as [w n d ps]. unfold CInv, cworld_op, cw_cur. cbn [cw_w cw_dirty cw_count cw_params fst].
  intros [Hc Ho] Hok. destruct d.
  - (* the VLR list is in the caller's hands *)
    destruct o as [o|o|b idx|]; cbn [cop_okb cw_cur cw_w cw_dirty negb andb orb] in Hok;
      try (rewrite andb_false_r in Hok; discriminate).
    apply andb_true_iff in Hok as [Hok Hk]. cbn [wstep fst snd w_cur w_others wop_syncs].
    destruct (step_invB (w_cur w) o Hc Hok Hk) as [HB HI].
    split; [|exact Ho].
    destruct (is_ok (snd (step (w_cur w) o)) && op_syncs o) eqn:E; [|exact HB].
    apply andb_true_iff in E as [E1 E2]. apply Inv_2. apply HI; [exact E2|].
    destruct (snd (step (w_cur w) o)) as [[]|e]; [reflexivity|discriminate].
  - assert (wop_okb w o = true) as Hw.
    { destruct o as [o|o|b idx|]; cbn [cop_okb cw_cur cw_w cw_dirty negb andb orb wop_okb] in *;
        try reflexivity; now apply andb_true_iff in Hok as [Hok _]. }
    destruct (wstep_inv w o (conj Hc Ho) Hw) as [Hc' Ho'].
    split; [|exact Ho']. now destruct (is_ok _ && wop_syncs o).
Qed.

(* one step of the caller's history keeps the invariant of every live object *)
Theorem cstep_inv c o : CInv c -> cop_okb c o = true -> CInv (fst (cstep c o)).
Proof.
  intros Hinv Hok. destruct o as [o|vl setter|n|idx cnt|d|i d|idx]; cbn [cstep].
  - now apply cworld_op_inv.
  - assert (InvB (cw_cur c)) as HB by (destruct Hinv as [Hc _]; destruct (cw_dirty c); [exact Hc|now apply Inv2_B]).
    destruct Hinv as [_ Ho]. destruct setter.
    + destruct (assign_vlrs_inv (cw_cur c) vl HB) as (Hr & HI & _).
      destruct (assign_vlrs (cw_cur c) vl) as [s' [[]|e]]; cbn [fst snd] in *; [|discriminate].
      split; cbn [cw_dirty cw_cur cw_w w_cur w_others]; [now apply Inv_2|exact Ho].
    + split; cbn [fst cw_dirty cw_cur cw_w w_cur w_others]; [now apply set_vlrs_InvB|exact Ho].
  - exact Hinv.
  - cbn [cop_okb] in Hok. apply negb_true_iff in Hok. destruct Hinv as [Hc Ho]. rewrite Hok in Hc.
    destruct (select (cw_cur c) idx) as [s'|e] eqn:E; cbn [fst]; [|split; [now rewrite Hok|exact Ho]].
    destruct (select_ok _ _ _ E) as (_ & _ & _ & _ & H2 & _).
    split; cbn [cw_dirty cw_cur cw_w w_cur w_others]; [rewrite Hok; now apply H2|now apply Forall_snoc].
  - exact Hinv.
  - exact Hinv.
  - cbn [cop_okb] in Hok. destruct (pick_params (cw_params c) idx) as [ds|]; [|exact Hinv].
    apply cworld_op_inv; [exact Hinv|]. cbn [cop_okb]. rewrite Hok. cbn [op_syncs]. now rewrite !orb_true_r.
Qed.

Lemma crun_cons c o ops : crun c (o :: ops) = crun (fst (cstep c o)) ops.
Proof. reflexivity. Qed.

(* after ANY history of the caller — adds, removes, assignments, round trips, selections, copies, with parameters the
   caller keeps and changes, headers that count other points, VLR lists edited in place or assigned — every live LasData
   satisfies its invariant; the current one the base part (record length = standard + extra bytes, names) always ... *)
Theorem crun_inv ops : forall c, CInv c -> cops_okb c ops = true -> CInv (crun c ops).
Proof.
  induction ops as [|o ops IH]; intros c Hinv Hok; [exact Hinv|].
  cbn [cops_okb] in Hok. apply andb_true_iff in Hok as [Ho Hr]. rewrite crun_cons. apply IH; [now apply cstep_inv|exact Hr].
Qed.

(* ... and the VLR part whenever the list is not in the caller's hands: in particular after the add / remove that follows
   an in-place edit *)
Theorem crun_inv2 ops c : CInv c -> cops_okb c ops = true -> cw_dirty (crun c ops) = false -> Inv2 (cw_cur (crun c ops)).
Proof. intros Hinv Hok Hd. destruct (crun_inv ops c Hinv Hok) as [H _]. now rewrite Hd in H. Qed.

Theorem cstep_sync_clean c o : is_ok (snd (cstep c (CW (WOp o)))) = true -> op_syncs o = true ->
  cw_dirty (fst (cstep c (CW (WOp o)))) = false.
Proof. cbn [cstep cworld_op fst snd cw_dirty wop_syncs]. intros -> ->. reflexivity. Qed.

(* (2) no operation reads the header's point count: two histories that differ only in that counter — initially, or by
   assignments to it along the way — have the same outcomes and end in the same world *)
Definition same_but_count (a b : cworld) : Prop :=
  cw_w a = cw_w b /\ cw_dirty a = cw_dirty b /\ cw_params a = cw_params b.

Lemma cstep_count_irrelevant a b o : same_but_count a b ->
  same_but_count (fst (cstep a o)) (fst (cstep b o)) /\ snd (cstep a o) = snd (cstep b o).
Proof.
  destruct a as [w n1 d ps], b as [w' n2 d' ps']. intros (Hw & Hd & Hp). cbn [cw_w cw_dirty cw_params] in *. subst w' d' ps'.
  unfold same_but_count.
  destruct o as [o|vl setter|n|idx cnt|p|i p|idx]; cbn [cstep]; unfold cworld_op, cw_cur; cbn [cw_w cw_dirty cw_params cw_count fst snd].
  - now repeat split.
  - destruct setter; [|now repeat split].
    destruct (assign_vlrs (w_cur w) vl) as [s' [[]|e]]; cbn [fst snd cw_w cw_dirty cw_params]; now repeat split.
  - now repeat split.
  - destruct (select (w_cur w) idx); cbn [fst snd cw_w cw_dirty cw_params]; now repeat split.
  - now repeat split.
  - now repeat split.
  - destruct (pick_params ps idx); cbn [cworld_op fst snd cw_w cw_dirty cw_params]; now repeat split.
Qed.

Theorem crun_count_irrelevant ops : forall a b, same_but_count a b -> same_but_count (crun a ops) (crun b ops).
Proof.
  induction ops as [|o ops IH]; intros a b H; [exact H|]. rewrite !crun_cons. apply IH. now apply cstep_count_irrelevant.
Qed.

Theorem crun_count_ops_erased ops : forall c, same_but_count (crun c ops) (crun c (filter (fun o => negb (is_count_op o)) ops)).
Proof.
  induction ops as [|o ops IH]; intros c; [now repeat split|].
  cbn [filter]. destruct (is_count_op o) eqn:E; cbn [negb].
  - destruct o; try discriminate. rewrite crun_cons. cbn [cstep fst].
    destruct (IH c) as (H1 & H2 & H3).
    destruct (crun_count_irrelevant ops {| cw_w := cw_w c; cw_count := n; cw_dirty := cw_dirty c; cw_params := cw_params c |} c) as (G1 & G2 & G3);
      [now repeat split|].
    unfold same_but_count. rewrite G1, G2, G3. now repeat split.
  - rewrite !crun_cons. apply IH.
Qed.

(* after a successful add / remove / whole-record assignment the counter is the number of points *)
Theorem cstep_count_refreshed c o : op_refreshes o = true -> is_ok (snd (cstep c (CW (WOp o)))) = true ->
  cw_count (fst (cstep c (CW (WOp o)))) = len (st_recs (cw_cur (fst (cstep c (CW (WOp o)))))).
Proof. cbn [cstep cworld_op fst snd cw_count cw_cur cw_w wop_refreshes]. intros -> ->. reflexivity. Qed.

(* (1) what the caller does to its params objects reaches no live object; passing them is passing their values *)
Theorem cstep_param_frame c o : is_param_write o = true ->
  cw_w (fst (cstep c o)) = cw_w c /\ cw_count (fst (cstep c o)) = cw_count c /\ cw_dirty (fst (cstep c o)) = cw_dirty c.
Proof. destruct o; try discriminate; intros _; now repeat split. Qed.

Theorem cstep_add_params c idx ds : pick_params (cw_params c) idx = Some ds ->
  cstep c (CAddParams idx) = cstep c (CW (WOp (Add ds))).
Proof. intros H. cbn [cstep]. now rewrite H. Qed.

Lemma pick_params_spec ps : forall idx ds, pick_params ps idx = Some ds -> Forall2 (fun i d => nth_error ps i = Some d) idx ds.
Proof.
  induction idx as [|i idx IH]; intros ds H; cbn [pick_params] in H.
  - injection H as <-. constructor.
  - destruct (nth_error ps i) as [d|] eqn:E; [|discriminate]. destruct (pick_params ps idx) as [ds'|]; [|discriminate].
    injection H as <-. constructor; [exact E|now apply IH].
Qed.

(* (3) no step of the caller touches a LasData other than the current one *)
Theorem cstep_others_kept c o : exists new, w_others (cw_w (fst (cstep c o))) = w_others (cw_w c) ++ new.
Proof.
  destruct o as [o|vl setter|n|idx cnt|p|i p|idx]; cbn [cstep cworld_op fst cw_w].
  - apply wstep_others_kept.
  - destruct setter; [destruct (assign_vlrs (cw_cur c) vl) as [s' [[]|e]]|]; cbn [fst cw_w w_others]; exists []; now rewrite app_nil_r.
  - exists []. now rewrite app_nil_r.
  - destruct (select (cw_cur c) idx); cbn [fst cw_w w_others]; [now eexists|exists []; now rewrite app_nil_r].
  - exists []. now rewrite app_nil_r.
  - exists []. now rewrite app_nil_r.
  - destruct (pick_params (cw_params c) idx); cbn [cworld_op fst cw_w]; [apply wstep_others_kept|exists []; now rewrite app_nil_r].
Qed.

Theorem crun_others_kept ops : forall c, exists new, w_others (cw_w (crun c ops)) = w_others (cw_w c) ++ new.
Proof.
  induction ops as [|o ops IH]; intros c; [exists []; cbn; now rewrite app_nil_r|].
  rewrite crun_cons. destruct (IH (fst (cstep c o))) as [n2 H2]. destruct (cstep_others_kept c o) as [n1 H1].
  exists (n1 ++ n2). now rewrite H2, H1, app_assoc.
Qed.

(* a caller's history made of world operations only is the world's history *)
Theorem crun_plain ops : forall c, cw_w (crun c (map CW ops)) = wrun (cw_w c) ops.
Proof.
  induction ops as [|o ops IH]; intros c; [reflexivity|]. cbn [map]. rewrite crun_cons, IH. reflexivity.
Qed.

Theorem WInv_CInv w n ps : WInv w -> CInv (mkCW w n false ps).
Proof. intros [H1 H2]. now split. Qed.

(* round 7: the synchronisation FORGETS what the extra-bytes records of the list said: its result is a function of the
   current extra dimensions and of the OTHER records only — two lists that differ only in their extra-bytes records (the
   own one, the one of another file that describes dimensions of the same names and types with other scales, offsets,
   descriptions, several of them, none) are synchronised to the same list *)
Lemma sync_vlrs_forgets ex vl1 vl2 : filter not_eb vl1 = filter not_eb vl2 -> sync_vlrs ex vl1 = sync_vlrs ex vl2.
Proof. intros H. unfold sync_vlrs. rewrite H. reflexivity. Qed.

Lemma assign_vlrs_forgets s vl1 vl2 : filter not_eb vl1 = filter not_eb vl2 -> assign_vlrs s vl1 = assign_vlrs s vl2.
Proof. intros H. unfold assign_vlrs. rewrite (sync_vlrs_forgets (st_extras s) vl1 vl2 H). reflexivity. Qed.

(* a foreign extra-bytes record (any well-formed payload q: whatever it says about whatever dimensions) put anywhere in the
   assigned list leaves no trace *)
Lemma assign_vlrs_foreign_eb s vl1 vl2 q : len q mod 192 = 0 ->
  assign_vlrs s (vl1 ++ eb_vlr q :: vl2) = assign_vlrs s (vl1 ++ vl2).
Proof.
  intros Hq. apply assign_vlrs_forgets. rewrite !filter_app. cbn [filter]. unfold not_eb at 2.
  rewrite (is_eb_eb_vlr q Hq). reflexivity.
Qed.
