(* C14 - proofs about Model/Laz.v, part 2: files around an opaque payload, the backend contract, transparency. *)
From Coq Require Import String.
From Coq Require Import ZArith List Bool Lia ZifyBool.
From LasV Require Import Lib.Base Lib.BaseFacts Lib.Layout Proofs.LayoutProofs Gen.GenHeaderLayout Gen.GenFormatBits Gen.GenDims
  Gen.GenC14 Model.Las Model.LasSpec Model.Laz Proofs.HeaderLen Proofs.VlrProofs Proofs.HeaderProofs Proofs.WriterProofs
  Proofs.RoundTripProofs Proofs.LazProofs.
Import ListNotations.
Open Scope list_scope.
Open Scope Z_scope.

(* ------------------------------------------------------------------------------------ *)
(* the uncompressed file is the instance "payload = the records"                         *)
(* ------------------------------------------------------------------------------------ *)
Lemma file_of_gfile ap h vl fmt recs evl : file_of ap h vl fmt recs evl = gfile ap h vl fmt recs evl (concat recs).
Proof. unfold file_of, gfile, lz_set_ev. cbv zeta. reflexivity. Qed.
Lemma final_hdr_gfinal ap h vl fmt recs evl : final_hdr ap h vl fmt recs evl = gfinal_hdr ap h vl fmt recs evl (concat recs).
Proof. unfold final_hdr, gfinal_hdr, lz_set_ev. cbv zeta. reflexivity. Qed.

Lemma with_stats_plain h st n : In n ["version.minor"; "point_format_id"; "point_size"]%string ->
  aint (with_stats h st) n = aint h n.
Proof.
  intros [<-|[<-|[<-|[]]]]; apply aint_with_stats_other; try reflexivity; try axis_ne; ret_ne.
Qed.

(* gfile and gfinal_hdr, spelled out (RoundTripProofs.file_of_inv with the payload left abstract) *)
Lemma gfile_inv ap h vl fmt recs evl payload f h' :
  gfile ap h vl fmt recs evl payload = Ok f -> gfinal_hdr ap h vl fmt recs evl payload = Ok h' ->
  exists hh bs eb,
    enc_header hh vl true = Ok (h', bs) /\ enc_vlrs true evl = Ok eb
    /\ f = bs ++ payload ++ eb
    /\ len bs = aint h' "offset_to_point_data"
    /\ aint h' "point_count" = len recs
    /\ aint h' "version.minor" = aint h "version.minor"
    /\ aint h' "point_format_id" = aint h "point_format_id"
    /\ aint h' "point_size" = aint h "point_size"
    /\ (evl = [] -> aint h' "number_of_evlrs" = 0)
    /\ (evl <> [] -> aint h' "number_of_evlrs" = len evl
                     /\ aint h' "start_of_first_evlr" = len bs + len payload).
Proof.
  unfold gfile, gfinal_hdr. intros Hf Hh.
  destruct (enc_header (with_stats h stats0) vl false) as [[h0 b0]|e] eqn:E0; [|discriminate].
  cbn [bind fst snd] in Hf, Hh.
  destruct (enc_vlrs true evl) as [eb|e] eqn:Eeb; [|discriminate].
  cbn [bind] in Hf, Hh.
  set (st := match evl with
             | [] => stats_of ap fmt h recs
             | _ :: _ => lz_set_ev (stats_of ap fmt h recs) (len b0 + len payload) (len evl)
             end) in *.
  destruct (enc_header (with_stats h0 st) vl true) as [[h1 bs]|e] eqn:E1; [|discriminate].
  cbn [bind fst snd] in Hf, Hh. injection Hf as <-. injection Hh as <-.
  exists (with_stats h0 st), bs, eb.
  pose proof (enc_header_len _ _ _ _ _ E1) as L1.
  destruct (enc_header_same_size _ _ _ _ E1) as [_ L1'].
  rewrite with_stats_offset in L1'.
  pose proof (enc_header_len _ _ _ _ _ E0) as L0.
  assert (len bs = len b0) as Lb by lia.
  split; [exact E1|]. split; [reflexivity|]. split; [reflexivity|]. split; [exact L1|].
  split.
  { rewrite (enc_header_keeps _ _ _ _ _ "point_count" E1) by reflexivity.
    rewrite with_stats_count. destruct evl; cbn [st lz_set_ev s_count]; apply stats_of_count. }
  split; [now rewrite (enc_header_keeps _ _ _ _ _ _ E1), with_stats_plain, (enc_header_keeps _ _ _ _ _ _ E0), with_stats_plain by (cbn; tauto)|].
  split; [now rewrite (enc_header_keeps _ _ _ _ _ _ E1), with_stats_plain, (enc_header_keeps _ _ _ _ _ _ E0), with_stats_plain by (cbn; tauto)|].
  split; [now rewrite (enc_header_keeps _ _ _ _ _ _ E1), with_stats_plain, (enc_header_keeps _ _ _ _ _ _ E0), with_stats_plain by (cbn; tauto)|].
  split.
  { intros ->. rewrite (enc_header_keeps _ _ _ _ _ "number_of_evlrs" E1) by reflexivity.
    rewrite with_stats_nevlr. apply stats_of_nevlr. }
  intros Hne. destruct evl as [|ev evl]; [contradiction|]. split.
  - rewrite (enc_header_keeps _ _ _ _ _ "number_of_evlrs" E1) by reflexivity.
    rewrite with_stats_nevlr. reflexivity.
  - rewrite (enc_header_keeps _ _ _ _ _ "start_of_first_evlr" E1) by reflexivity.
    rewrite with_stats_evlr_start. cbn [st lz_set_ev s_evlr_start]. lia.
Qed.

(* ------------------------------------------------------------------------------------ *)
(* what the header decoder says about compression                                        *)
(* ------------------------------------------------------------------------------------ *)
Lemma dec_header_comp src b rh : dec_header src b = Ok rh ->
  rh_compressed rh = is_point_format_compressed (aint (rh_fields rh) "point_format_id")
  /\ rh_fmt rh = compressed_id_to_uncompressed (aint (rh_fields rh) "point_format_id").
Proof.
  unfold dec_header. cbv zeta.
  destruct (length (firstn 4 (firstn 227 src)) =? 0)%nat; [discriminate|].
  destruct (negb (list_eqb (firstn 4 (firstn 227 src)) LASF)); [discriminate|].
  destruct (length (firstn 227 src) <? 227)%nat; [discriminate|].
  set (stream := if le_dec (firstn 4 (skipn 96 (firstn 227 src))) <? 227 then src
                 else firstn (Z.to_nat (le_dec (firstn 4 (skipn 96 (firstn 227 src))))) src).
  set (mnr := le_dec (firstn 1 (skipn 25 stream))).
  destruct (dec_fields (fixed_part (hr_layout mnr)) stream) as [a rest] eqn:Ed.
  destruct (len stream - len rest >? aint a "header_size"); [discriminate|].
  destruct (aint a "number_of_vlrs" >? MAX_VLRS); [discriminate|].
  destruct (dec_vlrs false (Z.to_nat (aint a "number_of_vlrs"))
              (skipn (Z.to_nat (aint a "header_size" - (len stream - len rest))) rest)) as [[vl rest3]|e]; [|discriminate].
  cbn [bind].
  destruct (len stream - len rest3 >? aint a "offset_to_point_data"); [discriminate|].
  destruct (std_size (compressed_id_to_uncompressed (aint a "point_format_id"))) as [std|]; [|discriminate].
  match goal with |- context [match ?X with Some _ => _ | None => Err ELaspy end] =>
    destruct X as [fsz|]; [|discriminate] end.
  destruct (aint a "point_size" <? fsz); [discriminate|].
  destruct (aint a "number_of_evlrs" >? MAX_VLRS); [discriminate|].
  match goal with |- bind ?E _ = _ -> _ => destruct E as [ev|e]; [|discriminate] end.
  cbn [bind]. intros H. injection H as <-. cbn [rh_compressed rh_fmt rh_fields].
  rewrite !aint_aset_other by reflexivity. split; reflexivity.
Qed.

Lemma format_id_name m : 1 <= m <= 4 -> In "point_format_id"%string (header_field_names m).
Proof.
  intros Hm. assert (m = 1 \/ m = 2 \/ m = 3 \/ m = 4) as [->|[->|[->| ->]]] by lia;
  apply in_by_existsb; vm_compute; reflexivity.
Qed.

(* ------------------------------------------------------------------------------------ *)
(* reading the header, VLRs and EVLRs of a file built around any payload, junk allowed after it *)
(* ------------------------------------------------------------------------------------ *)
Lemma gfile_read ap h vl fmt recs evl payload f h' junk :
  gfile ap h vl fmt recs evl payload = Ok f -> gfinal_hdr ap h vl fmt recs evl payload = Ok h' ->
  wf_header h' vl = true -> forallb (wf_vlr true) evl = true ->
  (evl = [] \/ aint h "version.minor" >= 4) ->
  exists rh bs eb, dec_header (f ++ junk) true = Ok rh
    /\ dec_header (f ++ junk) false = Ok (with_vlrs rh (rh_vlrs rh) None)
    /\ f = bs ++ payload ++ eb /\ enc_vlrs true evl = Ok eb
    /\ rh_vlrs rh = vl /\ rh_offset rh = len bs /\ rh_psize rh = aint h' "point_size"
    /\ rh_fmt rh = compressed_id_to_uncompressed (aint h' "point_format_id")
    /\ rh_compressed rh = is_point_format_compressed (aint h' "point_format_id")
    /\ rh_evlrs rh = (if aint h' "version.minor" >=? 4 then Some evl else None)
    /\ aint (rh_fields rh) "point_count" = len recs
    /\ 1 <= aint h' "version.minor" <= 4
    /\ (evl = [] -> aint h' "number_of_evlrs" = 0)
    /\ (evl <> [] -> aint h' "number_of_evlrs" = len evl /\ aint h' "start_of_first_evlr" = len bs + len payload)
    /\ (forall n, In n (header_field_names (aint h' "version.minor")) -> aget (rh_fields rh) n = Some (wval h' n)).
Proof.
  intros Hf Hh Hwf Hwe Hev4.
  destruct (gfile_inv _ _ _ _ _ _ _ _ _ Hf Hh) as (hh & bs & eb & E1 & Heb & Hfe & Hl & Hc & Hmn & _ & _ & Hev0 & Hev1).
  destruct (dec_enc_header _ _ _ _ _ (payload ++ eb ++ junk) E1 Hwf)
    as (rh & D0 & Rv & Roff & Rps & Rfmt & Rget & _).
  assert (f ++ junk = bs ++ payload ++ eb ++ junk) as Hsrc by (rewrite Hfe, <- !app_assoc; reflexivity).
  rewrite <- Hsrc in D0.
  destruct (hdr_minor_enc _ _ _ _ _ (payload ++ eb ++ junk) E1) as [_ Hminor]. rewrite <- Hsrc in Hminor.
  destruct (enc_header_raw _ _ _ _ _ E1) as (Hm & _).
  set (m := aint h' "version.minor") in *.
  assert (aint (rh_fields rh) "point_count" = len recs) as Hcnt.
  { rewrite (aint_of_get _ h' "point_count" eq_refl eq_refl (Rget _ (point_count_name m Hm))). exact Hc. }
  assert (aint (rh_fields rh) "point_format_id" = aint h' "point_format_id") as Hfid
    by exact (aint_of_get _ h' "point_format_id" eq_refl eq_refl (Rget _ (format_id_name m Hm))).
  assert (ev_part m (rh_fields rh) (f ++ junk) true = Ok (if m >=? 4 then Some evl else None)) as Hevp.
  { unfold ev_part. destruct (m >=? 4) eqn:E4; [|reflexivity].
    assert (m = 4) as M4 by lia. rewrite M4 in Rget. destruct evlr_names as [N1 N2].
    rewrite (aint_of_get _ h' "number_of_evlrs" eq_refl eq_refl (Rget _ N1)).
    rewrite (aint_of_get _ h' "start_of_first_evlr" eq_refl eq_refl (Rget _ N2)).
    destruct evl as [|ev evl].
    - rewrite (Hev0 eq_refl). reflexivity.
    - destruct (Hev1 ltac:(discriminate)) as [A B]. rewrite A, B.
      replace (len (ev :: evl) >? 0) with true by (unfold len; cbn [length]; lia).
      rewrite <- len_app, !to_nat_len. rewrite Hsrc, app_assoc.
      rewrite (skipn_app_exact (bs ++ payload) (eb ++ junk) _ eq_refl).
      rewrite (dec_enc_vlrs true (ev :: evl) eb junk Hwe Heb). reflexivity. }
  destruct (dec_header_shape (f ++ junk) true) as [(e & H1 & _)|(rh0 & H1 & _ & _ & H2)]; [rewrite D0 in H1; discriminate|].
  rewrite D0 in H1. injection H1 as <-. rewrite Hminor, Hevp in H2. cbn [bind] in H2.
  destruct (dec_header_comp _ _ _ D0) as [Hcomp _]. rewrite Hfid in Hcomp.
  assert (rh_evlrs rh = None) as Hnone.
  { destruct (dec_header_shape (f ++ junk) false) as [(e & H1 & _)|(rh0 & H1 & _ & _ & H3)]; [rewrite D0 in H1; discriminate|].
    rewrite D0 in H1. injection H1 as <-. rewrite D0 in H3. unfold ev_part in H3.
    destruct (hdr_minor (f ++ junk) >=? 4); cbn [bind] in H3; injection H3 as H3; now rewrite H3. }
  eexists _, bs, eb. split; [exact H2|].
  cbn [with_vlrs rh_fields rh_vlrs rh_evlrs rh_fmt rh_compressed rh_psize rh_offset].
  split; [rewrite D0; destruct rh; cbn in *; now subst|].
  repeat (split; [first [assumption|reflexivity]|]). exact Rget.
Qed.
