(* C14 - proofs about Model/Laz.v, part 2: files around an opaque payload, the backend contract, transparency. *)
From Coq Require Import String.
From Coq Require Import ZArith List Bool Lia ZifyBool.
From LasV Require Import Lib.Base Lib.BaseFacts Lib.Layout Proofs.LayoutProofs Gen.GenHeaderLayout Gen.GenFormatBits Gen.GenDims
  Gen.GenC14 Model.Las Model.LasSpec Model.Laz Proofs.HeaderLen Proofs.VlrProofs Proofs.HeaderProofs Proofs.WriterProofs
  Proofs.RoundTripProofs Proofs.LazProofs.
Import ListNotations.
Open Scope list_scope.
Open Scope Z_scope.

(* ------------------------------------------------------------------------------------ *)
(* the uncompressed file is the instance "payload = the records"                         *)
(* ------------------------------------------------------------------------------------ *)
Lemma file_of_gfile ap h vl fmt recs evl : file_of ap h vl fmt recs evl = gfile ap h vl fmt recs evl (concat recs).
Proof. reflexivity. Qed.
Lemma final_hdr_gfinal ap h vl fmt recs evl : final_hdr ap h vl fmt recs evl = gfinal_hdr ap h vl fmt recs evl (concat recs).
Proof. reflexivity. Qed.

(* gfile and gfinal_hdr, spelled out (RoundTripProofs.file_of_inv with the payload left abstract) *)
Lemma gfile_inv ap h vl fmt recs evl payload f h' :
  gfile ap h vl fmt recs evl payload = Ok f -> gfinal_hdr ap h vl fmt recs evl payload = Ok h' ->
  exists hh bs eb,
    enc_header hh vl true = Ok (h', bs) /\ enc_vlrs true evl = Ok eb
    /\ f = bs ++ payload ++ eb
    /\ len bs = aint h' "offset_to_point_data"
    /\ aint h' "point_count" = len recs
    /\ aint h' "version.minor" = aint h "version.minor"
    /\ aint h' "point_format_id" = aint h "point_format_id"
    /\ aint h' "point_size" = aint h "point_size"
    /\ (evl = [] -> aint h' "number_of_evlrs" = 0)
    /\ (evl <> [] -> aint h' "number_of_evlrs" = len evl
                     /\ aint h' "start_of_first_evlr" = len bs + len payload).
Proof.
  unfold gfile, gfinal_hdr. intros Hf Hh.
  destruct (enc_header (with_stats h stats0) vl false) as [[h0 b0]|e] eqn:E0; [|discriminate].
  cbn [bind fst snd] in Hf, Hh.
  destruct (enc_vlrs true evl) as [eb|e] eqn:Eeb; [|discriminate].
  cbn [bind] in Hf, Hh.
  set (st := match evl with
             | [] => stats_of ap fmt h recs
             | _ :: _ => lz_set_ev (stats_of ap fmt h recs) (len b0 + len payload) (len evl)
             end) in *.
  destruct (enc_header (with_stats h0 st) vl true) as [[h1 bs]|e] eqn:E1; [|discriminate].
  cbn [bind fst snd] in Hf, Hh. injection Hf as <-. injection Hh as <-.
  exists (with_stats h0 st), bs, eb.
  pose proof (enc_header_len _ _ _ _ _ E1) as L1.
  destruct (enc_header_same_size _ _ _ _ E1) as [_ L1'].
  rewrite with_stats_offset in L1'.
  pose proof (enc_header_len _ _ _ _ _ E0) as L0.
  assert (len bs = len b0) as Lb by lia.
  assert (forall n, String.eqb "offset_to_point_data" n = false -> String.eqb "header_size" n = false ->
                    String.eqb "number_of_vlrs" n = false ->
                    (forall i, String.eqb (axis_name "maxs" i) n = false) -> (forall i, String.eqb (axis_name "mins" i) n = false) ->
                    (forall i, String.eqb (by_return_name i) n = false) ->
                    String.eqb "point_count" n = false -> String.eqb "start_of_first_evlr" n = false ->
                    String.eqb "number_of_evlrs" n = false ->
                    aint h1 n = aint h n) as Hplain.
  { intros n A1 A2 A3 A4 A5 A6 A7 A8 A9.
    rewrite (enc_header_keeps _ _ _ _ _ n E1) by assumption.
    rewrite aint_with_stats_other by assumption.
    rewrite (enc_header_keeps _ _ _ _ _ n E0) by assumption.
    now apply aint_with_stats_other. }
  split; [exact E1|]. split; [reflexivity|]. split; [reflexivity|]. split; [exact L1|].
  split.
  { rewrite (enc_header_keeps _ _ _ _ _ "point_count" E1) by reflexivity.
    rewrite with_stats_count. destruct evl; cbn [st lz_set_ev s_count]; apply stats_of_count. }
  split; [apply Hplain; try reflexivity; try (intros i; axis_ne); intros i; ret_ne|].
  split; [apply Hplain; try reflexivity; try (intros i; axis_ne); intros i; ret_ne|].
  split; [apply Hplain; try reflexivity; try (intros i; axis_ne); intros i; ret_ne|].
  split.
  { intros ->. rewrite (enc_header_keeps _ _ _ _ _ "number_of_evlrs" E1) by reflexivity.
    rewrite with_stats_nevlr. apply stats_of_nevlr. }
  intros Hne. destruct evl as [|ev evl]; [contradiction|]. split.
  - rewrite (enc_header_keeps _ _ _ _ _ "number_of_evlrs" E1) by reflexivity.
    rewrite with_stats_nevlr. reflexivity.
  - rewrite (enc_header_keeps _ _ _ _ _ "start_of_first_evlr" E1) by reflexivity.
    rewrite with_stats_evlr_start. cbn [st lz_set_ev s_evlr_start]. lia.
Qed.
