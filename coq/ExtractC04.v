(* Extraction of the aliasing models (Model/WriterAlias.v: a writer session with the caller's in-place edits, with-blocks left
   by an exception; Model/DataAlias.v: LasData objects derived from one another) to OCaml for the correspondence checks of
   C04 and C01; round 5: Model/Pairing.v (the gate that pairs a record with a header, on C13's Model/ExtraDims.v). ExtrOcamlBasic only; Z/N/positive/nat stay the extracted inductive datatypes. *)
Require Extraction.
Require Import ExtrOcamlBasic.
From Coq Require Import ZArith List.
From LasV Require Import Lib.Base Lib.Layout Model.Las Model.WriterAlias Model.DataAlias Model.ExtraDims Model.Pairing Model.WriterFault Model.RecView.
Extraction Language OCaml.
Extraction "../ocaml/c04/model.ml"
  Z.add Z.mul Z.sub Z.div_eucl Z.compare Z.of_nat Z.to_nat
  sopen plain_run with_run apply_cedit fdesc_eqb
  world_of dstep drun view write_obj
  gate gate_by_name pair_up write_state read_state field_of
  wopen frun express
  vworld_of vrun records_at.
