(* Extraction of the byte-level cursor model (Model/CursorBytes.v) for the correspondence check of C05.
   ExtrOcamlBasic only; Z/N/positive/nat stay the extracted inductive datatypes. *)
Require Extraction.
Require Import ExtrOcamlBasic.
From Coq Require Import ZArith List.
From LasV Require Import Lib.Base Gen.GenCursor Model.Cursor Model.CursorBytes Model.CursorFault.
Extraction Language OCaml.
Extraction "../ocaml/c05/model.ml"
  Z.add Z.mul Z.sub Z.div_eucl Z.compare Z.of_nat Z.to_nat
  crun srun brun frun sfrun bfrun.
