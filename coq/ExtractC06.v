(* Extraction of the round-5 additions of the C03 / C06 / C19 group for the correspondence checks:
   takes_more (the capacity rule of appender and writer: Model/AppendCap.v, theorems C06_capacity_...), dest_image (destinations that already hold bytes: Model/LasDest.v,
   theorems C19_overwrite_...).  ExtrOcamlBasic only. *)
Require Extraction.
Require Import ExtrOcamlBasic.
From Coq Require Import ZArith List.
(* Round 6: guarded_rewrite (the in-place header rewrite at close, whatever the caller did to the session's own header: Model/LasEnd.v, theorems
   C19_own_header_...), arun_ops (an appender's calls with close() among them: theorems C06_history_with_closes ...) with the executable twins
   aopen_f / aclose_t of Model/LasFast.v. *)
From LasV Require Import Lib.Base Lib.Layout Model.Las Model.LasSpec Model.LasFast Model.LasDest Model.AppendCap Model.LasEnd.
Extraction Language OCaml.
Extraction "../ocaml/c06/model.ml"
  Z.add Z.mul Z.sub Z.div_eucl Z.compare Z.of_nat Z.to_nat
  takes_more max_point_count dest_image apply_dop overwrite_ops
  guarded_rewrite arun_ops aopen_f aclose_t apoints.
