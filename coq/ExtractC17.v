(* Extraction of the C17 access-path model for its correspondence check (ExtrOcamlBasic only). *)
Require Extraction.
Require Import ExtrOcamlBasic.
From Coq Require Import ZArith List.
From LasV Require Import Lib.Base Lib.Layout Model.Las Model.Access.
Extraction Language OCaml.
Extraction "../ocaml/c17/model.ml"
  Z.add Z.mul Z.sub Z.div_eucl Z.compare Z.of_nat Z.to_nat
  read_via open_via consume_via read_mmap mmap_set mmap_set_dim read_file no_seek_tell only_offered default_read_evlrs
  s_read_short s_readinto_short read_exact s_read s_readinto.
