(* The ASPRS LAS 1.4 (R15) point data record formats 0-10, the Extra Bytes descriptor (Table 24) and
   its data-type table (Table 25), typed in from the specification's tables — NOT from laspy.
   laspy's dimension names are used as labels only, so that generated and specified tables can be
   compared with plain equality; order, sizes, signedness, float-ness and bit ranges are the
   specification's.  The tables of the specification list "Item | Format | Size"; byte offsets are
   the running sum of the sizes (records are packed), which is what [with_offsets] computes. *)
From Coq Require Import String.
From Coq Require Import ZArith List Bool.
From LasV Require Import Lib.Base Lib.Layout.
Import ListNotations.
Open Scope string_scope.
Open Scope list_scope.
Open Scope Z_scope.

(* the data types of the specification (section 2.1) *)
Inductive ftype :=
| TU (w : nat)                          (* unsigned char / short / long / long long: w bytes, little endian *)
| TI (w : nat)                          (* char / short / long / long long: w bytes, two's complement *)
| TF (w : nat)                          (* float (4) / double (8): IEEE 754, carried as the bit pattern *)
| TBits (subs : list (string * Z * Z)). (* one byte of bit fields: (name, lowest bit, highest bit) *)

Definition item := (string * ftype)%type.
Definition placed := (string * Z * ftype)%type.     (* name, byte offset in the record, type *)

Definition uchar := TU 1.   Definition char := TI 1.
Definition ushort := TU 2.  Definition short := TI 2.
Definition ulong := TU 4.   Definition long := TI 4.
Definition ulonglong := TU 8. Definition longlong := TI 8.
Definition float := TF 4.   Definition double := TF 8.

(* ---- Tables 7-12: formats 0-5 share the 20-byte core of format 0 ---- *)
Definition core_0 : list item := [
  ("X", long);                                   (* X                     long            4 bytes *)
  ("Y", long);                                   (* Y                     long            4 bytes *)
  ("Z", long);                                   (* Z                     long            4 bytes *)
  ("intensity", ushort);                         (* Intensity             unsigned short  2 bytes *)
  ("bit_fields", TBits [
     ("return_number", 0, 2);                    (* Return Number                 3 bits (bits 0-2) *)
     ("number_of_returns", 3, 5);                (* Number of Returns             3 bits (bits 3-5) *)
     ("scan_direction_flag", 6, 6);              (* Scan Direction Flag           1 bit  (bit 6)    *)
     ("edge_of_flight_line", 7, 7)]);            (* Edge of Flight Line           1 bit  (bit 7)    *)
  ("raw_classification", TBits [                 (* Classification        unsigned char   1 byte; Table 8: *)
     ("classification", 0, 4);                   (*   bits 0:4 Classification *)
     ("synthetic", 5, 5);                        (*   bit 5    Synthetic      *)
     ("key_point", 6, 6);                        (*   bit 6    Key-Point      *)
     ("withheld", 7, 7)]);                       (*   bit 7    Withheld       *)
  ("scan_angle_rank", char);                     (* Scan Angle Rank (-90 to +90)  char    1 byte  *)
  ("user_data", uchar);                          (* User Data             unsigned char   1 byte  *)
  ("point_source_id", ushort)                    (* Point Source ID       unsigned short  2 bytes *)
].

Definition gps : list item := [("gps_time", double)].            (* GPS Time   double  8 bytes *)
Definition rgb : list item :=
  [("red", ushort); ("green", ushort); ("blue", ushort)].        (* Red, Green, Blue   unsigned short  2 bytes each *)
Definition nir : list item := [("nir", ushort)].                 (* NIR        unsigned short  2 bytes *)
Definition wave : list item := [
  ("wavepacket_index", uchar);                   (* Wave Packet Descriptor Index        unsigned char       1 byte  *)
  ("wavepacket_offset", ulonglong);              (* Byte Offset to Waveform Data        unsigned long long  8 bytes *)
  ("wavepacket_size", ulong);                    (* Waveform Packet Size in Bytes       unsigned long       4 bytes *)
  ("return_point_wave_location", float);         (* Return Point Waveform Location      float               4 bytes *)
  ("x_t", float);                                (* Parametric dx  X(t)                 float               4 bytes *)
  ("y_t", float);                                (* Parametric dy  Y(t)                 float               4 bytes *)
  ("z_t", float)                                 (* Parametric dz  Z(t)                 float               4 bytes *)
].

(* ---- Tables 13-19: formats 6-10 share the 30-byte core of format 6 ---- *)
Definition core_6 : list item := [
  ("X", long); ("Y", long); ("Z", long);         (* X, Y, Z               long            4 bytes each *)
  ("intensity", ushort);                         (* Intensity             unsigned short  2 bytes *)
  ("bit_fields", TBits [
     ("return_number", 0, 3);                    (* Return Number                 4 bits (bits 0-3) *)
     ("number_of_returns", 4, 7)]);              (* Number of Returns             4 bits (bits 4-7) *)
  ("classification_flags", TBits [               (* Classification Flags          4 bits (bits 0-3); Table 16: *)
     ("synthetic", 0, 0);                        (*   bit 0 Synthetic *)
     ("key_point", 1, 1);                        (*   bit 1 Key-Point *)
     ("withheld", 2, 2);                         (*   bit 2 Withheld  *)
     ("overlap", 3, 3);                          (*   bit 3 Overlap   *)
     ("scanner_channel", 4, 5);                  (* Scanner Channel               2 bits (bits 4-5) *)
     ("scan_direction_flag", 6, 6);              (* Scan Direction Flag           1 bit  (bit 6)    *)
     ("edge_of_flight_line", 7, 7)]);            (* Edge of Flight Line           1 bit  (bit 7)    *)
  ("classification", uchar);                     (* Classification        unsigned char   1 byte  *)
  ("user_data", uchar);                          (* User Data             unsigned char   1 byte  *)
  ("scan_angle", short);                         (* Scan Angle            short           2 bytes *)
  ("point_source_id", ushort);                   (* Point Source ID       unsigned short  2 bytes *)
  ("gps_time", double)                           (* GPS Time              double          8 bytes *)
].

Definition spec_items (f : Z) : option (list item) :=
  match f with
  | 0 => Some core_0
  | 1 => Some (core_0 ++ gps)
  | 2 => Some (core_0 ++ rgb)
  | 3 => Some (core_0 ++ gps ++ rgb)
  | 4 => Some (core_0 ++ gps ++ wave)
  | 5 => Some (core_0 ++ gps ++ rgb ++ wave)
  | 6 => Some core_6
  | 7 => Some (core_6 ++ rgb)
  | 8 => Some (core_6 ++ rgb ++ nir)
  | 9 => Some (core_6 ++ wave)
  | 10 => Some (core_6 ++ rgb ++ nir ++ wave)
  | _ => None
  end.

(* "Point Data Record Format n ... m bytes" of the section headings *)
Definition spec_record_lengths : list Z := [20; 28; 26; 34; 57; 63; 30; 36; 38; 59; 67].
Definition spec_record_length (f : Z) : Z := nth (Z.to_nat f) spec_record_lengths 0.

Definition width (t : ftype) : Z :=
  match t with TU w | TI w | TF w => Z.of_nat w | TBits _ => 1 end.

Fixpoint with_offsets (start : Z) (its : list item) : list placed :=
  match its with
  | [] => []
  | (n, t) :: r => (n, start, t) :: with_offsets (start + width t) r
  end.

Definition total_width (its : list item) : Z := fold_right (fun it acc => width (snd it) + acc) 0 its.

(* mask of a bit range, for the comparison with tables that carry masks *)
Definition mask_of_range (lo hi : Z) : Z := (2 ^ (hi - lo + 1) - 1) * 2 ^ lo.

(* ---- Extra Bytes: Table 25 (data types) ---- *)
Definition eb_base : list ftype :=
  [uchar; char; ushort; short; ulong; long; ulonglong; longlong; float; double].   (* data_type 1 .. 10 *)
(* (data_type, element type, number of elements): 1-10 scalars, 11-20 the same ten as [2], 21-30 as [3] *)
Definition spec_eb_types : list (Z * ftype * nat) :=
  flat_map (fun c => map (fun p => (Z.of_nat (fst p) + 10 * (Z.of_nat c - 1), snd p, c))
                         (combine (seq 1 10) eb_base)) [1; 2; 3]%nat.

Fixpoint eb_lookup (tbl : list (Z * ftype * nat)) (id : Z) : option (ftype * nat) :=
  match tbl with
  | [] => None
  | (i, t, c) :: r => if i =? id then Some (t, c) else eb_lookup r id
  end.

(* one extra-bytes descriptor contributes to every point record: data_type 0 = "undocumented extra bytes",
   [options] is then the number of bytes; otherwise [count] elements of the table's type *)
Definition eb_desc := (string * Z * Z)%type.     (* name, data_type, options *)
Definition eb_items_one (tbl : list (Z * ftype * nat)) (d : eb_desc) : option (list item) :=
  let '(n, dt, opt) := d in
  if dt =? 0 then (if (0 <=? opt) && (opt <? 256) then Some (repeat (n, uchar) (Z.to_nat opt)) else None)
  else match eb_lookup tbl dt with Some (t, c) => Some (repeat (n, t) c) | None => None end.
Fixpoint eb_items_of (tbl : list (Z * ftype * nat)) (ds : list eb_desc) : option (list item) :=
  match ds with
  | [] => Some []
  | d :: r => match eb_items_one tbl d, eb_items_of tbl r with
              | Some a, Some b => Some (a ++ b)
              | _, _ => None
              end
  end.

(* the whole record: the format's items followed by the extra bytes in descriptor order *)
Definition spec_point_layout (f : Z) (ebs : list eb_desc) : option (list placed) :=
  match spec_items f, eb_items_of spec_eb_types ebs with
  | Some a, Some b => Some (with_offsets 0 (a ++ b))
  | _, _ => None
  end.

(* ---- Extra Bytes: Table 24 (the 192-byte descriptor), in the vocabulary of Lib/Layout.v ---- *)
Definition spec_eb_descriptor : layout := [
  (KBytes, 2, "reserved");        (* reserved      unsigned char[2]   2 bytes  *)
  (KUInt, 1, "data_type");        (* data_type     unsigned char      1 byte   *)
  (KUInt, 1, "options");          (* options       unsigned char      1 byte   *)
  (KStr, 32, "name");             (* name          char[32]           32 bytes *)
  (KBytes, 4, "unused");          (* unused        unsigned char[4]   4 bytes  *)
  (KBytes, 24, "no_data");        (* no_data       anytype[3]         24 bytes *)
  (KBytes, 24, "min");            (* min           anytype[3]         24 bytes *)
  (KBytes, 24, "max");            (* max           anytype[3]         24 bytes *)
  (KF64, 8, "scale[0]"); (KF64, 8, "scale[1]"); (KF64, 8, "scale[2]");      (* scale   double[3]  24 bytes *)
  (KF64, 8, "offset[0]"); (KF64, 8, "offset[1]"); (KF64, 8, "offset[2]");   (* offset  double[3]  24 bytes *)
  (KStr, 32, "description")       (* description   char[32]           32 bytes *)
]%nat.
Definition spec_eb_descriptor_size : Z := 192.
(* options bit field: bit 0 no_data, 1 min, 2 max, 3 scale, 4 offset *)
Definition spec_eb_option_bits : list (string * Z) :=
  [("no_data", 1); ("min", 2); ("max", 4); ("scale", 8); ("offset", 16)].
(* the descriptors live in the VLR  User ID "LASF_Spec", Record ID 4 *)
Definition spec_eb_vlr : string * Z := ("LASF_Spec", 4).

(* ---- the record length of the header delimits the records ("Point Data Record Length"): bytes of a record beyond the
   format's items and the items the Extra Bytes VLR describes are undocumented bytes — still part of every record ---- *)
Definition undoc_items (n : Z) : list item := repeat ("ExtraBytes", uchar) (Z.to_nat n).

Definition spec_point_layout_rl (f : Z) (ebs : list eb_desc) (trailing : Z) : option (list placed) :=
  match spec_items f, eb_items_of spec_eb_types ebs with
  | Some a, Some b => if 0 <=? trailing then Some (with_offsets 0 (a ++ b ++ undoc_items trailing)) else None
  | _, _ => None
  end.

(* which layout a file's records have, from what its header and VLRs say: [ps] = Point Data Record Length, [std] = the
   format's record length, [d] = the bytes the Extra Bytes VLR describes, [hv] = the file has an Extra Bytes VLR.
   -> (the descriptors apply, number of undocumented trailing bytes); a record shorter than what must be in it is an error.
   A VLR in a file whose records have no extra bytes at all is ignored (laspy's documented leniency: it warns). *)
Definition spec_resolve_record (ps std d : Z) (hv : bool) : result (bool * Z) :=
  if hv && negb (ps =? std) then
    (if std + d <=? ps then Ok (true, ps - (std + d)) else Err ELaspy)
  else
    (if std <=? ps then Ok (false, ps - std) else Err ELaspy).

Definition spec_record_layout (f : Z) (ebs : list eb_desc) (hv : bool) (ps : Z) : result (list placed) :=
  match eb_items_of spec_eb_types ebs with
  | Some b =>
      match spec_resolve_record ps (spec_record_length f) (total_width b) hv with
      | Ok (used, t) =>
          match spec_point_layout_rl f (if used then ebs else []) t with Some L => Ok L | None => Err EValue end
      | Err e => Err e
      end
  | None => Err EValue
  end.

(* ---- LAS 1.4 public header: "Legacy Number of Point Records" / "Legacy Number of Points by Return":
   the count if the file maintains legacy compatibility, the count fits 32 bits and the point format is below 6;
   "otherwise, it must be set to zero" ---- *)
Definition spec_legacy_ok (fmt count legacy : Z) : bool :=
  (legacy =? 0) || ((fmt <? 6) && (legacy =? count) && (count <? 2 ^ 32)).

(* ---- payloads of the other VLRs the specification defines (LAS 1.4 R15 sections 2.6 / 2.7, GeoTIFF key directory), typed in
   from the specification; laspy's structure-field names are used as labels only ---- *)
(* Classification Lookup (User ID "LASF_Spec", Record ID 0): Record Length after Header 256 recs x 16 byte struct len;
   struct CLASSIFICATION { unsigned char ClassNumber; char Description[15]; } *)
Definition spec_lookup_record : layout := [
  (KUInt, 1, "class_number");     (* ClassNumber   unsigned char   1 byte   *)
  (KStr, 15, "description")       (* Description   char[15]        15 bytes *)
]%nat.
Definition spec_lookup_table_records : Z := 256.
Definition spec_lookup_table_size : Z := 4096.
(* Waveform Packet Descriptor (User ID "LASF_Spec", Record ID n, 99 < n < 355): 26 bytes *)
Definition spec_waveform_descriptor : layout := [
  (KUInt, 1, "bits_per_sample");              (* Bits per Sample            unsigned char   1 byte  *)
  (KUInt, 1, "waveform_compression_type");    (* Waveform Compression Type  unsigned char   1 byte  *)
  (KUInt, 4, "number_of_samples");            (* Number of Samples          unsigned long   4 bytes *)
  (KUInt, 4, "temporal_sample_spacing");      (* Temporal Sample Spacing    unsigned long   4 bytes *)
  (KF64, 8, "digitizer_gain");                (* Digitizer Gain             double          8 bytes *)
  (KF64, 8, "digitizer_offset")               (* Digitizer Offset           double          8 bytes *)
]%nat.
(* GeoKeyDirectoryTag Record (User ID "LASF_Projection", Record ID 34735): struct sGeoKeys { unsigned short wKeyDirectoryVersion;
   wKeyRevision; wMinorRevision; wNumberOfKeys; struct sKeyEntry { unsigned short wKeyID; wTIFFTagLocation; wCount; wValue_Offset; } pKey[1]; } *)
Definition spec_geokeys_header : layout := [
  (KUInt, 2, "key_directory_version"); (KUInt, 2, "key_revision"); (KUInt, 2, "minor_revision"); (KUInt, 2, "number_of_keys")
]%nat.
Definition spec_geokey_entry : layout := [
  (KUInt, 2, "id"); (KUInt, 2, "tiff_tag_location"); (KUInt, 2, "count"); (KUInt, 2, "value_offset")
]%nat.
(* by the short names the reference codec is asked with *)
Definition spec_known_payload (name : string) : option layout :=
  if String.eqb name "lookup" then Some spec_lookup_record
  else if String.eqb name "waveform" then Some spec_waveform_descriptor
  else if String.eqb name "geokeys_header" then Some spec_geokeys_header
  else if String.eqb name "geokey" then Some spec_geokey_entry
  else None.
