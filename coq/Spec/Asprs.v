(* The ASPRS LAS 1.4 (R15) public header block and (E)VLR header, typed in from the
   specification's tables — not from laspy. Field names are laspy's attribute names only so
   that generated and specified layouts can be compared with plain equality; order, widths
   and kinds are the specification's. *)
From Coq Require Import String.
From Coq Require Import ZArith List Bool.
From LasV Require Import Lib.Base Lib.Layout.
Import ListNotations.
Open Scope string_scope.
Open Scope list_scope.

(* Table 3 of LAS 1.4 R15 (and the corresponding tables of 1.1-1.3), up to legacy counts *)
Definition asprs_common : layout := [
  (KConst, 4, "signature");               (* File Signature ("LASF")  char[4] *)
  (KUInt, 2, "file_source_id");           (* File Source ID           unsigned short *)
  (KUInt, 2, "global_encoding");          (* Global Encoding          unsigned short (reserved in 1.1) *)
  (KBytes, 16, "uuid");                   (* Project ID - GUID data 1-4: ulong, ushort, ushort, uchar[8] *)
  (KUInt, 1, "version.major");            (* Version Major            unsigned char *)
  (KUInt, 1, "version.minor");            (* Version Minor            unsigned char *)
  (KStr, 32, "system_identifier");        (* System Identifier        char[32] *)
  (KStr, 32, "generating_software");      (* Generating Software      char[32] *)
  (KUInt, 2, "creation_yday");            (* File Creation Day of Year  unsigned short *)
  (KUInt, 2, "creation_year");            (* File Creation Year         unsigned short *)
  (KUInt, 2, "header_size");              (* Header Size                unsigned short *)
  (KUInt, 4, "offset_to_point_data");     (* Offset to Point Data       unsigned long *)
  (KUInt, 4, "number_of_vlrs");           (* Number of VLRs             unsigned long *)
  (KUInt, 1, "point_format_id");          (* Point Data Record Format   unsigned char *)
  (KUInt, 2, "point_size")                (* Point Data Record Length   unsigned short *)
]%nat.

Definition asprs_legacy_counts (count_name : string) (ret_name : nat -> string) : layout := [
  (KUInt, 4, count_name);                 (* (Legacy) Number of Point Records      unsigned long *)
  (KUInt, 4, ret_name 0); (KUInt, 4, ret_name 1); (KUInt, 4, ret_name 2);
  (KUInt, 4, ret_name 3); (KUInt, 4, ret_name 4)   (* (Legacy) Number of Points by Return  unsigned long[5] *)
]%nat.

Definition asprs_transform : layout := [
  (KF64, 8, "scales[0]"); (KF64, 8, "scales[1]"); (KF64, 8, "scales[2]");      (* X, Y, Z Scale Factor  double *)
  (KF64, 8, "offsets[0]"); (KF64, 8, "offsets[1]"); (KF64, 8, "offsets[2]");   (* X, Y, Z Offset        double *)
  (KF64, 8, "maxs[0]"); (KF64, 8, "mins[0]");                                  (* Max X, Min X *)
  (KF64, 8, "maxs[1]"); (KF64, 8, "mins[1]");                                  (* Max Y, Min Y *)
  (KF64, 8, "maxs[2]"); (KF64, 8, "mins[2]")                                   (* Max Z, Min Z *)
]%nat.

Definition nat_dec_str (n : nat) : string :=
  match n with
  | 0 => "0" | 1 => "1" | 2 => "2" | 3 => "3" | 4 => "4" | 5 => "5" | 6 => "6" | 7 => "7"
  | 8 => "8" | 9 => "9" | 10 => "10" | 11 => "11" | 12 => "12" | 13 => "13" | 14 => "14" | _ => "?"
  end%nat.
Definition by_return (i : nat) : string := String.append "number_of_points_by_return[" (String.append (nat_dec_str i) "]").

Definition asprs_13 : layout := [(KUInt, 8, "start_of_waveform")]%nat.   (* Start of Waveform Data Packet Record  unsigned long long *)
Definition asprs_14 : layout :=
  [(KUInt, 8, "start_of_first_evlr");      (* Start of First EVLR        unsigned long long *)
   (KUInt, 4, "number_of_evlrs");          (* Number of EVLRs            unsigned long *)
   (KUInt, 8, "point_count")]%nat          (* Number of Point Records    unsigned long long *)
  ++ map (fun i => (KUInt, 8%nat, by_return i)) (seq 0 15).   (* Number of Points by Return  unsigned long long[15] *)

Definition asprs_tail : layout :=
  [(KVar, 0, "extra_header_bytes"); (KVar, 0, "vlrs"); (KVar, 0, "extra_vlr_bytes")]%nat.

(* what a reader sees: legacy counts land in the same attributes (overridden by the 1.4 block) *)
Definition spec_read_layout (minor : nat) : layout :=
  asprs_common ++ asprs_legacy_counts "point_count" by_return ++ asprs_transform
  ++ (if (3 <=? minor)%nat then asprs_13 else []) ++ (if (4 <=? minor)%nat then asprs_14 else []) ++ asprs_tail.

(* what laspy writes: for 1.4 the legacy counts are written as zero (laspy's documented choice) *)
Definition spec_write_layout (minor : nat) : layout :=
  asprs_common
  ++ (if (4 <=? minor)%nat then asprs_legacy_counts "zero" (fun _ => "zero") else asprs_legacy_counts "point_count" by_return)
  ++ asprs_transform
  ++ (if (3 <=? minor)%nat then asprs_13 else []) ++ (if (4 <=? minor)%nat then asprs_14 else []) ++ asprs_tail.

(* header sizes: 227, 227, 235, 375 *)
Definition spec_header_size (minor : nat) : Z :=
  match minor with 1%nat | 2%nat => 227%Z | 3%nat => 235%Z | 4%nat => 375%Z | _ => 0%Z end.

(* Table 6: VLR header (54 bytes) and Table 26: EVLR header (60 bytes) *)
Definition spec_vlr_layout (ext : bool) : layout := [
  (KConst, 2, "reserved");                       (* Reserved                   unsigned short *)
  (KStr, 16, "user_id");                         (* User ID                    char[16] *)
  (KUInt, 2, "record_id");                       (* Record ID                  unsigned short *)
  (KUInt, if ext then 8 else 2, "record_length");(* Record Length After Header unsigned short / unsigned long long *)
  (KStr, 32, "description");                     (* Description                char[32] *)
  (KVar, 0, "record_data")
]%nat.
