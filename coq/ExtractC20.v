(* Extraction of the C20 model with the setters' value domain (Model/GlobalEncPy.v) for the correspondence check.
   ExtrOcamlBasic only; Z/N/positive/nat stay the extracted inductive datatypes. *)
Require Extraction.
Require Import ExtrOcamlBasic.
From Coq Require Import ZArith List.
From LasV Require Import Lib.Base Gen.GenGlobalEncoding Model.GlobalEnc Model.GlobalEncPy.
Extraction Language OCaml.
Extraction "../ocaml/c20/model.ml"
  Z.add Z.mul Z.sub Z.div_eucl Z.compare Z.of_nat Z.to_nat
  ge_get ge_set ge_run ge_set_py ge_run_py truthy target_ok kind_holds.
