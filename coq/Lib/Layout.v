(* Field layouts (kind, width, name) and the generic lenient codec over them.
   A header / record header is an association list name -> value in layout order. *)
From Coq Require Import String.
From Coq Require Import ZArith List Bool.
From LasV Require Import Lib.Base.
Import ListNotations.
Open Scope list_scope.
Open Scope Z_scope.

Inductive kind := KConst | KUInt | KF64 | KBytes | KStr | KCStr | KVar.
Definition layout := list (kind * nat * string).

Definition kind_eqb (a b : kind) : bool :=
  match a, b with
  | KConst, KConst | KUInt, KUInt | KF64, KF64 | KBytes, KBytes | KStr, KStr | KCStr, KCStr | KVar, KVar => true
  | _, _ => false
  end.
Definition field_eqb (a b : kind * nat * string) : bool :=
  let '(k1, w1, n1) := a in let '(k2, w2, n2) := b in
  kind_eqb k1 k2 && Nat.eqb w1 w2 && String.eqb n1 n2.
Fixpoint layout_eqb (a b : layout) : bool :=
  match a, b with
  | [], [] => true
  | x :: a', y :: b' => field_eqb x y && layout_eqb a' b'
  | _, _ => false
  end.

Inductive value := VInt (z : Z) | VBytes (b : list Z).

(* bytes up to (not including) the first NUL: python  raw[:raw.find(b"\0")]  when found *)
Fixpoint cut_nul (bs : list Z) : list Z :=
  match bs with [] => [] | b :: r => if b =? 0 then [] else b :: cut_nul r end.

Definition zeros (n : nat) : list Z := repeat 0 n.

(* utils.null_pad_bytes (first component): cut at first NUL, truncate, pad with NULs to w *)
Definition null_pad (raw : list Z) (w : nat) (null_terminate : bool) : list Z :=
  let raw1 := cut_nul raw in
  let lim := if null_terminate then (w - 1)%nat else w in
  let raw2 := firstn lim raw1 in
  raw2 ++ zeros (w - length raw2).

Definition enc_field (k : kind) (w : nat) (v : value) : result (list Z) :=
  match k, v with
  | KUInt, VInt z => to_bytes w z
  | KF64, VInt z => to_bytes w z
  | KConst, VBytes b => if Nat.eqb (length b) w then Ok b else Err EValue
  | KBytes, VBytes b => if Nat.eqb (length b) w then Ok b else Err EValue
  | KStr, VBytes s => Ok (null_pad s w false)
  | KCStr, VBytes s => Ok (null_pad s w true)
  | KVar, VBytes b => Ok b
  | _, _ => Err EOther
  end.

(* lenient read, as python's stream.read(w) at EOF: fewer bytes, no error *)
Definition dec_field (k : kind) (w : nat) (bs : list Z) : value * list Z :=
  let raw := firstn w bs in
  let rest := skipn w bs in
  match k with
  | KUInt | KF64 => (VInt (le_dec raw), rest)
  | KConst | KBytes => (VBytes raw, rest)
  | KStr | KCStr => (VBytes (cut_nul raw), rest)
  | KVar => (VBytes [], bs)
  end.

Definition assoc := list (string * value).

Fixpoint enc_fields (l : layout) (vals : list value) : result (list Z) :=
  match l, vals with
  | [], [] => Ok []
  | (k, w, _) :: l', v :: vals' =>
      do b <- enc_field k w v; do r <- enc_fields l' vals'; Ok (b ++ r)
  | _, _ => Err EOther
  end.

Fixpoint dec_fields (l : layout) (bs : list Z) : assoc * list Z :=
  match l with
  | [] => ([], bs)
  | (k, w, n) :: l' =>
      let '(v, rest) := dec_field k w bs in
      let '(a, rest') := dec_fields l' rest in
      ((n, v) :: a, rest')
  end.

(* the fixed-width prefix of a layout: everything before the first KVar *)
Fixpoint fixed_part (l : layout) : layout :=
  match l with
  | [] => []
  | (KVar, _, _) :: _ => []
  | f :: l' => f :: fixed_part l'
  end.
Definition layout_width (l : layout) : Z := fold_right (fun f acc => Z.of_nat (snd (fst f)) + acc) 0 l.
Definition layout_names (l : layout) : list string := map snd l.

(* association lists: the LAST binding wins (later assignment overrides, as in read_from) *)
Fixpoint aget_last (a : assoc) (n : string) (acc : option value) : option value :=
  match a with
  | [] => acc
  | (m, v) :: r => aget_last r n (if String.eqb m n then Some v else acc)
  end.
Definition aget (a : assoc) (n : string) : option value := aget_last a n None.
Definition aint (a : assoc) (n : string) : Z := match aget a n with Some (VInt z) => z | _ => 0 end.
Definition abytes (a : assoc) (n : string) : list Z := match aget a n with Some (VBytes b) => b | _ => [] end.
Definition amem (a : assoc) (n : string) : bool := existsb (fun p => String.eqb (fst p) n) a.
(* every binding of n is updated (read_from's 1.4 layout binds point_count twice); appended if absent *)
Definition aset (a : assoc) (n : string) (v : value) : assoc :=
  if amem a n then map (fun p => if String.eqb (fst p) n then (fst p, v) else p) a else a ++ [(n, v)].

(* well-formedness of a value for a field: exactly the values that survive a round trip *)
Definition no_nul (s : list Z) : bool := forallb (fun b => negb (b =? 0)) s.
Definition wf_field (k : kind) (w : nat) (v : value) : bool :=
  match k, v with
  | KUInt, VInt z | KF64, VInt z => (0 <=? z) && (z <? 256 ^ Z.of_nat w)
  | KConst, VBytes b | KBytes, VBytes b => Nat.eqb (length b) w && bytes_ok b
  | KStr, VBytes s => Nat.leb (length s) w && no_nul s && bytes_ok s
  | KCStr, VBytes s => Nat.ltb (length s) w && no_nul s && bytes_ok s
  | _, _ => false
  end.
Fixpoint wf_fields (l : layout) (vals : list value) : bool :=
  match l, vals with
  | [], [] => true
  | (k, w, _) :: l', v :: vals' => wf_field k w v && wf_fields l' vals'
  | _, _ => false
  end.
