(* Base library: result type, byte lists, little-endian codecs, bit-field helpers.
   Bytes are Z in [0,256) inside list Z. *)
From Coq Require Import ZArith List Bool Lia ZifyBool.
Import ListNotations.
Open Scope Z_scope.

Inductive err := EOverflow | EIndex | ELaspy | EValue | EShort | EFuel | EStop | EOther.
Inductive result (A : Type) := Ok (a : A) | Err (e : err).
Arguments Ok {A} a.
Arguments Err {A} e.

Definition bind {A B} (r : result A) (f : A -> result B) : result B :=
  match r with Ok a => f a | Err e => Err e end.
Notation "'do' x <- r ; k" := (bind r (fun x => k)) (at level 200, x pattern, r at level 100, k at level 200).

Definition is_ok {A} (r : result A) : bool := match r with Ok _ => true | Err _ => false end.

Definition byte_ok (b : Z) : bool := (0 <=? b) && (b <? 256).
Definition bytes_ok (bs : list Z) : bool := forallb byte_ok bs.

Definition len {A} (l : list A) : Z := Z.of_nat (length l).

(* little-endian, unsigned *)
Fixpoint le_enc (n : nat) (v : Z) : list Z :=
  match n with O => [] | S k => (v mod 256) :: le_enc k (v / 256) end.
Fixpoint le_dec (bs : list Z) : Z :=
  match bs with [] => 0 | b :: r => b + 256 * le_dec r end.

(* python int.to_bytes(n,'little',signed=False): OverflowError unless 0 <= v < 256^n *)
Definition to_bytes (n : nat) (v : Z) : result (list Z) :=
  if (0 <=? v) && (v <? 256 ^ Z.of_nat n) then Ok (le_enc n v) else Err EOverflow.

(* list helpers on Z positions *)
Definition take {A} (n : Z) (l : list A) : list A := firstn (Z.to_nat n) l.
Definition drop {A} (n : Z) (l : list A) : list A := skipn (Z.to_nat n) l.

(* read n bytes from the front; python stream.read may return short data *)
Definition read_exact (n : Z) (bs : list Z) : result (list Z * list Z) :=
  if len bs <? n then Err EShort else Ok (take n bs, drop n bs).

(* bit-field helpers: mask m (contiguous), value v *)
Definition lsb_pos (m : Z) : Z := Z.log2 (Z.land m (- m)).

(* python int.bit_length() *)
Definition py_bit_length (v : Z) : Z := if v =? 0 then 0 else Z.log2 (Z.abs v) + 1.

(* bounded universal quantification by complete enumeration *)
Fixpoint forall_from (k : nat) (start : Z) (f : Z -> bool) : bool :=
  match k with O => true | S k' => f start && forall_from k' (start + 1) f end.
Definition forall_below (n : Z) (f : Z -> bool) : bool := forall_from (Z.to_nat n) 0 f.
