From Coq Require Import ZArith List Bool Lia ZifyBool.
From LasV Require Import Lib.Base.
Import ListNotations.
Open Scope Z_scope.
Ltac Zify.zify_post_hook ::= Z.to_euclidean_division_equations.

Lemma le_enc_length n v : length (le_enc n v) = n.
Proof. revert v; induction n as [|n IH]; intros v; simpl; [reflexivity|]. now rewrite IH. Qed.

Lemma le_dec_enc n v : 0 <= v < 256 ^ Z.of_nat n -> le_dec (le_enc n v) = v.
Proof.
  revert v; induction n as [|n IH]; intros v Hv.
  - simpl in *. lia.
  - cbn [le_enc le_dec]. rewrite IH.
    + pose proof (Z.div_mod v 256). lia.
    + rewrite Nat2Z.inj_succ, Z.pow_succ_r in Hv by lia.
      split; [apply Z.div_pos; lia|]. apply Z.div_lt_upper_bound; lia.
Qed.

Lemma le_enc_bytes_ok n v : bytes_ok (le_enc n v) = true.
Proof.
  revert v; induction n as [|n IH]; intros v; simpl; [reflexivity|].
  rewrite IH, andb_true_r. unfold byte_ok. pose proof (Z.mod_pos_bound v 256). lia.
Qed.

Lemma le_dec_bounds bs : bytes_ok bs = true -> 0 <= le_dec bs < 256 ^ Z.of_nat (length bs).
Proof.
  induction bs as [|b r IH]; intros H.
  - simpl. lia.
  - simpl in H. apply andb_true_iff in H as [Hb Hr]. specialize (IH Hr).
    cbn [le_dec length]. rewrite Nat2Z.inj_succ, Z.pow_succ_r by lia.
    unfold byte_ok in Hb. lia.
Qed.

Lemma le_enc_dec bs : bytes_ok bs = true -> le_enc (length bs) (le_dec bs) = bs.
Proof.
  induction bs as [|b r IH]; intros H; [reflexivity|].
  simpl in H. apply andb_true_iff in H as [Hb Hr].
  cbn [length le_enc le_dec]. unfold byte_ok in Hb.
  replace ((b + 256 * le_dec r) mod 256) with b by lia.
  replace ((b + 256 * le_dec r) / 256) with (le_dec r) by lia.
  now rewrite IH.
Qed.

Lemma to_bytes_ok n v bs : to_bytes n v = Ok bs -> le_dec bs = v /\ length bs = n /\ bytes_ok bs = true.
Proof.
  unfold to_bytes. destruct ((0 <=? v) && (v <? 256 ^ Z.of_nat n)) eqn:E; [|discriminate].
  intros [= <-]. split; [apply le_dec_enc; lia|]. split; [apply le_enc_length|apply le_enc_bytes_ok].
Qed.

Lemma len_app {A} (a b : list A) : len (a ++ b) = len a + len b.
Proof. unfold len. rewrite app_length. lia. Qed.

Lemma len_nonneg {A} (a : list A) : 0 <= len a.
Proof. unfold len. lia. Qed.

Lemma take_app_exact {A} (a b : list A) : take (len a) (a ++ b) = a.
Proof. unfold take, len. rewrite Nat2Z.id. rewrite firstn_app, Nat.sub_diag, firstn_all. simpl. apply app_nil_r. Qed.

Lemma drop_app_exact {A} (a b : list A) : drop (len a) (a ++ b) = b.
Proof. unfold drop, len. rewrite Nat2Z.id. rewrite skipn_app, Nat.sub_diag, skipn_all. reflexivity. Qed.

Lemma read_exact_app n a b : len a = n -> read_exact n (a ++ b) = Ok (a, b).
Proof.
  intros <-. unfold read_exact. rewrite len_app.
  pose proof (len_nonneg b). destruct (len a + len b <? len a) eqn:E; [lia|].
  now rewrite take_app_exact, drop_app_exact.
Qed.

Lemma forall_from_spec k s f : forall_from k s f = true -> forall v, s <= v < s + Z.of_nat k -> f v = true.
Proof.
  revert s; induction k as [|k IH]; intros s H v Hv; [lia|].
  cbn [forall_from] in H. apply andb_true_iff in H as [H0 H1].
  destruct (Z.eq_dec v s) as [->|Hne]; [exact H0|].
  apply (IH (s + 1) H1). lia.
Qed.

Lemma forall_below_spec n f : forall_below n f = true -> forall v, 0 <= v < n -> f v = true.
Proof. unfold forall_below. intros H v Hv. apply (forall_from_spec _ _ _ H). lia. Qed.
