(* Extraction of the C14 compression-glue model for its correspondence check (ExtrOcamlBasic only).
   The backend is an argument of the extracted functions: ocaml/c14/driver.ml instantiates it with the format of
   harness/fake_lazrs. *)
Require Extraction.
Require Import ExtrOcamlBasic.
From Coq Require Import ZArith List.
From LasV Require Import Lib.Base Lib.Layout Gen.GenFormatBits Gen.GenC14 Model.Las Model.Laz Model.LazSelect Model.LazForm.
Extraction Language OCaml.
Extraction "../ocaml/c14/model.ml"
  Z.add Z.mul Z.sub Z.div_eucl Z.compare Z.of_nat Z.to_nat
  is_point_format_compressed compressed_id_to_uncompressed uncompressed_id_to_compressed
  rule ext_is_laz decide_open decide_lasdata decide_writer
  is_laszip mk_laszip count_lz writer_vlrs reader_open_vlrs reader_touch_vlrs vinit vstep vrun
  hc lzd enc_header dec_header with_stats stats0 std_size file_of read_file
  laz_file_of lz_session laz_source read_laz read_laz_ns laz_pstep las_pstep spec_pstep prun ops_ok lz_arun
  mask_record keep_byte sel_to_lazrs lz_select or_all selection_all selection_base selection_members selection_defaults
  selection_all_to_lazrs lz_layers has
  gen_reader_backends gen_writer_backends gen_appender_backends select_tried writer_variant form_names_a_backend form_names_serial.
