(* Extraction of the attribute-assignment model (Model/HeaderAttr.v) for the correspondence check of C07.
   ExtrOcamlBasic only; Z/N/positive/nat stay the extracted inductive datatypes. *)
Require Extraction.
Require Import ExtrOcamlBasic.
From Coq Require Import ZArith List.
From LasV Require Import Lib.Base Gen.GenDims Model.HeaderOps Model.HeaderAttr Model.HeaderRoute.
Extraction Language OCaml.
Extraction "../ocaml/c07/model.ml"
  Z.add Z.mul Z.sub Z.div_eucl Z.compare Z.of_nat Z.to_nat
  hstep2 hrun2 htrace2 route_computed route_computed_names sync_computed.
