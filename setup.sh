#!/bin/bash
# Build the framework from files on disk only (offline): regenerate Gen/ from /repo, compile the
# whole Coq development (full .vo), extract and compile the model driver.
set -e
cd "$(dirname "$0")"
REPO="${VERIF_REPO:-/repo}"
PYTHONPATH="$REPO" PYTHONHASHSEED=0 /venv/bin/python tools/py2v.py "$REPO" coq/Gen >/dev/null
cd coq
coq_makefile -f _CoqProject -o Makefile >/dev/null
# build everything that does not depend on a possibly-broken property file; failures are reported by the checks
timeout 3000 make -j16 -k >/var/tmp/verif-setup.log 2>&1 || { tail -30 /var/tmp/verif-setup.log; echo "setup: some Coq files did not build (the checks will report them)"; }
cd ../ocaml
mkdir -p ../bin
if [ -f model.ml ]; then
  ocamlfind ocamlopt -O3 -w -a -o ../bin/lasmodel model.mli model.ml driver.ml 2>/dev/null || ocamlfind ocamlopt -w -a -o ../bin/lasmodel model.mli model.ml driver.ml
fi
for d in */; do
  d="${d%/}"
  if [ -f "$d/model.ml" ] && [ -f "$d/driver.ml" ]; then
    (cd "$d" && (ocamlfind ocamlopt -O3 -w -a -o ../../bin/lasmodel_$d model.mli model.ml driver.ml 2>/dev/null || ocamlfind ocamlopt -w -a -o ../../bin/lasmodel_$d model.mli model.ml driver.ml))
  fi
done
echo "setup done"
