"""fake_lazrs -- a conforming, deliberately strict stand-in for the ``lazrs`` extension module.

Purpose
-------
No LAZ backend is installed in the verification environment, so none of laspy's compression glue
(`laspy/_compression/lazrsbackend.py`, the LAZ branches of `lasreader.py`, `laswriter.py`,
`lasappender.py`, `copc.py`) would ever run.  This module implements exactly the API surface of
``lazrs`` that laspy uses, on top of a trivially invertible chunked format, so that the glue becomes
executable.  It is one witness that the "backend contract" assumed by property C14 is satisfiable; it
is NOT LASzip: files produced here are only readable here.

Usage (in the harness process only -- nothing under /repo or site-packages is touched)::

    from harness import fake_lazrs
    fake_lazrs.install()            # BEFORE `import laspy`
    import laspy                    # laspy.LazBackend.Lazrs / LazrsParallel are now available
    fake_lazrs.CHUNK_SIZE = 7       # or: with fake_lazrs.chunk_size(7): ...

`install()` registers this module as ``sys.modules['lazrs']``.  When laspy was already imported it
also patches the module globals ``lazrs`` of `laspy._compression.lazrsbackend` / `laspy.copc` and
the `laz_backend=LazBackend.detect_available()` default arguments that were frozen at import time
(best effort; installing first is the supported way).

API surface (names and call shapes as in lazrs 0.5/0.6)
-------------------------------------------------------
`LazrsError` (RuntimeError) * `LazVlr(record_data)`, `LazVlr.new_for_compression(point_format_id,
num_extra_bytes, use_variable_size_chunks=False)`, `.record_data() -> bytes`, `.item_size()`,
`.chunk_size()`, `.uses_variable_size_chunks()` * `LasZipCompressor(dest, vlr)` /
`ParLasZipCompressor(dest, vlr)`: `reserve_offset_to_chunk_table()`, `compress_many(points)`,
`compress_chunks(chunks)`, `finish_current_chunk()` (variable-size only), `done()`, `vlr()` *
`LasZipDecompressor(source, record_data, selection=None)`: `decompress_many(dest)`, `seek(i)`,
`vlr()`, `read_chunk_table_only()`, `read_raw_bytes_into(buf)` * `ParLasZipDecompressor(source,
record_data, selection=None)`: `decompress_many`, `seek`, `vlr` (needs a seekable source: the
constructor raises `LazrsError` on a non-seekable one WITHOUT consuming anything from it) *
`LasZipAppender(dest, record_data)` / `ParLasZipAppender`: `compress_many`, `done` *
`decompress_points_with_chunk_table(compressed, record_data, out, chunk_table, selection=None)` *
`compress_points(vlr, points, parallel=False) -> bytes`, `decompress_points(compressed, record_data,
out, parallel=False, selection=None)` * `read_chunk_table(source, vlr)`, `write_chunk_table(dest,
table, vlr)` * `DecompressionSelection(value)` and the `SELECTIVE_DECOMPRESS_*` constants (the
selection is validated and then ignored: every field is always decompressed).
Extras for harness authors: `encode_chunk`, `decode_chunk`, `encode_chunk_table`, `POINT_SIZES`,
`chunk_size(n)` context manager, `install()`.

On-disk format
--------------
LasZip VLR record data (user id "laszip encoded", record id 22204), little endian, 40 bytes --
the field layout of the real record with one pseudo item::

    u16 compressor (2 point-wise chunked for formats 0-5, 3 layered chunked for 6-10)
    u16 coder      = 0xFA4E   (marker: "this is a fake_lazrs record"; real LASzip uses 0)
    u8 2, u8 2, u16 0         (version)            u32 options = 0
    u32 chunk_size            (points per chunk; 0xFFFFFFFF = variable-size chunks)
    i64 -1, i64 -1            (special EVLRs: none)
    u16 num_items = 1;  item: u16 type = 0, u16 size = point size in bytes, u16 version = point format id

Point data, starting at `offset_to_point_data`::

    i64  absolute file offset of the chunk table (-1 while the compressor is not `done()`)
    chunk*        every chunk is self-contained:
                    "FKCH"  u32 n_points  u32 item_size
                    n_points*item_size bytes: record bytes XOR keystream, keystream[j] =
                        (0x5B + 73*j + (j >> 8)) & 0xFF, j = byte index inside the chunk body
                    u32 crc32 of the plain record bytes
                  all chunks hold exactly `chunk_size` points except the last one (fixed-size mode),
                  a file with 0 points has 0 chunks
    chunk table   "FKTB"  u32 version = 0  u32 n_chunks  (u64 n_points, u64 n_bytes)*n_chunks
                  u32 crc32 of the entry bytes;  it starts right after the last chunk
    (EVLRs, when any, are written by laspy right after the chunk table)

Strictness (misuse by the glue raises `LazrsError`)
---------------------------------------------------
* buffers whose length is not a multiple of the item size; a VLR record that is not ours;
* asking for more points than the stream holds; a chunk with a bad magic / size / checksum / count
  differing from the chunk table; a chunk table with a bad magic / checksum or that does not start
  right after the last chunk;
* `compress_many` after `done()`, `done()` twice; the destination position having been moved
  between two calls of a compressor/appender (somebody else wrote to / seeked the file);
* `seek` on a non-seekable source; `ParLasZipDecompressor` on a non-seekable source;
  `read_chunk_table_only` when the decompressor is not exactly at the start of the chunk table;
* decompressors read the source through their own read-ahead buffer (like the BufReader of the real
  extension): after a decompressor was created, the Python file position is NOT where the
  logical position is -- raw bytes must be obtained through `read_raw_bytes_into`.
After `done()` the destination position is right after the chunk table (end of the compressor's data).
"""
import contextlib
import struct
import sys
import zlib

import numpy as np

__all__ = [
    "LazrsError", "LazVlr", "LasZipCompressor", "ParLasZipCompressor", "LasZipDecompressor",
    "ParLasZipDecompressor", "LasZipAppender", "ParLasZipAppender", "DecompressionSelection",
    "decompress_points_with_chunk_table", "compress_points", "decompress_points",
    "read_chunk_table", "write_chunk_table", "install", "chunk_size", "CHUNK_SIZE",
]

# ----------------------------------------------------------------------------------------------
# configuration
# ----------------------------------------------------------------------------------------------
CHUNK_SIZE = 50
"""Points per chunk of newly created `LazVlr.new_for_compression` records (real lazrs: 50 000)."""
READ_AHEAD = 4096
"""Decompressors pull at least this many bytes per read from their source."""
VARIABLE_CHUNK_SIZE = 0xFFFFFFFF
FAKE_CODER = 0xFA4E
POINT_SIZES = (20, 28, 26, 34, 57, 63, 30, 36, 38, 59, 67)

CHUNK_MAGIC = b"FKCH"
TABLE_MAGIC = b"FKTB"
CHUNK_OVERHEAD = 16          # magic + n_points + item_size + crc

STATS = {"compressors": 0, "decompressors": 0, "appenders": 0, "chunks_written": 0, "chunks_read": 0,
         "par_rejected_non_seekable": 0}
"""Counters a harness can inspect to make sure the LAZ code paths really ran."""


class LazrsError(RuntimeError):
    pass


@contextlib.contextmanager
def chunk_size(n):
    """with fake_lazrs.chunk_size(7): ...  -- temporarily change CHUNK_SIZE."""
    global CHUNK_SIZE
    old = CHUNK_SIZE
    CHUNK_SIZE = int(n)
    try:
        yield
    finally:
        CHUNK_SIZE = old


# ----------------------------------------------------------------------------------------------
# selection
# ----------------------------------------------------------------------------------------------
SELECTIVE_DECOMPRESS_XY_RETURNS_CHANNEL = 0
SELECTIVE_DECOMPRESS_Z = 1 << 0
SELECTIVE_DECOMPRESS_CLASSIFICATION = 1 << 1
SELECTIVE_DECOMPRESS_FLAGS = 1 << 2
SELECTIVE_DECOMPRESS_INTENSITY = 1 << 3
SELECTIVE_DECOMPRESS_SCAN_ANGLE = 1 << 4
SELECTIVE_DECOMPRESS_USER_DATA = 1 << 5
SELECTIVE_DECOMPRESS_POINT_SOURCE_ID = 1 << 6
SELECTIVE_DECOMPRESS_GPS_TIME = 1 << 7
SELECTIVE_DECOMPRESS_RGB = 1 << 8
SELECTIVE_DECOMPRESS_NIR = 1 << 9
SELECTIVE_DECOMPRESS_WAVEPACKET = 1 << 10
SELECTIVE_DECOMPRESS_ALL_EXTRA_BYTES = 1 << 11
SELECTIVE_DECOMPRESS_ALL = 0xFFFFFFFF


class DecompressionSelection:
    def __init__(self, value):
        value = int(value)
        if not 0 <= value <= 0xFFFFFFFF:
            raise OverflowError("DecompressionSelection out of u32 range")
        self.value = value

    def __eq__(self, other):
        return isinstance(other, DecompressionSelection) and other.value == self.value

    def __hash__(self):
        return hash(self.value)

    def __repr__(self):
        return f"DecompressionSelection({self.value:#x})"


def _check_selection(selection):
    if selection is not None and not isinstance(selection, DecompressionSelection):
        raise TypeError("selection must be a lazrs.DecompressionSelection or None")


# ----------------------------------------------------------------------------------------------
# low level encoding
# ----------------------------------------------------------------------------------------------
_KS = np.zeros(0, dtype=np.uint8)


def _keystream(n):
    global _KS
    if len(_KS) < n:
        j = np.arange(max(n, 2 * len(_KS), 4096), dtype=np.uint64)
        _KS = ((j * 73 + 0x5B + (j >> 8)) & 0xFF).astype(np.uint8)
    return _KS[:n]


def _xor(data):
    a = np.frombuffer(data, dtype=np.uint8)
    return np.bitwise_xor(a, _keystream(len(a))).tobytes()


def _as_bytes(points, what="points"):
    """bytes of a bytes-like / numpy object (C-contiguous)."""
    try:
        if isinstance(points, np.ndarray):
            return np.ascontiguousarray(points).view(np.uint8).reshape(-1).tobytes()
        return bytes(memoryview(points).cast("B"))
    except (TypeError, ValueError) as ex:
        raise TypeError(f"{what}: expected a contiguous bytes-like object ({ex})")


def _writable_view(dest):
    try:
        if isinstance(dest, np.ndarray):
            if not dest.flags.c_contiguous:
                raise TypeError("output array is not contiguous")
            if not dest.flags.writeable:
                raise TypeError("output array is read-only")
            return memoryview(dest.view(np.uint8).reshape(-1))
        mv = memoryview(dest).cast("B")
    except (TypeError, ValueError) as ex:
        raise TypeError(f"expected a writable contiguous buffer ({ex})")
    if mv.readonly:
        raise TypeError("output buffer is read-only")
    return mv


def encode_chunk(points, item_size):
    """One self-contained chunk holding the given record bytes."""
    points = _as_bytes(points)
    if item_size <= 0 or len(points) % item_size:
        raise LazrsError(f"chunk of {len(points)} bytes is not a multiple of the item size {item_size}")
    n = len(points) // item_size
    return (CHUNK_MAGIC + struct.pack("<II", n, item_size) + _xor(points)
            + struct.pack("<I", zlib.crc32(points) & 0xFFFFFFFF))


def _chunk_header(head, item_size):
    if len(head) < 12 or head[:4] != CHUNK_MAGIC:
        raise LazrsError(f"corrupted chunk: bad magic {bytes(head[:4])!r}")
    n, isz = struct.unpack("<II", head[4:12])
    if isz != item_size:
        raise LazrsError(f"corrupted chunk: item size {isz}, the LasZip record says {item_size}")
    return n


def decode_chunk(buf, item_size, expect_points=None):
    """Inverse of `encode_chunk`; `buf` must be exactly one chunk."""
    buf = bytes(buf)
    n = _chunk_header(buf[:12], item_size)
    if expect_points is not None and n != expect_points:
        raise LazrsError(f"corrupted chunk: holds {n} points, the chunk table says {expect_points}")
    if len(buf) != CHUNK_OVERHEAD + n * item_size:
        raise LazrsError(f"corrupted chunk: {len(buf)} bytes for {n} points of {item_size} bytes")
    plain = _xor(buf[12:-4])
    (crc,) = struct.unpack("<I", buf[-4:])
    if zlib.crc32(plain) & 0xFFFFFFFF != crc:
        raise LazrsError("corrupted chunk: checksum mismatch")
    return plain


def encode_chunk_table(table):
    ent = b"".join(struct.pack("<QQ", int(p), int(b)) for p, b in table)
    return (TABLE_MAGIC + struct.pack("<II", 0, len(table)) + ent
            + struct.pack("<I", zlib.crc32(ent) & 0xFFFFFFFF))


def _parse_chunk_table(read_exact):
    head = read_exact(12)
    if head[:4] != TABLE_MAGIC:
        raise LazrsError(f"corrupted chunk table: bad magic {bytes(head[:4])!r}")
    version, n = struct.unpack("<II", head[4:12])
    if version != 0:
        raise LazrsError(f"corrupted chunk table: version {version}")
    ent = read_exact(16 * n)
    (crc,) = struct.unpack("<I", read_exact(4))
    if zlib.crc32(ent) & 0xFFFFFFFF != crc:
        raise LazrsError("corrupted chunk table: checksum mismatch")
    return [struct.unpack_from("<QQ", ent, 16 * i) for i in range(n)]


# ----------------------------------------------------------------------------------------------
# the LasZip record
# ----------------------------------------------------------------------------------------------
class LazVlr:
    def __init__(self, record_data):
        data = _as_bytes(record_data, "record_data")
        if len(data) != 40:
            raise LazrsError(f"LasZip record of {len(data)} bytes, expected 40 (not written by fake_lazrs?)")
        (compressor, coder, vmaj, vmin, vrev, options, csize, nsp, osp, nitems,
         itype, isize, iversion) = struct.unpack("<HHBBHIIqqHHHH", data)
        if coder != FAKE_CODER:
            raise LazrsError("LasZip record was not written by fake_lazrs (coder marker missing)")
        if compressor not in (2, 3) or nitems != 1 or itype != 0 or isize == 0 or csize == 0:
            raise LazrsError("corrupted LasZip record")
        self._compressor = compressor
        self._chunk_size = csize
        self._item_size = isize
        self._point_format_id = iversion
        self._data = data

    @staticmethod
    def new_for_compression(point_format_id, num_extra_bytes, use_variable_size_chunks=False):
        point_format_id = int(point_format_id)
        num_extra_bytes = int(num_extra_bytes)
        if not 0 <= point_format_id < len(POINT_SIZES):
            raise LazrsError(f"unsupported point format id {point_format_id}")
        if not 0 <= num_extra_bytes <= 0xFFFF - POINT_SIZES[point_format_id]:
            raise OverflowError("num_extra_bytes out of range")
        csize = VARIABLE_CHUNK_SIZE if use_variable_size_chunks else int(CHUNK_SIZE)
        if not 0 < csize <= 0xFFFFFFFF:
            raise LazrsError(f"invalid chunk size {csize}")
        data = struct.pack("<HHBBHIIqqHHHH", 2 if point_format_id < 6 else 3, FAKE_CODER, 2, 2, 0, 0,
                           csize, -1, -1, 1, 0, POINT_SIZES[point_format_id] + num_extra_bytes, point_format_id)
        return LazVlr(data)

    def record_data(self):
        return self._data

    def item_size(self):
        return self._item_size

    def chunk_size(self):
        return self._chunk_size

    def uses_variable_size_chunks(self):
        return self._chunk_size == VARIABLE_CHUNK_SIZE

    def __repr__(self):
        return f"LazVlr(item_size={self._item_size}, chunk_size={self._chunk_size}, fmt={self._point_format_id})"


def _vlr_of(obj):
    return obj if isinstance(obj, LazVlr) else LazVlr(obj)


# ----------------------------------------------------------------------------------------------
# compressor / appender
# ----------------------------------------------------------------------------------------------
class _CompressorBase:
    def _init(self, dest, vlr):
        for m in ("write", "seek", "tell"):
            if not hasattr(dest, m):
                raise TypeError(f"destination has no '{m}' method")
        self._dest = dest
        self._vlr = vlr
        self._start = None          # position of the 8-byte chunk table offset
        self._expected = None       # where the destination must be when we write next
        self._buf = bytearray()
        self._table = []
        self._finished = False

    # -- helpers
    def _write(self, data):
        pos = self._dest.tell()
        if self._expected is not None and pos != self._expected:
            raise LazrsError(f"destination is at {pos}, the compressor left it at {self._expected}: "
                             "something else moved or wrote to the destination")
        self._dest.write(data)
        self._expected = pos + len(data)

    def _emit(self, nbytes):
        chunk = encode_chunk(bytes(self._buf[:nbytes]), self._vlr.item_size())
        del self._buf[:nbytes]
        self._write(chunk)
        self._table.append((nbytes // self._vlr.item_size(), len(chunk)))
        STATS["chunks_written"] += 1

    def _check_open(self):
        if self._finished:
            raise LazrsError("the compressor is done, cannot be used any more")

    # -- API
    def reserve_offset_to_chunk_table(self):
        self._check_open()
        if self._start is not None:
            raise LazrsError("offset to chunk table already reserved")
        self._start = self._dest.tell()
        self._write(struct.pack("<q", -1))

    def compress_many(self, points):
        self._check_open()
        data = _as_bytes(points)
        isz = self._vlr.item_size()
        if len(data) % isz:
            raise LazrsError(f"points buffer of {len(data)} bytes is not a multiple of the point size {isz}")
        if self._start is None:
            self.reserve_offset_to_chunk_table()
        self._buf += data
        if not self._vlr.uses_variable_size_chunks():
            full = self._vlr.chunk_size() * isz
            while len(self._buf) >= full:
                self._emit(full)

    def finish_current_chunk(self):
        self._check_open()
        if not self._vlr.uses_variable_size_chunks():
            raise LazrsError("finish_current_chunk needs a variable-size chunk LazVlr")
        if self._start is None:
            self.reserve_offset_to_chunk_table()
        if self._buf:
            self._emit(len(self._buf))

    def compress_chunks(self, chunks):
        for c in chunks:
            self.compress_many(c)
            self.finish_current_chunk()

    def done(self):
        self._check_open()
        if self._start is None:
            self.reserve_offset_to_chunk_table()
        if self._buf:
            self._emit(len(self._buf))
        table_pos = self._expected
        self._write(encode_chunk_table(self._table))
        end = self._expected
        self._dest.seek(self._start)
        self._dest.write(struct.pack("<q", table_pos))
        self._dest.seek(end)
        self._finished = True

    def vlr(self):
        return self._vlr


class LasZipCompressor(_CompressorBase):
    def __init__(self, dest, vlr):
        if not isinstance(vlr, LazVlr):
            raise TypeError("vlr must be a lazrs.LazVlr")
        self._init(dest, vlr)
        STATS["compressors"] += 1


class ParLasZipCompressor(LasZipCompressor):
    pass


class LasZipAppender(_CompressorBase):
    """`dest` must be positioned on the 8-byte chunk table offset (= offset_to_point_data) of a
    finished stream.  The last, partially filled chunk is taken back into the buffer, the destination is
    left at the place where the next chunk will be written (<= the old chunk table position)."""

    def __init__(self, dest, laz_vlr_record_data):
        self._init(dest, _vlr_of(laz_vlr_record_data))
        if hasattr(dest, "seekable") and not dest.seekable():
            raise LazrsError("cannot append to a non-seekable destination")
        if not hasattr(dest, "read"):
            raise TypeError("destination has no 'read' method")
        isz = self._vlr.item_size()
        self._start = dest.tell()

        def read_exact(n):
            d = dest.read(n)
            if d is None or len(d) != n:
                raise LazrsError("unexpected end of data")
            return bytes(d)

        (off,) = struct.unpack("<q", read_exact(8))
        if off < self._start + 8:
            raise LazrsError(f"invalid offset to chunk table {off} (stream starts at {self._start}): the "
                             "destination is not positioned at the start of finished LAZ point data")
        dest.seek(off)
        table = _parse_chunk_table(read_exact)
        if self._start + 8 + sum(b for _, b in table) != off:
            raise LazrsError("corrupted chunk table: does not start right after the last chunk")
        pos = off
        if table and not self._vlr.uses_variable_size_chunks():
            cs = self._vlr.chunk_size()
            if any(p != cs for p, _ in table[:-1]) or not 0 < table[-1][0] <= cs:
                raise LazrsError("corrupted chunk table: chunk sizes differ from the LasZip record")
            if table[-1][0] < cs:
                n, nbytes = table.pop()
                pos = off - nbytes
                dest.seek(pos)
                self._buf += decode_chunk(read_exact(nbytes), isz, n)
                STATS["chunks_read"] += 1
        dest.seek(pos)
        self._table = [tuple(e) for e in table]
        self._expected = pos
        STATS["appenders"] += 1


class ParLasZipAppender(LasZipAppender):
    pass


# ----------------------------------------------------------------------------------------------
# decompressor
# ----------------------------------------------------------------------------------------------
class _BufferedSource:
    def __init__(self, f):
        if not hasattr(f, "read"):
            raise TypeError("source has no 'read' method")
        self.f = f
        self.buf = b""
        try:
            self.seekable = bool(f.seekable())
        except AttributeError:
            self.seekable = hasattr(f, "seek") and hasattr(f, "tell")

    def read_exact(self, n):
        while len(self.buf) < n:
            d = self.f.read(max(n - len(self.buf), READ_AHEAD))
            if not d:
                raise LazrsError("unexpected end of data")
            self.buf += bytes(d)
        out, self.buf = self.buf[:n], self.buf[n:]
        return out

    def tell(self):
        return self.f.tell() - len(self.buf)

    def seek(self, pos):
        self.f.seek(pos)
        self.buf = b""


class _DecompressorBase:
    def _init(self, source, record_data, selection, need_seek):
        _check_selection(selection)
        self._vlr = _vlr_of(record_data)
        src = _BufferedSource(source)
        if need_seek and not src.seekable:
            STATS["par_rejected_non_seekable"] += 1
            raise LazrsError("the parallel decompressor needs a seekable source")
        self._src = src
        self._cur = b""
        self._cur_off = 0
        self._next = 0              # index of the next chunk to load
        self._table = None
        self._at_table = False
        if src.seekable:
            self._start = src.tell()
            (off,) = struct.unpack("<q", src.read_exact(8))
            if off < self._start + 8:
                raise LazrsError(f"invalid offset to chunk table {off}")
            src.seek(off)
            self._table = [tuple(e) for e in _parse_chunk_table(src.read_exact)]
            if self._start + 8 + sum(b for _, b in self._table) != off:
                raise LazrsError("corrupted chunk table: does not start right after the last chunk")
            src.seek(self._start + 8)
        else:
            self._start = None
            src.read_exact(8)       # offset to the chunk table: useless without seeking
        STATS["decompressors"] += 1

    def _load_next(self):
        isz = self._vlr.item_size()
        if self._table is not None:
            if self._next >= len(self._table):
                raise LazrsError("no more points to decompress")
            n, nbytes = self._table[self._next]
            self._cur = decode_chunk(self._src.read_exact(nbytes), isz, n)
        else:
            head = self._src.read_exact(12)
            if head[:4] == TABLE_MAGIC:
                # put it back: the table is still to be read by read_chunk_table_only
                self._src.buf = head + self._src.buf
                raise LazrsError("no more points to decompress")
            n = _chunk_header(head, isz)
            self._cur = decode_chunk(head + self._src.read_exact(n * isz + 4), isz, n)
        self._cur_off = 0
        self._next += 1
        STATS["chunks_read"] += 1

    def decompress_many(self, dest):
        mv = _writable_view(dest)
        isz = self._vlr.item_size()
        if len(mv) % isz:
            raise LazrsError(f"output buffer of {len(mv)} bytes is not a multiple of the point size {isz}")
        done = 0
        while done < len(mv):
            if self._cur_off >= len(self._cur):
                self._load_next()
            k = min(len(mv) - done, len(self._cur) - self._cur_off)
            mv[done:done + k] = self._cur[self._cur_off:self._cur_off + k]
            done += k
            self._cur_off += k

    def seek(self, point_idx):
        point_idx = int(point_idx)
        if self._table is None:
            raise LazrsError("cannot seek: the source is not seekable")
        if point_idx < 0:
            raise OverflowError("can't convert negative int to unsigned")
        isz = self._vlr.item_size()
        first, byte_pos = 0, self._start + 8
        for i, (n, nbytes) in enumerate(self._table):
            if point_idx < first + n:
                self._src.seek(byte_pos)
                self._next = i
                self._cur = b""
                self._load_next()
                self._cur_off = (point_idx - first) * isz
                return
            first += n
            byte_pos += nbytes
        if point_idx > first:
            raise LazrsError(f"cannot seek to point {point_idx}: the stream holds {first} points")
        # exactly the end: nothing left to read
        self._src.seek(byte_pos)
        self._next = len(self._table)
        self._cur, self._cur_off = b"", 0

    def vlr(self):
        return self._vlr


class LasZipDecompressor(_DecompressorBase):
    def __init__(self, source, record_data, selection=None):
        self._init(source, record_data, selection, need_seek=False)

    def read_chunk_table_only(self):
        """The source must be exactly at the start of the chunk table (all points consumed)."""
        if self._cur_off < len(self._cur):
            raise LazrsError("not at the start of the chunk table: the current chunk still holds points")
        if self._table is not None and self._next < len(self._table):
            raise LazrsError("not at the start of the chunk table: some chunks were not read")
        return [tuple(e) for e in _parse_chunk_table(self._src.read_exact)]

    def read_raw_bytes_into(self, buf):
        mv = _writable_view(buf)
        mv[:] = self._src.read_exact(len(mv))


class ParLasZipDecompressor(_DecompressorBase):
    def __init__(self, source, vlr_record_data, selection=None):
        self._init(source, vlr_record_data, selection, need_seek=True)


# ----------------------------------------------------------------------------------------------
# free functions
# ----------------------------------------------------------------------------------------------
def decompress_points_with_chunk_table(compressed_points_data, laszip_vlr_record_data, decompressed_points,
                                       chunk_table, selection=None):
    """`compressed_points_data` = the listed chunks back to back (no offset, no table)."""
    _check_selection(selection)
    vlr = _vlr_of(laszip_vlr_record_data)
    isz = vlr.item_size()
    data = _as_bytes(compressed_points_data, "compressed_points_data")
    out = _writable_view(decompressed_points)
    table = [(int(p), int(b)) for p, b in chunk_table]
    if sum(p for p, _ in table) * isz != len(out):
        raise LazrsError(f"output buffer of {len(out)} bytes, the chunk table describes "
                         f"{sum(p for p, _ in table)} points of {isz} bytes")
    if sum(b for _, b in table) != len(data):
        raise LazrsError(f"{len(data)} compressed bytes, the chunk table describes {sum(b for _, b in table)}")
    ipos = opos = 0
    for n, nbytes in table:
        out[opos:opos + n * isz] = decode_chunk(data[ipos:ipos + nbytes], isz, n)
        STATS["chunks_read"] += 1
        ipos += nbytes
        opos += n * isz


def compress_points(laszip_vlr, uncompressed_points, parallel=False):
    """-> bytes: offset (relative to the start of the returned buffer) + chunks + chunk table."""
    import io
    if not isinstance(laszip_vlr, LazVlr):
        raise TypeError("laszip_vlr must be a lazrs.LazVlr")
    out = io.BytesIO()
    c = (ParLasZipCompressor if parallel else LasZipCompressor)(out, laszip_vlr)
    c.compress_many(uncompressed_points)
    c.done()
    return out.getvalue()


def decompress_points(compressed_points_data, laszip_vlr_record_data, decompressed_points, parallel=False,
                      selection=None):
    import io
    src = io.BytesIO(_as_bytes(compressed_points_data, "compressed_points_data"))
    d = (ParLasZipDecompressor if parallel else LasZipDecompressor)(src, laszip_vlr_record_data, selection)
    d.decompress_many(decompressed_points)


def read_chunk_table(source, vlr):
    """`source` positioned on the 8-byte offset; returns [(point_count, byte_count)] and restores the position."""
    if not isinstance(vlr, LazVlr):
        raise TypeError("vlr must be a lazrs.LazVlr")
    start = source.tell()

    def read_exact(n):
        d = source.read(n)
        if d is None or len(d) != n:
            raise LazrsError("unexpected end of data")
        return bytes(d)

    (off,) = struct.unpack("<q", read_exact(8))
    if off < start + 8:
        raise LazrsError(f"invalid offset to chunk table {off}")
    source.seek(off)
    table = [tuple(e) for e in _parse_chunk_table(read_exact)]
    source.seek(start)
    return table


def write_chunk_table(dest, chunk_table, vlr):
    """Writes the table at the current position (the 8-byte offset is the caller's business)."""
    if not isinstance(vlr, LazVlr):
        raise TypeError("vlr must be a lazrs.LazVlr")
    dest.write(encode_chunk_table([(int(p), int(b)) for p, b in chunk_table]))


# ----------------------------------------------------------------------------------------------
# installation
# ----------------------------------------------------------------------------------------------
def install(chunk_size=None):
    """Register this module as `lazrs`.  Call it before laspy is imported."""
    global CHUNK_SIZE
    mod = sys.modules[__name__]
    if chunk_size is not None:
        CHUNK_SIZE = int(chunk_size)
    sys.modules["lazrs"] = mod
    if "laspy" in sys.modules:
        # late installation: patch what was frozen when laspy was imported without a backend
        import inspect
        import laspy
        from laspy._compression import lazrsbackend
        lazrsbackend.lazrs = mod
        try:
            from laspy import copc
            copc.lazrs = mod
        except Exception:
            pass
        avail = laspy.LazBackend.detect_available()
        for fn in (getattr(laspy.lib, "read_las", None), getattr(laspy.lib, "write_then_read_again", None)):
            if fn is None or not fn.__defaults__:
                continue
            names = [p.name for p in inspect.signature(fn).parameters.values() if p.default is not p.empty]
            d = list(fn.__defaults__)
            for i, nm in enumerate(names):
                if nm == "laz_backend" and isinstance(d[i], tuple):
                    d[i] = avail
            fn.__defaults__ = tuple(d)
    return mod


def installed():
    return sys.modules.get("lazrs") is sys.modules[__name__]
