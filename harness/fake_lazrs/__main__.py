"""Self-test of the lazrs stand-in:  cd /verif && PYTHONPATH=/repo /venv/bin/python -m harness.fake_lazrs

Round-trips through laspy (whole file, chunked, seek, append, EVLRs, non-seekable sources, serial and
parallel classes, counts straddling the chunk size) and checks that the strict checks fire."""
import io
import os
import sys

from harness import fake_lazrs

fake_lazrs.install()
sys.path.insert(0, os.environ.get("VERIF_REPO", "/repo"))

import numpy as np  # noqa: E402
import laspy  # noqa: E402

FAILS = []
CHECKS = [0]


def check(cond, what):
    CHECKS[0] += 1
    if not cond:
        FAILS.append(what)
        print("FAIL:", what)


def raises(fn, what, exc=fake_lazrs.LazrsError):
    try:
        fn()
    except exc:
        CHECKS[0] += 1
        return
    except Exception as ex:  # noqa
        FAILS.append(f"{what}: raised {type(ex).__name__}: {ex}")
        print("FAIL:", FAILS[-1])
        return
    FAILS.append(f"{what}: did not raise")
    print("FAIL:", FAILS[-1])


class NonSeekable:
    """Only read/seekable/close, like the test-suite's NonSeekableStream."""

    def __init__(self, data):
        self.inner = io.BytesIO(data)

    def read(self, n):
        return self.inner.read(n)

    def seekable(self):
        return False

    def close(self):
        pass


def make_las(n, fmt=3, version="1.2", extra=False, evlrs=0, seed=0):
    rng = np.random.default_rng(seed + n)
    h = laspy.LasHeader(point_format=fmt, version=version)
    h.scales = [0.01, 0.01, 0.01]
    if extra:
        h.add_extra_dim(laspy.ExtraBytesParams(name="e1", type="u2"))
    las = laspy.LasData(h)
    las.points = laspy.ScaleAwarePointRecord.zeros(n, header=h)
    las.X = rng.integers(-2**31, 2**31 - 1, n)
    las.Y = rng.integers(-1000, 1000, n)
    las.Z = np.arange(n)
    las.intensity = rng.integers(0, 65535, n)
    las.return_number = rng.integers(1, 5, n)
    if extra:
        las.e1 = rng.integers(0, 65535, n)
    las.vlrs.append(laspy.VLR(user_id="selftest", record_id=7, description="d", record_data=b"abc"))
    if evlrs:
        las.evlrs = laspy.vlrs.vlrlist.VLRList(
            [laspy.VLR(user_id="ev", record_id=i, description="e", record_data=bytes([i]) * (i + 3)) for i in range(evlrs)])
    return las


def to_bytes(las, **kw):
    out = io.BytesIO()
    las.write(out, **kw)
    return out.getvalue()


def pts(x):
    return bytes(x.points.array.tobytes() if hasattr(x, "points") else x.array.tobytes())


def vl(l):
    return [(v.user_id, v.record_id, bytes(v.record_data_bytes())) for v in (l or [])]


def main():
    B = laspy.LazBackend
    check(B.detect_available() == (B.LazrsParallel, B.Lazrs), f"detect_available {B.detect_available()}")
    for cs in (1, 4, 50):
        fake_lazrs.CHUNK_SIZE = cs
        for n in sorted({0, 1, cs - 1, cs, cs + 1, 2 * cs, 2 * cs + 1, 3 * cs + 2} - {-1}):
            for fmt, ver, extra, nev in ((3, "1.2", False, 0), (6, "1.4", True, 2), (1, "1.4", False, 1)):
                las = make_las(n, fmt, ver, extra, nev)
                raw = to_bytes(las)
                ref = laspy.read(raw)
                for backend in (B.Lazrs, B.LazrsParallel, (B.LazrsParallel, B.Lazrs), None):
                    tag = f"cs={cs} n={n} fmt={fmt} backend={backend}"
                    laz = to_bytes(las, do_compress=True, laz_backend=backend)
                    check(laz[104] == (fmt | 0x80), f"{tag}: compressed bit, byte={laz[104]}")
                    # whole file
                    got = laspy.read(laz, laz_backend=backend) if backend is not None else laspy.read(laz)
                    check(pts(got) == pts(ref), f"{tag}: whole-file points")
                    check(vl(got.vlrs) == vl(ref.vlrs), f"{tag}: vlrs {vl(got.vlrs)}")
                    check(vl(got.evlrs) == vl(ref.evlrs), f"{tag}: evlrs")
                    check(got.header.point_count == n and not any(v.record_id == 22204 for v in got.vlrs),
                          f"{tag}: count / laszip hidden")
                    check(np.array_equal(got.header.maxs, ref.header.maxs) and
                          np.array_equal(got.header.mins, ref.header.mins), f"{tag}: extrema")
                    # chunked
                    for it in (1, cs, cs + 1, 7):
                        with laspy.open(laz, laz_backend=backend) as r:
                            acc = b"".join(pts(c) for c in r.chunk_iterator(it))
                        check(acc == pts(ref), f"{tag}: chunked it={it}")
                    # seek
                    if n:
                        for i in sorted({0, n - 1, n // 2, min(cs, n - 1), max(0, min(cs - 1, n - 1))}):
                            with laspy.open(laz, laz_backend=backend) as r:
                                r.seek(i)
                                tail = pts(r.read_points(-1))
                            sz = ref.header.point_format.size
                            check(tail == pts(ref)[i * sz:], f"{tag}: seek {i}")
                    # non seekable (parallel first in a list must fall back)
                    if n == 0 and nev:
                        pass    # laspy itself refuses a 0-point LAZ with EVLRs on a non-seekable source (no backend object exists)
                    elif backend != B.LazrsParallel:
                        kw = {} if backend is None else {"laz_backend": backend}
                        got = laspy.read(NonSeekable(laz), closefd=False, **kw)
                        check(pts(got) == pts(ref) and vl(got.evlrs) == vl(ref.evlrs) and vl(got.vlrs) == vl(ref.vlrs),
                              f"{tag}: non-seekable read (evlrs {vl(got.evlrs)})")
                    elif n:
                        raises(lambda: laspy.read(NonSeekable(laz), closefd=False, laz_backend=backend),
                               f"{tag}: parallel on non-seekable")
                    # append
                    more = make_las(cs + 1, fmt, ver, extra, 0, seed=99)
                    for k in (0, 1, cs + 1):
                        f1, f2 = io.BytesIO(laz), io.BytesIO(raw)
                        for f in (f1, f2):
                            kw = {} if backend is None else {"laz_backend": backend}
                            with laspy.open(f, mode="a", closefd=False, **kw) as a:
                                a.append_points(more.points[:k])
                                a.append_points(more.points[k:k + 2])
                        a1, a2 = laspy.read(f1.getvalue()), laspy.read(f2.getvalue())
                        check(pts(a1) == pts(a2) and len(a1.points) == n + min(k + 2, cs + 1) - 0,
                              f"{tag}: append k={k} ({len(a1.points)} vs {len(a2.points)})")
                        check(vl(a1.evlrs) == vl(a2.evlrs) and vl(a1.vlrs) == vl(a2.vlrs), f"{tag}: append k={k} vlrs/evlrs")
                        check(np.array_equal(a1.header.maxs, a2.header.maxs), f"{tag}: append extrema")
                    # re-write of what was read: exactly one laszip record, none leaked
                    again = to_bytes(got, do_compress=True)
                    h2 = laspy.open(again).header
                    plain = laspy.open(to_bytes(got, do_compress=False)).header
                    check(sum(v.record_id == 22204 for v in h2.vlrs) == (1 if n else 0) and
                          not any(v.record_id == 22204 for v in plain.vlrs), f"{tag}: laszip record on re-write")
    fake_lazrs.CHUNK_SIZE = 5
    # strictness
    las = make_las(12)
    laz = bytearray(to_bytes(las, do_compress=True))
    off = laspy.open(bytes(laz)).header.offset_to_point_data
    bad = bytearray(laz)
    bad[off + 8 + 20] ^= 1
    raises(lambda: laspy.read(bytes(bad), laz_backend=B.Lazrs), "corrupted chunk is detected")
    bad = bytearray(laz)
    bad[107] = 13  # header says 13 points, the stream holds 12  (legacy count at 107)
    raises(lambda: laspy.read(bytes(bad), laz_backend=B.Lazrs), "too many points requested")
    vlr = fake_lazrs.LazVlr.new_for_compression(3, 0)
    raises(lambda: fake_lazrs.LasZipCompressor(io.BytesIO(), vlr).compress_many(b"\0" * 35), "bad buffer size")
    c = fake_lazrs.LasZipCompressor(io.BytesIO(), vlr)
    c.done()
    raises(c.done, "done twice")
    raises(lambda: c.compress_many(b"\0" * 34), "compress after done")
    out = io.BytesIO()
    c = fake_lazrs.LasZipCompressor(out, vlr)
    c.compress_many(b"\1" * 34 * 5)
    out.write(b"x")
    raises(lambda: c.compress_many(b"\1" * 34 * 5), "destination moved")
    raises(lambda: fake_lazrs.LazVlr(b"\0" * 40), "foreign laszip record")
    raises(lambda: fake_lazrs.ParLasZipDecompressor(NonSeekable(bytes(laz[off:])), vlr.record_data()), "par non seekable")
    src = io.BytesIO(bytes(laz))
    src.seek(off)
    d = fake_lazrs.LasZipDecompressor(src, vlr.record_data())
    buf = bytearray(34 * 3)
    d.decompress_many(buf)
    raises(d.read_chunk_table_only, "chunk table read in the middle of the points")
    raises(lambda: fake_lazrs.LasZipDecompressor(NonSeekable(bytes(laz[off:])), vlr.record_data()).seek(1), "seek non seekable")
    # variable-size chunks + decompress_points_with_chunk_table (COPC path)
    vv = fake_lazrs.LazVlr.new_for_compression(6, 2, True)
    isz = vv.item_size()
    parts = [bytes([i]) * (isz * k) for i, k in ((1, 3), (2, 1), (3, 9))]
    out = io.BytesIO()
    c = fake_lazrs.LasZipCompressor(out, vv)
    c.compress_chunks(parts)
    c.done()
    blob = out.getvalue()
    table = fake_lazrs.read_chunk_table(io.BytesIO(blob), vv)
    check([p for p, _ in table] == [3, 1, 9], f"variable chunk table {table}")
    res = np.zeros(isz * 10, dtype=np.uint8)
    start = 8 + table[0][1]
    fake_lazrs.decompress_points_with_chunk_table(blob[start:start + table[1][1] + table[2][1]], vv.record_data(), res,
                                                  table[1:], fake_lazrs.DecompressionSelection(fake_lazrs.SELECTIVE_DECOMPRESS_ALL))
    check(res.tobytes() == parts[1] + parts[2], "decompress_points_with_chunk_table")
    res = bytearray(isz * 13)
    fake_lazrs.decompress_points(blob, vv.record_data(), res)
    check(bytes(res) == b"".join(parts), "decompress_points")
    blob2 = fake_lazrs.compress_points(vlr, b"\7" * 34 * 11, parallel=True)
    res = bytearray(34 * 11)
    fake_lazrs.decompress_points(blob2, vlr.record_data(), res, parallel=True)
    check(bytes(res) == b"\7" * 34 * 11 and [p for p, _ in fake_lazrs.read_chunk_table(io.BytesIO(blob2), vlr)] == [5, 5, 1],
          "compress_points / decompress_points")
    print(f"fake_lazrs self-test: {CHECKS[0]} checks, {len(FAILS)} failures, stats={fake_lazrs.STATS}")
    return 1 if FAILS else 0


if __name__ == "__main__":
    sys.exit(main())
