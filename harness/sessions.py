"""Writer / appender / reader sessions on the implementation and their model commands (shared by C01, C03, C04, C06, C19)."""
import copy
import io

import numpy as np

from harness import common, lasio


class LogStream(io.BytesIO):
    """BytesIO that records every low-level write as (position, bytes)."""

    def __init__(self, initial=b""):
        super().__init__(initial)
        self.trace = []

    def write(self, b):
        self.trace.append((self.tell(), bytes(b)))
        return super().write(b)


def wrong_format_points(rng, header, n):
    """points whose format differs from header's: another id, or same id with other extra dimensions"""
    import laspy
    if rng.random() < 0.5:
        ids = [i for i in range(11) if i != header.point_format.id]
        pf = laspy.PointFormat(rng.choice(ids))
    else:
        pf = laspy.PointFormat(header.point_format.id)
        for d in header.point_format.extra_dimensions:
            pass
        kinds = ["u4", "f4", "2u2", "i4"]
        have = [d for d in header.point_format.extra_dimensions]
        if have and rng.random() < 0.6:
            # same total width, different element type / name
            first = have[0]
            alt = {4: ["f4", "2u2", "i4", "u4"], 2: ["i2", "2u1", "u2"], 1: ["i1", "u1"], 8: ["f8", "2f4", "i8", "u8"]}.get(first.num_bits // 8)
            if alt:
                t = rng.choice([a for a in alt])
                pf.add_extra_dimension(laspy.ExtraBytesParams(first.name + "x", t))
                for d in have[1:]:
                    pf.add_extra_dimension(laspy.ExtraBytesParams(d.name, d.dtype, scales=d.scales, offsets=d.offsets))
            else:
                pf.add_extra_dimension(laspy.ExtraBytesParams("zz", "u1"))
        else:
            pf.add_extra_dimension(laspy.ExtraBytesParams("zz", rng.choice(kinds)))
    rec = laspy.PackedPointRecord.zeros(n, pf)
    return rec


def gen_writer_session(rng, thorough=False, with_extra=True, version=None, fmt=None):
    """returns dict(header, ops=[('P', rec, same) | ('E', vlrlist) | ('C',)])"""
    import laspy
    h = lasio.rand_header(rng, version=version, fmt=fmt)
    if with_extra and rng.random() < 0.35:
        lasio.add_extra_dims(rng, h)
    ops = []
    nops = rng.randrange(1, 8 if not thorough else 13)
    finished = False   # after EVLRs were written or the writer closed only write_points / close are exercised:
    #                    a second write_evlrs is outside the property's histories (the API leaves it undefined)
    for _ in range(nops):
        r = rng.random()
        if finished and 0.76 <= r < 0.9:
            r = 0.5
        if r < 0.68:
            n = rng.choice([0, 0, 1, 2, 5, 17, 40])
            rec = lasio.rand_points(rng, h, n)
            if n and rng.random() < 0.18:
                # a scale-aware record whose scaling differs from the writer's: the writer re-expresses it on the fly
                import numpy as np
                small = lasio.rand_points(rng, h, n, pattern="small")
                for kx in "XYZ":
                    small.array[kx] = np.array([rng.randrange(-50000, 50000) for _ in range(n)], dtype=np.int32)
                rec = laspy.ScaleAwarePointRecord(small.array, small.point_format, np.array(h.scales) * rng.choice([1.0, 2.0, 0.5]),
                                                  np.array(h.offsets) + rng.choice([0.0, 1.0, -2.0]))
            elif n == 1 and rng.random() < 0.4:
                rec = rec[0]       # the 0-d one-point record that las.points[i] / iterating over a record yields
            ops.append(("P", rec, True))
        elif r < 0.76:
            ops.append(("P", wrong_format_points(rng, h, rng.choice([0, 1, 3])), False))
        elif r < 0.9:
            evl = laspy.vlrs.vlrlist.VLRList([lasio.rand_vlr(rng) for _ in range(rng.choice([0, 1, 2]))])
            ops.append(("E", evl))
            finished = finished or (len(evl) > 0 and h.version.minor >= 4)
        else:
            ops.append(("C",))
            finished = True
    ops.append(("C",))
    return {"header": h, "ops": ops}


def run_writer_session(sess, stream=None, via="class"):
    """executes on laspy; returns (outs, final bytes, per-op (bytes_before == bytes_after) flags, stream).
    via="open": the writer is obtained from laspy.open(mode="w") instead of the LasWriter constructor (round 5)"""
    import laspy
    bio = stream if stream is not None else io.BytesIO()
    h = sess["header"]
    try:
        w = laspy.open(bio, mode="w", header=h, closefd=False) if via == "open" else laspy.LasWriter(bio, h, closefd=False)
    except Exception as ex:
        return (["open-err:" + common.exc_kind(ex)], bio.getvalue(), [], bio)
    outs, unchanged = [], []
    for op in sess["ops"]:
        before = bio.getvalue()
        try:
            if op[0] == "P":
                w.write_points(op[1])
            elif op[0] == "E":
                w.write_evlrs(op[1])
            else:
                w.close()
            outs.append("ok")
        except Exception as ex:
            outs.append("err:" + common.exc_kind(ex))
        unchanged.append(before == bio.getvalue())
    return outs, bio.getvalue(), unchanged, bio


def has_rescaled_chunk(sess):
    import numpy as np
    h = sess["header"]
    for op in sess["ops"]:
        if op[0] == "P" and hasattr(op[1], "scales") and len(op[1]) and (np.any(op[1].scales != h.scales) or np.any(op[1].offsets != h.offsets)):
            return True
    return False


def writer_cmd(sess):
    h = sess["header"]
    d = lasio.header_assoc(h)
    toks = []
    for op in sess["ops"]:
        if op[0] == "P":
            same = lasio.format_key(op[1].point_format) == lasio.format_key(h.point_format)
            # a foreign chunk is fed to the model as zero-filled records of the writer's width: only its emptiness matters
            data = lasio.rec_bytes(op[1]) if same else bytes(len(op[1]) * h.point_format.size)
            toks.append("P" + ("T" if same else "F") + common.hexb(data))
        elif op[0] == "E":
            toks.append("E" + lasio.vlrs_tok(op[1]))
        else:
            toks.append("C")
    return f"wrun {lasio.assoc_tok(d)} {lasio.vlrs_tok(h.vlrs)} {h.point_format.id} {h.point_format.size} " + " ".join(toks)


def accepted_points(sess, outs):
    """bytes of the points accepted before the writer was finished, and the EVLR list that was written (if any)"""
    pts, evl = b"", None
    for op, o in zip(sess["ops"], outs):
        if op[0] == "P" and o == "ok" and op[2]:
            pts += lasio.rec_bytes(op[1])
        if op[0] == "E" and o == "ok" and len(op[1]) and evl is None:
            evl = op[1]
    return pts, evl


def one_shot(header, point_bytes, evl):
    """the file laspy writes for the whole sequence at once"""
    import laspy
    n = len(point_bytes) // header.point_format.size
    rec = laspy.PackedPointRecord.from_buffer(bytearray(point_bytes), header.point_format, count=n) if n else laspy.PackedPointRecord.zeros(0, header.point_format)
    return lasio.write_las(header, rec, evl)


def stats_oracle(raw):
    """exact recomputation of what the header must say, from the bytes of a LAS file (independent of laspy's header code
    except for parsing the fixed header fields through laspy.read)."""
    import laspy
    las = laspy.read(io.BytesIO(raw))
    h = las.header
    n = len(las.points)
    problems = []
    if h.point_count != n:
        problems.append(f"point_count {h.point_count} != stored records {n}")
    ps = h.point_format.size
    X = {k: las.points.array[k] for k in ("X", "Y", "Z")}
    for i, k in enumerate("XYZ"):
        if n:
            mx = float(X[k].max() * h.scales[i] + h.offsets[i])
            mn = float(X[k].min() * h.scales[i] + h.offsets[i])
        else:
            mx = mn = 0.0
        if lasio.f64bits(h.maxs[i]) != lasio.f64bits(mx) or lasio.f64bits(h.mins[i]) != lasio.f64bits(mn):
            problems.append(f"{k} extrema header=({float(h.mins[i])!r},{float(h.maxs[i])!r}) exact=({mn!r},{mx!r})")
    bins = 15 if h.version.minor >= 4 else 5
    mask = 0x0F if h.point_format.id >= 6 else 0x07
    rn = las.points.array["bit_fields"] & mask if n else np.zeros(0, dtype=np.uint8)
    hist = [int((rn == k).sum()) for k in range(1, bins + 1)]
    got = [int(v) for v in h.number_of_points_by_return[:bins]]
    if hist != got:
        problems.append(f"points by return header={got} exact={hist}")
    nev = h.number_of_evlrs if h.version.minor >= 4 else 0
    ev_bytes = 0
    if h.version.minor >= 4 and las.evlrs:
        ev_bytes = sum(60 + len(v.record_data_bytes()) for v in las.evlrs)
    if h.version.minor >= 4 and nev != (len(las.evlrs) if las.evlrs is not None else 0):
        problems.append(f"number_of_evlrs {nev} but {len(las.evlrs or [])} read")
    if len(raw) != h.offset_to_point_data + n * ps + ev_bytes:
        problems.append(f"file length {len(raw)} != offset {h.offset_to_point_data} + {n} x {ps} + EVLR bytes {ev_bytes}")
    if nev and h.start_of_first_evlr != h.offset_to_point_data + n * ps:
        problems.append(f"start_of_first_evlr {h.start_of_first_evlr} != {h.offset_to_point_data + n * ps}")
    # raw layout check of the offset: the first record must be at offset_to_point_data
    if n and raw[h.offset_to_point_data:h.offset_to_point_data + ps] != lasio.rec_bytes(las.points[0:1]):
        problems.append("first record is not at offset_to_point_data")
    return problems


def snapshot(las):
    """deep snapshot of everything a write must not modify"""
    return (lasio.rec_bytes(las.points), lasio.format_key(las.points.point_format),
            tuple(map(float, getattr(las.points, "scales", []))), tuple(map(float, getattr(las.points, "offsets", []))),
            repr(sorted(lasio.header_assoc(las.header).items(), key=lambda kv: kv[0])),
            [lasio.vlr_tuple(v) for v in las.vlrs], None if las.evlrs is None else [lasio.vlr_tuple(v) for v in las.evlrs])


# =====================================================================================================================
# round 4 (added; nothing above is changed): ALIASING between the caller's objects and the objects laspy derives from
# them, caller edits as session operations, with-blocks left by an exception, chunk formats by object identity
# =====================================================================================================================
import datetime as _dt
import enum as _enum
import types as _types
import uuid as _uuid


class KeepBytesIO(io.BytesIO):
    """BytesIO whose contents stay readable after close() (a writer opened with closefd=True closes its destination)"""

    def __init__(self, initial=b""):
        super().__init__(initial)
        self.kept = None

    def close(self):
        if not self.closed:
            self.kept = self.getvalue()
        super().close()

    def value(self):
        return self.kept if self.closed else self.getvalue()


_ATOMIC = (int, float, complex, str, bytes, bool, type(None), type, range, slice, np.generic, np.dtype, _enum.Enum, _uuid.UUID,
           _dt.date, _types.FunctionType, _types.BuiltinFunctionType, _types.MethodType, _types.ModuleType)


def _walk_children(o):
    if isinstance(o, np.ndarray):
        return
    if isinstance(o, dict):
        for k, v in o.items():
            yield f"[{k!r}]", v
    elif isinstance(o, (list, tuple, set, frozenset)):
        for i, v in enumerate(o):
            yield f"[{i}]", v
    d = getattr(o, "__dict__", None)
    if isinstance(d, dict):
        for k, v in d.items():
            yield "." + k, v
    for k in getattr(type(o), "__slots__", ()) or ():
        if isinstance(k, str) and hasattr(o, k):
            yield "." + k, getattr(o, k)


def walk_objects(root, limit=20000):
    """(path, object) for every object reachable from root through attributes, containers and tuples; numpy arrays are leaves;
    streams, loggers and immutable values are not entered"""
    seen, stack, n = set(), [("", root)], 0
    while stack and n < limit:
        path, o = stack.pop()
        if id(o) in seen or isinstance(o, _ATOMIC) or isinstance(o, io.IOBase):
            continue
        mod = (type(o).__module__ or "").split(".")[0]
        if mod not in ("laspy", "builtins", "numpy", "collections", "harness", "types", "ctypes", "_ctypes"):
            continue
        seen.add(id(o))
        n += 1
        yield path, o
        for name, c in _walk_children(o):
            stack.append((path + name, c))


def _is_mutable(o):
    if isinstance(o, np.ndarray):
        return bool(o.flags.writeable) and o.size > 0
    if isinstance(o, (list, dict, set, bytearray)):
        return True
    if isinstance(o, (tuple, frozenset)):
        return False
    return hasattr(o, "__dict__") or bool(getattr(type(o), "__slots__", None))


def shared_mutables(a, b):
    """STRUCTURAL SHARING PROBE: the mutable objects reachable both from `a` (the caller's side) and from `b` (the object laspy
    derived from it): same object, or numpy arrays over the same memory. Returns [(path in a, path in b, object)]."""
    A, arrays = {}, []
    for p, o in walk_objects(a):
        A[id(o)] = p
        if isinstance(o, np.ndarray):
            arrays.append((p, o))
    out = []
    for p, o in walk_objects(b):
        if not _is_mutable(o):
            continue
        if id(o) in A:
            out.append((A[id(o)], p, o))
        elif isinstance(o, np.ndarray):
            for pa, oa in arrays:
                if np.shares_memory(oa, o):
                    out.append((pa, p, oa))
                    break
    return out


def perturbation_for(rng, path, o):
    """an in-place modification of one shared object, chosen by its type; returns (label, thunk) or None"""
    import laspy
    if isinstance(o, np.ndarray):
        if o.dtype.names:                       # a structured record array: flip one byte of one record
            def f():
                v = o.view(np.uint8).reshape(-1) if o.flags.c_contiguous else None
                if v is not None and v.size:
                    v[rng.randrange(v.size)] ^= 0x5A
            return (f"<{path}> one byte of the shared record memory flipped", f)
        i = rng.randrange(o.size)
        if o.dtype.kind == "f":
            if "scale" in path:
                return (f"<{path}>[{i}] *= 2 (in place)", lambda: o.reshape(-1).__setitem__(i, o.reshape(-1)[i] * 2))
            return (f"<{path}>[{i}] += 1.5 (in place)", lambda: o.reshape(-1).__setitem__(i, o.reshape(-1)[i] + 1.5))
        if o.dtype.kind in "iu":
            return (f"<{path}>[{i}] += 1 (in place)", lambda: o.reshape(-1).__setitem__(i, o.reshape(-1)[i] + 1))
        return None
    if isinstance(o, laspy.PointFormat):
        nm = "pr" + str(rng.randrange(1000))
        t = rng.choice(["u2", "i4", "f8", "3u1"])
        return (f"<{path}>.add_extra_dimension(ExtraBytesParams({nm!r}, {t!r}))", lambda: o.add_extra_dimension(laspy.ExtraBytesParams(nm, t)))
    if type(o).__name__ == "GlobalEncoding":
        bit = rng.choice([1, 2, 4, 8, 16])
        return (f"<{path}>.value ^= {bit}", lambda: setattr(o, "value", o.value ^ bit))
    if isinstance(o, laspy.VLR) and isinstance(getattr(o, "record_data", None), (bytes, bytearray)) and len(o.record_data):
        new = bytes((x ^ 0xA5) for x in o.record_data)
        return (f"<{path}>.record_data = other bytes of the same length", lambda: setattr(o, "record_data", new))
    if isinstance(o, list) and type(o).__name__ == "VLRList":
        v = lasio.rand_vlr(rng, 40)
        return (f"<{path}>.append(VLR of {len(v.record_data)} payload bytes)", lambda: o.append(v))
    return None


def foreign_format(rng, pf):
    """a PointFormat whose VALUE differs from pf: another id, other extra dimensions, or - the near miss - the same names and
    byte widths with another element count / element type / description / scaling"""
    import copy as _copy
    import laspy
    have = list(pf.extra_dimensions)
    r = rng.random()
    if r < 0.3 or (not have and r < 0.6):
        return laspy.PointFormat(rng.choice([i for i in range(11) if i != pf.id])), "other id"
    out = laspy.PointFormat(pf.id)
    if not have:
        out.add_extra_dimension(laspy.ExtraBytesParams("zz", rng.choice(["u4", "f4", "2u2", "i4", "u1"])))
        return out, "extra dimension where the writer has none"
    k = rng.randrange(len(have))
    how = rng.choice(["name", "type-same-width", "elements-same-width", "description", "scaling", "dropped", "order"])
    if how == "order" and len(have) < 2:
        how = "name"
    new = []
    for j, d in enumerate(have):
        p = dict(name=d.name, type=d.dtype, description=d.description, scales=d.scales, offsets=d.offsets)
        if j == k:
            width = d.num_bits // 8
            if how == "name":
                p["name"] = (d.name + "x")[:32] if len(d.name) < 32 else "y" + d.name[1:]
            elif how == "type-same-width":
                base = d.dtype.base if d.dtype is not None else np.dtype("u1")
                alt = {"u": "i", "i": "u", "f": "u"}[base.kind] + str(base.itemsize)
                p["type"] = np.dtype((alt, d.num_elements)) if d.num_elements > 1 else np.dtype(alt)
                if base.kind == "f" and base.itemsize not in (1, 2, 4, 8):
                    how = "name"; p["type"] = d.dtype; p["name"] = "q" + d.name[1:] if d.name else "q"
            elif how == "elements-same-width":
                base = d.dtype.base
                if d.num_elements == 1 and base.itemsize in (2, 4, 8) and base.kind in "ui":
                    p["type"] = np.dtype((base.kind + str(base.itemsize // 2), 2))      # u4 -> 2u2: same name, same bytes
                    p["scales"] = p["offsets"] = None
                elif d.num_elements == 2 and base.itemsize in (1, 2, 4) and base.kind in "ui":
                    p["type"] = np.dtype(base.kind + str(base.itemsize * 2))            # 2u2 -> u4
                    p["scales"] = p["offsets"] = None
                else:
                    how = "name"; p["name"] = "w" + d.name[1:] if d.name else "w"
            elif how == "description":
                p["description"] = (d.description + "!")[:32] if len(d.description) < 32 else "!" + d.description[1:]
            elif how == "scaling":
                if d.scales is not None:
                    p["scales"] = np.array(d.scales) * 2
                elif d.dtype is not None and d.num_elements <= 3 and not (d.num_elements > 3):
                    p["scales"] = np.full(d.num_elements, 0.5); p["offsets"] = np.zeros(d.num_elements)
                else:
                    how = "name"; p["name"] = "s" + d.name[1:] if d.name else "s"
            elif how == "dropped":
                continue
        new.append(p)
    if how == "order":
        new[0], new[-1] = new[-1], new[0]
    try:
        for p in new:
            out.add_extra_dimension(laspy.ExtraBytesParams(p["name"], p["type"], description=p["description"], scales=p["scales"], offsets=p["offsets"]))
    except Exception:
        out = laspy.PointFormat(pf.id)
        out.add_extra_dimension(laspy.ExtraBytesParams("zz", "u1"))
        how = "other extra dimensions"
    if lasio.format_key(out) == lasio.format_key(pf) and [d.description for d in out.extra_dimensions] == [d.description for d in pf.extra_dimensions]:
        out.add_extra_dimension(laspy.ExtraBytesParams("zq", "u1"))
        how = "one more extra dimension"
    return out, how


def format_value(pf):
    """the VALUE of a point format as the model sees it: (id, record size, canonical bytes of the extra dimensions incl. descriptions)"""
    import hashlib
    canon = repr((lasio.format_key(pf)[1], tuple(d.description for d in pf.extra_dimensions)))
    return (int(pf.id), int(pf.size), hashlib.sha1(canon.encode()).digest())


def fmt_tok(v):
    return f"{v[0]}:{v[1]}:{common.hexb(v[2])}"


class _Shim:
    def __init__(self, pf):
        self.point_format = pf


def caller_world_state(world):
    """everything of the caller's side a writer operation must leave alone"""
    h = world["h"]
    return (repr(sorted(lasio.header_assoc(h).items())), [lasio.vlr_tuple(v) for v in h.vlrs],
            None if h.evlrs is None else [lasio.vlr_tuple(v) for v in h.evlrs],
            [format_value(f) for f in world["F"]], [i for i, f in enumerate(world["F"]) if f is h.point_format])


def header_edit(rng, world):
    """one IN-PLACE edit of the caller's own objects (its header h, the LasData owning h, the PointFormat objects it holds).
    Returns (label, thunk). Every mutable leaf has an entry; rebinding edits are there too (a writer that kept the caller's header
    itself, not a copy, would see those)."""
    import laspy
    h, F, owner = world["h"], world["F"], world.get("owner")
    ax = rng.choice("xyz")
    i = "xyz".index(ax)
    c = []
    sv = rng.choice([0.001, 0.01, 0.5, 2.0, 7.0, 1e-9, 1000.0])
    ov = rng.choice([0.0, 1.5, -2.0, 1e9, -1e9, 123456.789])
    c.append((f"h.{ax}_scale = {sv!r}", lambda: setattr(h, f"{ax}_scale", sv)))
    c.append((f"h.{ax}_offset = {ov!r}", lambda: setattr(h, f"{ax}_offset", ov)))
    c.append((f"h.scales[{i}] *= 2", lambda: h.scales.__setitem__(i, h.scales[i] * 2)))
    c.append((f"h.offsets[{i}] += 1.5", lambda: h.offsets.__setitem__(i, h.offsets[i] + 1.5)))
    c.append((f"h.scales[:] = {sv!r}", lambda: h.scales.__setitem__(slice(None), sv)))
    c.append((f"h.offsets[:] = {ov!r}", lambda: h.offsets.__setitem__(slice(None), ov)))
    c.append((f"h.scales = np.array([{sv!r}]*3)  (rebinding)", lambda: setattr(h, "scales", np.array([sv] * 3))))
    c.append((f"h.offsets = np.array([{ov!r}]*3)  (rebinding)", lambda: setattr(h, "offsets", np.array([ov] * 3))))
    nm = "al" + str(rng.randrange(10000))
    t = rng.choice(["u1", "u2", "i4", "f8", "2u2", "3f4", "5u1"])
    c.append((f"h.add_extra_dim(ExtraBytesParams({nm!r}, {t!r}))", lambda: h.add_extra_dim(laspy.ExtraBytesParams(nm, t))))
    c.append((f"h.point_format.add_extra_dimension(ExtraBytesParams({nm!r}, {t!r}))", lambda: h.point_format.add_extra_dimension(laspy.ExtraBytesParams(nm, t))))
    ex = [d.name for d in h.point_format.extra_dimensions]
    if ex:
        victim = rng.choice(ex)
        c.append((f"h.remove_extra_dim({victim!r})", lambda: h.remove_extra_dim(victim)))
    if owner is not None and owner.header is h:
        c.append((f"las.add_extra_dim(ExtraBytesParams({nm!r}, {t!r}))   # las = LasData(h)", lambda: owner.add_extra_dim(laspy.ExtraBytesParams(nm, t))))
        if ex:
            victim2 = rng.choice(ex)
            c.append((f"las.remove_extra_dim({victim2!r})", lambda: owner.remove_extra_dim(victim2)))
    # the format object F[2] the caller builds chunks on, extended / restored in place
    ex2 = [d.name for d in F[2].extra_dimensions]
    c.append((f"F2.add_extra_dimension(ExtraBytesParams({nm!r}, {t!r}))", lambda: F[2].add_extra_dimension(laspy.ExtraBytesParams(nm, t))))
    c.append((f"F2.add_extra_dimension(ExtraBytesParams({nm!r}, {t!r}))", lambda: F[2].add_extra_dimension(laspy.ExtraBytesParams(nm, t))))
    if ex2:
        c.append((f"F2.remove_extra_dimension({ex2[-1]!r})", lambda: F[2].remove_extra_dimension(ex2[-1])))
        c.append((f"F2.remove_extra_dimension({ex2[-1]!r})", lambda: F[2].remove_extra_dimension(ex2[-1])))
    v = lasio.rand_vlr(rng, 60)
    c.append((f"h.vlrs.append(VLR({v.user_id!r}, {v.record_id}, payload {len(v.record_data)} bytes))", lambda: h.vlrs.append(v)))
    if len(h.vlrs):
        k = rng.randrange(len(h.vlrs))
        c.append(("h.vlrs.pop()", lambda: h.vlrs.pop()))
        if isinstance(h.vlrs[k], laspy.VLR) and len(h.vlrs[k].record_data):
            nb = bytes((x ^ 0x3C) for x in h.vlrs[k].record_data)
            c.append((f"h.vlrs[{k}].record_data = other bytes of the same length", lambda: setattr(h.vlrs[k], "record_data", nb)))
        if isinstance(h.vlrs[k], laspy.VLR):
            c.append((f"h.vlrs[{k}]._description = 'edited'", lambda: setattr(h.vlrs[k], "_description", "edited")))
    ge = rng.choice([1, 2, 4, 8, 16, 0x8000])
    c.append((f"h.global_encoding.value ^= {ge}", lambda: setattr(h.global_encoding, "value", h.global_encoding.value ^ ge)))
    c.append(("h.global_encoding.wkt = not h.global_encoding.wkt", lambda: setattr(h.global_encoding, "wkt", not h.global_encoding.wkt)))
    c.append(("h.global_encoding.synthetic_return_numbers = True", lambda: setattr(h.global_encoding, "synthetic_return_numbers", True)))
    u = _uuid.UUID(bytes=bytes(rng.randrange(256) for _ in range(16)))
    c.append((f"h.uuid = UUID({str(u)!r})", lambda: setattr(h, "uuid", u)))
    si = lasio.rand_ascii(rng, rng.choice([0, 5, 32]))
    c.append((f"h.system_identifier = {si!r}", lambda: setattr(h, "system_identifier", si)))
    c.append((f"h.generating_software = {si!r}", lambda: setattr(h, "generating_software", si)))
    fs = rng.randrange(65536)
    c.append((f"h.file_source_id = {fs}", lambda: setattr(h, "file_source_id", fs)))
    c.append(("h.creation_date = date(2001, 2, 3)", lambda: setattr(h, "creation_date", _dt.date(2001, 2, 3))))
    eb = bytes(rng.randrange(256) for _ in range(rng.choice([0, 2, 11])))
    c.append((f"h.extra_header_bytes = {eb!r}", lambda: setattr(h, "extra_header_bytes", eb)))
    c.append((f"h.extra_vlr_bytes = {eb!r}", lambda: setattr(h, "extra_vlr_bytes", eb)))
    c.append(("h.point_count = 77", lambda: setattr(h, "point_count", 77)))
    c.append((f"h.maxs[{i}] = 1e9 ; h.mins[{i}] = -1e9", lambda: (h.maxs.__setitem__(i, 1e9), h.mins.__setitem__(i, -1e9))))
    c.append(("h.number_of_points_by_return[2] += 9", lambda: h.number_of_points_by_return.__setitem__(2, h.number_of_points_by_return[2] + 9)))
    c.append(("h.offset_to_point_data = 4321", lambda: setattr(h, "offset_to_point_data", 4321)))
    if h.version.minor >= 4:
        c.append(("h.start_of_first_evlr = 5 ; h.number_of_evlrs = 3", lambda: (setattr(h, "start_of_first_evlr", 5), setattr(h, "number_of_evlrs", 3))))
        ev = lasio.rand_vlr(rng, 30)
        c.append(("h.evlrs = VLRList([one record])", lambda: setattr(h, "evlrs", laspy.vlrs.vlrlist.VLRList([ev]))))
    if h.version.minor >= 3:
        c.append(("h.start_of_waveform_data_packet_record = 99", lambda: setattr(h, "start_of_waveform_data_packet_record", 99)))
    # rebinding the header's point format to another of the caller's format objects
    tgt = rng.choice([1, 2, 4])
    if tgt < len(F) and F[tgt] is not h.point_format and F[tgt].id in lasio.COMPAT[str(h.version)]:
        c.append((f"h.point_format = F{tgt}  (rebinding)", lambda: setattr(h, "point_format", F[tgt])))
    return rng.choice(c)


def alias_writer_session(rng, thorough=False, tmpdir=None, force_mode=None):
    """ONE writer session generated and executed step by step: the caller keeps using ITS objects (header h, the LasData owning
    h, the PointFormat objects F0..F4 its chunks are built on) while the writer is open. F0 = h.point_format, F1 = equal copy never
    touched, F2 = equal copy extended / restored in place, F3 = foreign from the start, F4 = equal copy h may be re-bound to.
    Entry points LasWriter(...) / laspy.open(mode='w') on BytesIO / file stream / path, plain or as a with-block that the first
    refused call (or the caller's own exception) may leave. Right after the open the structural sharing probe lists the mutable
    objects reachable from both sides; each is then perturbed through the caller (probe-directed edits) in addition to random
    catalogue edits. Returns a dict with the description, the outcomes, the file, the expectations of the property and the model
    command (lasmodel_c04 `sess`)."""
    import copy as _copy
    import os
    import laspy
    h = lasio.rand_header(rng)
    if rng.random() < 0.4:
        lasio.add_extra_dims(rng, h)
    owner = None
    if rng.random() < 0.3:
        h.point_count = rng.choice([0, 1, 3])
        owner = laspy.LasData(h)
    F3, how3 = foreign_format(rng, h.point_format)
    world = {"h": h, "owner": owner, "F": [h.point_format, _copy.deepcopy(h.point_format), _copy.deepcopy(h.point_format), F3, _copy.deepcopy(h.point_format)]}
    F = world["F"]
    mode = force_mode or rng.choice(["plain", "plain", "with", "with-propagate", "with-propagate"])
    entry = rng.choice(["LasWriter", "laspy.open", "laspy.open"])
    destk = rng.choice(["bytesio"] * 8 + ["file-stream", "path"]) if tmpdir else "bytesio"
    if destk == "path":
        entry = "laspy.open"
    closefd = True if destk == "path" else rng.choice([False, False, True])
    desc = {"version": str(h.version), "format": h.point_format.id, "extra_dims": [(d.name, str(d.dtype)) for d in h.point_format.extra_dimensions],
            "vlrs": len(h.vlrs), "las_owning_h": owner is not None, "F3": how3, "entry": entry, "dest": destk, "closefd": closefd, "mode": mode, "ops": []}
    log = desc["ops"]
    res = {"desc": desc, "outs": [], "unchanged": [], "expect": [], "kinds": [], "addrs": [], "problems": [], "probe": [], "mode": mode, "left": None}
    path = os.path.join(tmpdir, f"alias_{rng.randrange(10**9)}.las") if destk != "bytesio" else None
    fobj = None
    if destk == "bytesio":
        dest = KeepBytesIO()
    elif destk == "file-stream":
        dest = fobj = open(path, "wb+")
    else:
        dest = path
    open_header = _copy.deepcopy(h)
    open_val = format_value(h.point_format)
    res["open_header"], res["open_val"] = open_header, open_val
    toks = [{"plain": "plain", "with": "withc", "with-propagate": "with"}[mode],
            lasio.assoc_tok(lasio.header_assoc(h)), lasio.vlrs_tok(h.vlrs), str([i for i, f in enumerate(F) if f is h.point_format][0]),
            "|".join(fmt_tok(format_value(f)) for f in F)]
    before = caller_world_state(world)
    try:
        if entry == "LasWriter":
            w = laspy.LasWriter(dest, h, closefd=closefd)
            log.append(f"w = laspy.LasWriter(<{destk}>, h, closefd={closefd})")
        elif destk == "path":
            w = laspy.open(dest, mode="w", header=h)
            log.append("w = laspy.open(<path>, mode='w', header=h)")
        else:
            w = laspy.open(dest, mode="w", header=h, closefd=closefd)
            log.append(f"w = laspy.open(<{destk}>, mode='w', header=h, closefd={closefd})")
    except Exception as ex:
        res["outs"].append("open-err:" + common.exc_kind(ex))
        res["raw"] = None
        res["cmd"] = None
        if fobj is not None:
            fobj.close()
        return res
    if caller_world_state(world) != before:
        res["problems"].append(("writer operation modified the caller's objects", "opening the writer"))

    def cur_bytes():
        if destk == "bytesio":
            return dest.value()
        return None

    # ---- the sharing probe: mutable objects reachable from the caller's world AND from the writer
    forced = []
    for pa, pb, o in shared_mutables(world, w):
        res["probe"].append(f"caller{pa} is writer{pb} ({type(o).__name__})")
        p = perturbation_for(rng, pa, o)
        if p is not None:
            forced.append(p)
    rng.shuffle(forced)
    forced = forced[:4]
    state = {"finished": False, "accepted": b"", "evl": None, "nchunks": 0, "closed": False}
    pool = {}
    nops = rng.randrange(2, 8 if not thorough else 13)
    SA = laspy.ScaleAwarePointRecord

    def sync_tokens(prev):
        """tokens for what an edit changed in the caller's world"""
        a0 = dict(eval(prev[0]))
        a1 = lasio.header_assoc(h)
        out = []
        for k, v in a1.items():
            if k in ("point_format_id", "point_size"):
                continue
            if a0.get(k) != v:
                out.append("S" + k + "=" + (common.hexb(v) if isinstance(v, (bytes, bytearray)) else str(int(v))))
        vl = [lasio.vlr_tuple(v) for v in h.vlrs]
        if vl != prev[1]:
            out.append("V" + lasio.vlrs_tok(vl))
        now = [format_value(f) for f in F]
        for i, (x, y) in enumerate(zip(prev[3], now)):
            if x != y:
                out.append(f"F{i}:{fmt_tok(y)}")
        hf = [i for i, f in enumerate(F) if f is h.point_format]
        if hf != prev[4]:
            out.append(f"B{hf[0]}")
        return out

    def do_edit(label, thunk):
        prev = caller_world_state(world)
        try:
            thunk()
            log.append(label)
        except Exception as ex:
            log.append(label + f"   # raised {type(ex).__name__}")
        toks.extend(sync_tokens(prev))

    def writer_op(kind, label, fn, expect, payload=None, addr=None):
        """runs one writer operation; records outcome, whether the destination bytes changed, whether the caller's world changed"""
        res["addrs"].append(addr)
        b0 = cur_bytes()
        snap = caller_world_state(world)
        psnap = None
        if payload is not None:
            psnap = (lasio.rec_bytes(payload), format_value(payload.point_format), tuple(map(float, getattr(payload, "scales", []))), tuple(map(float, getattr(payload, "offsets", []))))
        err = None
        try:
            fn()
            o = "ok"
        except Exception as ex:
            o = "err:" + common.exc_kind(ex)
            err = ex
        log.append(label + ("" if o == "ok" else f"   # raised {type(err).__name__}: {str(err)[:60]}"))
        res["outs"].append(o)
        b1 = cur_bytes()
        res["unchanged"].append(None if b0 is None or b1 is None else b0 == b1)
        res["expect"].append(expect)
        res["kinds"].append(kind)
        if caller_world_state(world) != snap:
            res["problems"].append(("writer operation modified the caller's objects", label))
        if payload is not None and psnap != (lasio.rec_bytes(payload), format_value(payload.point_format), tuple(map(float, getattr(payload, "scales", []))), tuple(map(float, getattr(payload, "offsets", [])))):
            res["problems"].append(("write_points modified the chunk it was given", label))
        return o, err

    def body():
        for step in range(nops):
            r = rng.random()
            if forced and state["nchunks"] >= 1 and r < 0.7:
                lab, th = forced.pop()
                do_edit("PROBE-DIRECTED: " + lab, th)
                continue
            if r < 0.50 or (forced and state["nchunks"] == 0):
                a = rng.choice([1, 1, 1, 1, 1, 0, 0, 2, 2, 2, 3, 4])
                n = rng.choice([0, 1, 2, 5, 17, 40])
                val = format_value(F[a])
                rec, how = None, ""
                if a in pool and rng.random() < 0.15:
                    cand, cval = rng.choice(pool[a])
                    if cval == val or val != open_val:
                        rec, n = cand, len(cand)
                        how = " (a record kept from before)" if cval == val else " (a STALE record: its format object was changed in place since)"
                if rec is None:
                    rec = lasio.rand_points(rng, _Shim(F[a]), n)
                    pool.setdefault(a, []).append((rec, val))
                    if n and rng.random() < 0.2:
                        rec = SA(rec.array, F[a], np.array(open_header.scales), np.array(open_header.offsets))
                        how = " as ScaleAwarePointRecord in the scaling the header had at open"
                    elif n == 1 and rng.random() < 0.3:
                        rec = rec[0]
                        how = " as 0-d record"
                same = val == open_val
                n = len(rec)
                expect = "ok" if n == 0 else ("refused" if (state["finished"] or not same) else "accepted")
                data = lasio.rec_bytes(rec) if same else bytes(n * open_val[1])
                toks.append(f"P{a}:{common.hexb(data)}")
                lab = f"w.write_points(<{n} records built on F{a}{' (same object as h.point_format)' if F[a] is h.point_format else ''}, format {'equal to' if same else 'DIFFERENT from'} the header's at open>{how})"
                o, err = writer_op("P", lab, lambda: w.write_points(rec), expect, payload=rec if n else None, addr=a)
                if o == "ok" and n and same and not state["finished"]:
                    state["accepted"] += lasio.rec_bytes(rec)
                    state["nchunks"] += 1
                if err is not None and mode == "with-propagate":
                    raise err
            elif r < 0.80:
                do_edit(*header_edit(rng, world))
            elif r < 0.88 and not state["finished"]:
                evl = laspy.vlrs.vlrlist.VLRList([lasio.rand_vlr(rng) for _ in range(rng.choice([0, 1, 2]))])
                toks.append("E" + lasio.vlrs_tok(evl))
                o, err = writer_op("E", f"w.write_evlrs(<{len(evl)} records>)", lambda: w.write_evlrs(evl), "ok" if open_header.version.minor >= 4 else "refused")
                if o == "ok" and len(evl):
                    state["finished"] = True
                    state["evl"] = evl
                if err is not None and mode == "with-propagate":
                    raise err
            elif r < 0.93:
                toks.append("C")
                o, err = writer_op("C", "w.close()", lambda: w.close(), "ok")
                if o == "ok":
                    state["finished"] = True
                    state["closed"] = True
                if closefd:
                    return              # the destination is gone: nothing more can be exercised on it
            elif mode == "with-propagate":
                toks.append("R")
                log.append("raise KeyError('the caller's own code fails inside the with-block')")
                raise KeyError("caller")
            else:
                do_edit(*header_edit(rng, world))

    left = None
    if mode == "plain":
        body()
        if not (state["closed"] and closefd):
            toks.append("C")
            writer_op("C", "w.close()", lambda: w.close(), "ok")
    else:
        log.append("with w:")
        snap = caller_world_state(world)
        try:
            with w:
                body()
        except Exception as ex:
            left = f"{type(ex).__name__}: {str(ex)[:60]}"
        log.append("# the with-block was left " + ("normally" if left is None else f"by {left}"))
        if caller_world_state(world) != snap and False:
            pass
    res["left"] = left
    if destk == "bytesio":
        res["raw"] = dest.value()
        res["stream_closed"] = dest.closed
    else:
        try:
            if fobj is not None and not fobj.closed:
                fobj.flush()
            with open(path, "rb") as f:
                res["raw"] = f.read()
        except Exception as ex:
            res["raw"] = None
            res["problems"].append(("destination cannot be read after the session", repr(ex)))
        res["stream_closed"] = None if fobj is None else fobj.closed
        if fobj is not None and not fobj.closed:
            fobj.close()
        try:
            os.remove(path)
        except OSError:
            pass
    res["accepted"], res["evl"] = state["accepted"], state["evl"]
    res["final_world"] = caller_world_state(world)
    res["cmd"] = "sess " + " ".join(toks)
    return res


def leak_kind(r, i):
    """stable kind of 'a chunk of another point format was accepted' (one kind per way the format differs for the near misses)"""
    nm = r.get("near_miss")
    if nm:
        return f"foreign-format chunk not refused: same id and record size, other {nm.split(' (')[0]}"
    how = r["desc"].get("F3", "")
    if i < len(r.get("addrs", [])) and r["addrs"][i] == 3 and how in ("elements-same-width", "type-same-width", "description", "scaling", "name", "order"):
        return "foreign-format chunk not refused: same id and record size, other " + {"elements-same-width": "element count", "type-same-width": "element type",
                                                                                      "description": "description", "scaling": "scaling", "name": "name", "order": "order of the extra dimensions"}[how]
    return "chunk of another point format / after finish not refused (aliasing session)"


# =====================================================================================================================
# round 5 (added; nothing above is changed): SPECIAL VALUES of the header statistics (chunks lying exactly on the origin, on
# one axis, all-equal coordinates, extrema attained only in the first / a middle / the last chunk, boxes that do not contain the
# origin, chunks whose return numbers are all zero / all one value) and SIZE thresholds (one write_points call with more than
# 2^20 points, records whose length is an exact multiple of 65536, strided records of such lengths)
# =====================================================================================================================
AXIS_SCALINGS = [  # (scale, offset, the stored integer whose scaled coordinate is EXACTLY 0.0; None when there is none worth having)
    (0.01, 0.0, 0), (1.0, 0.0, 0), (0.001, 0.0, 0), (0.5, 10.0, -20), (0.25, -3.0, 12), (2.0, 1e9, -500000000), (1.0, -7.0, 7),
    (0.125, 1.0, -8), (0.01, 123456.789, None), (7.0, -1e9, None),
]

STAT_PLACEMENTS = ["origin", "axis0", "axis1", "axis2", "all-equal", "box+", "box-", "around", "extreme-hi", "extreme-lo", "empty"]

STAT_PLANS = [
    ("origin", "box+"), ("origin", "box-"), ("origin", "origin", "box+"), ("origin", "empty", "box-"), ("box+", "origin"),
    ("box+", "origin", "box-"), ("origin",), ("origin", "origin"), ("origin", "axis1"), ("axis0", "axis1", "axis2"), ("axis2", "box+"),
    ("origin", "axis0", "box-"), ("all-equal", "all-equal"), ("all-equal", "box+"), ("origin", "all-equal"),
    ("extreme-hi", "around", "around"), ("around", "extreme-hi", "around"), ("around", "around", "extreme-hi"),
    ("extreme-lo", "around", "around"), ("around", "extreme-lo", "around"), ("around", "around", "extreme-lo"),
    ("box+", "box+"), ("box-", "box+"), ("box+", "box-", "origin"), ("empty", "origin", "box+"), ("origin", "box+", "empty", "box-"),
]

_I32 = (-2 ** 31, 2 ** 31 - 1)


def place_coordinates(rng, kind, n, zero):
    """three columns of n stored integers for one chunk; zero[k] = the stored integer of axis k whose scaled value is exactly 0.0"""
    lo, hi = _I32

    def cl(v):
        return max(lo, min(hi, int(v)))
    if kind == "origin":
        return [[z] * n for z in zero]
    if kind.startswith("axis"):
        k = int(kind[4])
        cols = [[z] * n for z in zero]
        sgn = rng.choice([-1, 1])
        cols[k] = [cl(zero[k] + sgn * rng.randrange(1, 100000)) for _ in range(n)]
        return cols
    if kind == "all-equal":
        c = rng.choice([1, -1, 12345, -99999, hi, lo, 0])
        return [[c] * n for _ in range(3)]
    if kind == "box+":
        a = rng.choice([1, 2, 1000, 10 ** 6])
        return [[cl(z + a + rng.randrange(0, 500)) for _ in range(n)] for z in zero]
    if kind == "box-":
        a = rng.choice([1, 2, 1000, 10 ** 6])
        return [[cl(z - a - rng.randrange(0, 500)) for _ in range(n)] for z in zero]
    if kind in ("extreme-hi", "extreme-lo"):
        cols = [[cl(z + rng.randrange(-50, 51)) for _ in range(n)] for z in zero]
        for k in range(3):
            cols[k][rng.randrange(n)] = (hi if kind == "extreme-hi" else lo) if rng.random() < 0.5 else cl(zero[k] + (10 ** 8 if kind == "extreme-hi" else -10 ** 8))
        return cols
    return [[cl(z + rng.randrange(-50, 51)) for _ in range(n)] for z in zero]      # "around": a box that contains the origin


def gen_stat_session(rng, thorough=False, version=None, fmt=None):
    """a writer session (same shape as gen_writer_session) whose chunks are PLACED: see STAT_PLANS. The scaling of every axis is one
    for which some stored integer is mapped to exactly 0.0, so that 'the running box is all zeros although points were counted',
    'the box does not contain the origin', 'the extremum is only in the k-th chunk' are all hit on purpose."""
    import laspy
    h = lasio.rand_header(rng, version=version, fmt=fmt)
    if rng.random() < 0.15:
        lasio.add_extra_dims(rng, h)
    if rng.random() < 0.5:
        axes = [rng.choice(AXIS_SCALINGS[:3])] * 3
    else:
        axes = [rng.choice(AXIS_SCALINGS) for _ in range(3)]
    h.scales = np.array([a[0] for a in axes], dtype=np.float64)
    h.offsets = np.array([a[1] for a in axes], dtype=np.float64)
    zero = [0 if a[2] is None else a[2] for a in axes]
    if rng.random() < 0.75:
        plan = list(rng.choice(STAT_PLANS))
    else:
        plan = [rng.choice(STAT_PLACEMENTS) for _ in range(rng.randrange(2, 5 if not thorough else 8))]
    mask = 0x0F if h.point_format.id >= 6 else 0x07
    ops, note = [], []
    for kind in plan:
        if kind == "empty":
            ops.append(("P", lasio.rand_points(rng, h, 0), True))
            note.append({"placement": "empty"})
            continue
        n = rng.choice([1, 1, 2, 5, 17])
        rec = lasio.rand_points(rng, h, n)
        cols = place_coordinates(rng, kind, n, zero)
        for k, nm in enumerate("XYZ"):
            rec.array[nm] = np.array(cols[k], dtype=np.int32)
        rk = rng.choice(["as-is", "as-is", "all-zero", "all-one-value", "all-highest", "mixed"])
        bf = np.array(rec.array["bit_fields"], dtype=np.uint8)
        if rk == "all-zero":
            bf = bf & np.uint8(0xFF ^ mask)
        elif rk == "all-one-value":
            bf = (bf & np.uint8(0xFF ^ mask)) | np.uint8(rng.randrange(1, mask + 1))
        elif rk == "all-highest":
            bf = bf | np.uint8(mask)
        elif rk == "mixed":
            bf = (bf & np.uint8(0xFF ^ mask)) | np.array([rng.choice([0, 1, 2, 5, 6, mask]) & mask for _ in range(n)], dtype=np.uint8)
        rec.array["bit_fields"] = bf
        entry = {"placement": kind, "returns": rk, "X": [int(v) for v in cols[0]], "Y": [int(v) for v in cols[1]], "Z": [int(v) for v in cols[2]]}
        if n == 1 and rng.random() < 0.25:
            rec = rec[0]
            entry["as"] = "0-d record"
        ops.append(("P", rec, True))
        note.append(entry)
    if h.version.minor >= 4 and rng.random() < 0.25:
        ops.append(("E", laspy.vlrs.vlrlist.VLRList([lasio.rand_vlr(rng, 40)])))
    ops.append(("C",))
    return {"header": h, "ops": ops,
            "note": {"scales": [float(x) for x in h.scales], "offsets": [float(x) for x in h.offsets], "stored integer mapped to 0.0": zero, "chunks": note}}


def bulk_records(seed, n, pf, stride=1):
    """n records of point format pf with pseudo-random bytes (numpy generator: the volume is too large for the rng of the run);
    stride > 1: a NON-contiguous record of n points (every stride-th of a larger one)"""
    import laspy
    g = np.random.default_rng(seed)
    size = int(pf.size)
    total = n * abs(stride)
    raw = g.integers(0, 256, size=total * size, dtype=np.uint8)
    rec = laspy.PackedPointRecord(raw.view(pf.dtype()), pf)
    if stride != 1:
        rec = rec[::stride]
    return rec


def size_partitions(rng, n):
    """partitions of n points around the thresholds: blocks of 65536, 2^20, a call with more than 2^20 points"""
    B = 1 << 20
    out = [("chunks of 65536 (+ the remainder)", [65536] * (n // 65536) + ([n % 65536] if n % 65536 else []))]
    if n > B:
        out.append(("2^20 then the rest", [B, n - B]))
        out.append(("the rest then 2^20", [n - B, B]))
        if n - 1 > B:
            out.append(("all but one, then one", [n - 1, 1]))
    k = rng.randrange(1, n) if n > 1 else 1
    out.append(("two chunks at a random cut", [k, n - k] if n > 1 else [n]))
    if n > 65536:
        out.append(("65535, 65537, the rest", [65535, 65537, n - 131072] if n > 131072 else [65535, n - 65535]))
    return out


def size_session(rng, n, version, fmt, nparts=2, stride=1, tmpdir=None):
    """the SAME n points written (1) by one write_points call on a LasWriter, (2) by LasData.write, (3..) in the chunks of some
    partitions through laspy.open(mode='w'); stride != 1: the one-shot record is a strided (non-contiguous) selection, the chunks
    are contiguous copies. Returns the description and the files; the property: all the files are the same bytes."""
    import laspy
    h = lasio.rand_header(rng, version=version, fmt=fmt, nvlrs=rng.choice([0, 1]))
    seed = rng.randrange(2 ** 32)
    rec = bulk_records(seed, n, h.point_format, stride)
    flat = rec if stride == 1 else laspy.PackedPointRecord(np.ascontiguousarray(rec.array), h.point_format)
    desc = {"version": str(h.version), "format": h.point_format.id, "points": n, "record_size": int(h.point_format.size), "numpy_seed": seed,
            "stride_of_the_one_shot_record": stride,
            "reproduce": "g = numpy.random.default_rng(numpy_seed); raw = g.integers(0, 256, size=points*abs(stride)*record_size, dtype=uint8); "
                         "rec = PackedPointRecord(raw.view(fmt.dtype()), fmt)[::stride]; header: default LasHeader(version, format) is enough"}
    files = []          # per route: label, error, the first 400 bytes, the length, whether the bytes are those of the first route
    base = [None]

    def run(label, fn):
        dest = io.BytesIO()
        try:
            fn(dest)
        except Exception as ex:
            files.append({"label": label, "error": f"{type(ex).__name__}: {ex}"})
            return
        b = dest.getvalue()
        if base[0] is None:
            base[0] = (label, b)
        same = b == base[0][1]
        diff = None
        if not same:
            o = base[0][1]
            m = min(len(b), len(o))
            neq = np.nonzero(np.frombuffer(b, dtype=np.uint8, count=m) != np.frombuffer(o, dtype=np.uint8, count=m))[0]
            diff = int(neq[0]) if len(neq) else m
        files.append({"label": label, "error": None, "head": b[:400], "length": len(b), "same": same, "first_diff": diff, "base": base[0][0],
                      "base_head": base[0][1][:400], "base_length": len(base[0][1])})

    def one_call(dest):
        w = laspy.LasWriter(dest, h, closefd=False)
        w.write_points(rec)
        w.close()
    run(f"one write_points call of {n} points (LasWriter)", one_call)
    run(f"LasData(header, points).write of {n} points", lambda dest: laspy.LasData(copy.deepcopy(h), points=rec).write(dest))
    parts = size_partitions(rng, n)
    keep = [parts[0]] + rng.sample(parts[1:], min(len(parts) - 1, max(0, nparts - 1)))
    for label, sizes in keep:
        def chunked(dest, sizes=sizes):
            with laspy.open(dest, mode="w", header=h, closefd=False) as w:
                pos = 0
                for k in sizes:
                    w.write_points(flat[pos:pos + k])
                    pos += k
        run(f"laspy.open(mode='w'), {len(sizes)} write_points calls: {label} {sizes if len(sizes) <= 6 else str(sizes[:3])[:-1] + ', ...]'}", chunked)
    return {"desc": desc, "files": files, "count_field": (247, 8) if h.version.minor >= 4 else (107, 4), "n": n}


# =====================================================================================================================
# round 6 (added; nothing above is changed): the REPRESENTATION of a chunk (contiguous / strided views of every step and
# sign, after one another and of shrinking size / read-only memory / 0-d), scale-aware chunks whose scaling differs from the
# writer's by EVERY order of magnitude (one ulp, relative 1e-9 .. 1e-6, metres at UTM magnitudes, signed zeros, one axis,
# everything) and FAULTS in the middle of a writer operation (write_evlrs failing after k bytes of the EVLR section because the
# destination raises or an EVLR description cannot be encoded; write_points refused by the destination with nothing stored)
# followed by continued use of the writer. Model: Model/WriterFault.v (`fsess` of bin/lasmodel_c04).
# =====================================================================================================================
class FaultyDest(KeepBytesIO):
    """BytesIO destination that can be armed: a write that would go beyond the absolute position `limit` raises OSError and
    stores nothing of that write"""

    def __init__(self, initial=b""):
        super().__init__(initial)
        self.limit = None
        self.faults = 0

    def arm(self, limit):
        self.limit = limit

    def disarm(self):
        self.limit = None

    def write(self, b):
        if self.limit is not None and self.tell() + memoryview(b).nbytes > self.limit:
            self.faults += 1
            raise OSError("no space left on device (harness)")
        return super().write(b)


REPRS = ["plain", "plain", "strided 2", "strided 2", "strided 3", "strided -1", "strided -2", "strided a:b:k", "read-only", "copy by index list"]


def with_representation(rng, rec, how):
    """the SAME records (same class, same format object, same scaling) in another memory representation"""
    import laspy
    n = len(rec)
    arr = rec.array
    if arr.ndim == 0 or n == 0 or how == "plain":
        return rec, "plain"
    if how.startswith("strided"):
        spec = how.split(" ")[1]
        lead = 0
        if spec == "a:b:k":
            k, lead = rng.choice([2, 3, 5]), rng.choice([1, 2, 4])
        else:
            k = int(spec)
        total = lead + n * abs(k) + (rng.choice([0, 1]) if k > 0 else 0)
        junk = np.frombuffer(bytes(rng.getrandbits(8) for _ in range(total * arr.dtype.itemsize)), dtype=np.uint8).copy()
        big = junk.view(arr.dtype)
        view = big[lead:lead + n * abs(k):k] if k > 0 else big[lead:lead + n * abs(k)][::k]
        view = view[:n]
        view[...] = arr
        new = view
        label = f"records[{lead}:{lead + n * abs(k)}:{k}] of an array of {total} (a non-contiguous view)"
    elif how == "read-only":
        new = np.frombuffer(np.ascontiguousarray(arr).tobytes(), dtype=arr.dtype)
        label = "read-only memory (np.frombuffer of bytes)"
    else:
        big = np.concatenate([arr, arr])
        new = big[[i for i in range(n)]]
        label = "copy made by an index list"
    if hasattr(rec, "scales"):
        return laspy.ScaleAwarePointRecord(new, rec.point_format, rec.scales, rec.offsets), label
    return laspy.PackedPointRecord(new, rec.point_format), label


SCALING_DIFFS = ["equal copy", "one ulp", "signed zero", "relative 1e-9", "relative 1e-7", "relative 5e-6 on everything", "metres at UTM magnitude",
                 "one axis by 1.0", "offsets by -2.0, scales doubled", "scales halved", "one scale by relative 1e-6"]


def differing_scaling(rng, h, how):
    """(scales, offsets) for a ScaleAwarePointRecord that is to be written into a writer of header h: EQUAL, or different from
    the header's by the given order of magnitude"""
    s = np.array(h.scales, dtype=np.float64).copy()
    o = np.array(h.offsets, dtype=np.float64).copy()
    i = rng.randrange(3)
    if how == "one ulp":
        if rng.random() < 0.5:
            o[i] = np.nextafter(o[i], rng.choice([-np.inf, np.inf]))
        else:
            s[i] = np.nextafter(s[i], np.inf)
    elif how == "signed zero":
        for k in range(3):
            if o[k] == 0.0:
                o[k] = -0.0
    elif how.startswith("relative 1e-9") or how.startswith("relative 1e-7"):
        r = 1e-9 if "1e-9" in how else 1e-7
        for k in range(3):
            if rng.random() < 0.7 or k == i:
                o[k] = o[k] * (1.0 + r * rng.choice([-1, 1])) if o[k] != 0.0 else r * 0.05
    elif how == "relative 5e-6 on everything":
        for k in range(3):
            o[k] = o[k] * (1.0 + 5e-6 * rng.choice([-1, 1])) if o[k] != 0.0 else 5e-9 * rng.choice([-1, 1])
            s[k] = s[k] * (1.0 + 5e-6 * rng.choice([-1, 1]))
    elif how == "metres at UTM magnitude":
        for k in range(3):
            if abs(o[k]) >= 2e5:
                o[k] = o[k] + rng.choice([2.5, -3.0, 10.0, 1.0]) * (abs(o[k]) / 1e6 if abs(o[k]) > 1e6 else 1.0)
            elif k == i:
                o[k] = o[k] + 5e-9
    elif how == "one axis by 1.0":
        o[i] += 1.0
    elif how == "offsets by -2.0, scales doubled":
        o = o - 2.0
        s = s * 2.0
    elif how == "scales halved":
        s = s * 0.5
    elif how == "one scale by relative 1e-6":
        s[i] = s[i] * (1.0 + 1e-6)
    return s, o


def in_writers_system(rec, h):
    """the bytes of a scale-aware chunk once its points are expressed in the scaling of header h (laspy's own public
    ScaleAwarePointRecord.change_scaling, applied to a private copy); None when the coordinates do not fit"""
    import laspy
    if not (np.any(np.asarray(rec.scales) != np.asarray(h.scales)) or np.any(np.asarray(rec.offsets) != np.asarray(h.offsets))):
        return lasio.rec_bytes(rec)
    c = laspy.ScaleAwarePointRecord(np.atleast_1d(np.ascontiguousarray(rec.array)).copy(), rec.point_format, np.array(rec.scales), np.array(rec.offsets))
    try:
        c.change_scaling(scales=np.array(h.scales), offsets=np.array(h.offsets))
    except OverflowError:
        return None
    return lasio.rec_bytes(c)


def evlr_piece_sizes(evl):
    """sizes of the successive destination writes of VLRList.write_to(as_extended=True): the unit in which a failing
    destination tears the EVLR section"""
    out = []
    for v in evl:
        out += [2, 16, 2, 8, 32, len(v.record_data_bytes())]
    return out


def gen_r6_session(rng, thorough=False):
    """a writer session over the op kinds of gen_writer_session PLUS: chunks in every memory representation, scale-aware chunks
    whose scaling differs from the writer's by every order of magnitude, write_evlrs failing after k bytes (destination fault
    or an EVLR description the strict codec refuses), write_points refused by the destination with nothing stored.
    ops: ('P', rec, same, info) | ('PF', rec, True, info) | ('E', evl) | ('EF', evl, fault) | ('C',) | ('CF',)"""
    import laspy
    v = rng.choice(lasio.VERSIONS + ["1.4", "1.4"])
    h = lasio.rand_header(rng, version=v)
    if rng.random() < 0.25:
        lasio.add_extra_dims(rng, h)
    if rng.random() < 0.5:
        sc = rng.choice([0.001, 0.01])
        h.scales = np.array([sc, sc, rng.choice([sc, 0.001])])
        h.offsets = np.array([rng.choice([500000.0, 431000.0, 699999.5]), rng.choice([4000000.0, 5412345.0, 9300000.25]), rng.choice([0.0, 100.0, 1500.5])])
    ops = []
    nops = rng.randrange(2, 8 if not thorough else 13)
    finished = False
    strided_bias = rng.random() < 0.5          # sessions made mostly of strided chunks (of every size after one another)
    for _ in range(nops):
        r = rng.random()
        if finished and 0.70 <= r < 0.9:
            r = 0.3
        if r < 0.62:
            n = rng.choice([0, 1, 2, 3, 5, 9, 17, 40])
            rec = lasio.rand_points(rng, h, n)
            info = {"records": n}
            if n and rng.random() < 0.45:
                how = rng.choice(SCALING_DIFFS)
                small = lasio.rand_points(rng, h, n, pattern="small")
                for kx in "XYZ":
                    small.array[kx] = np.array([rng.randrange(-50000, 50000) for _ in range(n)], dtype=np.int32)
                s, o = differing_scaling(rng, h, how)
                rec = laspy.ScaleAwarePointRecord(small.array, small.point_format, s, o)
                info.update(kind="ScaleAwarePointRecord", scaling=how, scales=[float(x) for x in s], offsets=[float(x) for x in o])
                if n == 1 and rng.random() < 0.4:
                    rec = rec[0]        # one point of a scale-aware record (points[i]): a 0-d record that carries its scaling
                    info["as"] = "0-d record"
            elif n == 1 and rng.random() < 0.3:
                rec = rec[0]
                info["as"] = "0-d record"
            rep = rng.choice(REPRS[2:8]) if (strided_bias and rng.random() < 0.8) else rng.choice(REPRS)
            if rep == "read-only" and "scaling" in info:
                rep = "plain"        # re-expressing a chunk needs its memory to be writable (it is restored afterwards)
            rec, info["representation"] = with_representation(rng, rec, rep)
            if n and not finished and rng.random() < 0.08:
                ops.append(("PF", rec, True, info))
            else:
                ops.append(("P", rec, True, info))
        elif r < 0.70:
            n = rng.choice([0, 1, 3])
            ops.append(("P", wrong_format_points(rng, h, n), False, {"records": n, "foreign": True}))
        elif r < 0.9:
            evl = laspy.vlrs.vlrlist.VLRList([lasio.rand_vlr(rng, 80) for _ in range(rng.choice([0, 1, 2, 3]))])
            if len(evl) and h.version.minor >= 4 and rng.random() < 0.55:
                if rng.random() < 0.5:
                    j = rng.randrange(len(evl))
                    evl[j] = laspy.VLR(user_id=evl[j].user_id, record_id=evl[j].record_id, description=rng.choice(["café", "über", "m² – area"]),
                                       record_data=evl[j].record_data)
                    k = sum(60 + len(x.record_data_bytes()) for x in evl[:j]) + 28
                    fault = {"why": f"the description of EVLR {j} is not ASCII (strict codec)", "evlr": j, "stored": k}
                else:
                    pieces = evlr_piece_sizes(evl)
                    budget = rng.randrange(2, sum(pieces))
                    k = 0
                    for p in pieces:
                        if k + p > budget:
                            break
                        k += p
                    fault = {"why": f"the destination raises OSError once more than {budget} bytes of the EVLR section are written", "budget": budget, "stored": k}
                ops.append(("EF", evl, fault))
                finished = True
            else:
                ops.append(("E", evl))
                finished = finished or (len(evl) > 0 and h.version.minor >= 4)
        else:
            ops.append(("CF",) if rng.random() < 0.35 else ("C",))      # CF: the destination refuses the header rewrite of this close()
            finished = True
    ops.append(("C",))
    return {"header": h, "ops": ops, "entry": rng.choice(["class", "open"])}


def _rec_snap(rec):
    return (lasio.rec_bytes(rec), id(rec.array), rec.array.__array_interface__["data"][0], rec.array.strides, bool(rec.array.flags.writeable),
            id(rec.point_format), tuple(lasio.f64bits(x) for x in getattr(rec, "scales", [])), tuple(lasio.f64bits(x) for x in getattr(rec, "offsets", [])))


def run_r6_session(sess):
    """executes a gen_r6_session on laspy. Returns dict(outs, raw, unchanged, grown (bytes the destination grew by per op), problems)"""
    import laspy
    h = sess["header"]
    dest = FaultyDest()
    res = {"outs": [], "unchanged": [], "grown": [], "problems": [], "raw": None}
    try:
        w = laspy.open(dest, mode="w", header=h, closefd=False) if sess["entry"] == "open" else laspy.LasWriter(dest, h, closefd=False)
    except Exception as ex:
        res["outs"] = ["open-err:" + common.exc_kind(ex)]
        return res
    for op in sess["ops"]:
        before = dest.value()
        snap = _rec_snap(op[1]) if op[0] in ("P", "PF") and len(op[1]) else None
        try:
            if op[0] == "P":
                w.write_points(op[1])
            elif op[0] == "PF":
                dest.arm(len(before) + rng_free_cut(len(op[1]) * h.point_format.size, len(before)))
                try:
                    w.write_points(op[1])
                finally:
                    dest.disarm()
            elif op[0] == "E":
                w.write_evlrs(op[1])
            elif op[0] == "EF":
                if "budget" in op[2]:
                    dest.arm(dest.tell() + op[2]["budget"])
                try:
                    w.write_evlrs(op[1])
                finally:
                    dest.disarm()
            elif op[0] == "CF":
                dest.arm(0)
                try:
                    w.close()
                finally:
                    dest.disarm()
            else:
                w.close()
            res["outs"].append("ok")
        except Exception as ex:
            res["outs"].append("err:" + common.exc_kind(ex))
        after = dest.value()
        res["unchanged"].append(before == after)
        res["grown"].append(len(after) - len(before))
        if snap is not None and _rec_snap(op[1]) != snap:
            res["problems"].append(("write_points modified the chunk it was given", op))
    res["raw"] = dest.value()
    return res


def rng_free_cut(nbytes, pos):
    """where the destination starts refusing, inside the bytes of the chunk (deterministic in the sizes: no random stream used at run time)"""
    return (pos * 7 + nbytes // 2) % max(1, nbytes)


def r6_model_cmd(sess):
    """`fsess` command of bin/lasmodel_c04 for a gen_r6_session, or None when a scale-aware chunk does not fit the writer's scaling
    (an OverflowError refusal: C11's rule, oracle only)"""
    h = sess["header"]
    toks = []
    hs = [lasio.f64bits(x) for x in h.scales] + [lasio.f64bits(x) for x in h.offsets]
    for op in sess["ops"]:
        if op[0] in ("P", "PF"):
            rec = op[1]
            same = lasio.format_key(rec.point_format) == lasio.format_key(h.point_format)
            if not same:
                toks.append("PF" + common.hexb(bytes(len(rec) * h.point_format.size)))
            elif hasattr(rec, "scales") and len(rec):
                resc = in_writers_system(rec, h)
                if resc is None:
                    return None
                cs = [lasio.f64bits(x) for x in rec.scales] + [lasio.f64bits(x) for x in rec.offsets]
                # what the model is given for "re-expressed": laspy's change_scaling of a copy, forced (also when the scalings are equal)
                toks.append(("Q" if op[0] == "PF" else "S") + common.zl(cs) + ":" + common.hexb(lasio.rec_bytes(rec)) + ":" + common.hexb(resc))
            else:
                toks.append(("QT" if op[0] == "PF" else "PT") + common.hexb(lasio.rec_bytes(rec)))
        elif op[0] == "E":
            toks.append("E" + lasio.vlrs_tok(op[1]))
        elif op[0] == "EF":
            tl = []
            for j, v in enumerate(op[1]):
                if op[2].get("evlr") == j:
                    tl.append((lasio.sbytes(v.user_id), int(v.record_id), b"", bytes(v.record_data_bytes())))
                else:
                    tl.append(lasio.vlr_tuple(v))
            toks.append(f"X{op[2]['stored']}:" + lasio.vlrs_tok(tl))
        elif op[0] == "CF":
            toks.append("Z")
        else:
            toks.append("C")
    return f"fsess {lasio.assoc_tok(lasio.header_assoc(h))} {lasio.vlrs_tok(h.vlrs)} {h.point_format.id} {h.point_format.size} " + " ".join(toks)
