"""Writer / appender / reader sessions on the implementation and their model commands (shared by C01, C03, C04, C06, C19)."""
import copy
import io

import numpy as np

from harness import common, lasio


class LogStream(io.BytesIO):
    """BytesIO that records every low-level write as (position, bytes)."""

    def __init__(self, initial=b""):
        super().__init__(initial)
        self.trace = []

    def write(self, b):
        self.trace.append((self.tell(), bytes(b)))
        return super().write(b)


def wrong_format_points(rng, header, n):
    """points whose format differs from header's: another id, or same id with other extra dimensions"""
    import laspy
    if rng.random() < 0.5:
        ids = [i for i in range(11) if i != header.point_format.id]
        pf = laspy.PointFormat(rng.choice(ids))
    else:
        pf = laspy.PointFormat(header.point_format.id)
        for d in header.point_format.extra_dimensions:
            pass
        kinds = ["u4", "f4", "2u2", "i4"]
        have = [d for d in header.point_format.extra_dimensions]
        if have and rng.random() < 0.6:
            # same total width, different element type / name
            first = have[0]
            alt = {4: ["f4", "2u2", "i4", "u4"], 2: ["i2", "2u1", "u2"], 1: ["i1", "u1"], 8: ["f8", "2f4", "i8", "u8"]}.get(first.num_bits // 8)
            if alt:
                t = rng.choice([a for a in alt])
                pf.add_extra_dimension(laspy.ExtraBytesParams(first.name + "x", t))
                for d in have[1:]:
                    pf.add_extra_dimension(laspy.ExtraBytesParams(d.name, d.dtype, scales=d.scales, offsets=d.offsets))
            else:
                pf.add_extra_dimension(laspy.ExtraBytesParams("zz", "u1"))
        else:
            pf.add_extra_dimension(laspy.ExtraBytesParams("zz", rng.choice(kinds)))
    rec = laspy.PackedPointRecord.zeros(n, pf)
    return rec


def gen_writer_session(rng, thorough=False, with_extra=True, version=None, fmt=None):
    """returns dict(header, ops=[('P', rec, same) | ('E', vlrlist) | ('C',)])"""
    import laspy
    h = lasio.rand_header(rng, version=version, fmt=fmt)
    if with_extra and rng.random() < 0.35:
        lasio.add_extra_dims(rng, h)
    ops = []
    nops = rng.randrange(1, 8 if not thorough else 13)
    finished = False   # after EVLRs were written or the writer closed only write_points / close are exercised:
    #                    a second write_evlrs is outside the property's histories (the API leaves it undefined)
    for _ in range(nops):
        r = rng.random()
        if finished and 0.76 <= r < 0.9:
            r = 0.5
        if r < 0.68:
            n = rng.choice([0, 0, 1, 2, 5, 17, 40])
            rec = lasio.rand_points(rng, h, n)
            if n and rng.random() < 0.18:
                # a scale-aware record whose scaling differs from the writer's: the writer re-expresses it on the fly
                import numpy as np
                small = lasio.rand_points(rng, h, n, pattern="small")
                for kx in "XYZ":
                    small.array[kx] = np.array([rng.randrange(-50000, 50000) for _ in range(n)], dtype=np.int32)
                rec = laspy.ScaleAwarePointRecord(small.array, small.point_format, np.array(h.scales) * rng.choice([1.0, 2.0, 0.5]),
                                                  np.array(h.offsets) + rng.choice([0.0, 1.0, -2.0]))
            elif n == 1 and rng.random() < 0.4:
                rec = rec[0]       # the 0-d one-point record that las.points[i] / iterating over a record yields
            ops.append(("P", rec, True))
        elif r < 0.76:
            ops.append(("P", wrong_format_points(rng, h, rng.choice([0, 1, 3])), False))
        elif r < 0.9:
            evl = laspy.vlrs.vlrlist.VLRList([lasio.rand_vlr(rng) for _ in range(rng.choice([0, 1, 2]))])
            ops.append(("E", evl))
            finished = finished or (len(evl) > 0 and h.version.minor >= 4)
        else:
            ops.append(("C",))
            finished = True
    ops.append(("C",))
    return {"header": h, "ops": ops}


def run_writer_session(sess, stream=None):
    """executes on laspy; returns (outs, final bytes, per-op (bytes_before == bytes_after) flags, stream)"""
    import laspy
    bio = stream if stream is not None else io.BytesIO()
    h = sess["header"]
    try:
        w = laspy.LasWriter(bio, h, closefd=False)
    except Exception as ex:
        return (["open-err:" + common.exc_kind(ex)], bio.getvalue(), [], bio)
    outs, unchanged = [], []
    for op in sess["ops"]:
        before = bio.getvalue()
        try:
            if op[0] == "P":
                w.write_points(op[1])
            elif op[0] == "E":
                w.write_evlrs(op[1])
            else:
                w.close()
            outs.append("ok")
        except Exception as ex:
            outs.append("err:" + common.exc_kind(ex))
        unchanged.append(before == bio.getvalue())
    return outs, bio.getvalue(), unchanged, bio


def has_rescaled_chunk(sess):
    import numpy as np
    h = sess["header"]
    for op in sess["ops"]:
        if op[0] == "P" and hasattr(op[1], "scales") and len(op[1]) and (np.any(op[1].scales != h.scales) or np.any(op[1].offsets != h.offsets)):
            return True
    return False


def writer_cmd(sess):
    h = sess["header"]
    d = lasio.header_assoc(h)
    toks = []
    for op in sess["ops"]:
        if op[0] == "P":
            same = lasio.format_key(op[1].point_format) == lasio.format_key(h.point_format)
            # a foreign chunk is fed to the model as zero-filled records of the writer's width: only its emptiness matters
            data = lasio.rec_bytes(op[1]) if same else bytes(len(op[1]) * h.point_format.size)
            toks.append("P" + ("T" if same else "F") + common.hexb(data))
        elif op[0] == "E":
            toks.append("E" + lasio.vlrs_tok(op[1]))
        else:
            toks.append("C")
    return f"wrun {lasio.assoc_tok(d)} {lasio.vlrs_tok(h.vlrs)} {h.point_format.id} {h.point_format.size} " + " ".join(toks)


def accepted_points(sess, outs):
    """bytes of the points accepted before the writer was finished, and the EVLR list that was written (if any)"""
    pts, evl = b"", None
    for op, o in zip(sess["ops"], outs):
        if op[0] == "P" and o == "ok" and op[2]:
            pts += lasio.rec_bytes(op[1])
        if op[0] == "E" and o == "ok" and len(op[1]) and evl is None:
            evl = op[1]
    return pts, evl


def one_shot(header, point_bytes, evl):
    """the file laspy writes for the whole sequence at once"""
    import laspy
    n = len(point_bytes) // header.point_format.size
    rec = laspy.PackedPointRecord.from_buffer(bytearray(point_bytes), header.point_format, count=n) if n else laspy.PackedPointRecord.zeros(0, header.point_format)
    return lasio.write_las(header, rec, evl)


def stats_oracle(raw):
    """exact recomputation of what the header must say, from the bytes of a LAS file (independent of laspy's header code
    except for parsing the fixed header fields through laspy.read)."""
    import laspy
    las = laspy.read(io.BytesIO(raw))
    h = las.header
    n = len(las.points)
    problems = []
    if h.point_count != n:
        problems.append(f"point_count {h.point_count} != stored records {n}")
    ps = h.point_format.size
    X = {k: las.points.array[k] for k in ("X", "Y", "Z")}
    for i, k in enumerate("XYZ"):
        if n:
            mx = float(X[k].max() * h.scales[i] + h.offsets[i])
            mn = float(X[k].min() * h.scales[i] + h.offsets[i])
        else:
            mx = mn = 0.0
        if lasio.f64bits(h.maxs[i]) != lasio.f64bits(mx) or lasio.f64bits(h.mins[i]) != lasio.f64bits(mn):
            problems.append(f"{k} extrema header=({float(h.mins[i])!r},{float(h.maxs[i])!r}) exact=({mn!r},{mx!r})")
    bins = 15 if h.version.minor >= 4 else 5
    mask = 0x0F if h.point_format.id >= 6 else 0x07
    rn = las.points.array["bit_fields"] & mask if n else np.zeros(0, dtype=np.uint8)
    hist = [int((rn == k).sum()) for k in range(1, bins + 1)]
    got = [int(v) for v in h.number_of_points_by_return[:bins]]
    if hist != got:
        problems.append(f"points by return header={got} exact={hist}")
    nev = h.number_of_evlrs if h.version.minor >= 4 else 0
    ev_bytes = 0
    if h.version.minor >= 4 and las.evlrs:
        ev_bytes = sum(60 + len(v.record_data_bytes()) for v in las.evlrs)
    if h.version.minor >= 4 and nev != (len(las.evlrs) if las.evlrs is not None else 0):
        problems.append(f"number_of_evlrs {nev} but {len(las.evlrs or [])} read")
    if len(raw) != h.offset_to_point_data + n * ps + ev_bytes:
        problems.append(f"file length {len(raw)} != offset {h.offset_to_point_data} + {n} x {ps} + EVLR bytes {ev_bytes}")
    if nev and h.start_of_first_evlr != h.offset_to_point_data + n * ps:
        problems.append(f"start_of_first_evlr {h.start_of_first_evlr} != {h.offset_to_point_data + n * ps}")
    # raw layout check of the offset: the first record must be at offset_to_point_data
    if n and raw[h.offset_to_point_data:h.offset_to_point_data + ps] != lasio.rec_bytes(las.points[0:1]):
        problems.append("first record is not at offset_to_point_data")
    return problems


def snapshot(las):
    """deep snapshot of everything a write must not modify"""
    return (lasio.rec_bytes(las.points), lasio.format_key(las.points.point_format),
            tuple(map(float, getattr(las.points, "scales", []))), tuple(map(float, getattr(las.points, "offsets", []))),
            repr(sorted(lasio.header_assoc(las.header).items(), key=lambda kv: kv[0])),
            [lasio.vlr_tuple(v) for v in las.vlrs], None if las.evlrs is None else [lasio.vlr_tuple(v) for v in las.evlrs])
