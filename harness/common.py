"""Shared machinery of ./check: regenerate the generated part of the model from the source,
build the proof obligations, run model (extracted OCaml) and implementation side by side,
search for a concrete failing input when something broke, write evidence, decide the verdict.
"""
import fcntl
import hashlib
import json
import os
import random
import re
import shutil
import subprocess
import sys
import time

VERIF = os.path.dirname(os.path.dirname(os.path.abspath(__file__)))
REPO = os.environ.get("VERIF_REPO", "/repo")
PY = "/venv/bin/python"
# Builds against a tree other than /repo (seeded mutants in scratch worktrees) happen in a private copy of
# coq/, ocaml/ and bin/, so that the main build directory always reflects /repo.
if os.path.realpath(REPO) == "/repo":
    WORK = VERIF
else:
    WORK = "/var/tmp/verif_alt_" + hashlib.sha1(os.path.realpath(REPO).encode()).hexdigest()[:10]
COQ = os.path.join(WORK, "coq")
LOCK = os.path.join(WORK if WORK != VERIF else VERIF, ".build.lock")


def prepare_work():
    if WORK == VERIF:
        return
    os.makedirs(WORK, exist_ok=True)
    for d in ("coq", "ocaml", "bin"):
        os.makedirs(os.path.join(VERIF, d), exist_ok=True)
        subprocess.run(["rsync", "-a", "--delete", os.path.join(VERIF, d) + "/", os.path.join(WORK, d) + "/"], check=True)

ALLOWED_AXIOM_PREFIXES = (
    # kernel primitives that Print Assumptions lists for PrimFloat / Uint63 developments
    "PrimFloat.", "Uint63.", "PrimInt63.", "Coq.Floats.", "Coq.Numbers.Cyclic.Int63.",
)


def sh(cmd, timeout=900, cwd=None, env=None, input=None):
    p = subprocess.run(cmd, shell=isinstance(cmd, str), cwd=cwd, env=env, input=input,
                       stdout=subprocess.PIPE, stderr=subprocess.STDOUT, text=True, timeout=timeout)
    return p.returncode, p.stdout


class Lock:
    def __enter__(self):
        self.f = open(LOCK, "w")
        fcntl.flock(self.f, fcntl.LOCK_EX)
        return self

    def __exit__(self, *a):
        fcntl.flock(self.f, fcntl.LOCK_UN)
        self.f.close()


class Ctx:
    def __init__(self, pid, tier, seed):
        self.pid = pid
        self.tier = tier
        self.seed = seed
        self.rng = random.Random(seed)
        self.t0 = time.time()
        self.evaluations = 0
        self.nontrivial = set()      # hashes of distinct non-trivial cases
        self.samples = []
        self.hist = {}               # input distribution
        self.traces = 0              # model/impl comparisons made
        self.notes = []
        self.extra = {}

    def thorough(self):
        return self.tier == "thorough"

    def n(self, quick, thorough):
        return thorough if self.thorough() else quick

    def count(self, key, k=1):
        self.hist[key] = self.hist.get(key, 0) + k

    def case(self, canon, nontrivial=True, sample=None):
        """Register one evaluated case; canon = canonical form (hashable via repr)."""
        self.evaluations += 1
        if nontrivial:
            self.nontrivial.add(hashlib.sha1(repr(canon).encode()).hexdigest()[:16])
        if sample is not None and len(self.samples) < 6:
            self.samples.append(sample)


# ---------------------------------------------------------------------------------
# step 2: regenerate Gen/*.v
# ---------------------------------------------------------------------------------
def regenerate():
    rc, out = sh([PY, os.path.join(VERIF, "tools", "py2v.py"), REPO, os.path.join(COQ, "Gen")], timeout=120,
                 env=dict(os.environ, PYTHONPATH=REPO, PYTHONHASHSEED="0"))
    if rc != 0:
        return {"*": [["translator", out[-2000:]]]}
    try:
        return json.loads(out.strip().splitlines()[-1])
    except Exception:
        return {"*": [["translator-output", out[-2000:]]]}


def ensure_makefile():
    mk = os.path.join(COQ, "Makefile")
    cp = os.path.join(COQ, "_CoqProject")
    if not os.path.exists(mk) or os.path.getmtime(mk) < os.path.getmtime(cp):
        sh("coq_makefile -f _CoqProject -o Makefile", cwd=COQ)


def make(targets, timeout=1500):
    ensure_makefile()
    return sh(["make", "-j16"] + targets, cwd=COQ, timeout=timeout)


THEOREM_RE = re.compile(r"^(Theorem|Example)\s+(\w+)", re.M)


def build_obligations(pid):
    """Compile Props/<pid>.v (always recompiled so that Print Assumptions output is fresh).
    Returns dict(theorems, discharged, broken=[...], axioms={thm: [...]}, log)."""
    src = os.path.join(COQ, "Props", pid + ".v")
    with open(src) as f:
        text = f.read()
    theorems = [m.group(2) for m in THEOREM_RE.finditer(text) if m.group(1) == "Theorem"]
    examples = [m.group(2) for m in THEOREM_RE.finditer(text) if m.group(1) == "Example"]
    res = {"theorems": theorems, "examples": examples, "discharged": [], "broken": [], "axioms": {}, "log": ""}
    forbidden = re.findall(r"\b(Admitted|admit|Axiom|Parameter|Conjecture|Unset Guard|bypass_check|Admit Obligations)\b", text)
    vo = src + "o"
    for ext in ("o", "ok", "os"):
        try:
            os.remove(src + ext)
        except FileNotFoundError:
            pass
    rc, out = make([f"Props/{pid}.vo"])
    res["log"] = out[-6000:]
    if rc != 0 or not os.path.exists(vo):
        m = re.search(r'File "\./([^"]+)", line (\d+)', out)
        where = f"{m.group(1)}:{m.group(2)}" if m else "unknown"
        lemma = None
        if m:
            try:
                with open(os.path.join(COQ, m.group(1))) as f:
                    lines = f.read().splitlines()
                for ln in range(int(m.group(2)) - 1, -1, -1):
                    mm = re.match(r"\s*(Lemma|Theorem|Example|Definition|Corollary)\s+(\w+)", lines[ln])
                    if mm:
                        lemma = mm.group(2)
                        break
            except Exception:
                pass
        res["broken"].append({"where": where, "lemma": lemma, "error": out[-1500:]})
        return res
    # parse Print Assumptions output: blocks follow in file order
    blocks = re.split(r"(?m)^(?=Closed under the global context|Axioms:)", out)
    blocks = [b for b in blocks if b.startswith("Closed under") or b.startswith("Axioms:")]
    printed = re.findall(r"Print Assumptions (\w+)\.", text)
    for name, blk in zip(printed, blocks):
        if blk.startswith("Closed under"):
            res["axioms"][name] = []
        else:
            ax = re.findall(r"(?m)^([\w.']+)\s*:", blk)
            res["axioms"][name] = ax
    for t in theorems:
        ax = res["axioms"].get(t)
        if ax is None:
            res["broken"].append({"where": f"Props/{pid}.v", "lemma": t, "error": "no Print Assumptions output"})
        elif [a for a in ax if not a.startswith(ALLOWED_AXIOM_PREFIXES)]:
            res["broken"].append({"where": f"Props/{pid}.v", "lemma": t, "error": f"depends on axioms {ax}"})
        else:
            res["discharged"].append(t)
    if forbidden:
        res["broken"].append({"where": f"Props/{pid}.v", "lemma": None, "error": f"forbidden vernacular {forbidden}"})
    return res


def grep_forbidden():
    """No Admitted/admit/Axiom/... anywhere in the development (comments excluded crudely)."""
    bad = []
    for root, _, files in os.walk(COQ):
        for fn in files:
            if fn.endswith(".v"):
                with open(os.path.join(root, fn)) as f:
                    txt = re.sub(r"\(\*.*?\*\)", "", f.read(), flags=re.S)
                for m in re.finditer(r"\b(Admitted|admit|Axiom|Parameter|Conjecture|Unset Guard Checking|bypass_check|Admit Obligations|Unset Positivity|Unset Universe)\b", txt):
                    bad.append(f"{os.path.relpath(os.path.join(root, fn), COQ)}: {m.group(1)}")
    return bad


# ---------------------------------------------------------------------------------
# step 4: model driver
# ---------------------------------------------------------------------------------
def build_driver(name=None):
    """(Re)extract and compile a model driver when the model changed. name=None: the main driver
    (coq/Extract.v -> ocaml/model.ml + ocaml/driver.ml -> bin/lasmodel); name="c12": a property's own driver
    (coq/ExtractC12.v -> ocaml/c12/model.ml + ocaml/c12/driver.ml -> bin/lasmodel_c12). Returns (ok, log)."""
    if name is None:
        target, sub, exe_name = "Extract.vo", "", "lasmodel"
    else:
        target, sub, exe_name = f"Extract{name.upper()}.vo", name.lower(), f"lasmodel_{name.lower()}"
    odir = os.path.join(WORK, "ocaml", sub) if sub else os.path.join(WORK, "ocaml")
    os.makedirs(odir, exist_ok=True)
    rc, out = make([target])
    if rc != 0:
        return False, out[-3000:]
    ml = os.path.join(odir, "model.ml")
    exe = os.path.join(WORK, "bin", exe_name)
    drv = os.path.join(odir, "driver.ml")
    if (not os.path.exists(exe) or os.path.getmtime(exe) < os.path.getmtime(ml)
            or os.path.getmtime(exe) < os.path.getmtime(drv)):
        os.makedirs(os.path.join(WORK, "bin"), exist_ok=True)
        rc, out = sh(f"ocamlfind ocamlopt -O3 -w -a -o {exe} model.mli model.ml driver.ml 2>&1 || "
                     f"ocamlfind ocamlopt -w -a -o {exe} model.mli model.ml driver.ml",
                     cwd=odir, timeout=600)
        if rc != 0:
            return False, out[-3000:]
    return True, ""


def run_model(lines, timeout=1200, name=None):
    """Feed command lines to an extracted model driver; returns list of output lines."""
    exe = os.path.join(WORK, "bin", "lasmodel" if name is None else f"lasmodel_{name.lower()}")
    if not lines:
        return []
    p = subprocess.run([exe], input="\n".join(lines) + "\n", stdout=subprocess.PIPE, stderr=subprocess.PIPE,
                       text=True, timeout=timeout)
    out = p.stdout.split("\n")
    if out and out[-1] == "":
        out.pop()
    if len(out) != len(lines):
        raise RuntimeError(f"model driver returned {len(out)} lines for {len(lines)} commands: {p.stderr[-500:]}")
    return out


def hexb(b):
    return "x" + bytes(b).hex()


def unhex(tok):
    return bytes.fromhex(tok[1:])


def zl(l):
    l = list(l)
    return ",".join(str(int(v)) for v in l) if l else "-"


def exc_kind(ex):
    """Map a Python exception to the model's error enum (DESIGN §4.3)."""
    import laspy
    if isinstance(ex, OverflowError):
        return "EOverflow"
    if isinstance(ex, IndexError):
        return "EIndex"
    if isinstance(ex, StopIteration):
        return "EStop"
    if isinstance(ex, laspy.errors.LaspyException):
        return "ELaspy"
    if isinstance(ex, ValueError):
        return "EValue"
    return "EOther:" + type(ex).__name__


# ---------------------------------------------------------------------------------
# known findings, verdict, evidence
# ---------------------------------------------------------------------------------
def load_known(pid):
    p = os.path.join(VERIF, "known_findings.json")
    if not os.path.exists(p):
        return []
    with open(p) as f:
        data = json.load(f)
    return [e for e in data.get("findings", []) if e.get("property") == pid and e.get("status") == "open"]


def write_replay(pid, payload):
    d = os.path.join(VERIF, "evidence", "replays")
    os.makedirs(d, exist_ok=True)
    h = hashlib.sha1(json.dumps(payload, sort_keys=True, default=str).encode()).hexdigest()[:12]
    path = os.path.join(d, f"{pid}-{h}.json")
    with open(path, "w") as f:
        json.dump(payload, f, indent=1, default=str)
    return os.path.relpath(path, VERIF)


TRUSTED_BASE = [
    "Coq 8.16.1 kernel (coqc; vm_compute used for finite sweeps; native_compute not used)",
    "tools/py2v.py (Python ast -> Gallina translator, fail-closed) and Lib/Base.v reading of Python int/bytes operators",
    "extraction: ExtrOcamlBasic only (bool, option, unit, list, prod, sumbool, sumor; andb/orb inlined); Z/N/positive/nat extracted as inductives; OCaml 4.13.1; ocaml/driver.ml",
    "correspondence harness (generators, runners, canonicalisation) under harness/",
    "CPython/numpy semantics are modelled, not verified (int.to_bytes, struct, numpy structured dtypes, indexing)",
]


def finish(ctx, gen_report, ob, corr_ok, disagreements, failing, checker_cmd, assumptions=None,
           corr_name="model-vs-implementation correspondence"):
    """Decide the verdict, print VIOLATION / KNOWN-FINDING lines, write evidence, return exit code."""
    pid = ctx.pid
    known = load_known(pid)
    lines = []
    rc = 0
    gen_missing = [(f, m) for f, ms in gen_report.items() for m in ms]
    # fail-closed translation shows up as a Coq build failure of whatever depends on the missing definition; a missing
    # definition nothing of this property depends on (another property's generated file) is only recorded
    obligations_ok = not ob["broken"]
    new_fail, known_hit = [], {}
    for fi in failing:
        hit = None
        for k in known:
            if re.fullmatch(k["match"], fi.get("kind", "")):
                hit = k
                break
        if hit:
            known_hit.setdefault(hit["id"], (hit, fi))
        else:
            new_fail.append(fi)
    # disagreements attributable only to known findings do not count as broken correspondence
    unexplained = [d for d in disagreements
                   if not any(re.fullmatch(k["match"], d.get("kind", "")) for k in known)]
    violations = 0
    if new_fail:
        seen = set()
        for fi in new_fail:
            if fi.get("kind") in seen:
                continue
            seen.add(fi.get("kind"))
            path = write_replay(pid, {"property": pid, "kind": fi.get("kind"), "failing_input": fi,
                                      "broken_obligations": ob["broken"], "generated_missing": gen_missing,
                                      "disagreements": disagreements[:5]})
            lines.append(f"VIOLATION property={pid} replay={path}")
            violations += 1
            if len(seen) >= 5:
                break
        rc = 1
    elif not obligations_ok or unexplained or not corr_ok:
        what = []
        for b in ob["broken"]:
            what.append(f"proof obligation no longer checks: {b.get('lemma')} at {b.get('where')}")
        for f, m in gen_missing:
            what.append(f"translator could not regenerate {m[0]} in {f}: {m[1]}")
        if unexplained:
            what.append(f"{corr_name}: {len(unexplained)} disagreement(s), none of which violates the property oracle")
        if not corr_ok and not unexplained:
            what.append(f"{corr_name} could not be run")
        path = write_replay(pid, {"property": pid, "no_failing_input_found": True, "no_longer_checks": what,
                                  "broken_obligations": ob["broken"], "disagreements": unexplained[:10]})
        lines.append(f"VIOLATION property={pid} replay={path} no-failing-input-found")
        violations += 1
        rc = 1
    for kid, (k, fi) in known_hit.items():
        lines.append(f"KNOWN-FINDING: property={pid} {k['text']}")
    ev = {
        "property_id": pid, "tier": ctx.tier, "seed": ctx.seed, "level": "proof",
        "coverage": {
            "obligations": len(ob["theorems"]),
            "discharged": len(ob["discharged"]),
            "obligation_names": ob["theorems"],
            "nonvacuity_examples": ob["examples"],
            "axioms_reported": ob["axioms"],
            "checker_cmd": checker_cmd,
            "trusted_base": TRUSTED_BASE,
            "evaluations": ctx.evaluations,
            "distinct_nontrivial": len(ctx.nontrivial),
            "rule": ctx.extra.get("rule", ""),
            "samples": ctx.samples or [{"obligations": ob["theorems"]}],
            "traces_validated_against_impl": ctx.traces,
            "input_distribution": ctx.hist,
            "generated_from_source": sorted(gen_report.keys()),
            "generated_missing": gen_missing,
            "disagreements": len(disagreements),
            "known_findings_reproduced": sorted(known_hit.keys()),
            "notes": ctx.notes,
        },
        "assumptions": assumptions or [],
        "wall_s": round(time.time() - ctx.t0, 2),
        "violations": violations,
    }
    for k, v in ctx.extra.items():
        if k != "rule":
            ev["coverage"][k] = v
    os.makedirs(os.path.join(WORK, "evidence"), exist_ok=True)
    with open(os.path.join(WORK, "evidence", pid + ".json"), "w") as f:
        json.dump(ev, f, indent=1, default=str)
    for l in lines:
        print(l)
    print(f"[{pid}] tier={ctx.tier} obligations={len(ob['discharged'])}/{len(ob['theorems'])} "
          f"evaluations={ctx.evaluations} distinct_nontrivial={len(ctx.nontrivial)} "
          f"disagreements={len(disagreements)} failing={len(failing)} wall={ev['wall_s']}s exit={rc}")
    return rc
