"""Correspondence of the Gallina binary64 formula ap64 (Model/F64Bits.v: bits(X * scale + offset), the function the C03 extrema
theorems C03_extrema_binary64 / C03_grow_app_binary64 speak about) with (a) numpy's float64 arithmetic and (b) what laspy itself
puts into a header: LasHeader.grow / update on real point records.  Called by the C03 check (DRIVER "ap" = bin/lasmodel_ap,
extracted by coq/ExtractAP.v)."""
import math
import struct

import numpy as np

from . import common


def bits(f):
    return struct.unpack("<Q", struct.pack("<d", float(f)))[0]


SPECIAL_S = [0.01, 0.001, 1.0, 0.1, 1e-9, 1e3, 0.5, 0.25, 2.0, 2.0 ** -10, 2.0 ** -20, 2.0 ** 9, 1e-3, 1e-7, 0.0254, 1 / 3]
SPECIAL_O = [0.0, 1e9, -1e9, 0.5, -0.5, 123456.789, -4.2e6, 1.0, 1e-9]
SPECIAL_X = [-2 ** 31, 2 ** 31 - 1, 0, 1, -1, 2 ** 31 - 2, -2 ** 31 + 1, 2 ** 24, -2 ** 24, 2 ** 30, 100, -100]


def _scale(rng):
    r = rng.random()
    if r < 0.3:
        return rng.choice(SPECIAL_S)
    if r < 0.6:
        return 10 ** rng.uniform(-9, 3)
    if r < 0.8:
        return float(np.float64(rng.choice([1, 2, 5, 25, 254])) * 10.0 ** rng.randint(-9, 1))
    return 2.0 ** rng.randint(-30, 9)


def _offset(rng):
    r = rng.random()
    if r < 0.3:
        return rng.choice(SPECIAL_O)
    if r < 0.6:
        return rng.uniform(-1e9, 1e9)
    if r < 0.8:
        return float(rng.randint(-10 ** 9, 10 ** 9))
    return rng.choice([-1, 1]) * 10 ** rng.uniform(-6, 9)


def _x(rng):
    r = rng.random()
    if r < 0.25:
        return rng.choice(SPECIAL_X)
    if r < 0.5:
        return rng.randint(-2 ** 31, 2 ** 31 - 1)
    if r < 0.75:
        return rng.randint(-10 ** 6, 10 ** 6)
    return max(-2 ** 31, min(2 ** 31 - 1, rng.choice([-1, 1]) * (2 ** rng.randint(0, 30)) + rng.randint(-3, 3)))


def correspond(ctx):
    """returns disagreement dicts (kind 'ap64: ...')"""
    out = []
    ok, log = common.build_driver("ap")
    if not ok:
        return [{"kind": "ap64: driver could not be built", "input": None, "model": log[-400:], "impl": None}]
    rng = ctx.rng
    # (a) the formula, element by element, against numpy float64 arithmetic
    cases = [(s, o, x) for s in SPECIAL_S[:6] for o in SPECIAL_O[:4] for x in SPECIAL_X]
    for _ in range(ctx.n(1500, 20000)):
        cases.append((_scale(rng), _offset(rng), _x(rng)))
    lines = []
    for s, o, x in cases:
        lines.append(f"ap64 {bits(s)} {bits(o)} {x}")
        lines.append(f"good {bits(s)} {bits(o)}")
    res = common.run_model(lines, name="ap")
    for k, (s, o, x) in enumerate(cases):
        with np.errstate(all="ignore"):
            ref = np.int32(x) * np.float64(s) + np.float64(o)
        mb, good = int(res[2 * k]), res[2 * k + 1] == "T"
        ctx.case(("ap64", bits(s), bits(o), x), nontrivial=good, sample={"ap64": [s, o, x], "bits": mb} if k % 4000 == 7 else None)
        ctx.count("ap64 " + ("good scaling" if good else "outside the domain"))
        ctx.traces += 1
        if good and bits(ref) != mb:
            out.append({"kind": "ap64: X*scale+offset differs from numpy", "input": {"scale": s, "offset": o, "X": x},
                        "model": mb, "impl": bits(ref)})
        if not good and math.isfinite(float(ref)) and s > 0 and abs(o) <= 1e9 and 1e-9 <= s <= 1e3:
            out.append({"kind": "ap64: a scaling of the stated range is outside good_scaling", "input": {"scale": s, "offset": o},
                        "model": "good = F", "impl": "finite"})
    # (b) what laspy writes: header mins/maxs after grow()/update() of random records = ap64 of the integer extrema
    import laspy
    lines, refs = [], []
    for _ in range(ctx.n(60, 600)):
        n = rng.choice([1, 1, 2, 3, 17, 200])
        hdr = laspy.LasHeader(point_format=rng.choice([0, 3, 6]), version="1.4")
        hdr.scales = np.array([_scale(rng) for _ in range(3)])
        hdr.offsets = np.array([_offset(rng) for _ in range(3)])
        rec = laspy.ScaleAwarePointRecord.zeros(n, header=hdr)
        ints = [[_x(rng) for _ in range(n)] for _ in range(3)]
        rec.X, rec.Y, rec.Z = ints
        via = rng.choice(["grow", "update"])
        try:
            with np.errstate(all="ignore"):
                if via == "grow":
                    hdr.partial_reset()
                    cut = rng.randint(0, n)
                    for part in (rec[:cut], rec[cut:]):
                        if len(part):
                            hdr.grow(part)
                else:
                    hdr.update(rec)
        except Exception as ex:   # the implementation refused: nothing to compare
            ctx.count("ap64 header: " + type(ex).__name__)
            continue
        for i in range(3):
            s, o = float(hdr.scales[i]), float(hdr.offsets[i])
            lines += [f"ap64 {bits(s)} {bits(o)} {max(ints[i])}", f"ap64 {bits(s)} {bits(o)} {min(ints[i])}", f"good {bits(s)} {bits(o)}"]
            refs.append((via, s, o, max(ints[i]), min(ints[i]), bits(hdr.maxs[i]), bits(hdr.mins[i])))
    res = common.run_model(lines, name="ap")
    for k, (via, s, o, hi, lo, bmax, bmin) in enumerate(refs):
        mmax, mmin, good = int(res[3 * k]), int(res[3 * k + 1]), res[3 * k + 2] == "T"
        ctx.case(("ap64-header", via, bits(s), bits(o), hi, lo), nontrivial=good and hi != lo)
        ctx.count(f"ap64 header via {via}")
        ctx.traces += 1
        if good and (mmax, mmin) != (bmax, bmin):
            out.append({"kind": f"ap64: header extrema after {via} differ from ap64 of the integer extrema",
                        "input": {"scale": s, "offset": o, "Xmax": hi, "Xmin": lo}, "model": [mmax, mmin], "impl": [bmax, bmin]})
    return out
